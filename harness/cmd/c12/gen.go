package main

import (
	"math/rand"

	corev1 "k8s.io/api/core/v1"
	"k8s.io/apimachinery/pkg/api/resource"
	metav1 "k8s.io/apimachinery/pkg/apis/meta/v1"

	commonv1beta1 "github.com/kubeflow/katib/pkg/apis/controller/common/v1beta1"
	suggestionsv1beta1 "github.com/kubeflow/katib/pkg/apis/controller/suggestions/v1beta1"
	trialsv1beta1 "github.com/kubeflow/katib/pkg/apis/controller/trials/v1beta1"
	"github.com/kubeflow/katib/pkg/controller.v1beta1/consts"
	mccommon "github.com/kubeflow/katib/pkg/metricscollector/v1beta1/common"

	"verifharness/internal/kit"
)

const (
	trialAPI = "kubeflow.org/v1beta1"
)

func chance(r *rand.Rand, pct int) bool { return r.Intn(100) < pct }

func genCommand(r *rand.Rand) ([]string, []string) {
	var cmd, args []string
	switch r.Intn(14) {
	case 0, 1, 2:
		cmd = []string{"python", "train.py", "--lr=0.1"}
	case 3:
		cmd = []string{"python3", "-u", "/opt/mnist.py"}
	case 4, 5:
		cmd = []string{"sh", "-c", "python train.py --lr 0.1"}
	case 6:
		cmd = []string{"bash", "-c", "cd /w && ./run \"a b\" 'c'"}
	case 7:
		cmd = []string{kit.Pick(r, []string{"sh", "bash"})} // F5b domain when no args follow
	case 8:
		cmd = []string{kit.Pick(r, []string{"sh", "bash"}), "-c"}
	case 9:
		cmd = []string{"sh", "run.sh"}
	case 10:
		cmd = []string{"/bin/sh", "-c", "echo hi"}
	case 11:
		cmd = []string{"bash", "-x", "-c", "true"}
	case 12:
		cmd = nil // no explicit command: the webhook asks the registry
	case 13:
		cmd = []string{"train"}
	}
	switch r.Intn(6) {
	case 0:
		args = []string{"--epochs", "3"}
	case 1:
		args = []string{"--name=a b", ""}
	case 2:
		args = []string{"-c", "echo x"}
	}
	return cmd, args
}

func genContainer(r *rand.Rand, name string) corev1.Container {
	c := corev1.Container{Name: name, Image: kit.Pick(r, []string{"docker.io/kubeflowkatib/mxnet-mnist", "img:1", "registry.local:5000/a/b@sha256:abc"})}
	c.Command, c.Args = genCommand(r)
	if chance(r, 35) {
		c.Env = append(c.Env, corev1.EnvVar{Name: "A", Value: "1"})
	}
	if chance(r, 15) {
		c.Env = append(c.Env, corev1.EnvVar{Name: "TOKEN", ValueFrom: &corev1.EnvVarSource{SecretKeyRef: &corev1.SecretKeySelector{LocalObjectReference: corev1.LocalObjectReference{Name: "s"}, Key: "k"}}})
	}
	if chance(r, 6) {
		c.Env = append(c.Env, corev1.EnvVar{Name: consts.EnvTrialName, Value: "preset"})
	}
	if chance(r, 30) {
		c.VolumeMounts = append(c.VolumeMounts, corev1.VolumeMount{Name: "data", MountPath: "/data", ReadOnly: chance(r, 50)})
	}
	if chance(r, 8) {
		c.VolumeMounts = append(c.VolumeMounts, corev1.VolumeMount{Name: "logs", MountPath: "/var/log/katib"})
	}
	if chance(r, 25) {
		c.Resources = corev1.ResourceRequirements{Limits: corev1.ResourceList{corev1.ResourceCPU: resource.MustParse("1")}}
	}
	if chance(r, 25) {
		u := int64(1000 + r.Intn(3))
		c.SecurityContext = &corev1.SecurityContext{RunAsUser: &u}
	}
	if chance(r, 20) {
		c.ImagePullPolicy = corev1.PullAlways
	}
	if chance(r, 20) {
		c.WorkingDir = "/w"
	}
	if chance(r, 10) {
		c.Ports = []corev1.ContainerPort{{ContainerPort: 8080}}
	}
	return c
}

const cfgHead = "apiVersion: config.kubeflow.org/v1beta1\nkind: KatibConfig\nruntime:\n  metricsCollectors:\n"

func genConfig(r *rand.Rand, in *c12Input) {
	entry := func(kind, image string, extra string) string {
		return "  - kind: " + kind + "\n    image: " + image + "\n" + extra
	}
	extra := func() string {
		s := ""
		if chance(r, 30) {
			s += "    waitAllProcesses: " + kit.Pick(r, []string{"true", "false"}) + "\n"
		}
		if chance(r, 20) {
			s += "    imagePullPolicy: " + kit.Pick(r, []string{"Always", "Never", "Sometimes"}) + "\n"
		}
		if chance(r, 20) {
			s += "    resources:\n      limits:\n        cpu: \"1\"\n        memory: 200Mi\n"
		}
		return s
	}
	text := cfgHead
	kinds := []string{"StdOut", "File", "TensorFlowEvent", "PrometheusMetric"}
	drop := -1
	if chance(r, 6) {
		drop = r.Intn(len(kinds))
	}
	for i, k := range kinds {
		if i == drop {
			continue
		}
		img := "docker.io/kubeflowkatib/" + map[string]string{"StdOut": "file-metrics-collector", "File": "file-metrics-collector", "TensorFlowEvent": "tfevent-metrics-collector", "PrometheusMetric": "prom-collector"}[k]
		if chance(r, 5) {
			img = "\"  \""
		}
		text += entry(k, img, extra())
		if chance(r, 8) {
			text += entry(k, "second/"+k, extra()) // the last entry of a kind wins
		}
	}
	if chance(r, 10) {
		text += entry("Custom", "unused/custom", "")
	}
	in.ConfigMap = map[string]string{consts.LabelKatibConfigTag: text}
	switch r.Intn(40) {
	case 0:
		in.NoConfigMap, in.ConfigMap = true, nil
	case 1:
		in.ConfigMap = map[string]string{"other.yaml": text}
	case 2:
		in.ConfigMap = map[string]string{consts.LabelKatibConfigTag: "runtime: [unclosed"}
	case 3:
		in.ConfigMap = map[string]string{consts.LabelKatibConfigTag: "apiVersion: v1\nkind: ConfigMap\n"}
	}
}

func genTrial(r *rand.Rand, name, ns, exp string, malformed bool) trialsv1beta1.Trial {
	t := trialsv1beta1.Trial{ObjectMeta: metav1.ObjectMeta{Name: name, Namespace: ns, Labels: map[string]string{}}}
	if !chance(r, 5) {
		t.Labels[consts.LabelExperimentName] = exp
	}
	if chance(r, 40) {
		t.Labels["team"] = kit.Pick(r, []string{"a", "b"})
	}
	if chance(r, 10) {
		t.Labels["role"] = "from-trial" // overrides a pod label
	}
	if chance(r, 70) {
		t.OwnerReferences = []metav1.OwnerReference{{APIVersion: trialAPI, Kind: "Experiment", Name: exp}}
	}
	t.Spec.PrimaryContainerName = kit.Pick(r, []string{"main", "main", "main", "training-container"})
	switch r.Intn(10) {
	case 0, 1, 2, 3:
	case 4, 5, 6, 7:
		t.Spec.PrimaryPodLabels = map[string]string{"role": "master"}
	case 8:
		t.Spec.PrimaryPodLabels = map[string]string{"role": "master", "replica-index": "0"}
	case 9:
		t.Spec.PrimaryPodLabels = map[string]string{consts.LabelTrialName: name} // only the mutated pod carries it
	}
	t.Spec.Objective = &commonv1beta1.ObjectiveSpec{
		Type:                kit.Pick(r, []commonv1beta1.ObjectiveType{commonv1beta1.ObjectiveTypeMaximize, commonv1beta1.ObjectiveTypeMinimize}),
		ObjectiveMetricName: kit.Pick(r, []string{"accuracy", "Validation-accuracy", "loss"}),
	}
	for k := r.Intn(3); k > 0; k-- {
		t.Spec.Objective.AdditionalMetricNames = append(t.Spec.Objective.AdditionalMetricNames, kit.Pick(r, []string{"Train-accuracy", "f1", "loss 2"}))
	}
	if chance(r, 40) {
		for k := 1 + r.Intn(2); k > 0; k-- {
			t.Spec.EarlyStoppingRules = append(t.Spec.EarlyStoppingRules, commonv1beta1.EarlyStoppingRule{
				Name: t.Spec.Objective.ObjectiveMetricName, Value: kit.Pick(r, []string{"0.8", "1e-3"}),
				Comparison: kit.Pick(r, []commonv1beta1.ComparisonType{commonv1beta1.ComparisonTypeLess, commonv1beta1.ComparisonTypeGreater, commonv1beta1.ComparisonTypeEqual}),
				StartStep:  r.Intn(6)})
		}
	}
	filter := func() *commonv1beta1.FilterSpec {
		switch r.Intn(4) {
		case 0:
			return &commonv1beta1.FilterSpec{MetricsFormat: []string{"([\\w|-]+)\\s*=\\s*([+-]?\\d+)"}}
		case 1:
			return &commonv1beta1.FilterSpec{MetricsFormat: []string{"{metricName: ([\\w|-]+), metricValue: (\\d+)}", "(\\w+)=(\\d+)"}}
		case 2:
			return &commonv1beta1.FilterSpec{}
		}
		return nil
	}
	filePaths := []string{"/var/log/katib/metrics.log", "/tmp/out/m.json", "/a/b/../c/f.log", "metrics.log", "/katib//x/", "/f"}
	dirPaths := []string{"/var/log/katib/tfevent/", "/logs", "/a/./b", "rel/dir"}
	mc := &t.Spec.MetricsCollector
	switch r.Intn(20) {
	case 0, 1, 2, 3, 4, 5:
		mc.Collector = &commonv1beta1.CollectorSpec{Kind: commonv1beta1.StdOutCollector}
		if chance(r, 50) {
			mc.Source = &commonv1beta1.SourceSpec{Filter: filter()}
		}
	case 6, 7, 8, 9:
		mc.Collector = &commonv1beta1.CollectorSpec{Kind: commonv1beta1.FileCollector}
		mc.Source = &commonv1beta1.SourceSpec{Filter: filter(), FileSystemPath: &commonv1beta1.FileSystemPath{
			Path: kit.Pick(r, filePaths), Kind: commonv1beta1.FileKind, Format: kit.Pick(r, []commonv1beta1.FileFormat{commonv1beta1.TextFormat, commonv1beta1.JsonFormat})}}
		if malformed && chance(r, 30) {
			if chance(r, 50) {
				mc.Source = nil
			} else {
				mc.Source.FileSystemPath = nil
			}
		}
	case 10, 11, 12:
		mc.Collector = &commonv1beta1.CollectorSpec{Kind: commonv1beta1.TfEventCollector}
		mc.Source = &commonv1beta1.SourceSpec{FileSystemPath: &commonv1beta1.FileSystemPath{Path: kit.Pick(r, dirPaths), Kind: commonv1beta1.DirectoryKind}}
		if malformed && chance(r, 30) {
			mc.Source = nil
		}
	case 13, 14:
		mc.Collector = &commonv1beta1.CollectorSpec{Kind: commonv1beta1.PrometheusMetricCollector}
		if chance(r, 50) {
			mc.Source = &commonv1beta1.SourceSpec{HttpGet: &corev1.HTTPGetAction{Path: "/metrics"}, Filter: filter()}
		}
	case 15, 16:
		cc := genContainer(r, kit.Pick(r, []string{"custom-collector", "custom-collector", mccommon.MetricCollectorContainerName, "main"}))
		mc.Collector = &commonv1beta1.CollectorSpec{Kind: commonv1beta1.CustomCollector, CustomCollector: &cc}
		switch r.Intn(4) {
		case 0:
			mc.Source = &commonv1beta1.SourceSpec{FileSystemPath: &commonv1beta1.FileSystemPath{Path: kit.Pick(r, filePaths), Kind: commonv1beta1.FileKind}}
		case 1:
			mc.Source = &commonv1beta1.SourceSpec{FileSystemPath: &commonv1beta1.FileSystemPath{Path: kit.Pick(r, dirPaths), Kind: commonv1beta1.DirectoryKind}}
		case 2:
			mc.Source = &commonv1beta1.SourceSpec{Filter: filter()}
		}
		if malformed && chance(r, 40) {
			mc.Collector.CustomCollector = nil
		}
	case 17, 18:
		mc.Collector = &commonv1beta1.CollectorSpec{Kind: commonv1beta1.PushCollector}
	case 19:
		mc.Collector = &commonv1beta1.CollectorSpec{Kind: kit.Pick(r, []commonv1beta1.CollectorKind{"None", "", "Stdout"})}
	}
	return t
}

func (c12) Gen(r *rand.Rand, i, n int) any {
	malformed := chance(r, 12)
	ns, other := "n", "m"
	tname, exp := "t1", kit.Pick(r, []string{"e", "e", "exp-2"})
	var in c12Input
	in.NS = ns
	in.InjectSecCtx = chance(r, 25)
	genConfig(r, &in)

	tr := genTrial(r, tname, ns, exp, malformed)
	in.Trials = append(in.Trials, tr)
	if chance(r, 15) {
		in.Trials = append(in.Trials, genTrial(r, tname, other, exp, false)) // same name, other namespace
	}
	if chance(r, 15) {
		in.Trials = append(in.Trials, genTrial(r, "t2", ns, exp, false))
	}
	if !chance(r, 6) {
		in.Experiments = append(in.Experiments, nsName{ns, exp})
	}
	if !chance(r, 6) {
		s := suggestionsv1beta1.Suggestion{ObjectMeta: metav1.ObjectMeta{Name: exp, Namespace: ns},
			Spec: suggestionsv1beta1.SuggestionSpec{Algorithm: &commonv1beta1.AlgorithmSpec{AlgorithmName: kit.Pick(r, []string{"random", "pbt"})}}}
		if chance(r, 30) {
			s.Spec.Algorithm.AlgorithmSettings = append(s.Spec.Algorithm.AlgorithmSettings, commonv1beta1.AlgorithmSetting{Name: "n_population", Value: "5"})
		}
		switch r.Intn(8) {
		case 0, 1:
			s.Spec.Algorithm.AlgorithmSettings = append(s.Spec.Algorithm.AlgorithmSettings, commonv1beta1.AlgorithmSetting{Name: consts.SuggestionVolumeMountKey, Value: "/var/log/katib/checkpoints/"})
		case 2:
			s.Spec.Algorithm.AlgorithmSettings = append(s.Spec.Algorithm.AlgorithmSettings,
				commonv1beta1.AlgorithmSetting{Name: consts.SuggestionVolumeMountKey, Value: ""},
				commonv1beta1.AlgorithmSetting{Name: consts.SuggestionVolumeMountKey, Value: "/second"})
		}
		in.Suggestions = append(in.Suggestions, s)
	}

	// the pod
	p := corev1.Pod{ObjectMeta: metav1.ObjectMeta{Namespace: ns}}
	if chance(r, 50) {
		p.Name = kit.Pick(r, []string{"t1-abcde", "t1", "t1-worker-0"})
	} else {
		p.GenerateName = "t1-"
	}
	if chance(r, 55) {
		p.Kind, p.APIVersion = "Pod", "v1"
	}
	names := []string{"main", "sidekick", "istio-proxy", "training-container", mccommon.MetricLoggerCollectorContainerName, mccommon.MetricCollectorContainerName}
	nc := 1 + r.Intn(4)
	withPrimary := !chance(r, 22)
	var chosen []string
	if withPrimary {
		chosen = append(chosen, tr.Spec.PrimaryContainerName)
	}
	for len(chosen) < nc {
		c := names[r.Intn(len(names))]
		if !withPrimary && c == tr.Spec.PrimaryContainerName {
			continue
		}
		dup := false
		for _, d := range chosen {
			dup = dup || d == c
		}
		if dup && !(malformed && chance(r, 30)) {
			continue
		}
		chosen = append(chosen, c)
	}
	r.Shuffle(len(chosen), func(a, b int) { chosen[a], chosen[b] = chosen[b], chosen[a] })
	for _, cn := range chosen {
		p.Spec.Containers = append(p.Spec.Containers, genContainer(r, cn))
	}
	if withPrimary && chance(r, 70) {
		// keep most primary containers inside the domain of the theorems (explicit command)
		for k := range p.Spec.Containers {
			if p.Spec.Containers[k].Name == tr.Spec.PrimaryContainerName && len(p.Spec.Containers[k].Command) == 0 {
				p.Spec.Containers[k].Command = []string{"python", "train.py"}
			}
		}
	}
	if chance(r, 40) {
		p.Spec.Volumes = append(p.Spec.Volumes, corev1.Volume{Name: "data", VolumeSource: corev1.VolumeSource{EmptyDir: &corev1.EmptyDirVolumeSource{}}})
	}
	if chance(r, 15) {
		p.Spec.Volumes = append(p.Spec.Volumes, corev1.Volume{Name: "pvc", VolumeSource: corev1.VolumeSource{PersistentVolumeClaim: &corev1.PersistentVolumeClaimVolumeSource{ClaimName: "claim", ReadOnly: chance(r, 30)}}})
	}
	if chance(r, 10) {
		p.Spec.Volumes = append(p.Spec.Volumes, corev1.Volume{Name: "cfg", VolumeSource: corev1.VolumeSource{ConfigMap: &corev1.ConfigMapVolumeSource{LocalObjectReference: corev1.LocalObjectReference{Name: "cm"}}}})
	}
	if chance(r, 5) {
		p.Spec.Volumes = append(p.Spec.Volumes, corev1.Volume{Name: commonv1beta1.MetricsVolume, VolumeSource: corev1.VolumeSource{EmptyDir: &corev1.EmptyDirVolumeSource{Medium: corev1.StorageMediumMemory}}})
	}
	if chance(r, 20) {
		b := chance(r, 50)
		p.Spec.ShareProcessNamespace = &b
	}
	if chance(r, 40) {
		p.Spec.RestartPolicy = corev1.RestartPolicyNever
	}
	if chance(r, 15) {
		p.Spec.InitContainers = []corev1.Container{{Name: "init", Image: "busybox", Command: []string{"true"}}}
	}
	if chance(r, 15) {
		p.Annotations = map[string]string{"sidecar.istio.io/inject": "false"}
	}
	switch r.Intn(10) {
	case 0, 1, 2:
	case 3, 4, 5, 6:
		p.Labels = map[string]string{"role": "master", "job-name": tname}
	case 7, 8:
		p.Labels = map[string]string{"role": "worker", "replica-index": "0"}
	case 9:
		p.Labels = map[string]string{"role": "master", "replica-index": "0", consts.LabelTrialName: "stale"}
	}

	// the ownership chain
	ref := func(api, kind, name string) metav1.OwnerReference {
		return metav1.OwnerReference{APIVersion: api, Kind: kind, Name: name}
	}
	trialRef := ref(trialAPI, "Trial", tname)
	job := func(api, kind, name, nspace string, owners ...metav1.OwnerReference) {
		in.Objects = append(in.Objects, objIn{APIVersion: api, Kind: kind, Namespace: nspace, Name: name, Owners: owners})
	}
	shape := r.Intn(26)
	switch {
	case shape < 10: // pod <- Job <- Trial
		in.Shape = "job<-trial"
		job("batch/v1", "Job", tname, ns, trialRef)
		p.OwnerReferences = []metav1.OwnerReference{ref("batch/v1", "Job", tname)}
	case shape < 12:
		in.Shape = "tfjob<-trial"
		job("kubeflow.org/v1", "TFJob", tname, ns, trialRef)
		p.OwnerReferences = []metav1.OwnerReference{ref("kubeflow.org/v1", "TFJob", tname)}
	case shape < 14: // pod <- ReplicaSet-like <- Job <- Trial
		in.Shape = "three-levels"
		job("batch/v1", "Job", tname, ns, trialRef)
		job("apps/v1", "ReplicaSet", "rs-1", ns, ref("batch/v1", "Job", tname))
		p.OwnerReferences = []metav1.OwnerReference{ref("apps/v1", "ReplicaSet", "rs-1")}
	case shape < 15:
		in.Shape = "no-owner"
	case shape < 16:
		in.Shape = "foreign-job"
		job("batch/v1", "Job", "cron-1", ns)
		p.OwnerReferences = []metav1.OwnerReference{ref("batch/v1", "Job", "cron-1")}
	case shape < 17:
		in.Shape = "direct-trial-owner"
		p.OwnerReferences = []metav1.OwnerReference{trialRef}
		if chance(r, 50) {
			p.Name = tname
		}
	case shape < 18:
		in.Shape = "first-owner-dangling"
		job("batch/v1", "Job", tname, ns, trialRef)
		p.OwnerReferences = []metav1.OwnerReference{ref("batch/v1", "Job", "gone"), ref("batch/v1", "Job", tname)}
	case shape < 20:
		in.Shape = "first-owner-foreign"
		job("batch/v1", "Job", tname, ns, trialRef)
		job("v1", "Service", "svc", ns)
		p.OwnerReferences = []metav1.OwnerReference{ref("v1", "Service", "svc"), ref("batch/v1", "Job", tname)}
	case shape < 21:
		in.Shape = "bad-apiversion"
		job("batch/v1", "Job", tname, ns, trialRef)
		p.OwnerReferences = []metav1.OwnerReference{ref("a/b/c", "Job", tname)}
		if chance(r, 50) {
			// nested: the bad reference sits one level up and is dropped by the walk
			in.Objects = nil
			job("batch/v1", "Job", "mid", ns, ref("a/b/c", "Job", "x"))
			job("batch/v1", "Job", tname, ns, trialRef)
			p.OwnerReferences = []metav1.OwnerReference{ref("batch/v1", "Job", "mid"), ref("batch/v1", "Job", tname)}
		}
	case shape < 22:
		in.Shape = "owner-in-other-namespace"
		job("batch/v1", "Job", tname, other, trialRef)
		p.OwnerReferences = []metav1.OwnerReference{ref("batch/v1", "Job", tname)}
	case shape < 23:
		in.Shape = "job-name-differs"
		job("batch/v1", "Job", "t1-job", ns, trialRef)
		p.OwnerReferences = []metav1.OwnerReference{ref("batch/v1", "Job", "t1-job")}
	case shape < 24:
		in.Shape = "wrong-trial-apiversion"
		job("batch/v1", "Job", tname, ns, ref(kit.Pick(r, []string{"kubeflow.org/v1alpha3", "v1beta1"}), "Trial", tname))
		p.OwnerReferences = []metav1.OwnerReference{ref("batch/v1", "Job", tname)}
	case shape < 25:
		in.Shape = "wrong-owner-version"
		job("batch/v1", "Job", tname, ns, trialRef)
		p.OwnerReferences = []metav1.OwnerReference{ref(kit.Pick(r, []string{"batch/v1beta1", "v1"}), "Job", tname)}
	default:
		in.Shape = "second-trial"
		if len(in.Trials) < 2 || in.Trials[len(in.Trials)-1].Name != "t2" {
			in.Trials = append(in.Trials, genTrial(r, "t2", ns, exp, false))
		}
		job("batch/v1", "Job", "t2", ns, ref(trialAPI, "Trial", "t2"))
		p.OwnerReferences = []metav1.OwnerReference{ref("batch/v1", "Job", "t2")}
	}
	in.Pod = p
	return in
}
