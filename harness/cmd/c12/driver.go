package main

import (
	"bytes"
	"context"
	"encoding/json"
	"errors"
	"fmt"
	"path/filepath"
	"sort"
	"strconv"
	"strings"

	jsonpatch "github.com/evanphx/json-patch/v5"
	"github.com/spf13/viper"
	admissionv1 "k8s.io/api/admission/v1"
	corev1 "k8s.io/api/core/v1"
	apierrors "k8s.io/apimachinery/pkg/api/errors"
	metav1 "k8s.io/apimachinery/pkg/apis/meta/v1"
	"k8s.io/apimachinery/pkg/apis/meta/v1/unstructured"
	"k8s.io/apimachinery/pkg/runtime"
	"k8s.io/apimachinery/pkg/runtime/schema"
	"k8s.io/apimachinery/pkg/runtime/serializer"
	"sigs.k8s.io/controller-runtime/pkg/client"
	"sigs.k8s.io/controller-runtime/pkg/client/fake"
	"sigs.k8s.io/controller-runtime/pkg/webhook/admission"

	configv1beta1 "github.com/kubeflow/katib/pkg/apis/config/v1beta1"
	apis "github.com/kubeflow/katib/pkg/apis/controller"
	commonv1beta1 "github.com/kubeflow/katib/pkg/apis/controller/common/v1beta1"
	experimentsv1beta1 "github.com/kubeflow/katib/pkg/apis/controller/experiments/v1beta1"
	suggestionsv1beta1 "github.com/kubeflow/katib/pkg/apis/controller/suggestions/v1beta1"
	trialsv1beta1 "github.com/kubeflow/katib/pkg/apis/controller/trials/v1beta1"
	katibmanagerv1beta1 "github.com/kubeflow/katib/pkg/common/v1beta1"
	"github.com/kubeflow/katib/pkg/controller.v1beta1/consts"
	"github.com/kubeflow/katib/pkg/controller.v1beta1/util"
	mccommon "github.com/kubeflow/katib/pkg/metricscollector/v1beta1/common"
	"github.com/kubeflow/katib/pkg/webhook/v1beta1/pod"

	"verifharness/internal/kit"
)

// ------------------------------------------------------------------------------------------- input

// objIn is a cluster object that only takes part in the ownership walk (Job, TFJob, ReplicaSet, ...).
type objIn struct {
	APIVersion string                  `json:"apiVersion"`
	Kind       string                  `json:"kind"`
	Namespace  string                  `json:"namespace"`
	Name       string                  `json:"name"`
	Owners     []metav1.OwnerReference `json:"owners,omitempty"`
}

type nsName struct {
	Namespace string `json:"namespace"`
	Name      string `json:"name"`
}

type c12Input struct {
	NS           string                           `json:"ns"`
	Pod          corev1.Pod                       `json:"pod"`
	Objects      []objIn                          `json:"objects,omitempty"`
	Trials       []trialsv1beta1.Trial            `json:"trials,omitempty"`
	Suggestions  []suggestionsv1beta1.Suggestion  `json:"suggestions,omitempty"`
	Experiments  []nsName                         `json:"experiments,omitempty"`
	ConfigMap    map[string]string                `json:"configMap,omitempty"`
	NoConfigMap  bool                             `json:"noConfigMap,omitempty"`
	InjectSecCtx bool                             `json:"injectSecurityContext,omitempty"`
	Shape        string                           `json:"shape,omitempty"` // generator's note, not read by Run except as a tag
}

type c12 struct{}

func (c12) Name() string      { return "c12" }
func (c12) CoqModule() string { return "C12" }
func (c12) Rule() string {
	return "pods with 1-4 containers (names from a pool of 6 incl. the trial's primary container name and the sidecar names; commands: plain argv, " +
		"sh|bash -c ..., sh alone, sh -c alone, sh script, empty; args with spaces and quotes; existing env, mounts, resources, security contexts, " +
		"volumes, labels, shareProcessNamespace, other pod fields) under 14 ownership shapes (none; job<-trial; 3-level chains; direct Trial owner with " +
		"kind \"\"/Pod; two owners with a dangling/non-katib/bad-apiVersion first owner; owner in another namespace; job name != trial name; wrong " +
		"Trial apiVersion), trials of all collector kinds (StdOut File TensorFlowEvent PrometheusMetric Custom Push unknown) with/without source, " +
		"filter formats, early-stopping rules, primaryPodLabels absent/matching/mismatching/missing, experiment/suggestion present or absent, " +
		"suggestion_trial_dir set/empty/absent, katib-config variants (duplicate kinds, blank image, waitAllProcesses, resources, pull policy, kind " +
		"missing, ConfigMap or key missing, malformed YAML), injectSecurityContext on/off. About 12% of the cases come from a malformed stream (nil " +
		"source for File/TfEvent, nil custom container, duplicate container names). Non-trivial: MutationRequired returned true (Mutate ran). " +
		"Distinct: by the Coq term of the input (world, namespace, pod)."
}

func (c12) Decode(raw json.RawMessage) (any, error) {
	var in c12Input
	err := json.Unmarshal(raw, &in)
	return in, err
}

// ------------------------------------------------------------------------------------------- Coq printing

func js(v any) string {
	b, err := json.Marshal(v)
	if err != nil {
		return "!" + err.Error()
	}
	return string(b)
}

// blobs interns the JSON text of opaque fields per case; id 0 is the empty / nil value.
var blobs *kit.Intern

func resetBlobs() {
	blobs = kit.NewIntern()
	blobs.ID("")
}

func blobID(s string) string { return kit.Nat(blobs.ID(s)) }

// blob is the interned JSON of v, 0 when v is the zero value.
func blob(v, zero any) string {
	a, z := js(v), js(zero)
	if a == z {
		return blobID("")
	}
	return blobID(a)
}

func strs(xs []string) string { return kit.ListOf(xs, kit.Str) }

func labelsCoq(m map[string]string) string {
	keys := make([]string, 0, len(m))
	for k := range m {
		keys = append(keys, k)
	}
	sort.Strings(keys)
	return kit.ListOf(keys, func(k string) string { return kit.Pair(kit.Str(k), kit.Str(m[k])) })
}

func orefCoq(o metav1.OwnerReference) string {
	gv, err := schema.ParseGroupVersion(o.APIVersion)
	return kit.Rec("ORef", kit.Str(o.APIVersion), kit.Opt(err == nil, kit.Pair(kit.Str(gv.Group), kit.Str(gv.Version))), kit.Str(o.Kind), kit.Str(o.Name))
}

func orefsCoq(os []metav1.OwnerReference) string { return kit.ListOf(os, orefCoq) }

func objCoq(apiVersion, kind, ns, name string, owners []metav1.OwnerReference) string {
	gv, _ := schema.ParseGroupVersion(apiVersion)
	return kit.Rec("Obj", kit.Pair(kit.Str(gv.Group), kit.Str(gv.Version)), kit.Str(kind), kit.Str(ns), kit.Str(name), orefsCoq(owners))
}

func envCoq(e corev1.EnvVar) string {
	if e.Value == "" && e.ValueFrom != nil && e.ValueFrom.FieldRef != nil && e.ValueFrom.FieldRef.APIVersion == "" &&
		e.ValueFrom.ResourceFieldRef == nil && e.ValueFrom.ConfigMapKeyRef == nil && e.ValueFrom.SecretKeyRef == nil {
		return kit.Rec("Env", kit.Str(e.Name), kit.Rec("EFieldRef", kit.Str(e.ValueFrom.FieldRef.FieldPath)))
	}
	r := e
	r.Name = ""
	return kit.Rec("Env", kit.Str(e.Name), kit.Rec("EV", blobID(js(r))))
}

func mountCoq(m corev1.VolumeMount) string {
	r := *m.DeepCopy()
	r.Name, r.MountPath, r.SubPath = "", "", ""
	return kit.Rec("Mount", kit.Str(m.Name), kit.Str(m.MountPath), kit.Str(m.SubPath), blob(r, corev1.VolumeMount{}))
}

func ctrCoq(c corev1.Container) string {
	r := *c.DeepCopy()
	r.Name, r.Image, r.Command, r.Args, r.Env, r.VolumeMounts = "", "", nil, nil, nil, nil
	r.ImagePullPolicy, r.Resources, r.SecurityContext = "", corev1.ResourceRequirements{}, nil
	sec := ""
	if c.SecurityContext != nil {
		sec = js(c.SecurityContext)
	}
	return kit.Rec("Ctr", kit.Str(c.Name), kit.Str(c.Image), strs(c.Command), strs(c.Args),
		kit.ListOf(c.Env, envCoq), kit.ListOf(c.VolumeMounts, mountCoq),
		kit.Str(string(c.ImagePullPolicy)), blob(c.Resources, corev1.ResourceRequirements{}), blobID(sec),
		blob(r, corev1.Container{}))
}

func volCoq(v corev1.Volume) string {
	src := ""
	switch {
	case js(v.VolumeSource) == js(corev1.VolumeSource{EmptyDir: &corev1.EmptyDirVolumeSource{}}):
		src = "VEmptyDir"
	case v.PersistentVolumeClaim != nil && js(v.VolumeSource) == js(corev1.VolumeSource{PersistentVolumeClaim: &corev1.PersistentVolumeClaimVolumeSource{ClaimName: v.PersistentVolumeClaim.ClaimName}}):
		src = kit.Rec("VPVC", kit.Str(v.PersistentVolumeClaim.ClaimName))
	default:
		src = kit.Rec("VOther", blobID(js(v.VolumeSource)))
	}
	return kit.Rec("Vol", kit.Str(v.Name), src)
}

func podCoq(p *corev1.Pod) string {
	r := p.DeepCopy()
	r.Kind, r.Name, r.Labels, r.OwnerReferences = "", "", nil, nil
	r.Spec.Containers, r.Spec.Volumes, r.Spec.ShareProcessNamespace = nil, nil, nil
	share := "None"
	if p.Spec.ShareProcessNamespace != nil {
		share = kit.Opt(true, kit.Bool(*p.Spec.ShareProcessNamespace))
	}
	return kit.Rec("Pod", kit.Str(p.Kind), kit.Str(p.Name), labelsCoq(p.Labels), orefsCoq(p.OwnerReferences),
		kit.ListOf(p.Spec.Containers, ctrCoq), kit.ListOf(p.Spec.Volumes, volCoq), share, blob(r, &corev1.Pod{}))
}

func kindCoq(k commonv1beta1.CollectorKind) string {
	switch k {
	case commonv1beta1.StdOutCollector:
		return "KStdOut"
	case commonv1beta1.FileCollector:
		return "KFile"
	case commonv1beta1.TfEventCollector:
		return "KTfEvent"
	case commonv1beta1.PrometheusMetricCollector:
		return "KPrometheus"
	case commonv1beta1.CustomCollector:
		return "KCustom"
	case commonv1beta1.PushCollector:
		return "KPush"
	}
	return "KOther"
}

func trialCoq(t *trialsv1beta1.Trial) string {
	mc := t.Spec.MetricsCollector
	custom := "None"
	if mc.Collector.CustomCollector != nil {
		custom = kit.Opt(true, ctrCoq(*mc.Collector.CustomCollector))
	}
	src := "None"
	if mc.Source != nil {
		fs := "None"
		if p := mc.Source.FileSystemPath; p != nil {
			fs = kit.Opt(true, kit.Rec("FsPath", kit.Str(p.Path), kit.Bool(p.Kind == commonv1beta1.FileKind), kit.Str(string(p.Format))))
		}
		var formats []string
		if mc.Source.Filter != nil {
			formats = mc.Source.Filter.MetricsFormat
		}
		src = kit.Opt(true, kit.Rec("Source", fs, strs(formats)))
	}
	rules := kit.ListOf(t.Spec.EarlyStoppingRules, func(r commonv1beta1.EarlyStoppingRule) string {
		return kit.Rec("Rule", kit.Str(r.Name), kit.Str(r.Value), kit.Str(string(r.Comparison)), kit.Str(strconv.Itoa(r.StartStep)))
	})
	return kit.Rec("Trial", kit.Str(t.Name), kit.Str(t.Namespace), labelsCoq(t.Labels), kit.Str(t.Spec.PrimaryContainerName),
		labelsCoq(t.Spec.PrimaryPodLabels), kindCoq(mc.Collector.Kind), kit.Str(string(mc.Collector.Kind)), custom, src,
		kit.Str(string(t.Spec.Objective.Type)), kit.Str(t.Spec.Objective.ObjectiveMetricName), strs(t.Spec.Objective.AdditionalMetricNames),
		rules, kit.Str(filepath.Join(t.Labels[consts.LabelExperimentName], t.Name)))
}

func suggCoq(s *suggestionsv1beta1.Suggestion) string {
	settings := kit.ListOf(s.Spec.Algorithm.AlgorithmSettings, func(a commonv1beta1.AlgorithmSetting) string {
		return kit.Pair(kit.Str(a.Name), kit.Str(a.Value))
	})
	// the two helpers of katib are given copies: s belongs to the replayable input
	return kit.Rec("Sugg", kit.Str(s.Name), kit.Str(s.Namespace), settings, kit.Str(util.GetEarlyStoppingEndpoint(s.DeepCopy())),
		kit.Str(util.GetSuggestionPersistentVolumeClaimName(s.DeepCopy())))
}

func constsCoq() string {
	return kit.Rec("Consts", kit.Str(pod.TrialKind), kit.Str(pod.TrialAPIVersion), kit.Str(consts.LabelTrialName), kit.Str(consts.LabelExperimentName),
		kit.Str(consts.EnvTrialName), kit.Str(commonv1beta1.DefaultFilePath), kit.Str(string(commonv1beta1.TextFormat)), kit.Str(commonv1beta1.MetricsVolume),
		kit.Str(mccommon.MetricLoggerCollectorContainerName), kit.Str(mccommon.MetricCollectorContainerName), kit.Str(katibmanagerv1beta1.GetDBManagerAddr()),
		kit.Str(mccommon.TrainingCompleted), kit.Str(mccommon.TrainingEarlyStopped), kit.Str(consts.SuggestionVolumeMountKey), kit.Str(consts.ContainerSuggestionVolumeName))
}

// configCoq evaluates the library part of katibconfig.fromConfigMap (same decoder call) and prints its result;
// the second result is the decoder's error text, if it failed.
func configCoq(in c12Input, scheme *runtime.Scheme) (string, string) {
	if in.NoConfigMap {
		return "CfgNoMap", ""
	}
	text, ok := in.ConfigMap[consts.LabelKatibConfigTag]
	if !ok {
		return "CfgNoKey", ""
	}
	cfg := &configv1beta1.KatibConfig{}
	codecs := serializer.NewCodecFactory(scheme)
	if err := runtime.DecodeInto(codecs.UniversalDecoder(), []byte(text), cfg); err != nil {
		return "CfgBad", err.Error()
	}
	return kit.Rec("Cfg", kit.ListOf(cfg.RuntimeConfig.MetricsCollectorConfigs, func(m configv1beta1.MetricsCollectorConfig) string {
		wait := "None"
		if m.WaitAllProcesses != nil {
			wait = kit.Opt(true, kit.Bool(*m.WaitAllProcesses))
		}
		return kit.Rec("McCfg", kit.Str(m.CollectorKind), kit.Str(m.Image), kit.Bool(strings.TrimSpace(m.Image) == ""),
			kit.Str(string(m.ImagePullPolicy)), blob(m.Resource, corev1.ResourceRequirements{}), wait)
	})), ""
}

// pathsCoq tabulates filepath.Dir / Join on every path the webhook can meet for these trials.
func pathsCoq(trials []trialsv1beta1.Trial) string {
	seen := map[string]bool{}
	var order []string
	add := func(p string) {
		for _, q := range []string{p, filepath.Dir(p)} {
			if !seen[q] {
				seen[q] = true
				order = append(order, q)
			}
		}
	}
	add(commonv1beta1.DefaultFilePath)
	for _, t := range trials {
		if s := t.Spec.MetricsCollector.Source; s != nil && s.FileSystemPath != nil {
			add(s.FileSystemPath.Path)
		}
	}
	return kit.ListOf(order, func(p string) string {
		return kit.Pair(kit.Str(p), "("+kit.Str(filepath.Dir(p))+", "+kit.Str(filepath.Join(p, "$$$$.pid"))+", "+kit.Str(filepath.Join(p, "$$.pid"))+")")
	})
}

// ------------------------------------------------------------------------------------------- running the real code

func buildClient(in c12Input) (client.Client, *runtime.Scheme) {
	s := runtime.NewScheme()
	_ = apis.AddToScheme(s)
	_ = corev1.AddToScheme(s)
	_ = configv1beta1.AddToScheme(s)
	var objs []client.Object
	for _, o := range in.Objects {
		u := &unstructured.Unstructured{}
		u.SetAPIVersion(o.APIVersion)
		u.SetKind(o.Kind)
		u.SetNamespace(o.Namespace)
		u.SetName(o.Name)
		if len(o.Owners) > 0 {
			u.SetOwnerReferences(o.Owners)
		}
		objs = append(objs, u)
	}
	for i := range in.Trials {
		objs = append(objs, in.Trials[i].DeepCopy())
	}
	for i := range in.Suggestions {
		objs = append(objs, in.Suggestions[i].DeepCopy())
	}
	for _, e := range in.Experiments {
		objs = append(objs, &experimentsv1beta1.Experiment{ObjectMeta: metav1.ObjectMeta{Name: e.Name, Namespace: e.Namespace}})
	}
	if !in.NoConfigMap {
		objs = append(objs, &corev1.ConfigMap{ObjectMeta: metav1.ObjectMeta{Name: consts.KatibConfigMapName, Namespace: consts.DefaultKatibNamespace}, Data: in.ConfigMap})
	}
	return fake.NewClientBuilder().WithScheme(s).WithObjects(objs...).Build(), s
}

// errCode maps an error of Mutate to the return site the model names (Model/Inject.v).
func errCode(err error, decodeErr string) int {
	msg := err.Error()
	switch {
	case decodeErr != "" && msg == decodeErr:
		return 5
	case strings.HasPrefix(msg, "Unable to find primary container"):
		return 2
	case strings.Contains(msg, "unable to find primary container in mutated pod containers"):
		return 12
	case strings.Contains(msg, "failed to find katib-config.yaml"):
		return 4
	case strings.Contains(msg, "failed to find metrics collector config"):
		return 6
	case strings.Contains(msg, "required value for image configuration"):
		return 7
	case strings.Contains(msg, "invalid suggestion name"):
		return 8
	case strings.Contains(msg, "k8schain"), strings.Contains(msg, "Failed to parse image"), strings.Contains(msg, "Failed to get container image"),
		strings.Contains(msg, "Failed to get config for image"):
		return 11
	}
	var st *apierrors.StatusError
	if errors.As(err, &st) && apierrors.IsNotFound(err) && st.ErrStatus.Details != nil {
		switch st.ErrStatus.Details.Kind {
		case "trials":
			return 1
		case "configmaps":
			return 3
		case "experiments":
			return 9
		case "suggestions":
			return 10
		}
	}
	return 0
}

func subset(primary, labels map[string]string) bool {
	for k, v := range primary {
		if w, ok := labels[k]; !ok || w != v {
			return false
		}
	}
	return true
}

func hasContainer(p *corev1.Pod, name string) *corev1.Container {
	for i := range p.Spec.Containers {
		if p.Spec.Containers[i].Name == name {
			return &p.Spec.Containers[i]
		}
	}
	return nil
}

func needWrap(k commonv1beta1.CollectorKind) bool {
	for _, w := range pod.NeedWrapWorkerMetricsCollectorList {
		if w == k {
			return true
		}
	}
	return false
}

func (c12) Run(input any) kit.Case {
	in := input.(c12Input)
	resetBlobs()
	cl, scheme := buildClient(in)
	viper.Set(consts.ConfigInjectSecurityContext, in.InjectSecCtx)
	inj := pod.NewSidecarInjector(cl, nil)
	cfgCoq, decodeErr := configCoq(in, scheme)

	p := in.Pod.DeepCopy()
	var c kit.Case
	c.Input = in

	// the composition Handle makes of MutationRequired and Mutate
	var impl, class string
	var need bool
	var err error
	var mutated *corev1.Pod
	pan := kit.Recover(func() { need, err = inj.MutationRequired(p, in.NS) })
	switch {
	case pan != "":
		impl, class = "(Panicked 0%nat)", "panic"
		c.Observed = "MutationRequired panic: " + pan
	case err != nil:
		impl, class = "(Rejected 1%nat 1%nat)", "rejected"
		c.Observed = "MutationRequired error: " + err.Error()
	case !need:
		impl, class = "Unchanged", "unchanged"
		c.Observed = "MutationRequired = false"
	default:
		c.Nontrivial = true
		pan = kit.Recover(func() { mutated, err = inj.Mutate(p, in.NS) })
		switch {
		case pan != "":
			impl, class = "(Panicked 0%nat)", "panic"
			c.Observed = "Mutate panic: " + pan
		case err != nil:
			impl, class = fmt.Sprintf("(Rejected 2%%nat %s)", kit.Nat(errCode(err, decodeErr))), "rejected"
			c.Observed = "Mutate error: " + err.Error()
		default:
			impl, class = "(Patched "+podCoq(mutated)+")", "patched"
			c.Observed = mutated
		}
	}

	// cross-check: the real Handle (request decoding, HTTP codes, JSON patch) against the composition above.
	// Only for pods that carry their TypeMeta, as every pod sent by an API server does.
	if in.Pod.Kind == "Pod" {
		if d := handleDisagrees(inj2(cl, scheme), in, class, impl, mutated); d != "" {
			c.GoViol = "Handle disagrees with MutationRequired+Mutate: " + d
		}
		c.Tags = append(c.Tags, "handle-cross-checked")
	}

	// the input as a Coq term
	var objs []string
	for _, o := range in.Objects {
		objs = append(objs, objCoq(o.APIVersion, o.Kind, o.Namespace, o.Name, o.Owners))
	}
	for i := range in.Trials {
		t := &in.Trials[i]
		objs = append(objs, objCoq(trialsv1beta1.SchemeGroupVersion.String(), "Trial", t.Namespace, t.Name, t.OwnerReferences))
	}
	for i := range in.Suggestions {
		s := &in.Suggestions[i]
		objs = append(objs, objCoq(suggestionsv1beta1.SchemeGroupVersion.String(), "Suggestion", s.Namespace, s.Name, s.OwnerReferences))
	}
	for _, e := range in.Experiments {
		objs = append(objs, objCoq(experimentsv1beta1.SchemeGroupVersion.String(), "Experiment", e.Namespace, e.Name, nil))
	}
	if !in.NoConfigMap {
		objs = append(objs, objCoq("v1", "ConfigMap", consts.DefaultKatibNamespace, consts.KatibConfigMapName, nil))
	}
	trials := make([]string, len(in.Trials))
	for i := range in.Trials {
		trials[i] = trialCoq(&in.Trials[i])
	}
	suggs := make([]string, len(in.Suggestions))
	for i := range in.Suggestions {
		suggs[i] = suggCoq(&in.Suggestions[i])
	}
	exps := kit.ListOf(in.Experiments, func(e nsName) string { return kit.Pair(kit.Str(e.Namespace), kit.Str(e.Name)) })
	world := kit.Rec("World", constsCoq(), kit.List(objs), kit.List(trials), kit.List(suggs), exps, cfgCoq,
		pathsCoq(in.Trials), kit.Bool(in.InjectSecCtx), "None")
	inputCoq := world + " " + kit.Str(in.NS) + " " + podCoq(&in.Pod)
	c.Coq = shareStrings("C12.Case " + inputCoq + " " + impl)
	c.Sig = inputCoq

	// known-finding domains, decided from the input alone: the Trials whose jobs are the nearest Trial-owned
	// ancestors of the pod (a search over all owner references, like InjectSpec.jobs)
	f5, f5b := false, false
	for _, job := range nearestJobs(in) {
		for i := range in.Trials {
			t := &in.Trials[i]
			if t.Namespace != in.NS || t.Name != job {
				continue
			}
			primaryPod := subset(t.Spec.PrimaryPodLabels, in.Pod.Labels)
			push := t.Spec.MetricsCollector.Collector.Kind == commonv1beta1.PushCollector
			pc := hasContainer(&in.Pod, t.Spec.PrimaryContainerName)
			if pc == nil && (!primaryPod || push) {
				f5 = true
			}
			if pc != nil && primaryPod && !push && needWrap(t.Spec.MetricsCollector.Collector.Kind) && len(pc.Command) > 0 && len(pc.Command)+len(pc.Args) == 1 &&
				(pc.Command[0] == "sh" || pc.Command[0] == "bash") {
				f5b = true
			}
		}
	}
	switch {
	case f5:
		c.Key = kit.KeyIf("C12", "nonprimary-without-primary-container", true)
	case f5b:
		c.Key = kit.KeyIf("C12", "single-element-shell-command", true)
	}

	// distribution
	c.Tags = append(c.Tags, "shape:"+in.Shape, "verdict:"+class, fmt.Sprintf("containers:%d", len(in.Pod.Spec.Containers)))
	for i := range in.Trials {
		if in.Trials[i].Namespace == in.NS {
			c.Tags = append(c.Tags, "kind:"+string(in.Trials[i].Spec.MetricsCollector.Collector.Kind))
			if len(in.Trials[i].Spec.EarlyStoppingRules) > 0 {
				c.Tags = append(c.Tags, "early-stopping")
			}
			break
		}
	}
	if f5 {
		c.Tags = append(c.Tags, "input:F5-domain")
	}
	if f5b {
		c.Tags = append(c.Tags, "input:F5b-domain")
	}
	if !bytes.Equal([]byte(js(p)), []byte(js(&in.Pod))) {
		c.Tags = append(c.Tags, "note:input-pod-modified-in-place")
	}
	return c
}



// packed prints a Coq string literal ("..." with doubled quotes) as Base.Packed.pk applied to 7-byte words.
func packed(lit string) string {
	s := strings.ReplaceAll(lit[1:len(lit)-1], `""`, `"`)
	var b strings.Builder
	b.WriteString("(pk [")
	for i := 0; i < len(s); i += 7 {
		j := i + 7
		if j > len(s) {
			j = len(s)
		}
		w := uint64(1)
		for k := i; k < j; k++ {
			w = w<<8 | uint64(s[k])
		}
		if i > 0 {
			b.WriteString(";")
		}
		b.WriteString(strconv.FormatUint(w, 10))
	}
	b.WriteString("]%uint63)")
	return b.String()
}

// shareStrings binds every string literal that occurs more than once in a Coq term to a let-variable and prints the
// longer literals in packed form (Coq spends ~50 microseconds per character of a string literal; a case repeats most
// of its names several times).
func shareStrings(term string) string {
	type tok struct {
		lit  bool
		text string
	}
	var toks []tok
	count := map[string]int{}
	for i := 0; i < len(term); {
		if term[i] != '"' {
			j := i
			for j < len(term) && term[j] != '"' {
				j++
			}
			toks = append(toks, tok{false, term[i:j]})
			i = j
			continue
		}
		j := i + 1
		for j < len(term) {
			if term[j] == '"' {
				if j+1 < len(term) && term[j+1] == '"' {
					j += 2
					continue
				}
				break
			}
			j++
		}
		toks = append(toks, tok{true, term[i : j+1]})
		count[term[i:j+1]]++
		i = j + 1
	}
	names := map[string]string{}
	var lets strings.Builder
	var body strings.Builder
	for _, t := range toks {
		if !t.lit || len(t.text) < 6 {
			body.WriteString(t.text)
			continue
		}
		if count[t.text] < 2 {
			body.WriteString(packed(t.text))
			continue
		}
		n, ok := names[t.text]
		if !ok {
			n = fmt.Sprintf("s'%d", len(names))
			names[t.text] = n
			fmt.Fprintf(&lets, "let %s := %s in ", n, packed(t.text))
		}
		body.WriteString(n)
	}
	return lets.String() + body.String()
}

// nearestJobs lists the names of the nearest ancestors-or-self of the pod that have a non-empty kind and an owner
// reference to a Trial, following every owner reference that resolves in the pod's namespace (depth-bounded).
func nearestJobs(in c12Input) []string {
	type node struct {
		api, kind, ns, name string
		owners              []metav1.OwnerReference
	}
	var nodes []node
	for _, o := range in.Objects {
		nodes = append(nodes, node{o.APIVersion, o.Kind, o.Namespace, o.Name, o.Owners})
	}
	for i := range in.Trials {
		t := &in.Trials[i]
		nodes = append(nodes, node{trialsv1beta1.SchemeGroupVersion.String(), "Trial", t.Namespace, t.Name, t.OwnerReferences})
	}
	for i := range in.Suggestions {
		s := &in.Suggestions[i]
		nodes = append(nodes, node{suggestionsv1beta1.SchemeGroupVersion.String(), "Suggestion", s.Namespace, s.Name, s.OwnerReferences})
	}
	for _, e := range in.Experiments {
		nodes = append(nodes, node{experimentsv1beta1.SchemeGroupVersion.String(), "Experiment", e.Namespace, e.Name, nil})
	}
	var res []string
	var visit func(kind, name string, owners []metav1.OwnerReference, depth int)
	visit = func(kind, name string, owners []metav1.OwnerReference, depth int) {
		if depth == 0 {
			return
		}
		for _, o := range owners {
			if o.Kind == pod.TrialKind && o.APIVersion == pod.TrialAPIVersion && kind != "" {
				res = append(res, name)
				return
			}
		}
		for _, o := range owners {
			gv, err := schema.ParseGroupVersion(o.APIVersion)
			if err != nil {
				continue
			}
			for _, n := range nodes {
				ngv, _ := schema.ParseGroupVersion(n.api)
				if ngv == gv && n.kind == o.Kind && n.ns == in.NS && n.name == o.Name {
					visit(n.kind, n.name, n.owners, depth-1)
					break
				}
			}
		}
	}
	visit(in.Pod.Kind, in.Pod.Name, in.Pod.OwnerReferences, len(nodes)+2)
	return res
}

func inj2(cl client.Client, scheme *runtime.Scheme) *pod.SidecarInjector {
	return pod.NewSidecarInjector(cl, admission.NewDecoder(scheme))
}

// handleDisagrees runs SidecarInjector.Handle on the serialized pod and compares its response with the verdict
// composed from MutationRequired and Mutate; "" = they agree.
func handleDisagrees(inj *pod.SidecarInjector, in c12Input, class, impl string, mutated *corev1.Pod) string {
	raw, err := json.Marshal(&in.Pod)
	if err != nil {
		return "marshal: " + err.Error()
	}
	req := admission.Request{AdmissionRequest: admissionv1.AdmissionRequest{Namespace: in.NS, Object: runtime.RawExtension{Raw: raw}}}
	var resp admission.Response
	pan := kit.Recover(func() { resp = inj.Handle(context.TODO(), req) })
	code := int32(0)
	if resp.Result != nil {
		code = resp.Result.Code
	}
	switch class {
	case "panic":
		if pan == "" {
			return "no panic in Handle"
		}
	case "rejected":
		want := int32(400)
		if strings.HasPrefix(impl, "(Rejected 1%nat") {
			want = 500
		}
		if pan != "" || resp.Allowed || code != want {
			return fmt.Sprintf("expected a rejection with code %d, got allowed=%v code=%d panic=%q", want, resp.Allowed, code, pan)
		}
	case "unchanged":
		if pan != "" || !resp.Allowed || len(resp.Patches) != 0 {
			return fmt.Sprintf("expected allowed without patch, got allowed=%v patches=%d panic=%q", resp.Allowed, len(resp.Patches), pan)
		}
	case "patched":
		if pan != "" || !resp.Allowed {
			return fmt.Sprintf("expected allowed with patch, got allowed=%v panic=%q", resp.Allowed, pan)
		}
		pj, _ := json.Marshal(resp.Patches)
		patch, err := jsonpatch.DecodePatch(pj)
		if err != nil {
			return "patch decode: " + err.Error()
		}
		got, err := patch.Apply(raw)
		if err != nil {
			return "patch apply: " + err.Error()
		}
		want, _ := json.Marshal(mutated)
		if !jsonpatch.Equal(got, want) {
			return "the patched pod differs from Mutate's pod"
		}
	}
	return ""
}
