// c12 drives the real pod webhook of katib (SidecarInjector.MutationRequired / Mutate, composed as Handle composes
// them) on generated pods, ownership chains, trials and katib-configs held by a fake client, and prints the cases
// for Corr/C12.v.
package main

import (
	"fmt"
	"os"

	"verifharness/internal/kit"
)

func main() {
	if len(os.Args) < 2 || os.Args[1] != "c12" {
		fmt.Fprintln(os.Stderr, "usage: c12 c12 -seed S -n N -out DIR [-replay file]")
		os.Exit(2)
	}
	kit.Main(c12{}, os.Args[2:])
}
