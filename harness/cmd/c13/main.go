// c13 drives the real CollectObservationLog of katib's file metrics collector on generated log files and prints
// the cases for Corr/C13.v.
package main

import (
	"os"

	"verifharness/internal/kit"
)

func main() { kit.Main(c13{}, os.Args[2:]) }
