package main

import (
	"encoding/json"
	"flag"
	"fmt"
	"io"
	"math"
	"math/big"
	"math/rand"
	"os"
	"path/filepath"
	"regexp"
	"sort"
	"strconv"
	"strings"
	"time"

	"k8s.io/klog/v2"

	commonv1beta1 "github.com/kubeflow/katib/pkg/apis/controller/common/v1beta1"
	api_pb "github.com/kubeflow/katib/pkg/apis/manager/v1beta1"
	filemc "github.com/kubeflow/katib/pkg/metricscollector/v1beta1/file-metricscollector"

	"verifharness/internal/kit"
)

// C13: CollectObservationLog(fileName, metrics, filters, fileFormat) on generated files.
//
// What is computed here and handed to the Coq model (never by calling the code under test):
//   * per (filter, line): regexp.FindAllStringSubmatch with Go's regexp on the same filter strings
//   * which first fields / JSON timestamp strings time.Parse(RFC3339Nano) accepts
//   * per JSON line: json.Unmarshal into map[string]interface{} and FormatFloat('f', -1) of every number
//   * the instant that time.Parse reads back from every timestamp the implementation reported

// defaultFilter is a literal copy of common.DefaultFilter as of the pinned tree; a change of the constant in /repo
// therefore shows up as a disagreement (the model and the monitor are fed the matches of THIS expression).
const defaultFilter = `([\w|-]+)\s*=\s*([+-]?\d*(\.\d+)?([Ee][+-]?\d+)?)`

type c13Input struct {
	Format  string   `json:"format"`
	Metrics []string `json:"metrics"`
	Filters []string `json:"filters"`
	Content []byte   `json:"content"` // exact file bytes (base64 in JSON)
	Text    string   `json:"text"`    // the same for human readers (lossy on invalid UTF-8; ignored by replay)
	Stream  string   `json:"stream"`
}

type c13 struct{}

func (c13) Name() string      { return "c13" }
func (c13) CoqModule() string { return "C13" }
func (c13) Rule() string {
	return "three streams from one PRNG. TEXT (~50%): 1-4 tracked names out of a pool with substring-related names (acc/accuracy/val-acc), " +
		"sometimes a duplicate, rarely none; default filter or custom two-group filters (braces syntax, colon syntax, a filter capturing blanks " +
		"to be trimmed, two filters at once, a one-group filter, rarely an invalid expression); 0-25 lines: 1-3 metric statements per line, " +
		"noise lines (with and without a tracked name inside), first field = RFC3339 / RFC3339Nano with zone / invalid date / word / missing, CR line ends, " +
		"Unicode blanks. JSON (~38%): objects with string and number metric values, other keys, duplicate keys; timestamp absent / RFC3339 string / " +
		"invalid string / integral number (plain and exponent syntax) / fractional number / huge number / bool / null; blank lines, `null` lines, " +
		"rarely a malformed or non-object line. RAW (~12%): arbitrary bytes, and bytes seeded with names, '=', digits, quotes and braces, in both formats " +
		"(totality: testing, not proof). Non-trivial: the implementation returned >= 2 records, or an error, or panicked. Distinct: by the printed input."
}

var namePool = []string{"accuracy", "loss", "acc", "val-acc", "f1", "Validation-accuracy", "epoch", "lr", "a|b"}

func init() {
	fs := flag.NewFlagSet("klog", flag.ContinueOnError)
	klog.InitFlags(fs)
	_ = fs.Set("logtostderr", "false")
	_ = fs.Set("alsologtostderr", "false")
	_ = fs.Set("stderrthreshold", "FATAL")
	klog.SetOutput(io.Discard)
}

// ------------------------------------------------------------------------------------ generators

func genMetrics(r *rand.Rand) []string {
	if r.Intn(60) == 0 {
		return nil
	}
	n := 1 + r.Intn(4)
	perm := r.Perm(len(namePool))
	var ms []string
	for i := 0; i < n; i++ {
		ms = append(ms, namePool[perm[i]])
	}
	if r.Intn(10) == 0 && len(ms) > 1 {
		ms = append(ms, ms[1+r.Intn(len(ms)-1)]) // duplicate of a non-objective name
	}
	if r.Intn(25) == 0 {
		ms = append(ms, ms[0])
	}
	if r.Intn(40) == 0 {
		ms = append(ms, "")
	}
	return ms
}

func genTSField(r *rand.Rand) string {
	base := time.Date(2024, 3, 4, 17, 55, 8, 0, time.UTC).Add(time.Duration(r.Intn(100000)) * time.Second)
	switch r.Intn(12) {
	case 0, 1, 2, 3:
		return base.Format(time.RFC3339)
	case 4, 5:
		return base.Add(time.Duration(r.Intn(1e9))).Format(time.RFC3339Nano)
	case 6:
		return base.In(time.FixedZone("z", 3600*(r.Intn(9)-4))).Format(time.RFC3339Nano)
	case 7:
		return kit.Pick(r, []string{"2024-13-01T00:00:00Z", "2024-03-04", "2024-03-04T17:55:08", "17:55:08Z", "2024-03-04t17:55:08z"})
	case 8:
		return kit.Pick(r, []string{"invalid", "INFO", "[train]", "0001-01-01T00:00:00Z", "1700000000"})
	default:
		return "" // no timestamp field at all
	}
}

func genValue(r *rand.Rand) string {
	switch r.Intn(10) {
	case 0:
		return kit.Pick(r, []string{".98", "-7.53e-05", "1E0", "1.23E10", "+5", "-.333", "888.", "1e", "-", "NaN", "abc"})
	case 1:
		return strconv.Itoa(r.Intn(200) - 50)
	}
	return strconv.FormatFloat(float64(r.Intn(100000))/10000, 'f', -1, 64)
}

type textStyle struct {
	filters []string
	stmt    func(r *rand.Rand, name, value string) string
	sep     string
	tag     string
}

func blanks(r *rand.Rand) string {
	return kit.Pick(r, []string{"", " ", "  ", "\t", "\u00a0", "\u2003 ", " \u3000", "\u0085"})
}

func textStyles(r *rand.Rand) textStyle {
	eq := func(r *rand.Rand, n, v string) string {
		return n + kit.Pick(r, []string{"=", " = ", "= ", " =", "\t=\t"}) + v
	}
	switch r.Intn(16) {
	case 0, 1, 2, 3, 4, 5, 6:
		return textStyle{nil, eq, kit.Pick(r, []string{" ", ", ", "; "}), "filter:default"}
	case 7, 8, 9:
		return textStyle{[]string{`{metricName: ([\w|-]+), metricValue: ((-?\d+)(\.\d+)?)}`},
			func(r *rand.Rand, n, v string) string { return "{metricName: " + n + ", metricValue: " + v + "}" }, ";", "filter:braces"}
	case 10:
		return textStyle{[]string{`([\w-]+)\s*:\s*([+-]?\d+\.?\d*)`},
			func(r *rand.Rand, n, v string) string { return n + kit.Pick(r, []string{":", ": ", " : "}) + v }, ", ", "filter:colon"}
	case 11, 12:
		// captures blanks around name and value: exercises TrimSpace
		return textStyle{[]string{`([\w-]+\s*)=(\s*[^\s,;]+[ \t\x{a0}\x{2003}\x{3000}]*)`},
			func(r *rand.Rand, n, v string) string { return n + blanks(r) + "=" + blanks(r) + v + blanks(r) }, ",", "filter:blanks"}
	case 13:
		// two filters at once (the first one is the braces syntax, the second the default expression)
		return textStyle{[]string{`{metricName: ([\w|-]+), metricValue: ((-?\d+)(\.\d+)?)}`, defaultFilter},
			func(r *rand.Rand, n, v string) string {
				if r.Intn(2) == 0 {
					return "{metricName: " + n + ", metricValue: " + v + "}"
				}
				return n + "=" + v
			}, " ", "filter:two"}
	case 14:
		return textStyle{[]string{`([\w|-]+)=\d+`}, eq, " ", "filter:one-group"}
	default:
		if r.Intn(3) == 0 {
			return textStyle{[]string{`([a-z]+=(\d+)`}, eq, " ", "filter:invalid"}
		}
		return textStyle{[]string{`"([^"]+)":\s*"([^"]*)"`},
			func(r *rand.Rand, n, v string) string { return `"` + n + `": "` + v + `"` }, ", ", "filter:quoted"}
	}
}

func genText(r *rand.Rand, long bool) c13Input {
	in := c13Input{Format: "TEXT", Stream: "text", Metrics: genMetrics(r)}
	st := textStyles(r)
	in.Filters = st.filters
	nl := r.Intn(26)
	if r.Intn(4) == 0 {
		nl = r.Intn(5)
	}
	var lines []string
	others := []string{"step", "batch", "Accuracy", "los", "accuracy2", "xloss"}
	for i := 0; i < nl; i++ {
		var b strings.Builder
		if f := genTSField(r); f != "" {
			b.WriteString(f)
			b.WriteString(" ")
			if r.Intn(3) == 0 {
				b.WriteString("INFO     ")
			}
		} else if r.Intn(3) == 0 {
			b.WriteString(kit.Pick(r, []string{"INFO:", "", "\t"}))
		}
		switch k := r.Intn(10); {
		case k < 6: // metric statements
			ns := 1 + r.Intn(3)
			for j := 0; j < ns; j++ {
				if j > 0 {
					b.WriteString(st.sep)
				}
				var name string
				switch {
				case len(in.Metrics) > 0 && r.Intn(4) != 0:
					name = kit.Pick(r, in.Metrics)
				case r.Intn(2) == 0:
					name = kit.Pick(r, namePool)
				default:
					name = kit.Pick(r, others)
				}
				b.WriteString(st.stmt(r, name, genValue(r)))
			}
		case k < 8: // noise mentioning a tracked name without a statement
			if len(in.Metrics) > 0 {
				b.WriteString("the " + kit.Pick(r, in.Metrics) + " is improving")
			} else {
				b.WriteString("nothing to see")
			}
		case k == 8:
			b.WriteString(kit.Pick(r, []string{"starting epoch 3", "", "=====", "checkpoint saved to /tmp/x=1", "a=b=c"}))
		default:
			// statement in another syntax than the filter expects
			b.WriteString(kit.Pick(r, namePool) + kit.Pick(r, []string{" is ", "->", "=="}) + genValue(r))
		}
		if r.Intn(15) == 0 {
			b.WriteString("\r")
		}
		lines = append(lines, b.String())
	}
	if long && nl > 0 {
		// one very long line (a progress bar redrawn with \r, a dumped tensor): longer than any fixed line buffer
		k := r.Intn(len(lines))
		pat := kit.Pick(r, []string{"=", "#\r", "0.5 "})
		lines[k] = lines[k] + " " + strings.Repeat(pat, (66000+r.Intn(3000))/len(pat))
	}
	in.Content = []byte(strings.Join(lines, "\n"))
	if r.Intn(3) == 0 && nl > 0 {
		in.Content = append(in.Content, '\n')
	}
	return in
}

func genJSONTimestamp(r *rand.Rand, fracOK bool) (string, bool) {
	sec := int64(1638422847 + r.Intn(200000))
	switch k := r.Intn(20); {
	case k < 3:
		return "", false
	case k < 7:
		return strconv.Quote(time.Unix(sec, int64(r.Intn(1e9))).UTC().Format(time.RFC3339Nano)), true
	case k < 8:
		return strconv.Quote(time.Unix(sec, 0).In(time.FixedZone("z", 9*3600)).Format(time.RFC3339)), true
	case k < 9:
		return kit.Pick(r, []string{`"invalid"`, `""`, `"2021-12-02"`, `"1638422847"`, `true`, `null`, `[1638422847]`, `{"s":1}`}), true
	case k < 14:
		switch r.Intn(8) {
		case 0:
			return strconv.FormatFloat(float64(sec), 'e', -1, 64), true // 1.638422847e+09: integral
		case 1:
			return strconv.FormatInt(sec, 10) + ".0", true
		case 2:
			return kit.Pick(r, []string{"0", "-1", "-62135596800", "253402300799", "951782400", "1e30", "-1e30", "9223372036854775807", "9300000000000000000"}), true
		}
		return strconv.FormatInt(sec, 10), true
	default:
		if !fracOK {
			return strconv.FormatInt(sec, 10), true
		}
		switch r.Intn(8) {
		case 0:
			return strconv.FormatInt(sec, 10) + kit.Pick(r, []string{".5", ".25", ".75", ".125"}), true
		case 1:
			return kit.Pick(r, []string{"0.5", "-0.5", "-1.5", "1.000000001", "5.123456789", "1e-7", "0.1234567890123"}), true
		}
		return strconv.FormatFloat(float64(sec)+float64(r.Intn(1000000))/1e6, 'f', -1, 64), true
	}
}

func genJSON(r *rand.Rand) c13Input {
	in := c13Input{Format: "JSON", Stream: "json", Metrics: genMetrics(r)}
	fracOK := r.Intn(3) == 0 // about a third of the JSON cases may carry fractional epoch timestamps (finding F6)
	nl := r.Intn(16)
	var lines []string
	for i := 0; i < nl; i++ {
		switch k := r.Intn(40); {
		case k == 0:
			lines = append(lines, "")
			continue
		case k == 1:
			lines = append(lines, kit.Pick(r, []string{"null", " ", "{}", "{} "}))
			continue
		case k == 2 && r.Intn(3) == 0:
			lines = append(lines, kit.Pick(r, []string{`{"acc": "0.9"`, `[1,2]`, `"acc"`, `3`, `{"acc": 0.9,}`, `{'acc': '1'}`, `{"timestamp": 1e999, "acc": "1"}`, "{\"acc\": \"\xff\"}"}))
			continue
		}
		var kv []string
		if ts, ok := genJSONTimestamp(r, fracOK); ok {
			kv = append(kv, `"timestamp": `+ts)
		}
		nm := 1 + r.Intn(3)
		for j := 0; j < nm; j++ {
			var name string
			if len(in.Metrics) > 0 && r.Intn(4) != 0 {
				name = kit.Pick(r, in.Metrics)
			} else {
				name = kit.Pick(r, namePool)
			}
			var val string
			switch r.Intn(8) {
			case 0:
				val = genValue(r) // a JSON number or garbage: not a string, must be skipped ...
				if _, err := strconv.ParseFloat(val, 64); err != nil || strings.HasPrefix(val, ".") || strings.HasPrefix(val, "+") || strings.HasSuffix(val, ".") || strings.HasPrefix(val, "-.") || val == "NaN" {
					val = "0.5"
				}
			case 1:
				val = kit.Pick(r, []string{"true", "null", `["0.9"]`, `{"v": "0.9"}`, `""`, `" 0.5 "`, `"café"`, `"a\"b"`})
			default:
				val = strconv.Quote(genValue(r))
			}
			kv = append(kv, strconv.Quote(name)+": "+val)
		}
		if r.Intn(3) == 0 {
			kv = append(kv, `"global_step": "`+strconv.Itoa(i)+`"`, `"checkpoint_path": ""`)
		}
		r.Shuffle(len(kv), func(a, b int) { kv[a], kv[b] = kv[b], kv[a] })
		l := "{" + strings.Join(kv, ", ") + "}"
		if r.Intn(20) == 0 {
			l += "\r"
		}
		lines = append(lines, l)
	}
	in.Content = []byte(strings.Join(lines, "\n"))
	if r.Intn(3) == 0 && nl > 0 {
		in.Content = append(in.Content, '\n')
	}
	return in
}

func genRaw(r *rand.Rand) c13Input {
	in := c13Input{Stream: "raw", Metrics: genMetrics(r)}
	if len(in.Metrics) == 0 {
		in.Metrics = []string{"loss"}
	}
	if r.Intn(2) == 0 {
		in.Format = "TEXT"
		if r.Intn(3) == 0 {
			in.Filters = []string{`(\S+)\s*[:=]\s*(\S*)`}
		}
	} else {
		in.Format = "JSON"
	}
	n := r.Intn(160)
	b := make([]byte, 0, n)
	frag := []string{"\n", "\n", " ", "=", "\"", "{", "}", ":", ",", ".", "-", "1", "42", "0.5", "e", "\xc2", "\xa0", "\xe2\x80\x83", "\x00", "\xff",
		"2024-03-04T17:55:08Z ", "\"timestamp\"", "timestamp", "null", "\\", "[", "]"}
	for len(b) < n {
		switch r.Intn(5) {
		case 0, 1:
			b = append(b, byte(r.Intn(256)))
		case 2:
			b = append(b, kit.Pick(r, in.Metrics)...)
		default:
			b = append(b, kit.Pick(r, frag)...)
		}
	}
	if in.Format == "JSON" && r.Intn(2) == 0 {
		// a well-formed line mutated at one position
		l := []byte(fmt.Sprintf(`{"%s": "0.%d", "timestamp": %d}`, in.Metrics[0], r.Intn(100), 1638422847+r.Intn(1000)))
		if r.Intn(2) == 0 {
			l[r.Intn(len(l))] = byte(r.Intn(256))
		}
		b = append(append(l, '\n'), b[:len(b)/4]...)
	}
	in.Content = b
	return in
}

func (c13) Gen(r *rand.Rand, i, n int) any {
	if i%400 == 7 { // at least one log with a line longer than 64 KiB in every run (costly to evaluate: a few only)
		return genText(r, true)
	}
	switch k := r.Intn(100); {
	case k < 50:
		return genText(r, false)
	case k < 87:
		return genJSON(r)
	case k < 99:
		return genRaw(r)
	default:
		in := genText(r, false)
		in.Format = kit.Pick(r, []string{"", "text", "YAML"})
		in.Stream = "format"
		return in
	}
}

func (c13) Decode(raw json.RawMessage) (any, error) {
	var in c13Input
	err := json.Unmarshal(raw, &in)
	if len(in.Content) == 0 && in.Text != "" {
		in.Content = []byte(in.Text) // hand-written inputs (corpus, findings) give the text only
	}
	if in.Stream == "" {
		in.Stream = "replay"
	}
	return in, err
}

// ------------------------------------------------------------------------------------ run

// cstr prints a byte string as a Coq string literal in the escape form read by Corr/C13.v (U): printable ASCII as is,
// backslash and every other byte as backslash + two hex digits.
func cstr(s string) string {
	var b strings.Builder
	b.WriteByte('"')
	for i := 0; i < len(s); i++ {
		c := s[i]
		switch {
		case c == '"':
			b.WriteString(`""`)
		case c == '\\' || c < 32 || c > 126:
			fmt.Fprintf(&b, "\\%02x", c)
		default:
			b.WriteByte(c)
		}
	}
	b.WriteByte('"')
	return b.String()
}

// ctext prints a long text as a concatenation of short literals and run-length segments (a string literal of tens of
// kilobytes overflows Coq's parser stack): cat ["..."; rep_s 16500 "0.5 "; "..."].
func ctext(s string) string {
	if len(s) <= 3000 {
		return cstr(s)
	}
	var segs []string
	lit := 0 // start of the pending literal
	flush := func(end int) {
		for lit < end {
			e := lit + 3000
			if e > end {
				e = end
			}
			segs = append(segs, cstr(s[lit:e]))
			lit = e
		}
	}
	i := 0
	for i < len(s) {
		best, bestP := 0, 0
		for p := 1; p <= 4 && i+p <= len(s); p++ {
			n := 1
			for i+(n+1)*p <= len(s) && s[i+n*p:i+(n+1)*p] == s[i:i+p] {
				n++
			}
			if n*p > best*bestP {
				best, bestP = n, p
			}
		}
		if best*bestP >= 512 {
			flush(i)
			segs = append(segs, fmt.Sprintf("rep_s %d%%N %s", best, cstr(s[i:i+bestP])))
			i += best * bestP
			lit = i
			continue
		}
		i++
	}
	flush(len(s))
	return "(cat [" + strings.Join(segs, "; ") + "])"
}

func bigZ(z *big.Int) string {
	if z.Sign() < 0 {
		return "(" + z.String() + ")"
	}
	return z.String()
}

func instantOf(text string) (string, bool) {
	t, err := time.Parse(time.RFC3339Nano, text)
	if err != nil {
		return "None", false
	}
	z := new(big.Int).Mul(big.NewInt(t.Unix()), big.NewInt(1000000000))
	z.Add(z, big.NewInt(int64(t.Nanosecond())))
	return "(Some " + bigZ(z) + ")", true
}

func hasDup(ms []string) bool {
	seen := map[string]bool{}
	for _, m := range ms {
		if seen[m] {
			return true
		}
		seen[m] = true
	}
	return false
}

func (c13) Run(input any) kit.Case {
	in := input.(c13Input)
	in.Text = string(in.Content)
	content := string(in.Content)
	var c kit.Case
	c.Input = in

	dir, err := os.MkdirTemp("", "c13")
	if err != nil {
		panic(err)
	}
	defer os.RemoveAll(dir)
	fn := filepath.Join(dir, "metrics.log")
	if err := os.WriteFile(fn, in.Content, 0o600); err != nil {
		panic(err)
	}

	// ---- the implementation
	var olog *api_pb.ObservationLog
	var cerr error
	// the implementation is given copies of the two slices: everything the model is told below is computed from in
	cp := func(xs []string) []string {
		if xs == nil {
			return nil
		}
		return append([]string{}, xs...)
	}
	metricsArg, filtersArg := cp(in.Metrics), cp(in.Filters)
	pan := kit.Recover(func() {
		olog, cerr = filemc.CollectObservationLog(fn, metricsArg, filtersArg, commonv1beta1.FileFormat(in.Format))
	})

	// ---- library results for the model
	lines := strings.Split(content, "\n")
	format := 2
	switch in.Format {
	case "TEXT":
		format = 0
	case "JSON":
		format = 1
	}
	var mt, tt, jt []string
	var nocompile []string
	filterIDs := make([]string, len(in.Filters))
	tracked := map[string]bool{"timestamp": true}
	for _, m := range in.Metrics {
		tracked[m] = true
	}
	fracTS := false
	feat := map[string]bool{}
	if format == 0 {
		type fe struct {
			id int
			re *regexp.Regexp
		}
		var fes []fe
		for i, f := range in.Filters {
			filterIDs[i] = kit.Nat(i + 1)
			re, err := regexp.Compile(f)
			if err != nil {
				nocompile = append(nocompile, kit.Nat(i+1))
				continue
			}
			fes = append(fes, fe{i + 1, re})
		}
		if len(in.Filters) == 0 {
			fes = append(fes, fe{0, regexp.MustCompile(defaultFilter)})
		}
		seenLine := map[string]bool{}
		for li, l := range lines {
			if seenLine[l] {
				continue
			}
			seenLine[l] = true
			if i := strings.IndexByte(l, ' '); i >= 0 {
				if _, err := time.Parse(time.RFC3339Nano, l[:i]); err == nil {
					tt = append(tt, fmt.Sprintf("(%d, %d)", li, i))
					feat["text:line-with-rfc3339-field"] = true
				} else {
					feat["text:line-with-other-first-field"] = true
				}
			} else if l != "" {
				feat["text:line-without-blank"] = true
			}
			for _, f := range fes {
				ms := f.re.FindAllStringSubmatchIndex(l, -1)
				if len(ms) == 0 {
					continue
				}
				if len(ms) > 1 {
					feat["text:several-matches-in-a-line"] = true
				}
				for _, loc := range ms {
					if len(loc) >= 6 && loc[2] >= 0 && loc[4] >= 0 {
						g1, g2 := l[loc[2]:loc[3]], l[loc[4]:loc[5]]
						if strings.TrimSpace(g1) != g1 || strings.TrimSpace(g2) != g2 {
							feat["text:group-needs-trimming"] = true
						}
						if !tracked[strings.TrimSpace(g1)] {
							feat["text:match-for-untracked-name"] = true
						}
					}
				}
				mt = append(mt, fmt.Sprintf("(%s, %d, %s)", kit.Nat(f.id), li,
					kit.ListOf(ms, func(loc []int) string {
						var gs []string
						for g := 0; g+1 < len(loc) && g < 6; g += 2 {
							if loc[g] < 0 {
								gs = append(gs, "(-1, 0)")
							} else {
								gs = append(gs, fmt.Sprintf("(%d, %d)", loc[g], loc[g+1]))
							}
						}
						return kit.List(gs)
					})))
			}
		}
	} else {
		for i := range in.Filters {
			filterIDs[i] = kit.Nat(i + 1)
		}
	}
	if format == 1 {
		seenLine := map[string]bool{}
		for li, l := range lines {
			if l == "" || seenLine[l] {
				continue
			}
			seenLine[l] = true
			var obj map[string]interface{}
			if err := json.Unmarshal([]byte(l), &obj); err != nil {
				jt = append(jt, fmt.Sprintf("(%d, None)", li))
				feat["json:malformed-line"] = true
				continue
			}
			keys := make([]string, 0, len(obj))
			for k := range obj {
				if tracked[k] {
					keys = append(keys, k)
				}
			}
			sort.Strings(keys)
			kvs := kit.ListOf(keys, func(k string) string {
				switch v := obj[k].(type) {
				case string:
					if _, err := time.Parse(time.RFC3339Nano, v); err == nil {
						if k == "timestamp" {
							feat["json:rfc3339-string-timestamp"] = true
						}
						return fmt.Sprintf("(%s, JT %s)", cstr(k), cstr(v))
					}
					if k == "timestamp" {
						feat["json:invalid-string-timestamp"] = true
					}
					return fmt.Sprintf("(%s, JS %s)", cstr(k), cstr(v))
				case float64:
					if k == "timestamp" && v != math.Trunc(v) {
						fracTS = true
					} else if k == "timestamp" {
						feat["json:integral-epoch"] = true
					} else {
						feat["json:number-valued-metric"] = true
					}
					return fmt.Sprintf("(%s, JN %s)", cstr(k), cstr(strconv.FormatFloat(v, 'f', -1, 64)))
				default:
					return fmt.Sprintf("(%s, JX)", cstr(k))
				}
			})
			jt = append(jt, fmt.Sprintf("(%d, Some %s)", li, kvs))
		}
	}

	// ---- observed output
	var impl string
	nrec := 0
	switch {
	case pan != "":
		site := 0
		if strings.Contains(pan, "index out of range") {
			site = 1
		} else if strings.Contains(pan, "nil pointer") {
			site = 2
		}
		impl = fmt.Sprintf("(Crash %s)", kit.Nat(site))
		c.Observed = "panic: " + pan
		c.Tags = append(c.Tags, "out:panic")
	case cerr != nil:
		code := 9
		switch {
		case strings.HasPrefix(cerr.Error(), "failed to parse the json object"):
			code = 1
		case strings.HasPrefix(cerr.Error(), "format must be set"):
			code = 2
		}
		impl = fmt.Sprintf("(Err %s)", kit.Nat(code))
		c.Observed = "error: " + cerr.Error()
		c.Tags = append(c.Tags, "out:error")
	case olog == nil:
		impl = "(Err 8%nat)"
		c.Observed = "nil log, nil error"
	default:
		type orec struct{ TS, Name, Value string }
		var obs []orec
		recs := kit.ListOf(olog.MetricLogs, func(m *api_pb.MetricLog) string {
			inst := "None"
			if format == 1 {
				inst, _ = instantOf(m.TimeStamp)
			}
			obs = append(obs, orec{m.TimeStamp, m.Metric.Name, m.Metric.Value})
			return fmt.Sprintf("(%s, %s, %s, %s)", cstr(m.TimeStamp), inst, cstr(m.Metric.Name), cstr(m.Metric.Value))
		})
		nrec = len(obs)
		impl = "(Ok " + recs + ")"
		c.Observed = obs
		if nrec == 1 && obs[0].Value == "unavailable" {
			c.Tags = append(c.Tags, "out:unavailable")
		} else {
			c.Tags = append(c.Tags, "out:records")
		}
	}

	head := fmt.Sprintf("C13.Case %s %s %s %s %s", kit.Nat(format), kit.ListOf(in.Metrics, cstr), kit.List(filterIDs), kit.List(nocompile), ctext(content))
	c.Coq = fmt.Sprintf("%s %s %s %s %s", head, kit.List(mt), kit.List(tt), kit.List(jt), impl)
	c.Sig = head + " " + strings.Join(in.Filters, "\x00")
	c.Nontrivial = nrec >= 2 || pan != "" || cerr != nil

	// ---- known-finding domains, decided from the input alone
	switch {
	case format == 1 && fracTS:
		c.Key = kit.KeyIf("C13", "json-epoch-fraction", true)
	case format == 1 && hasDup(in.Metrics):
		c.Key = kit.KeyIf("C13", "json-duplicate-metric", true)
	}

	c.Tags = append(c.Tags, "stream:"+in.Stream, "format:"+map[int]string{0: "TEXT", 1: "JSON", 2: "other"}[format])
	for _, l := range lines {
		if len(l) > 65536 {
			c.Tags = append(c.Tags, "line-over-64KiB")
			break
		}
	}
	if format == 0 && in.Stream == "text" {
		switch {
		case len(in.Filters) == 0:
			c.Tags = append(c.Tags, "filters:default")
		case len(nocompile) > 0:
			c.Tags = append(c.Tags, "filters:invalid")
		case len(in.Filters) > 1:
			c.Tags = append(c.Tags, "filters:two")
		default:
			c.Tags = append(c.Tags, "filters:custom")
		}
	}
	if format == 1 && fracTS {
		c.Tags = append(c.Tags, "json:fractional-epoch")
	}
	var feats []string
	for k := range feat {
		feats = append(feats, k)
	}
	sort.Strings(feats)
	c.Tags = append(c.Tags, feats...)
	if len(in.Metrics) == 0 {
		c.Tags = append(c.Tags, "metrics:none")
	} else if hasDup(in.Metrics) {
		c.Tags = append(c.Tags, "metrics:duplicate")
	}
	switch {
	case len(lines) <= 3:
		c.Tags = append(c.Tags, "lines:0-3")
	case len(lines) <= 10:
		c.Tags = append(c.Tags, "lines:4-10")
	default:
		c.Tags = append(c.Tags, "lines:11+")
	}
	return c
}
