// c02 is the correspondence driver of property C02 (trials run exactly what the algorithm suggested):
// it runs the real manifest generator (GetRunSpecWithHyperParameters) and the real getTrialInstance of the katib tree
// on generated templates / experiments and writes Coq case files.
//
//	c02 c02 -seed S -n N -out DIR [-replay file] [-corpus dir]
package main

import (
	"os"

	"verifharness/internal/kit"
)

func main() { kit.Main(c02{}, os.Args[2:]) }
