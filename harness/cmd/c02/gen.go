package main

import (
	"fmt"
	"math/rand"

	"verifharness/internal/kit"
)

// ---------------------------------------------------------------- pools

var paramNames = []string{"lr", "lr2", "learningRate", "num-layers", "optimizer", "batch_size", "a.b", "x", "p1", "n[0]", "we ird", "a$b", "trialName", "ns"}
var assignNames = []string{"lr", "num_layers", "optimizer", "momentum", "x.y", "--b", "epochs", "${trialSpec", "trialSpec.Name", "lr "}
var labelKeys = []string{"app", "tier", "katib.kubeflow.org/x", "a.b", "k-1"}
var annotKeys = []string{"note", "sidecar.istio.io/inject", "owner", "x_y"}
var literalKeys = []string{"name", "image", "args", "env", "value", "command", "containers", "template", "spec", "restartPolicy", "resources", "limits", "x-y", "data"}

// literal snippets inside lits_ok (quoted contexts)
var snippets = []string{"", "--lr=", "python ", "/opt/train.py", "--", " ", "a b", "x=", "${HOME}", "$(POD)", "$$x", "a$b", "{}", "}{", "{{x}}",
	"${trialSpec.Name}", "${trialparameters.x}", "${trialParametersX.y}", "$ {", "#c", "100%", "a:b", "${tr}", "${trialParameter}", "img:v1", "--n=", ",", "-", "caf\u00e9 \u2713", "<a&b>", "\\n", "say \"hi\"", "it's"}

// first literal of a plain YAML scalar
var plainHeads = []string{"--lr=", "--opt=", "arg/", "x=", "--flag-", "--${HOME}="}

const safeAlphabet = "abcdefghijklmnopqrstuvwxyzABCDEFGHIJKLMNOPQRSTUVWXYZ0123456789._-/=+"

func safeValue(r *rand.Rand) string {
	switch r.Intn(10) {
	case 0:
		return ""
	case 1:
		return kit.Pick(r, []string{"0.01", "12", "1e-3", "sgd", "adam", "0.5", "-1", "true", "null", "007"})
	case 2:
		return kit.Pick(r, []string{"trialParameters.lr", "ameters.x", ".b", "lr", "x", "tr"}) // look-alikes of placeholder pieces, still safe
	}
	n := 1 + r.Intn(8)
	b := make([]byte, n)
	for i := range b {
		b[i] = safeAlphabet[r.Intn(len(safeAlphabet))]
	}
	return string(b)
}

func pickDistinct(r *rand.Rand, pool []string, n int) []string {
	idx := r.Perm(len(pool))
	if n > len(pool) {
		n = len(pool)
	}
	res := make([]string, n)
	for i := 0; i < n; i++ {
		res[i] = pool[idx[i]]
	}
	return res
}

// ---------------------------------------------------------------- documents

type docGen struct {
	r       *rand.Rand
	names   []string // declared placeholder names that may be used
	extra   []string // undeclared names (rare)
	yaml    bool
	dollar  bool // allow a literal ending in '$' (outside lits_ok, benign with safe values)
	keyN    int
	used    map[string]int
	leafCnt int
}

func (g *docGen) anyName() (string, bool) {
	if len(g.extra) > 0 && g.r.Intn(6) == 0 {
		return kit.Pick(g.r, g.extra), true
	}
	if len(g.names) == 0 {
		return "", false
	}
	// prefer names not used yet so that every declared parameter occurs
	for _, n := range g.names {
		if g.used[n] == 0 && g.r.Intn(2) == 0 {
			return n, true
		}
	}
	return kit.Pick(g.r, g.names), true
}

func (g *docGen) chunks(allowEmpty bool) []chunk {
	var cs []chunk
	n := g.r.Intn(5)
	if n == 0 && !allowEmpty {
		n = 1
	}
	for i := 0; i < n; i++ {
		if g.r.Intn(2) == 0 {
			if nm, ok := g.anyName(); ok {
				cs = append(cs, ph(nm))
				g.used[nm]++
				continue
			}
		}
		s := kit.Pick(g.r, snippets)
		if g.dollar && g.r.Intn(4) == 0 {
			s = kit.Pick(g.r, []string{"cost$", "$", "a$"})
		}
		cs = append(cs, lit(s))
	}
	return cs
}

func (g *docGen) strLeaf() *node {
	g.leafCnt++
	n := &node{Kind: "str", Style: "dq"}
	if g.yaml {
		switch g.r.Intn(4) {
		case 0:
			n.Style = "sq"
		case 1:
			n.Style = "plain"
			n.Str = append([]chunk{lit(kit.Pick(g.r, plainHeads))}, g.plainTail()...)
			return n
		}
	}
	n.Str = g.chunks(true)
	return n
}

// rest of a plain scalar: placeholders and plain-safe text only
func (g *docGen) plainTail() []chunk {
	var cs []chunk
	for i, n := 0, g.r.Intn(3); i < n; i++ {
		if nm, ok := g.anyName(); ok && g.r.Intn(3) > 0 {
			cs = append(cs, ph(nm))
			g.used[nm]++
		} else {
			cs = append(cs, lit(kit.Pick(g.r, []string{"-", "/x", "=", ".", "${HOME}", "a$b"})))
		}
	}
	return cs
}

func (g *docGen) key(existing map[string]bool) []chunk {
	for {
		var cs []chunk
		if g.r.Intn(5) == 0 && len(g.names) > 0 {
			// a key carrying placeholders: unique literal head keeps the sorted order stable under substitution
			g.keyN++
			cs = []chunk{lit(fmt.Sprintf("k%d_", g.keyN))}
			nm, _ := g.anyName()
			cs = append(cs, ph(nm))
			g.used[nm]++
			if g.r.Intn(2) == 0 {
				cs = append(cs, lit(kit.Pick(g.r, []string{"-x", "", "_"})))
			}
		} else {
			cs = []chunk{lit(kit.Pick(g.r, literalKeys))}
		}
		if k := render(cs); !existing[k] {
			existing[k] = true
			return cs
		}
	}
}

func (g *docGen) tree(depth int) *node {
	c := g.r.Intn(10)
	if depth <= 0 {
		c = 4 + g.r.Intn(6)
	}
	switch {
	case c < 2:
		n := &node{Kind: "map"}
		ex := map[string]bool{}
		for i, k := 0, g.r.Intn(4); i < k; i++ {
			n.Map = append(n.Map, kvNode{Key: g.key(ex), Val: g.tree(depth - 1)})
		}
		return n
	case c < 4:
		n := &node{Kind: "list"}
		for i, k := 0, g.r.Intn(4); i < k; i++ {
			n.List = append(n.List, g.tree(depth-1))
		}
		return n
	case c < 8:
		return g.strLeaf()
	case c == 8:
		switch g.r.Intn(4) {
		case 0:
			if g.r.Intn(3) == 0 { // integers beyond 2^53 (seeds, byte sizes, nanosecond time stamps): exact as JSON numbers, not as float64
				return &node{Kind: "int", Int: int64(1)<<53 + 1 + g.r.Int63n(int64(1)<<62)}
			}
			return &node{Kind: "int", Int: int64(g.r.Intn(100))}
		case 1:
			return &node{Kind: "float", Float: float64(g.r.Intn(100)) + 0.5}
		case 2:
			return &node{Kind: "bool", Bool: g.r.Intn(2) == 0}
		}
		return &node{Kind: "null"}
	}
	return g.strLeaf()
}

func litMap(pairs []kv) *node {
	n := &node{Kind: "map"}
	for _, p := range pairs {
		n.Map = append(n.Map, kvNode{Key: []chunk{lit(p.K)}, Val: strNode(lit(p.V))})
	}
	return n
}

// document = a Job-like object; labels/annotations that meta references may read are literal and safe.
func (g *docGen) document(labels, annots []kv) *node {
	kind := kit.Pick(g.r, []string{"Job", "TFJob", "PyTorchJob", "Workflow"})
	apiv := kit.Pick(g.r, []string{"batch/v1", "kubeflow.org/v1", "argoproj.io/v1alpha1"})
	doc := &node{Kind: "map"}
	doc.Map = append(doc.Map, kvNode{Key: []chunk{lit("apiVersion")}, Val: strNode(lit(apiv))})
	doc.Map = append(doc.Map, kvNode{Key: []chunk{lit("kind")}, Val: strNode(lit(kind))})
	if len(labels) > 0 || len(annots) > 0 || g.r.Intn(4) == 0 {
		md := &node{Kind: "map"}
		if len(labels) > 0 {
			md.Map = append(md.Map, kvNode{Key: []chunk{lit("labels")}, Val: litMap(labels)})
		}
		if len(annots) > 0 || g.r.Intn(3) == 0 {
			an := litMap(annots)
			if g.r.Intn(2) == 0 { // an annotation nobody references may itself carry placeholders
				an.Map = append(an.Map, kvNode{Key: []chunk{lit("zz-free")}, Val: g.strLeaf()})
			}
			md.Map = append(md.Map, kvNode{Key: []chunk{lit("annotations")}, Val: an})
		}
		doc.Map = append(doc.Map, kvNode{Key: []chunk{lit("metadata")}, Val: md})
	}
	// spec: a realistic container with args, then a random subtree
	args := &node{Kind: "list"}
	for i, k := 0, 1+g.r.Intn(4); i < k; i++ {
		args.List = append(args.List, g.strLeaf())
	}
	container := &node{Kind: "map", Map: []kvNode{
		{Key: []chunk{lit("name")}, Val: strNode(lit("training-container"))},
		{Key: []chunk{lit("image")}, Val: g.strLeaf()},
		{Key: []chunk{lit("command")}, Val: args},
	}}
	spec := &node{Kind: "map", Map: []kvNode{
		{Key: []chunk{lit("containers")}, Val: &node{Kind: "list", List: []*node{container}}},
		{Key: []chunk{lit("restartPolicy")}, Val: strNode(lit("Never"))},
	}}
	if g.r.Intn(2) == 0 {
		spec.Map = append(spec.Map, kvNode{Key: []chunk{lit("extra")}, Val: g.tree(3)})
	}
	// make sure every declared name occurs somewhere (the validator's rule)
	var missing []chunk
	for _, n := range g.names {
		if g.used[n] == 0 && g.r.Intn(8) > 0 {
			missing = append(missing, lit(" --p="), ph(n))
			g.used[n]++
		}
	}
	if len(missing) > 0 {
		spec.Map = append(spec.Map, kvNode{Key: []chunk{lit("tail")}, Val: strNode(missing...)})
	}
	doc.Map = append(doc.Map, kvNode{Key: []chunk{lit("spec")}, Val: &node{Kind: "map", Map: []kvNode{
		{Key: []chunk{lit("template")}, Val: &node{Kind: "map", Map: []kvNode{{Key: []chunk{lit("spec")}, Val: spec}}}}}}})
	// shuffle the top level (map order is irrelevant)
	g.r.Shuffle(len(doc.Map), func(i, j int) { doc.Map[i], doc.Map[j] = doc.Map[j], doc.Map[i] })
	return doc
}

// ---------------------------------------------------------------- generator inputs

func metaRef(r *rand.Rand, labels, annots []kv) string {
	switch c := r.Intn(8); {
	case c == 0:
		return "${trialSpec.Name}"
	case c == 1:
		return "${trialSpec.Namespace}"
	case c == 2:
		return "${trialSpec.Kind}"
	case c == 3:
		return "${trialSpec.APIVersion}"
	case c <= 5 && len(labels) > 0:
		return "${trialSpec.Labels[" + kit.Pick(r, labels).K + "]}"
	case len(annots) > 0:
		return "${trialSpec.Annotations[" + kit.Pick(r, annots).K + "]}"
	}
	return "${trialSpec.Name}"
}

var badMetaRefs = []string{"${trialSpec.Foo}", "${trialSpec.Labels[nokey]}", "${trialSpec.Labels}", "${trialSpec.Annotations}", "${trialSpec.Annotations[a][b]}",
	"${trialSpec.Name[x]}", "x${trialSpec.Kind}y", "${trialSpec.}", "${trialSpec.Labels[]}", "${trialSpec.name}", "${trialSpec.Labels[app]]}", "${trialSpec.Labels[app]",
	"${trialSpec.Labels[k[1]]}", "${trialSpec.[app]}", "${trialSpec.}}", "$${trialSpec.Namespace}", "${trialSpec.Labels [app]}", "${trialSpec.Kind} ${trialSpec.Name}",
	"${trialSpec.Na\nme}", "${trialSpec.Labels[a\nb]}", "${trialSpec.\n}${trialSpec.Namespace}", "${trialSpec.Labels[app]}\n", "${trialSpec.Annotations[note]x}", "${trialSpec.Labels[app][tier]}"}

func genGen(r *rand.Rand, malformed bool) *genInput {
	in := &genInput{CMExists: true, PathExists: true}
	in.Source = kit.Pick(r, []string{"inline", "inline", "cm-json", "cm-yaml"})
	in.TrialName = kit.Pick(r, []string{"exp-x7k2p9qd", "random-abc", "t-1", "e"})
	in.TrialNS = kit.Pick(r, []string{"kubeflow", "ns1", "default", "kubeflow-user-example-com"})
	in.Class = "ok"

	var labels, annots []kv
	for _, k := range pickDistinct(r, labelKeys, r.Intn(3)) {
		labels = append(labels, kv{k, safeValue(r)})
	}
	for _, k := range pickDistinct(r, annotKeys, r.Intn(3)) {
		annots = append(annots, kv{k, safeValue(r)})
	}

	np := r.Intn(7)
	names := pickDistinct(r, paramNames, np)
	refs := pickDistinct(r, assignNames, np)
	for i, n := range names {
		if r.Intn(3) == 0 {
			in.Params = append(in.Params, kv{n, metaRef(r, labels, annots)})
		} else {
			in.Params = append(in.Params, kv{n, refs[i]})
			in.Assign = append(in.Assign, kv{refs[i], safeValue(r)})
		}
	}
	r.Shuffle(len(in.Assign), func(i, j int) { in.Assign[i], in.Assign[j] = in.Assign[j], in.Assign[i] })

	g := &docGen{r: r, names: names, yaml: in.Source == "cm-yaml", used: map[string]int{}}
	if r.Intn(10) == 0 {
		g.extra = []string{"undeclared"}
		in.Class = "undeclared-placeholder"
	}
	if r.Intn(8) == 0 {
		g.dollar = true
		in.Class = "literal-ends-in-dollar"
	}

	if malformed {
		switch c := r.Intn(13); c {
		case 0: // an assignment is missing
			if len(in.Assign) > 0 {
				in.Assign = in.Assign[1:]
				in.Class = "missing-assignment"
			}
		case 1: // an assignment nobody consumes
			in.Assign = append(in.Assign, kv{"unused-" + safeValue(r), safeValue(r)})
			in.Class = "extra-assignment"
		case 2, 3, 4: // bad or unusual meta references
			n := "m" + fmt.Sprint(r.Intn(3))
			p := kv{n, kit.Pick(r, badMetaRefs)}
			pos := r.Intn(len(in.Params) + 1)
			in.Params = append(in.Params[:pos], append([]kv{p}, in.Params[pos:]...)...)
			g.names = append(g.names, n)
			in.Class = "odd-meta-reference"
			if r.Intn(2) == 0 { // an indexed reference first, so that an index-less one could see a stale index
				q := kv{"m9", metaRef(r, labels, annots)}
				in.Params = append([]kv{q}, in.Params...)
				g.names = append(g.names, "m9")
			}
		case 5: // the ConfigMap does not exist
			in.Source = kit.Pick(r, []string{"cm-json", "cm-yaml"})
			in.CMExists = false
			in.Class = "configmap-missing"
		case 6: // the path is not a key of the ConfigMap
			in.Source = kit.Pick(r, []string{"cm-json", "cm-yaml"})
			in.PathExists = false
			in.Class = "template-path-missing"
		case 7: // the ConfigMap text is not a document
			in.Source = "cm-yaml"
			in.Garbage = kit.Pick(r, []string{"a: [1, 2", "{\"a\": ", "a: b: c", "\t- x", "- a\nb: c"})
			in.Class = "template-unparsable"
		case 8: // duplicate trial parameter names
			if len(in.Params) > 0 {
				p := in.Params[r.Intn(len(in.Params))]
				v := safeValue(r)
				in.Params = append(in.Params, kv{p.K, "dup-ref"})
				in.Assign = append(in.Assign, kv{"dup-ref", v})
				in.Class = "duplicate-parameter-name"
			}
		case 9: // duplicate references / duplicate assignment names
			if len(in.Assign) > 0 {
				a := in.Assign[r.Intn(len(in.Assign))]
				if r.Intn(2) == 0 {
					in.Assign = append(in.Assign, kv{a.K, safeValue(r)})
				} else {
					in.Params = append(in.Params, kv{"dupref", a.K})
					g.names = append(g.names, "dupref")
				}
				in.Class = "duplicate-reference-or-assignment"
			}
		case 10: // no parameters but assignments
			in.Params = nil
			g.names = nil
			in.Assign = []kv{{"lr", "0.1"}}
			in.Class = "extra-assignment"
		case 12: // an index-less Labels/Annotations reference right after an indexed one (finding meta-stale-index)
			if len(labels) == 0 {
				labels = append(labels, kv{"app", safeValue(r)})
			}
			if len(annots) == 0 || r.Intn(2) == 0 {
				annots = append(annots, kv{labels[0].K, safeValue(r)})
			}
			in.Params = append(in.Params, kv{"s1", "${trialSpec.Labels[" + labels[0].K + "]}"}, kv{"s2", kit.Pick(r, []string{"${trialSpec.Labels}", "${trialSpec.Annotations}"})})
			g.names = append(g.names, "s1", "s2")
			in.Class = "index-less-after-indexed"
		case 11: // meta reference to a label the template does not have
			in.Params = append(in.Params, kv{"mlabel", "${trialSpec.Labels[absent]}"})
			g.names = append(g.names, "mlabel")
			in.Class = "odd-meta-reference"
		}
	}
	in.Doc = g.document(labels, annots)
	return in
}

// ---------------------------------------------------------------- getTrialInstance inputs

func genTrial(r *rand.Rand) *trialInput {
	in := &trialInput{HasTemplate: r.Intn(25) > 0}
	in.ExpName = kit.Pick(r, []string{"random-exp", "e", "tpe-1"})
	in.ExpNS = kit.Pick(r, []string{"kubeflow", "ns1", "default"})
	in.ExpUID = kit.Pick(r, []string{"", "uid-1", "8f2c"})
	for _, k := range pickDistinct(r, []string{"team", "katib.kubeflow.org/experiment", "app", "x/y"}, r.Intn(4)) {
		in.ExpLabels = append(in.ExpLabels, kv{k, kit.Pick(r, []string{"a", "b", "other-exp", ""})})
	}
	in.Objective = r.Intn(4)
	in.EarlyStop = r.Intn(2) == 0
	in.Retain = r.Intn(2) == 0
	in.PPLNil = r.Intn(2) == 0
	if !in.PPLNil {
		for _, k := range pickDistinct(r, []string{"role", "training.kubeflow.org/job-role"}, r.Intn(3)) {
			in.PPL = append(in.PPL, kv{k, kit.Pick(r, []string{"master", "worker"})})
		}
	}
	in.PCN = kit.Pick(r, []string{"", "main", "training-container"})
	in.Succ = kit.Pick(r, []string{"", "status.conditions.#(type==\"Complete\")#|#(status==\"True\")#", "ok"})
	in.Fail = kit.Pick(r, []string{"", "status.conditions.#(type==\"Failed\")#|#(status==\"True\")#", "bad"})
	in.Collector = r.Intn(4)
	np := r.Intn(4)
	names := pickDistinct(r, []string{"lr", "layers", "opt"}, np)
	for _, n := range names {
		in.TplParams = append(in.TplParams, kv{n, n})
		in.TplArgs = append(in.TplArgs, lit(" --"+n+"="), ph(n))
		in.AsgParams = append(in.AsgParams, kv{n, safeValue(r)})
	}
	if r.Intn(8) == 0 && len(in.AsgParams) > 0 { // the generator will fail
		in.AsgParams = in.AsgParams[1:]
	}
	if r.Intn(8) == 0 {
		in.TplParams = append(in.TplParams, kv{"tn", "${trialSpec.Name}"}, kv{"tns", "${trialSpec.Namespace}"})
		in.TplArgs = append(in.TplArgs, lit(" --name="), ph("tn"), lit("."), ph("tns"))
	}
	in.AsgName = in.ExpName + "-" + kit.Pick(r, []string{"x7k2p9qd", "abc", "1"})
	for i, k := 0, r.Intn(3); i < k; i++ {
		in.AsgRules = append(in.AsgRules, 1+r.Intn(3))
	}
	in.AsgLabelsNil = r.Intn(3) == 0
	if !in.AsgLabelsNil {
		for _, k := range pickDistinct(r, []string{"algo", "team", "katib.kubeflow.org/experiment", "fold"}, r.Intn(4)) {
			in.AsgLabels = append(in.AsgLabels, kv{k, kit.Pick(r, []string{"1", "b", "hijack"})})
		}
	}
	if r.Intn(2) == 0 {
		pv := &prevAsg{Name: in.ExpName + "-" + kit.Pick(r, []string{"prev0001", "zzz"})}
		for _, p := range in.AsgParams {
			pv.Params = append(pv.Params, kv{p.K, safeValue(r)})
		}
		for i, k := 0, r.Intn(3); i < k; i++ {
			pv.Rules = append(pv.Rules, 1+r.Intn(3))
		}
		for _, k := range pickDistinct(r, []string{"algo", "parent", "generation", "fold", "team"}, 1+r.Intn(3)) {
			pv.Labels = append(pv.Labels, kv{k, kit.Pick(r, []string{"p1", "p2", "other"})})
		}
		in.Prev = pv
	}
	return in
}
