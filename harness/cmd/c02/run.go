package main

import (
	"encoding/json"
	"fmt"
	"math/rand"
	"reflect"
	"regexp"
	"sort"
	"strings"

	"github.com/prometheus/client_golang/prometheus"
	corev1 "k8s.io/api/core/v1"
	metav1 "k8s.io/apimachinery/pkg/apis/meta/v1"
	"k8s.io/apimachinery/pkg/apis/meta/v1/unstructured"
	"k8s.io/apimachinery/pkg/runtime"
	"k8s.io/apimachinery/pkg/types"
	"k8s.io/client-go/tools/record"
	"sigs.k8s.io/controller-runtime/pkg/client"
	"sigs.k8s.io/controller-runtime/pkg/client/fake"

	apis "github.com/kubeflow/katib/pkg/apis/controller"
	commonv1beta1 "github.com/kubeflow/katib/pkg/apis/controller/common/v1beta1"
	experimentsv1beta1 "github.com/kubeflow/katib/pkg/apis/controller/experiments/v1beta1"
	suggestionsv1beta1 "github.com/kubeflow/katib/pkg/apis/controller/suggestions/v1beta1"
	trialsv1beta1 "github.com/kubeflow/katib/pkg/apis/controller/trials/v1beta1"
	"github.com/kubeflow/katib/pkg/controller.v1beta1/consts"
	"github.com/kubeflow/katib/pkg/controller.v1beta1/experiment"
	"github.com/kubeflow/katib/pkg/controller.v1beta1/experiment/manifest"
	expsug "github.com/kubeflow/katib/pkg/controller.v1beta1/experiment/suggestion"
	exputil "github.com/kubeflow/katib/pkg/controller.v1beta1/experiment/util"
	"github.com/kubeflow/katib/pkg/controller.v1beta1/util"

	"verifharness/internal/kit"
)

type c02 struct{}

func (c02) Name() string      { return "c02" }
func (c02) CoqModule() string { return "C02" }
func (c02) Rule() string {
	return "Two kinds of cases. (gen, ~85%) GetRunSpecWithHyperParameters of the real manifest generator on a Job-like document whose map keys and " +
		"string leaves are chunk lists (literal snippets incl. shell-style ${VAR}, $(X), braces, text resembling placeholders / placeholder occurrences, " +
		"several per leaf, at random depths), given inline (the code sees MarshalJSON of the object) or through a ConfigMap in a fake client as JSON or " +
		"as YAML text (double-quoted, single-quoted and plain scalars); 0-6 trial parameters with distinct names, about a third of them metadata " +
		"references (Name, Namespace, Kind, APIVersion, Labels[k], Annotations[k]); one assignment with a safe value ([A-Za-z0-9._/=+-]*, may be empty or " +
		"look like a piece of a placeholder) per non-meta parameter, shuffled. ~1/8 of the templates have literals ending in '$' (outside lits_ok), ~1/10 an " +
		"undeclared placeholder. A malformed stream (~25%): missing / extra assignment, 18 odd metadata references, missing ConfigMap, missing path, " +
		"unparsable text, duplicate names / references / assignments. (trial, ~15%) getTrialInstance of the real experiment reconciler (real generator, " +
		"fake client) on random experiments (labels incl. the experiment-name key, objective, early stopping, template fields, collector) and assignments " +
		"(parameters, rules, labels nil/empty/overriding); 1/8 with a failing generator, 1/25 without trial template. " +
		"Non-trivial: gen cases with >= 2 trial parameters and >= 3 placeholder occurrences, or any malformed class; trial cases with an experiment label and a parameter. " +
		"Distinct: by the Coq term of the input."
}

var scheme = func() *runtime.Scheme {
	s := runtime.NewScheme()
	_ = apis.AddToScheme(s)
	_ = corev1.AddToScheme(s)
	return s
}()

func (c02) Gen(r *rand.Rand, i, n int) any {
	if r.Intn(100) < 15 {
		return c02Input{Mode: "trial", Trial: genTrial(r)}
	}
	return c02Input{Mode: "gen", Gen: genGen(r, r.Intn(100) < 28)}
}

func (c02) Decode(raw json.RawMessage) (any, error) {
	var in c02Input
	err := json.Unmarshal(raw, &in)
	if err == nil && in.Gen == nil && in.Trial == nil {
		err = fmt.Errorf("neither gen nor trial input")
	}
	return in, err
}

func (c02) Run(input any) kit.Case {
	in := input.(c02Input)
	var c kit.Case
	if in.Mode == "trial" {
		c = runTrial(in.Trial)
	} else {
		c = runGen(in.Gen)
	}
	c.Input = in
	return c
}

// ---------------------------------------------------------------- helpers

func errCode(err error, templateParses bool) int {
	m := err.Error()
	switch {
	case strings.Contains(m, "configMap not found"):
		return 1
	case strings.Contains(m, "unable to find trial template in ConfigMap"):
		return 2
	case strings.Contains(m, "failed to convert string to unstructured"):
		if templateParses {
			return 7
		}
		return 3
	case strings.Contains(m, "unable to find non-meta parameter from TrialParameters in ParameterAssignment"):
		return 4
	case strings.Contains(m, "illegal reference of trial metadata"):
		return 5
	case strings.Contains(m, "unable to find parameter from ParameterAssignment in TrialParameters"):
		return 6
	}
	return 99
}

func pairList(ps []kv) string {
	return kit.ListOf(ps, func(p kv) string { return kit.Pair(kit.Str(p.K), kit.Str(p.V)) })
}

func mapPairs(m map[string]string) []kv {
	keys := make([]string, 0, len(m))
	for k := range m {
		keys = append(keys, k)
	}
	sort.Strings(keys)
	res := make([]kv, 0, len(m))
	for _, k := range keys {
		res = append(res, kv{k, m[k]})
	}
	return res
}

func chunkList(cs []chunk) string {
	return kit.ListOf(cs, func(c chunk) string {
		if c.P {
			return "TP " + kit.Str(c.S)
		}
		return "TL " + kit.Str(c.S)
	})
}

const (
	cmName = "trial-templates"
	cmNS   = "kubeflow"
	cmPath = "template.yaml"
)

func (in *genInput) templateText() string {
	switch {
	case in.Garbage != "":
		return in.Garbage
	case in.Source == "cm-yaml":
		return in.Doc.yamlText()
	}
	b, _ := json.MarshalIndent(in.Doc.toObj(), "", " ")
	return string(b)
}

func (in *genInput) experiment() (*experimentsv1beta1.Experiment, []client.Object) {
	e := &experimentsv1beta1.Experiment{ObjectMeta: metav1.ObjectMeta{Name: "e", Namespace: in.TrialNS}}
	tt := &experimentsv1beta1.TrialTemplate{PrimaryContainerName: "training-container"}
	for _, p := range in.Params {
		tt.TrialParameters = append(tt.TrialParameters, experimentsv1beta1.TrialParameterSpec{Name: p.K, Reference: p.V})
	}
	var objs []client.Object
	if in.Source == "inline" {
		tt.TrialSource.TrialSpec = &unstructured.Unstructured{Object: in.Doc.toObj().(map[string]interface{})}
	} else {
		path := cmPath
		if !in.PathExists {
			path = "other.yaml"
		}
		tt.TrialSource.ConfigMap = &experimentsv1beta1.ConfigMapSource{ConfigMapName: cmName, ConfigMapNamespace: cmNS, TemplatePath: path}
		if in.CMExists {
			objs = append(objs, &corev1.ConfigMap{ObjectMeta: metav1.ObjectMeta{Name: cmName, Namespace: cmNS},
				Data: map[string]string{cmPath: in.templateText(), "unrelated": "x: y"}})
		}
	}
	e.Spec.TrialTemplate = tt
	return e, objs
}

var reMeta = regexp.MustCompile(consts.TrialTemplateMetaReplaceFormatRegex)
var reIndex = regexp.MustCompile(consts.TrialTemplateMetaParseFormatRegex)

// staleIndexDomain: decided from the input alone. A reference ${trialSpec.Labels} / ${trialSpec.Annotations} without index of its
// own, after a trial parameter whose reference carried an index (finding C02/meta-stale-index).
func staleIndexDomain(ps []kv) bool {
	indexed := false
	for _, p := range ps {
		sub := reMeta.FindStringSubmatch(p.V)
		if len(sub) == 0 {
			continue
		}
		if reIndex.MatchString(sub[1]) {
			indexed = true
			continue
		}
		if indexed && (sub[1] == consts.TrialTemplateMetaKeyOfLabels || sub[1] == consts.TrialTemplateMetaKeyOfAnnotations) {
			return true
		}
	}
	return false
}

// ---------------------------------------------------------------- gen cases

func runGen(in *genInput) kit.Case {
	var c kit.Case
	e, objs := in.experiment()
	cl := fake.NewClientBuilder().WithScheme(scheme).WithObjects(objs...).Build()
	g := manifest.New(cl)
	var assigns []commonv1beta1.ParameterAssignment
	for _, a := range in.Assign {
		assigns = append(assigns, commonv1beta1.ParameterAssignment{Name: a.K, Value: a.V})
	}

	// library results the model takes as inputs: what the decoder makes of the UNSUBSTITUTED template text
	var tplText string
	if in.Source == "inline" {
		tplText, _ = util.ConvertUnstructuredToString(e.Spec.TrialTemplate.TrialSpec)
	} else {
		tplText = in.templateText()
	}
	tplObj, perr := util.ConvertStringToUnstructured(tplText)
	parses := perr == nil
	kind, apiv := "", ""
	var labels, annots []kv
	if parses {
		kind, apiv = tplObj.GetKind(), tplObj.GetAPIVersion()
		labels, annots = mapPairs(tplObj.GetLabels()), mapPairs(tplObj.GetAnnotations())
	}

	var tplLeaves [][]chunk
	in.Doc.leaves(&tplLeaves)
	if parses && in.Garbage == "" {
		var got []string
		objLeaves(tplObj.Object, &got)
		want := make([]string, len(tplLeaves))
		for i, l := range tplLeaves {
			want[i] = render(l)
		}
		if !reflect.DeepEqual(got, want) {
			c.GoViol = fmt.Sprintf("harness inconsistency: decoded template leaves %q differ from the generated chunks %q", got, want)
		}
	}

	var rs *unstructured.Unstructured
	var err error
	pan := kit.Recover(func() { rs, err = g.GetRunSpecWithHyperParameters(e, in.TrialName, in.TrialNS, assigns) })

	var impl string
	switch {
	case pan != "":
		impl = "(Crash 0%nat)"
		c.Observed = "panic: " + pan
	case err != nil:
		impl = fmt.Sprintf("(Err %s)", kit.Nat(errCode(err, parses)))
		c.Observed = "error: " + err.Error()
	default:
		obj := runtime.DeepCopyJSON(rs.Object)
		unstructured.RemoveNestedField(obj, "metadata", "name")
		unstructured.RemoveNestedField(obj, "metadata", "namespace")
		if md, ok := obj["metadata"].(map[string]interface{}); ok && len(md) == 0 && parses {
			if _, had := tplObj.Object["metadata"]; !had {
				delete(obj, "metadata")
			}
		}
		var got []string
		objLeaves(obj, &got)
		same := parses && reflect.DeepEqual(skeleton(obj), skeleton(tplObj.Object))
		if parses && in.Garbage == "" {
			// the numbers and booleans of the generated document (the harness's own tree, not what katib's decoder made of it)
			var wantSc, gotSc []string
			scalars(in.Doc.toObj(), &wantSc)
			scalars(obj, &gotSc)
			sort.Strings(wantSc)
			sort.Strings(gotSc)
			if !reflect.DeepEqual(wantSc, gotSc) && c.GoViol == "" {
				c.GoViol = fmt.Sprintf("the run spec does not carry the template's numbers and booleans unchanged: template %v, run spec %v", wantSc, gotSc)
			}
		}
		impl = fmt.Sprintf("(Ok (GObs %s %s %s %s))", kit.ListOf(got, kit.Str), kit.Str(rs.GetName()), kit.Str(rs.GetNamespace()), kit.Bool(same))
		c.Observed = rs.Object
	}

	var src string
	if in.Source == "inline" {
		src = "GInline"
	} else {
		keys := "None"
		if in.CMExists {
			keys = "(Some " + kit.ListOf([]string{cmPath, "unrelated"}, kit.Str) + ")"
		}
		path := cmPath
		if !in.PathExists {
			path = "other.yaml"
		}
		src = fmt.Sprintf("(GConfigMap %s %s %s)", keys, kit.Str(path), kit.Bool(parses))
	}
	inputTerm := fmt.Sprintf("%s %s %s %s %s %s %s %s %s %s", src, pairList(in.Params), pairList(in.Assign),
		kit.Str(in.TrialName), kit.Str(in.TrialNS), kit.Str(kind), kit.Str(apiv), pairList(annots), pairList(labels),
		kit.ListOf(tplLeaves, chunkList))
	c.Coq = fmt.Sprintf("CG (GCase %s %s)", inputTerm, impl)
	c.Sig = inputTerm
	c.Key = kit.KeyIf("C02", "meta-stale-index", staleIndexDomain(in.Params))

	occ := 0
	for _, l := range tplLeaves {
		for _, ch := range l {
			if ch.P {
				occ++
			}
		}
	}
	c.Nontrivial = (len(in.Params) >= 2 && occ >= 3) || (in.Class != "ok" && in.Class != "undeclared-placeholder" && in.Class != "literal-ends-in-dollar")
	c.Tags = []string{"kind:gen", "source:" + in.Source, "class:" + in.Class, fmt.Sprintf("params:%d", len(in.Params))}
	switch {
	case occ == 0:
		c.Tags = append(c.Tags, "occurrences:0")
	case occ <= 3:
		c.Tags = append(c.Tags, "occurrences:1-3")
	case occ <= 8:
		c.Tags = append(c.Tags, "occurrences:4-8")
	default:
		c.Tags = append(c.Tags, "occurrences:9+")
	}
	if err != nil {
		c.Tags = append(c.Tags, fmt.Sprintf("impl:error-%d", errCode(err, parses)))
	} else if pan == "" {
		c.Tags = append(c.Tags, "impl:ok")
	}
	return c
}

// ---------------------------------------------------------------- trial cases

var objectives = []*commonv1beta1.ObjectiveSpec{nil,
	{Type: commonv1beta1.ObjectiveTypeMaximize, ObjectiveMetricName: "acc"},
	{Type: commonv1beta1.ObjectiveTypeMinimize, ObjectiveMetricName: "loss", AdditionalMetricNames: []string{"acc"}},
	{Type: commonv1beta1.ObjectiveTypeMaximize, ObjectiveMetricName: "f1", MetricStrategies: []commonv1beta1.MetricStrategy{{Name: "f1", Value: commonv1beta1.ExtractByMax}}}}

var collectors = []*commonv1beta1.MetricsCollectorSpec{nil,
	{Collector: &commonv1beta1.CollectorSpec{Kind: commonv1beta1.StdOutCollector}},
	{Collector: &commonv1beta1.CollectorSpec{Kind: commonv1beta1.FileCollector},
		Source: &commonv1beta1.SourceSpec{FileSystemPath: &commonv1beta1.FileSystemPath{Path: "/var/log/m.log", Kind: commonv1beta1.FileKind}}},
	{Collector: &commonv1beta1.CollectorSpec{Kind: commonv1beta1.PushCollector}}}

var rules = []commonv1beta1.EarlyStoppingRule{{},
	{Name: "acc", Value: "0.5", Comparison: commonv1beta1.ComparisonTypeLess, StartStep: 4},
	{Name: "loss", Value: "2", Comparison: commonv1beta1.ComparisonTypeGreater},
	{Name: "acc", Value: "0.9", Comparison: commonv1beta1.ComparisonTypeEqual, StartStep: 1}}

func kvMap(ps []kv, isNil bool) map[string]string {
	if isNil {
		return nil
	}
	m := map[string]string{}
	for _, p := range ps {
		m[p.K] = p.V
	}
	return m
}

func runTrial(in *trialInput) kit.Case {
	var c kit.Case
	ids := kit.NewIntern()
	ids.ID("")                         // 0
	ids.ID(consts.LabelExperimentName) // 1
	ids.ID("Experiment")               // 2
	ids.ID("kubeflow.org/v1beta1")     // 3
	nat := func(s string) string { return kit.Nat(ids.ID(s)) }
	js := func(prefix string, v any) string { b, _ := json.Marshal(v); return prefix + string(b) }
	nmap := func(m map[string]string) string {
		return kit.ListOf(mapPairs(m), func(p kv) string { return kit.Pair(nat(p.K), nat(p.V)) })
	}
	optMap := func(m map[string]string) string { return kit.Opt(m != nil, nmap(m)) }

	e := &experimentsv1beta1.Experiment{ObjectMeta: metav1.ObjectMeta{Name: in.ExpName, Namespace: in.ExpNS, UID: types.UID(in.ExpUID),
		Labels: kvMap(in.ExpLabels, len(in.ExpLabels) == 0)}}
	e.Spec.Objective = objectives[in.Objective]
	if in.EarlyStop {
		e.Spec.EarlyStopping = &commonv1beta1.EarlyStoppingSpec{AlgorithmName: "medianstop"}
	}
	e.Spec.MetricsCollectorSpec = collectors[in.Collector]
	if in.HasTemplate {
		tt := &experimentsv1beta1.TrialTemplate{Retain: in.Retain, PrimaryPodLabels: kvMap(in.PPL, in.PPLNil), PrimaryContainerName: in.PCN,
			SuccessCondition: in.Succ, FailureCondition: in.Fail}
		for _, p := range in.TplParams {
			tt.TrialParameters = append(tt.TrialParameters, experimentsv1beta1.TrialParameterSpec{Name: p.K, Reference: p.V})
		}
		tt.TrialSource.TrialSpec = &unstructured.Unstructured{Object: map[string]interface{}{"apiVersion": "batch/v1", "kind": "Job",
			"spec": map[string]interface{}{"template": map[string]interface{}{"spec": map[string]interface{}{"containers": []interface{}{
				map[string]interface{}{"name": "main", "image": "img", "args": []interface{}{"python train.py" + render(in.TplArgs)}}}}}}}}
		e.Spec.TrialTemplate = tt
	}
	e0 := e.DeepCopy() // what the model is given: the experiment as it was before any call
	a := &suggestionsv1beta1.TrialAssignment{Name: in.AsgName, Labels: kvMap(in.AsgLabels, in.AsgLabelsNil)}
	for _, p := range in.AsgParams {
		a.ParameterAssignments = append(a.ParameterAssignments, commonv1beta1.ParameterAssignment{Name: p.K, Value: p.V})
	}
	for _, i := range in.AsgRules {
		a.EarlyStoppingRules = append(a.EarlyStoppingRules, rules[i])
	}

	cl := fake.NewClientBuilder().WithScheme(scheme).Build()
	gen := manifest.New(cl)
	rec := experiment.NewReconcilerForVerif(cl, scheme, record.NewFakeRecorder(100), expsug.New(scheme, cl), gen,
		exputil.NewExpsCollector(nil, prometheus.NewRegistry()))

	// the generator called directly with what getTrialInstance is supposed to pass
	var direct *unstructured.Unstructured
	var derr error
	dpan := kit.Recover(func() {
		direct, derr = gen.GetRunSpecWithHyperParameters(e.DeepCopy(), a.Name, e.Namespace, a.DeepCopy().ParameterAssignments)
	})
	genTerm := "(Ok 1%nat)"
	switch {
	case dpan != "":
		genTerm = "(Crash 0%nat)"
	case derr != nil:
		genTerm = fmt.Sprintf("(Err %s)", kit.Nat(errCode(derr, true)))
	}

	var t *trialsv1beta1.Trial
	var err error
	if in.Prev != nil {
		// createTrials: "for _, trial := range trialAssignments { r.createTrialInstance(instance, &trial) }" on one instance
		pa := &suggestionsv1beta1.TrialAssignment{Name: in.Prev.Name, Labels: kvMap(in.Prev.Labels, false)}
		for _, p := range in.Prev.Params {
			pa.ParameterAssignments = append(pa.ParameterAssignments, commonv1beta1.ParameterAssignment{Name: p.K, Value: p.V})
		}
		for _, i := range in.Prev.Rules {
			pa.EarlyStoppingRules = append(pa.EarlyStoppingRules, rules[i])
		}
		kit.Recover(func() { _, _ = rec.GetTrialInstanceForVerif(e, pa) })
	}
	pan := kit.Recover(func() { t, err = rec.GetTrialInstanceForVerif(e, a) })

	var impl string
	switch {
	case pan != "":
		impl = "(Crash 0%nat)"
		c.Observed = "panic: " + pan
	case err != nil:
		impl = fmt.Sprintf("(Err %s)", kit.Nat(errCode(err, true)))
		c.Observed = "error: " + err.Error()
	default:
		c.Observed = t
		owners := kit.ListOf(t.OwnerReferences, func(o metav1.OwnerReference) string {
			return fmt.Sprintf("(OwnerRef %s %s %s %s %s %s)", nat(o.APIVersion), nat(o.Kind), nat(o.Name), nat(string(o.UID)),
				kit.Bool(o.Controller != nil && *o.Controller), kit.Bool(o.BlockOwnerDeletion != nil && *o.BlockOwnerDeletion))
		})
		obj := "None"
		if t.Spec.Objective != nil {
			obj = "(Some " + nat(js("objective:", t.Spec.Objective)) + ")"
		}
		col := "None"
		if !reflect.DeepEqual(t.Spec.MetricsCollector, commonv1beta1.MetricsCollectorSpec{}) {
			col = "(Some " + nat(js("collector:", t.Spec.MetricsCollector)) + ")"
		}
		runspec := 2
		if direct != nil && t.Spec.RunSpec != nil && reflect.DeepEqual(t.Spec.RunSpec.Object, direct.Object) {
			runspec = 1
		}
		impl = fmt.Sprintf("(Ok (Trial %s %s %s %s %s %s %s %s %s %s %s %s %s %s %s))", nat(t.Name), nat(t.Namespace), nmap(t.Labels), owners, obj,
			kit.ListOf(t.Spec.ParameterAssignments, func(p commonv1beta1.ParameterAssignment) string { return kit.Pair(nat(p.Name), nat(p.Value)) }),
			kit.ListOf(t.Spec.EarlyStoppingRules, func(r commonv1beta1.EarlyStoppingRule) string { return nat(js("rule:", r)) }),
			kit.Nat(runspec), kit.Bool(t.Spec.RetainRun), col, optMap(t.Spec.PrimaryPodLabels), nat(t.Spec.PrimaryContainerName),
			nat(t.Spec.SuccessCondition), nat(t.Spec.FailureCondition),
			kit.Bool(reflect.DeepEqual(t.Status, trialsv1beta1.TrialStatus{}) && t.Annotations == nil && t.Finalizers == nil && t.GenerateName == ""))
	}

	tpl := "None"
	if in.HasTemplate {
		tpl = fmt.Sprintf("(Some (TTemplate %s %s %s %s %s))", kit.Bool(in.Retain), optMap(kvMap(in.PPL, in.PPLNil)), nat(in.PCN), nat(in.Succ), nat(in.Fail))
	}
	objT := "None"
	if e0.Spec.Objective != nil {
		objT = "(Some " + nat(js("objective:", e0.Spec.Objective)) + ")"
	}
	colT := "None"
	if e0.Spec.MetricsCollectorSpec != nil {
		colT = "(Some " + nat(js("collector:", *e0.Spec.MetricsCollectorSpec)) + ")"
	}
	expTerm := fmt.Sprintf("(Experiment %s %s %s %s %s %s %s %s)", nat(in.ExpName), nat(in.ExpNS), nat(in.ExpUID), nmap(e0.Labels), objT, kit.Bool(in.EarlyStop), tpl, colT)
	asgTerm := fmt.Sprintf("(Assignment %s %s %s %s)", nat(in.AsgName),
		kit.ListOf(in.AsgParams, func(p kv) string { return kit.Pair(nat(p.K), nat(p.V)) }),
		kit.ListOf(in.AsgRules, func(i int) string { return nat(js("rule:", rules[i])) }),
		optMap(kvMap(in.AsgLabels, in.AsgLabelsNil)))
	c.Coq = fmt.Sprintf("CT (TCase %s %s %s %s)", expTerm, asgTerm, genTerm, impl)
	c.Sig = expTerm + asgTerm + genTerm + fmt.Sprint(in.TplParams, in.TplArgs)
	c.Nontrivial = len(in.ExpLabels) > 0 && len(in.AsgParams) > 0
	c.Tags = []string{"kind:trial"}
	switch {
	case !in.HasTemplate:
		c.Tags = append(c.Tags, "trial:no-template")
	case derr != nil:
		c.Tags = append(c.Tags, "trial:generator-fails")
	default:
		c.Tags = append(c.Tags, "trial:built")
	}
	if in.Prev != nil {
		c.Tags = append(c.Tags, "trial:second-of-a-batch")
		c.Sig += fmt.Sprint(*in.Prev)
	}
	return c
}
