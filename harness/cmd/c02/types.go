package main

import (
	"fmt"
	"sort"
	"strconv"
	"strings"

	"github.com/kubeflow/katib/pkg/controller.v1beta1/consts"
)

// chunk is a piece of template text: literal text, or one occurrence of the placeholder of trial parameter S.
type chunk struct {
	P bool   `json:"p,omitempty"`
	S string `json:"s"`
}

type kvNode struct {
	Key []chunk `json:"key"`
	Val *node   `json:"val"`
}

// node is a JSON/YAML document tree whose string leaves and map keys are chunk lists.
type node struct {
	Kind  string   `json:"kind"` // map list str int float bool null
	Map   []kvNode `json:"map,omitempty"`
	List  []*node  `json:"list,omitempty"`
	Str   []chunk  `json:"str,omitempty"`
	Style string   `json:"style,omitempty"` // YAML scalar style of a str leaf: dq sq plain
	Int   int64    `json:"int,omitempty"`
	Float float64  `json:"float,omitempty"`
	Bool  bool     `json:"bool,omitempty"`
}

type kv struct {
	K string `json:"k"`
	V string `json:"v"`
}

type genInput struct {
	Source     string `json:"source"` // inline | cm-json | cm-yaml
	CMExists   bool   `json:"cm_exists"`
	PathExists bool   `json:"path_exists"`
	Garbage    string `json:"garbage,omitempty"` // when set, the ConfigMap holds this text instead of the document
	Doc        *node  `json:"doc"`
	Params     []kv   `json:"params"` // trial parameters: name, reference
	Assign     []kv   `json:"assign"` // assignments: name, value
	TrialName  string `json:"trial_name"`
	TrialNS    string `json:"trial_ns"`
	Class      string `json:"class"`
}

type trialInput struct {
	ExpName      string  `json:"exp_name"`
	ExpNS        string  `json:"exp_ns"`
	ExpUID       string  `json:"exp_uid"`
	ExpLabels    []kv    `json:"exp_labels"`
	Objective    int     `json:"objective"` // 0 = nil, else index into the objective table
	EarlyStop    bool    `json:"early_stop"`
	HasTemplate  bool    `json:"has_template"`
	Retain       bool    `json:"retain"`
	PPL          []kv    `json:"ppl"`
	PPLNil       bool    `json:"ppl_nil"`
	PCN          string  `json:"pcn"`
	Succ         string  `json:"succ"`
	Fail         string  `json:"fail"`
	Collector    int     `json:"collector"` // 0 = nil
	TplParams    []kv    `json:"tpl_params"`
	TplArgs      []chunk `json:"tpl_args"` // one string leaf of the inline template
	AsgName      string  `json:"asg_name"`
	AsgParams    []kv    `json:"asg_params"`
	AsgRules     []int   `json:"asg_rules"`
	AsgLabels    []kv    `json:"asg_labels"`
	AsgLabelsNil bool    `json:"asg_labels_nil"`
	// an assignment of the same batch that createTrials turns into a trial first, on the same in-memory experiment
	// (nil: none); the trial built for the assignment above must not depend on it
	Prev *prevAsg `json:"prev,omitempty"`
}

type prevAsg struct {
	Name   string `json:"name"`
	Params []kv   `json:"params"`
	Rules  []int  `json:"rules"`
	Labels []kv   `json:"labels"`
}

type c02Input struct {
	Mode  string      `json:"mode"` // gen | trial
	Gen   *genInput   `json:"gen,omitempty"`
	Trial *trialInput `json:"trial,omitempty"`
}

func placeholder(name string) string {
	return fmt.Sprintf(consts.TrialTemplateParamReplaceFormat, name)
}

func render(cs []chunk) string {
	var b strings.Builder
	for _, c := range cs {
		if c.P {
			b.WriteString(placeholder(c.S))
		} else {
			b.WriteString(c.S)
		}
	}
	return b.String()
}

func lit(s string) chunk { return chunk{S: s} }
func ph(s string) chunk  { return chunk{P: true, S: s} }

func strNode(cs ...chunk) *node { return &node{Kind: "str", Str: cs, Style: "dq"} }

func (n *node) sortedMap() []kvNode {
	m := append([]kvNode(nil), n.Map...)
	sort.SliceStable(m, func(i, j int) bool { return render(m[i].Key) < render(m[j].Key) })
	return m
}

// toObj builds the unstructured content of the document.
func (n *node) toObj() interface{} {
	switch n.Kind {
	case "map":
		m := map[string]interface{}{}
		for _, e := range n.Map {
			m[render(e.Key)] = e.Val.toObj()
		}
		return m
	case "list":
		l := make([]interface{}, 0, len(n.List))
		for _, e := range n.List {
			l = append(l, e.toObj())
		}
		return l
	case "str":
		return render(n.Str)
	case "int":
		return n.Int
	case "float":
		return n.Float
	case "bool":
		return n.Bool
	}
	return nil
}

// leaves lists the chunk lists of every map key and string leaf in depth-first order, map entries sorted by key text.
func (n *node) leaves(out *[][]chunk) {
	switch n.Kind {
	case "map":
		for _, e := range n.sortedMap() {
			*out = append(*out, e.Key)
			e.Val.leaves(out)
		}
	case "list":
		for _, e := range n.List {
			e.leaves(out)
		}
	case "str":
		*out = append(*out, n.Str)
	}
}

// objLeaves does the same on a decoded object.
func objLeaves(v interface{}, out *[]string) {
	switch x := v.(type) {
	case map[string]interface{}:
		keys := make([]string, 0, len(x))
		for k := range x {
			keys = append(keys, k)
		}
		sort.Strings(keys)
		for _, k := range keys {
			*out = append(*out, k)
			objLeaves(x[k], out)
		}
	case []interface{}:
		for _, e := range x {
			objLeaves(e, out)
		}
	case string:
		*out = append(*out, x)
	}
}

// skeleton is the object without the text of its keys and string leaves.
func skeleton(v interface{}) interface{} {
	switch x := v.(type) {
	case map[string]interface{}:
		keys := make([]string, 0, len(x))
		for k := range x {
			keys = append(keys, k)
		}
		sort.Strings(keys)
		res := []interface{}{"m"}
		for _, k := range keys {
			res = append(res, skeleton(x[k]))
		}
		return res
	case []interface{}:
		res := []interface{}{"l"}
		for _, e := range x {
			res = append(res, skeleton(e))
		}
		return res
	case string:
		return "s"
	}
	return v
}

// scalars lists the non-string scalar leaves (numbers, booleans) of a decoded object as text, sorted: what the template says
// must arrive in the run spec digit by digit.
func scalars(v interface{}, out *[]string) {
	switch x := v.(type) {
	case map[string]interface{}:
		for _, e := range x {
			scalars(e, out)
		}
	case []interface{}:
		for _, e := range x {
			scalars(e, out)
		}
	case string, nil:
	case int64:
		*out = append(*out, strconv.FormatInt(x, 10))
	case float64:
		*out = append(*out, strconv.FormatFloat(x, 'f', -1, 64))
	default:
		*out = append(*out, fmt.Sprint(x))
	}
}

// ---------------------------------------------------------------- YAML text of a document (own emitter: styles are chosen per leaf)

func dq(s string) string {
	s = strings.ReplaceAll(s, `\`, `\\`)
	s = strings.ReplaceAll(s, `"`, `\"`)
	return `"` + s + `"`
}

func plainKey(s string) bool {
	if s == "" {
		return false
	}
	for i := 0; i < len(s); i++ {
		c := s[i]
		ok := c >= 'a' && c <= 'z' || c >= 'A' && c <= 'Z' || i > 0 && (c >= '0' && c <= '9' || c == '-' || c == '_')
		if !ok {
			return false
		}
	}
	switch strings.ToLower(s) {
	case "true", "false", "null", "yes", "no", "on", "off", "y", "n":
		return false
	}
	return true
}

func (n *node) yamlScalar() (string, bool) {
	switch n.Kind {
	case "str":
		s := render(n.Str)
		switch n.Style {
		case "sq":
			return "'" + strings.ReplaceAll(s, "'", "''") + "'", true
		case "plain":
			return s, true
		}
		return dq(s), true
	case "int":
		return strconv.FormatInt(n.Int, 10), true
	case "float":
		return strconv.FormatFloat(n.Float, 'f', -1, 64), true
	case "bool":
		return strconv.FormatBool(n.Bool), true
	case "null":
		return "null", true
	case "map":
		if len(n.Map) == 0 {
			return "{}", true
		}
	case "list":
		if len(n.List) == 0 {
			return "[]", true
		}
	}
	return "", false
}

func (n *node) yaml(b *strings.Builder, indent int) {
	pad := strings.Repeat(" ", indent)
	switch n.Kind {
	case "map":
		for _, e := range n.Map {
			k := render(e.Key)
			if plainKey(k) {
				b.WriteString(pad + k + ":")
			} else {
				b.WriteString(pad + dq(k) + ":")
			}
			if s, ok := e.Val.yamlScalar(); ok {
				b.WriteString(" " + s + "\n")
			} else {
				b.WriteString("\n")
				e.Val.yaml(b, indent+2)
			}
		}
	case "list":
		for _, e := range n.List {
			if s, ok := e.yamlScalar(); ok {
				b.WriteString(pad + "- " + s + "\n")
			} else {
				b.WriteString(pad + "-\n")
				e.yaml(b, indent+2)
			}
		}
	}
}

func (n *node) yamlText() string {
	var b strings.Builder
	n.yaml(&b, 0)
	return b.String()
}
