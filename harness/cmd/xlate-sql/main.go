// xlate-sql prints, for every database call site of pkg/db/v1beta1 (all packages below it, test files excluded), the
// expression tree of the SQL argument as a Coq term of type Model.SqlExpr.sx, into coq/theories/Gen/SqlSites.v.
//
// A call site is a method call named Exec, ExecContext, Query, QueryContext, QueryRow, QueryRowContext, Prepare or
// PrepareContext whose receiver is not a *sql.Stmt / *sql.Rows / *sql.Row (a prepared statement's Exec/Query carries bound
// values only; those calls are counted). The receiver type comes from go/types; a receiver whose type cannot be resolved
// is still treated as a call site (conservative).
//
// Translation of the SQL argument (see Model/SqlExpr.v): constant string expression -> XLit (named constants are
// resolved by the type checker), a + b -> XCat, fmt.Sprintf(constant format with only %d/%% verbs, integer-typed
// arguments) -> XSprintf, a[i:j] -> XSlice, local string variable of the enclosing function -> XVar with the right-hand
// sides of all its assignments (x += e -> XCat XSelf e), everything else -> XOther.
package main

import (
	"bytes"
	"flag"
	"fmt"
	"go/ast"
	"go/constant"
	"go/importer"
	"go/parser"
	"go/printer"
	"go/token"
	"go/types"
	"os"
	"path/filepath"
	"sort"
	"strconv"
	"strings"
)

const modPath = "github.com/kubeflow/katib"

type loader struct {
	repo  string
	fset  *token.FileSet
	std   types.Importer
	cache map[string]*pkgInfo
}

type pkgInfo struct {
	pkg   *types.Package
	info  *types.Info
	files []*ast.File
}

func (l *loader) Import(path string) (*types.Package, error) {
	if strings.HasPrefix(path, modPath+"/pkg/db/") || strings.HasPrefix(path, modPath+"/pkg/util/v1beta1/env") {
		pi, err := l.load(path)
		if err != nil {
			return nil, err
		}
		return pi.pkg, nil
	}
	first := strings.SplitN(path, "/", 2)[0]
	if !strings.Contains(first, ".") {
		if p, err := l.std.Import(path); err == nil {
			return p, nil
		}
	}
	// third-party or unrelated katib package: an empty stand-in; expressions using it become XOther
	name := path[strings.LastIndex(path, "/")+1:]
	p := types.NewPackage(path, name)
	p.MarkComplete()
	return p, nil
}

func (l *loader) load(path string) (*pkgInfo, error) {
	if pi, ok := l.cache[path]; ok {
		return pi, nil
	}
	dir := filepath.Join(l.repo, strings.TrimPrefix(path, modPath+"/"))
	ents, err := os.ReadDir(dir)
	if err != nil {
		return nil, err
	}
	pi := &pkgInfo{info: &types.Info{Types: map[ast.Expr]types.TypeAndValue{}, Defs: map[*ast.Ident]types.Object{}, Uses: map[*ast.Ident]types.Object{}}}
	l.cache[path] = pi
	for _, e := range ents {
		n := e.Name()
		if e.IsDir() || !strings.HasSuffix(n, ".go") || strings.HasSuffix(n, "_test.go") {
			continue
		}
		f, err := parser.ParseFile(l.fset, filepath.Join(dir, n), nil, parser.ParseComments)
		if err != nil {
			return nil, err
		}
		pi.files = append(pi.files, f)
	}
	conf := types.Config{Importer: l, Error: func(error) {}, FakeImportC: true}
	pkg, _ := conf.Check(path, l.fset, pi.files, pi.info) // errors from stand-in imports are expected
	pi.pkg = pkg
	return pi, nil
}

// ---------------------------------------------------------------- expression trees

type sx struct {
	kind string // lit cat self sprintf slice var other
	s    string
	n    int
	kids []*sx
}

func coqStr(s string) string {
	plain := true
	for i := 0; i < len(s); i++ {
		if s[i] < 32 || s[i] > 126 {
			plain = false
			break
		}
	}
	if plain {
		return `"` + strings.ReplaceAll(s, `"`, `""`) + `"`
	}
	var b strings.Builder
	b.WriteString("(sb [")
	for i := 0; i < len(s); i++ {
		if i > 0 {
			b.WriteString(";")
		}
		b.WriteString(strconv.Itoa(int(s[i])))
	}
	b.WriteString("])")
	return b.String()
}

func (e *sx) coq() string {
	switch e.kind {
	case "lit":
		return "(XLit " + coqStr(e.s) + ")"
	case "cat":
		return "(XCat " + e.kids[0].coq() + " " + e.kids[1].coq() + ")"
	case "self":
		return "XSelf"
	case "sprintf":
		return fmt.Sprintf("(XSprintf %s %d)", coqStr(e.s), e.n)
	case "slice":
		return "(XSlice " + e.kids[0].coq() + ")"
	case "var":
		var ds []string
		for _, k := range e.kids {
			ds = append(ds, k.coq())
		}
		return "(XVar " + coqStr(e.s) + " [" + strings.Join(ds, "; ") + "])"
	}
	return "(XOther " + coqStr(e.s) + ")"
}

type fnCtx struct {
	l      *loader
	info   *types.Info
	fn     *ast.FuncDecl
	params map[types.Object]bool
	stack  []types.Object
}

func (c *fnCtx) src(n ast.Node) string {
	var b bytes.Buffer
	_ = printer.Fprint(&b, c.l.fset, n)
	s := strings.Join(strings.Fields(b.String()), " ")
	if len(s) > 120 {
		s = s[:120] + "..."
	}
	return s
}

func (c *fnCtx) other(n ast.Node, why string) *sx {
	return &sx{kind: "other", s: why + ": " + c.src(n)}
}

func isIntegerType(t types.Type) bool {
	if t == nil {
		return false
	}
	b, ok := t.Underlying().(*types.Basic)
	return ok && b.Info()&types.IsInteger != 0
}

// onlyPercentD reports whether every verb of a format is exactly %d (or the literal %%), and how many %d there are.
func onlyPercentD(f string) (int, bool) {
	n := 0
	for i := 0; i < len(f); i++ {
		if f[i] != '%' {
			continue
		}
		if i+1 >= len(f) {
			return 0, false
		}
		switch f[i+1] {
		case 'd':
			n++
		case '%':
		default:
			return 0, false
		}
		i++
	}
	return n, true
}

func (c *fnCtx) translate(e ast.Expr) *sx {
	if tv, ok := c.info.Types[e]; ok && tv.Value != nil {
		if tv.Value.Kind() == constant.String {
			return &sx{kind: "lit", s: constant.StringVal(tv.Value)}
		}
		return c.other(e, "non-string constant")
	}
	switch x := e.(type) {
	case *ast.ParenExpr:
		return c.translate(x.X)
	case *ast.BasicLit:
		if x.Kind == token.STRING {
			if s, err := strconv.Unquote(x.Value); err == nil {
				return &sx{kind: "lit", s: s}
			}
		}
	case *ast.BinaryExpr:
		if x.Op == token.ADD {
			return &sx{kind: "cat", kids: []*sx{c.translate(x.X), c.translate(x.Y)}}
		}
	case *ast.SliceExpr:
		if x.Slice3 {
			break
		}
		for _, b := range []ast.Expr{x.Low, x.High} {
			if b != nil && !isIntegerType(c.info.TypeOf(b)) {
				return c.other(e, "slice bound of unknown type")
			}
		}
		return &sx{kind: "slice", kids: []*sx{c.translate(x.X)}}
	case *ast.CallExpr:
		if sel, ok := x.Fun.(*ast.SelectorExpr); ok && sel.Sel.Name == "Sprintf" && len(x.Args) >= 1 {
			if id, ok := sel.X.(*ast.Ident); ok {
				if pn, ok := c.info.Uses[id].(*types.PkgName); ok && pn.Imported().Path() == "fmt" {
					tv := c.info.Types[x.Args[0]]
					if tv.Value == nil || tv.Value.Kind() != constant.String {
						return c.other(e, "Sprintf with a non-constant format")
					}
					format := constant.StringVal(tv.Value)
					n, ok := onlyPercentD(format)
					if !ok || n != len(x.Args)-1 || x.Ellipsis != token.NoPos {
						return c.other(e, "Sprintf with verbs other than %d")
					}
					for _, a := range x.Args[1:] {
						if !isIntegerType(c.info.TypeOf(a)) {
							return c.other(e, "Sprintf %d applied to a non-integer")
						}
					}
					return &sx{kind: "sprintf", s: format, n: n}
				}
			}
		}
	case *ast.Ident:
		obj := c.info.Uses[x]
		if obj == nil {
			obj = c.info.Defs[x]
		}
		v, ok := obj.(*types.Var)
		if !ok || v.IsField() || c.params[obj] || v.Parent() == nil || v.Parent() == v.Pkg().Scope() {
			return c.other(e, "not a local variable")
		}
		if v.Pos() < c.fn.Pos() || v.Pos() > c.fn.End() {
			return c.other(e, "variable of another function")
		}
		if len(c.stack) > 0 && c.stack[len(c.stack)-1] == obj {
			return &sx{kind: "self"}
		}
		for _, o := range c.stack {
			if o == obj {
				return c.other(e, "mutually dependent variables")
			}
		}
		return c.variable(x.Name, obj)
	}
	return c.other(e, "opaque")
}

// variable collects every assignment to obj in the enclosing function.
func (c *fnCtx) variable(name string, obj types.Object) *sx {
	c.stack = append(c.stack, obj)
	defer func() { c.stack = c.stack[:len(c.stack)-1] }()
	res := &sx{kind: "var", s: name}
	is := func(e ast.Expr) bool {
		id, ok := e.(*ast.Ident)
		return ok && (c.info.Uses[id] == obj || c.info.Defs[id] == obj)
	}
	ast.Inspect(c.fn.Body, func(n ast.Node) bool {
		switch s := n.(type) {
		case *ast.AssignStmt:
			for i, lhs := range s.Lhs {
				if !is(lhs) {
					continue
				}
				switch {
				case len(s.Lhs) != len(s.Rhs):
					res.kids = append(res.kids, c.other(s, "multi-value assignment"))
				case s.Tok == token.DEFINE || s.Tok == token.ASSIGN:
					res.kids = append(res.kids, c.translate(s.Rhs[i]))
				case s.Tok == token.ADD_ASSIGN:
					res.kids = append(res.kids, &sx{kind: "cat", kids: []*sx{{kind: "self"}, c.translate(s.Rhs[i])}})
				default:
					res.kids = append(res.kids, c.other(s, "assignment operator"))
				}
			}
		case *ast.ValueSpec:
			for i, nm := range s.Names {
				if c.info.Defs[nm] == obj && i < len(s.Values) {
					res.kids = append(res.kids, c.translate(s.Values[i]))
				}
			}
		case *ast.RangeStmt:
			if (s.Key != nil && is(s.Key)) || (s.Value != nil && is(s.Value)) {
				res.kids = append(res.kids, c.other(s.X, "range variable"))
			}
		case *ast.UnaryExpr:
			if s.Op == token.AND && is(s.X) {
				res.kids = append(res.kids, c.other(s, "address taken"))
			}
		}
		return true
	})
	return res
}

// ---------------------------------------------------------------- call sites

var sqlMethods = map[string]int{ // method -> index of the SQL argument
	"Exec": 0, "Query": 0, "QueryRow": 0, "Prepare": 0,
	"ExecContext": 1, "QueryContext": 1, "QueryRowContext": 1, "PrepareContext": 1,
}

type site struct {
	pkg, fn, recv, method string
	expr                  *sx
	pos                   token.Position
}

func recvName(t types.Type) (string, bool) {
	// returns a printable name and whether the receiver is a value-only handle (*sql.Stmt, *sql.Rows, *sql.Row)
	if t == nil {
		return "?", false
	}
	s := types.TypeString(t, func(p *types.Package) string { return p.Name() })
	if b, ok := t.(*types.Basic); ok && b.Kind() == types.Invalid {
		return "?", false
	}
	switch s {
	case "*sql.Stmt", "sql.Stmt", "*sql.Rows", "*sql.Row":
		return s, true
	}
	return s, false
}

func main() {
	repo := flag.String("repo", "/repo", "katib checkout")
	out := flag.String("out", "", "output .v file")
	flag.Parse()
	fset := token.NewFileSet()
	l := &loader{repo: *repo, fset: fset, std: importer.ForCompiler(fset, "source", nil), cache: map[string]*pkgInfo{}}
	root := filepath.Join(*repo, "pkg", "db", "v1beta1")
	var dirs []string
	_ = filepath.WalkDir(root, func(p string, d os.DirEntry, err error) error {
		if err == nil && d.IsDir() {
			dirs = append(dirs, p)
		}
		return nil
	})
	sort.Strings(dirs)
	var sites []site
	stmtCalls, nfiles := 0, 0
	for _, dir := range dirs {
		rel, _ := filepath.Rel(*repo, dir)
		pi, err := l.load(modPath + "/" + filepath.ToSlash(rel))
		if err != nil {
			fmt.Fprintln(os.Stderr, "xlate-sql:", err)
			os.Exit(1)
		}
		short, _ := filepath.Rel(root, dir)
		for _, f := range pi.files {
			nfiles++
			for _, decl := range f.Decls {
				fn, ok := decl.(*ast.FuncDecl)
				if !ok || fn.Body == nil {
					continue
				}
				ctx := &fnCtx{l: l, info: pi.info, fn: fn, params: map[types.Object]bool{}}
				fields := []*ast.FieldList{fn.Recv, fn.Type.Params, fn.Type.Results}
				for _, fl := range fields {
					if fl == nil {
						continue
					}
					for _, fd := range fl.List {
						for _, nm := range fd.Names {
							ctx.params[pi.info.Defs[nm]] = true
						}
					}
				}
				called := map[*ast.SelectorExpr]bool{}
				ast.Inspect(fn.Body, func(n ast.Node) bool {
					if sel, ok := n.(*ast.SelectorExpr); ok && !called[sel] {
						// a method value (f := db.Exec) or method expression: the text it will receive is unknown here
						if _, isM := sqlMethods[sel.Sel.Name]; isM {
							if id, isId := sel.X.(*ast.Ident); isId {
								if _, isPkg := pi.info.Uses[id].(*types.PkgName); isPkg {
									return true
								}
							}
							if rn, valueOnly := recvName(pi.info.TypeOf(sel.X)); !valueOnly {
								sites = append(sites, site{pkg: filepath.ToSlash(short), fn: fn.Name.Name, recv: rn, method: sel.Sel.Name,
									expr: &sx{kind: "other", s: "method value, not a call: " + ctx.src(sel)}, pos: fset.Position(sel.Pos())})
							}
						}
						return true
					}
					call, ok := n.(*ast.CallExpr)
					if !ok {
						return true
					}
					sel, ok := call.Fun.(*ast.SelectorExpr)
					if !ok {
						return true
					}
					called[sel] = true
					idx, ok := sqlMethods[sel.Sel.Name]
					if !ok {
						return true
					}
					if id, isId := sel.X.(*ast.Ident); isId {
						if _, isPkg := pi.info.Uses[id].(*types.PkgName); isPkg {
							return true // a package-level function, not a method call
						}
					}
					rn, valueOnly := recvName(pi.info.TypeOf(sel.X))
					if valueOnly {
						stmtCalls++
						return true
					}
					var e *sx
					if idx < len(call.Args) {
						e = ctx.translate(call.Args[idx])
					} else {
						e = &sx{kind: "other", s: "missing SQL argument: " + ctx.src(call)}
					}
					fname := fn.Name.Name
					sites = append(sites, site{pkg: filepath.ToSlash(short), fn: fname, recv: rn, method: sel.Sel.Name, expr: e, pos: fset.Position(call.Pos())})
					return true
				})
			}
		}
	}
	sort.SliceStable(sites, func(i, j int) bool {
		a, b := sites[i], sites[j]
		if a.pkg != b.pkg {
			return a.pkg < b.pkg
		}
		if a.pos.Filename != b.pos.Filename {
			return a.pos.Filename < b.pos.Filename
		}
		return a.pos.Offset < b.pos.Offset
	})
	var b strings.Builder
	b.WriteString("(* GENERATED by harness/cmd/xlate-sql from pkg/db/v1beta1 of the tree under test -- do not edit.\n")
	fmt.Fprintf(&b, "   %d source files, %d call sites carrying SQL text, %d calls on prepared statements / rows (bound values only). *)\n", nfiles, len(sites), stmtCalls)
	b.WriteString("From KV Require Import Base.Prelude Model.SqlExpr.\nLocal Open Scope string_scope.\n\nDefinition sites : list site := [\n")
	for i, s := range sites {
		sep := ";"
		if i == len(sites)-1 {
			sep = ""
		}
		fmt.Fprintf(&b, "  {| s_pkg := %s; s_func := %s; s_recv := %s; s_method := %s;\n     s_expr := %s |}%s\n", coqStr(s.pkg), coqStr(s.fn), coqStr(s.recv), coqStr(s.method), s.expr.coq(), sep)
	}
	b.WriteString("].\n\n")
	fmt.Fprintf(&b, "Definition value_only_calls : nat := %d.\n", stmtCalls)
	text := b.String()
	if *out == "" {
		fmt.Print(text)
		return
	}
	if old, err := os.ReadFile(*out); err == nil && string(old) == text {
		fmt.Printf("xlate-sql: %d call sites, %s unchanged\n", len(sites), *out)
		return
	}
	if err := os.MkdirAll(filepath.Dir(*out), 0o755); err != nil {
		fmt.Fprintln(os.Stderr, "xlate-sql:", err)
		os.Exit(1)
	}
	if err := os.WriteFile(*out, []byte(text), 0o644); err != nil {
		fmt.Fprintln(os.Stderr, "xlate-sql:", err)
		os.Exit(1)
	}
	fmt.Printf("xlate-sql: %d call sites, wrote %s\n", len(sites), *out)
}
