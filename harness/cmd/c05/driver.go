package main

import (
	"context"
	"encoding/json"
	"errors"
	"fmt"
	"math"
	"math/rand"
	"sort"
	"strconv"
	"time"

	"github.com/prometheus/client_golang/prometheus"
	corev1 "k8s.io/api/core/v1"
	metav1 "k8s.io/apimachinery/pkg/apis/meta/v1"
	"sigs.k8s.io/controller-runtime/pkg/cache"
	"sigs.k8s.io/controller-runtime/pkg/client"

	commonv1beta1 "github.com/kubeflow/katib/pkg/apis/controller/common/v1beta1"
	experimentsv1beta1 "github.com/kubeflow/katib/pkg/apis/controller/experiments/v1beta1"
	trialsv1beta1 "github.com/kubeflow/katib/pkg/apis/controller/trials/v1beta1"
	"github.com/kubeflow/katib/pkg/controller.v1beta1/experiment/util"

	"verifharness/internal/kit"
)

// ---------------------------------------------------------------- replayable input

type inCond struct {
	Type   string `json:"type"`
	Status string `json:"status"`
	Reason string `json:"reason"`
}
type inMetric struct {
	Name   string `json:"name"`
	Min    string `json:"min"`
	Max    string `json:"max"`
	Latest string `json:"latest"`
}
type inTrial struct {
	Name       string      `json:"name"`
	Conds      []inCond    `json:"conds"`
	ObjMetric  string      `json:"obj_metric"`
	Strategies [][2]string `json:"strategies"`
	HasObs     bool        `json:"has_obs"`
	Metrics    []inMetric  `json:"metrics"`
	Assign     [][2]string `json:"assign"`
	Created    int64       `json:"created,omitempty"` // creationTimestamp, seconds after a fixed instant (0: none, as on fake-client objects)
}
type inOptimal struct {
	Name    string      `json:"name"`
	Assign  [][2]string `json:"assign"`
	Metrics []inMetric  `json:"metrics"`
}
type inStatus struct {
	Conds         []inCond    `json:"conds"`
	HasCompletion bool        `json:"has_completion"`
	Optimal       inOptimal   `json:"optimal"`
	Lists         [7][]string `json:"lists"`    // running pending failed succeeded killed earlystopped metricsunavailable
	Counters      [8]int32    `json:"counters"` // trials succeeded failed killed pending running earlystopped metricsunavailable
}
type input struct {
	Call      string    `json:"call"` // "status": UpdateExperimentStatus; "condition": UpdateExperimentStatusCondition
	Goal      bool      `json:"goal_flag"`
	SugDone   bool      `json:"suggestion_done"`
	ObjType   string    `json:"obj_type"`
	GoalVal   *float64  `json:"goal"`
	Max       *int32    `json:"max_trials"`
	MaxFailed *int32    `json:"max_failed"`
	Resume    string    `json:"resume"`
	Prior     inStatus  `json:"prior"`
	Trials    []inTrial `json:"trials"`
	// arguments for the side comparison of the Mark… helpers (applied to copies of the prior status / of the trials)
	MarkReason      string `json:"mark_reason"`
	TrialMarkReason string `json:"trial_mark_reason"`
	TrialMarkStatus string `json:"trial_mark_status"`
}

// ---------------------------------------------------------------- driver

type drv struct{ name, module string }

func (d drv) Name() string      { return d.name }
func (d drv) CoqModule() string { return d.module }
func (d drv) Rule() string {
	s := "experiments with objective type minimize/maximize (6% other), goal nil or k/8, maxTrialCount nil or 0..n+2, maxFailedTrialCount nil/0/1..4/-1, " +
		"any resume policy; prior status: realistic running ones, empty, restarting, completed (Succeeded/Failed, ~25%) and random subsets of the five " +
		"condition types True/False/Unknown in random order with random reasons and duplicate types, stale lists/counters/optimal trial; " +
		"trial lists of length 0-12 with distinct names (5% of the lists carry a duplicate name): half of the trials with a realistic condition history, half with a " +
		"random subset of the seven condition types each True/False/Unknown/absent in random list order (6% a duplicated type, 4% an unknown type); " +
		"metric strategies min/max/latest/other/absent (also duplicated entries), observation nil or 0-3 metrics (objective metric possibly twice) with " +
		"min/max/latest = k/8 (|k|<=12, several float syntaxes) or 'unavailable'; 6% of the cases also carry non-numeric texts. "
	if d.name == "c03" {
		s += "15% of the cases call UpdateExperimentStatusCondition directly with arbitrary counters, goal flag and getSuggestionDone. " +
			"Non-trivial: prior status not completed and (>=3 trials in >=2 classes with >=1 numeric objective value, or a direct call with non-zero counters). "
	} else {
		s += "Non-trivial: >=3 trials in >=2 distinct classes and >=2 trials with an available numeric objective value. "
	}
	return s + "Distinct: by the printed (call, spec, prior, trials) term."
}

func (d drv) Decode(raw json.RawMessage) (any, error) {
	var in input
	err := json.Unmarshal(raw, &in)
	return in, err
}

var (
	tcondTypes = []string{"Created", "Running", "Succeeded", "Killed", "Failed", "MetricsUnavailable", "EarlyStopped"}
	econdTypes = []string{"Created", "Running", "Restarting", "Succeeded", "Failed"}
	ereasons   = []string{util.ExperimentCreatedReason, util.ExperimentRunningReason, util.ExperimentRestartingReason,
		util.ExperimentGoalReachedReason, util.ExperimentMaxTrialsReachedReason, util.ExperimentSuggestionEndReachedReason,
		util.ExperimentFailedReason}
	metricNames  = []string{"loss", "acc", "f1"}
	trialReasons = []string{"TrialCreated", "TrialRunning", "TrialSucceeded", "TrialFailed", "TrialKilled", "MetricsUnavailable", "TrialEarlyStopped"}
)

func genStatus(r *rand.Rand) string {
	switch x := r.Intn(20); {
	case x < 11:
		return "True"
	case x < 18:
		return "False"
	}
	return "Unknown"
}

func genNum(r *rand.Rand) string {
	v := float64(r.Intn(25)-12) / 8
	switch r.Intn(12) {
	case 0:
		return strconv.FormatFloat(v, 'e', -1, 64)
	case 1:
		if v >= 0 {
			return "+" + strconv.FormatFloat(v, 'f', -1, 64)
		}
	case 2:
		return strconv.FormatFloat(v, 'f', 4, 64)
	}
	return strconv.FormatFloat(v, 'f', -1, 64)
}

func genVal(r *rand.Rand, text bool) string {
	x := r.Intn(100)
	if x < 18 {
		return "unavailable"
	}
	if text && x < 40 {
		return kit.Pick(r, []string{"abc", "", "0x", "1.2.3", "Unavailable", "1_0"})
	}
	return genNum(r)
}

func genMetric(r *rand.Rand, name string, text bool) inMetric {
	return inMetric{Name: name, Min: genVal(r, text), Max: genVal(r, text), Latest: genVal(r, text)}
}

func genAssign(r *rand.Rand) [][2]string {
	var a [][2]string
	for k, n := 0, r.Intn(3); k < n; k++ {
		a = append(a, [2]string{kit.Pick(r, []string{"lr", "layers", "opt"}), kit.Pick(r, []string{"0.1", "0.01", "3", "sgd", "adam"})})
	}
	return a
}

func shuffleConds(r *rand.Rand, cs []inCond) {
	r.Shuffle(len(cs), func(i, j int) { cs[i], cs[j] = cs[j], cs[i] })
}

func randomConds(r *rand.Rand, types, reasons []string) []inCond {
	var cs []inCond
	for _, t := range types {
		if r.Intn(100) < 45 {
			continue
		}
		cs = append(cs, inCond{Type: t, Status: genStatus(r), Reason: kit.Pick(r, reasons)})
	}
	if len(cs) > 0 && r.Intn(100) < 6 {
		c := cs[r.Intn(len(cs))]
		c.Status = genStatus(r)
		c.Reason = kit.Pick(r, reasons)
		cs = append(cs, c)
	}
	if r.Intn(100) < 4 {
		cs = append(cs, inCond{Type: "Weird", Status: genStatus(r), Reason: kit.Pick(r, reasons)})
	}
	shuffleConds(r, cs)
	return cs
}

func genTrialConds(r *rand.Rand) []inCond {
	tr := trialReasons
	if r.Intn(2) == 0 {
		return randomConds(r, tcondTypes, tr)
	}
	c := func(t, s, rs string) inCond { return inCond{Type: t, Status: s, Reason: rs} }
	switch r.Intn(9) {
	case 0:
		return []inCond{c("Created", "True", tr[0])}
	case 1:
		return []inCond{c("Created", "True", tr[0]), c("Running", "True", tr[1])}
	case 2:
		return []inCond{c("Created", "True", tr[0]), c("Running", "False", tr[1]), c("Succeeded", "True", tr[2])}
	case 3:
		return []inCond{c("Created", "True", tr[0]), c("Running", "False", tr[1]), c("Failed", "True", tr[3])}
	case 4:
		return []inCond{c("Created", "True", tr[0]), c("Running", "False", tr[1]), c("Killed", "True", tr[4])}
	case 5:
		return []inCond{c("Created", "True", tr[0]), c("Running", "False", tr[1]), c("MetricsUnavailable", "True", tr[5])}
	case 6:
		return []inCond{c("Created", "True", tr[0]), c("Running", "False", tr[1]), c("Succeeded", "False", tr[6]), c("EarlyStopped", "True", tr[6])}
	case 7:
		return []inCond{c("Created", "True", tr[0]), c("Running", "False", tr[1]), c("EarlyStopped", "True", tr[6])}
	}
	return nil
}

func genTrial(r *rand.Rand, name string, text bool) inTrial {
	t := inTrial{Name: name, Conds: genTrialConds(r), ObjMetric: "loss", Assign: genAssign(r)}
	if r.Intn(25) == 0 {
		t.ObjMetric = "acc"
	}
	strat := []string{"min", "max", "latest", "latest", "min", "max", "", "median"}
	switch x := r.Intn(10); {
	case x < 7:
		t.Strategies = append(t.Strategies, [2]string{t.ObjMetric, strat[r.Intn(6)]})
	case x < 8:
		t.Strategies = append(t.Strategies, [2]string{t.ObjMetric, kit.Pick(r, strat)})
	}
	for k, n := 0, r.Intn(3); k < n; k++ {
		e := [2]string{kit.Pick(r, metricNames), kit.Pick(r, strat)}
		if r.Intn(2) == 0 {
			t.Strategies = append(t.Strategies, e)
		} else {
			t.Strategies = append([][2]string{e}, t.Strategies...)
		}
	}
	if r.Intn(100) < 82 {
		t.HasObs = true
		n := r.Intn(4)
		for k := 0; k < n; k++ {
			nm := t.ObjMetric
			if r.Intn(100) < 40 {
				nm = kit.Pick(r, metricNames)
			}
			t.Metrics = append(t.Metrics, genMetric(r, nm, text))
		}
	}
	return t
}

func genPrior(r *rand.Rand) inStatus {
	var st inStatus
	reasons := append(append([]string{}, ereasons...), "SomethingElse")
	c := func(t, s, rs string) inCond { return inCond{Type: t, Status: s, Reason: rs} }
	switch x := r.Intn(100); {
	case x < 30:
		st.Conds = []inCond{c("Created", "True", ereasons[0]), c("Running", "True", ereasons[1])}
	case x < 38:
		st.Conds = []inCond{c("Created", "True", ereasons[0])}
	case x < 42:
	case x < 52:
		st.Conds = []inCond{c("Created", "True", ereasons[0]), c("Running", "True", ereasons[1]), c("Restarting", "True", ereasons[2])}
		if r.Intn(2) == 0 {
			st.Conds[1], st.Conds[2] = st.Conds[2], st.Conds[1]
		}
		st.HasCompletion = r.Intn(2) == 0
	case x < 64:
		st.Conds = []inCond{c("Created", "True", ereasons[0]), c("Running", "False", ereasons[1]), c("Succeeded", "True", kit.Pick(r, ereasons[3:6]))}
		st.HasCompletion = true
	case x < 72:
		st.Conds = []inCond{c("Created", "True", ereasons[0]), c("Running", "False", ereasons[1]), c("Failed", "True", ereasons[6])}
		st.HasCompletion = true
	default:
		st.Conds = randomConds(r, econdTypes, reasons)
		st.HasCompletion = r.Intn(3) == 0
	}
	if r.Intn(2) == 0 {
		st.Optimal = inOptimal{Name: kit.Pick(r, []string{"old", "t0", "t1"}), Assign: genAssign(r)}
		for k, n := 0, r.Intn(3); k < n; k++ {
			st.Optimal.Metrics = append(st.Optimal.Metrics, genMetric(r, kit.Pick(r, metricNames), false))
		}
	}
	for i := range st.Lists {
		for k, n := 0, r.Intn(3); k < n && r.Intn(2) == 0; k++ {
			st.Lists[i] = append(st.Lists[i], fmt.Sprintf("t%d", r.Intn(12)))
		}
	}
	for i := range st.Counters {
		st.Counters[i] = int32(r.Intn(5))
	}
	return st
}

func (d drv) Gen(r *rand.Rand, i, n int) any {
	var in input
	in.Call = "status"
	in.ObjType = kit.Pick(r, []string{"minimize", "maximize"})
	if r.Intn(100) < 6 {
		in.ObjType = kit.Pick(r, []string{"", "other"})
	}
	if r.Intn(100) >= 30 {
		g := float64(r.Intn(29)-14) / 8
		in.GoalVal = &g
	}
	in.Resume = kit.Pick(r, []string{"Never", "LongRunning", "FromVolume", ""})
	in.MarkReason = kit.Pick(r, append(append([]string{}, ereasons...), "SomethingElse"))
	in.TrialMarkReason = kit.Pick(r, trialReasons)
	in.TrialMarkStatus = genStatus(r)
	in.Prior = genPrior(r)
	text := r.Intn(100) < 6
	nt := r.Intn(13)
	if r.Intn(4) == 0 {
		nt = r.Intn(4)
	}
	for k := 0; k < nt; k++ {
		in.Trials = append(in.Trials, genTrial(r, fmt.Sprintf("t%d", k), text))
	}
	if r.Intn(3) > 0 {
		// creation times as the API server stamps them; the List answer (by name) is not in creation order
		for k := range in.Trials {
			in.Trials[k].Created = int64(1 + 3*k + r.Intn(3))
		}
	}
	r.Shuffle(len(in.Trials), func(a, b int) { in.Trials[a], in.Trials[b] = in.Trials[b], in.Trials[a] })
	if nt >= 2 && r.Intn(100) < 5 {
		in.Trials[r.Intn(nt)].Name = in.Trials[r.Intn(nt)].Name
	}
	if r.Intn(100) >= 25 {
		m := int32(r.Intn(nt + 3))
		in.Max = &m
	}
	switch x := r.Intn(100); {
	case x < 30:
	case x < 45:
		z := int32(0)
		in.MaxFailed = &z
	case x < 95:
		f := int32(1 + r.Intn(4))
		in.MaxFailed = &f
	default:
		f := int32(-1)
		in.MaxFailed = &f
	}
	if d.name == "c03" && r.Intn(100) < 15 {
		in.Call = "condition"
		// the caller guards this function with !IsCompleted(): mostly non-completed prior statuses
		for k := 0; k < 6 && condsCompleted(in.Prior.Conds) && r.Intn(8) != 0; k++ {
			in.Prior = genPrior(r)
		}
		in.Trials = nil
		in.Goal = r.Intn(4) == 0
		in.SugDone = r.Intn(3) == 0
		var sum int32
		for k := 1; k < 8; k++ {
			in.Prior.Counters[k] = int32(r.Intn(4))
			if r.Intn(3) == 0 {
				in.Prior.Counters[k] = 0
			}
			sum += in.Prior.Counters[k]
		}
		if in.SugDone && r.Intn(2) == 0 {
			sum -= in.Prior.Counters[4] + in.Prior.Counters[5]
			in.Prior.Counters[4], in.Prior.Counters[5] = 0, 0
		}
		in.Prior.Counters[0] = sum
		m := int32(r.Intn(int(sum) + 3))
		if in.Max != nil {
			in.Max = &m
		}
	}
	return in
}

// ---------------------------------------------------------------- running the implementation

var t0 = metav1.NewTime(time.Unix(1000, 0))

func toMetrics(ms []inMetric) []commonv1beta1.Metric {
	out := []commonv1beta1.Metric{}
	for _, m := range ms {
		out = append(out, commonv1beta1.Metric{Name: m.Name, Min: m.Min, Max: m.Max, Latest: m.Latest})
	}
	return out
}

func toAssign(a [][2]string) []commonv1beta1.ParameterAssignment {
	var out []commonv1beta1.ParameterAssignment
	for _, p := range a {
		out = append(out, commonv1beta1.ParameterAssignment{Name: p[0], Value: p[1]})
	}
	return out
}

func build(in input) (*experimentsv1beta1.Experiment, *trialsv1beta1.TrialList) {
	exp := &experimentsv1beta1.Experiment{ObjectMeta: metav1.ObjectMeta{Name: "e", Namespace: "ns"}}
	exp.Spec.Objective = &commonv1beta1.ObjectiveSpec{Type: commonv1beta1.ObjectiveType(in.ObjType), ObjectiveMetricName: "loss"}
	if in.GoalVal != nil {
		g := *in.GoalVal
		exp.Spec.Objective.Goal = &g
	}
	if in.Max != nil {
		m := *in.Max
		exp.Spec.MaxTrialCount = &m
	}
	if in.MaxFailed != nil {
		m := *in.MaxFailed
		exp.Spec.MaxFailedTrialCount = &m
	}
	exp.Spec.ResumePolicy = experimentsv1beta1.ResumePolicyType(in.Resume)
	st := &exp.Status
	for _, c := range in.Prior.Conds {
		st.Conditions = append(st.Conditions, experimentsv1beta1.ExperimentCondition{
			Type: experimentsv1beta1.ExperimentConditionType(c.Type), Status: corev1.ConditionStatus(c.Status), Reason: c.Reason,
			Message: "m", LastUpdateTime: t0, LastTransitionTime: t0})
	}
	if in.Prior.HasCompletion {
		tt := t0
		st.CompletionTime = &tt
	}
	st.CurrentOptimalTrial.BestTrialName = in.Prior.Optimal.Name
	st.CurrentOptimalTrial.ParameterAssignments = toAssign(in.Prior.Optimal.Assign)
	if len(in.Prior.Optimal.Metrics) > 0 {
		st.CurrentOptimalTrial.Observation.Metrics = toMetrics(in.Prior.Optimal.Metrics)
	}
	// copies: the slices of in.Prior.Lists belong to the replayable input and must not share memory with the status the
	// implementation works on
	var l [7][]string
	for i, x := range in.Prior.Lists {
		if x != nil {
			l[i] = append([]string{}, x...)
		}
	}
	st.RunningTrialList, st.PendingTrialList, st.FailedTrialList, st.SucceededTrialList = l[0], l[1], l[2], l[3]
	st.KilledTrialList, st.EarlyStoppedTrialList, st.MetricsUnavailableTrialList = l[4], l[5], l[6]
	c := in.Prior.Counters
	st.Trials, st.TrialsSucceeded, st.TrialsFailed, st.TrialsKilled = c[0], c[1], c[2], c[3]
	st.TrialsPending, st.TrialsRunning, st.TrialsEarlyStopped, st.TrialMetricsUnavailable = c[4], c[5], c[6], c[7]

	tl := &trialsv1beta1.TrialList{}
	for _, t := range in.Trials {
		tr := trialsv1beta1.Trial{ObjectMeta: metav1.ObjectMeta{Name: t.Name, Namespace: "ns"}}
		if t.Created != 0 {
			tr.CreationTimestamp = metav1.NewTime(time.Date(2024, 3, 5, 10, 0, 0, 0, time.UTC).Add(time.Duration(t.Created) * time.Second))
		}
		tr.Spec.Objective = &commonv1beta1.ObjectiveSpec{Type: commonv1beta1.ObjectiveType(in.ObjType), ObjectiveMetricName: t.ObjMetric}
		for _, s := range t.Strategies {
			tr.Spec.Objective.MetricStrategies = append(tr.Spec.Objective.MetricStrategies,
				commonv1beta1.MetricStrategy{Name: s[0], Value: commonv1beta1.MetricStrategyType(s[1])})
		}
		tr.Spec.ParameterAssignments = toAssign(t.Assign)
		for _, c := range t.Conds {
			tr.Status.Conditions = append(tr.Status.Conditions, trialsv1beta1.TrialCondition{
				Type: trialsv1beta1.TrialConditionType(c.Type), Status: corev1.ConditionStatus(c.Status), Reason: c.Reason,
				Message: "m", LastUpdateTime: t0, LastTransitionTime: t0})
		}
		if t.HasObs {
			tr.Status.Observation = &commonv1beta1.Observation{}
			if len(t.Metrics) > 0 {
				tr.Status.Observation.Metrics = toMetrics(t.Metrics)
			}
		}
		tl.Items = append(tl.Items, tr)
	}
	return exp, tl
}

// noCache lets registry.Gather run the collector's collect(): its only use of the cache is List, which fails here
// (collect then returns without touching the counters).
type noCache struct{ cache.Cache }

func (noCache) List(context.Context, client.ObjectList, ...client.ListOption) error {
	return errors.New("no cache in the harness")
}

// counterTotal sums a counter family of the experiments collector.
func counterTotal(reg *prometheus.Registry, name string) int {
	fams, err := reg.Gather()
	if err != nil {
		return -1
	}
	total := 0.0
	for _, f := range fams {
		if f.GetName() == name {
			for _, m := range f.GetMetric() {
				total += m.GetCounter().GetValue()
			}
		}
	}
	return int(total)
}

// ---------------------------------------------------------------- printing

type printer struct {
	names, metrics, params, texts, reasons, ttypes, etypes *kit.Intern
	viol                                                   string
}

func newPrinter() *printer {
	p := &printer{names: kit.NewIntern(), metrics: kit.NewIntern(), params: kit.NewIntern(), texts: kit.NewIntern(),
		reasons: kit.NewIntern(), ttypes: kit.NewIntern(), etypes: kit.NewIntern()}
	p.texts.ID("unavailable")
	for _, s := range ereasons {
		p.reasons.ID(s)
	}
	for _, s := range tcondTypes {
		p.ttypes.ID(s)
	}
	for _, s := range econdTypes {
		p.etypes.ID(s)
	}
	return p
}

func (p *printer) num(s string) (int64, bool) {
	f, err := strconv.ParseFloat(s, 64)
	if err != nil {
		return 0, false
	}
	if math.IsNaN(f) || math.IsInf(f, 0) || f*8 != math.Trunc(f*8) || math.Abs(f*8) > 1<<40 {
		p.viol = "generator produced a metric value outside the modelled domain: " + s
		return 0, false
	}
	return int64(f * 8), true
}

func (p *printer) mval(s string) string {
	k, ok := p.num(s)
	return fmt.Sprintf("{| mv_text := %s; mv_num := %s |}", kit.Nat(p.texts.ID(s)), kit.Opt(ok, kit.Z(k)))
}

func (p *printer) metric(name, mn, mx, lt string) string {
	return fmt.Sprintf("{| m_name := %s; m_min := %s; m_max := %s; m_latest := %s |}", kit.Nat(p.metrics.ID(name)), p.mval(mn), p.mval(mx), p.mval(lt))
}

func cstatus(s string) string {
	switch s {
	case "True":
		return "CTrue"
	case "False":
		return "CFalse"
	}
	return "CUnknown"
}

func (p *printer) cond(types *kit.Intern, t, s, r string) string {
	return fmt.Sprintf("{| ctype := %s; cstat := %s; creason := %s |}", kit.Nat(types.ID(t)), cstatus(s), kit.Nat(p.reasons.ID(r)))
}

func (p *printer) assign(a []commonv1beta1.ParameterAssignment) string {
	return kit.ListOf(a, func(x commonv1beta1.ParameterAssignment) string {
		return kit.Pair(kit.Nat(p.params.ID("n:"+x.Name)), kit.Nat(p.params.ID("v:"+x.Value)))
	})
}

func (p *printer) metricsOf(ms []commonv1beta1.Metric) string {
	return kit.ListOf(ms, func(m commonv1beta1.Metric) string { return p.metric(m.Name, m.Min, m.Max, m.Latest) })
}

func (p *printer) nameList(l []string) string {
	return kit.ListOf(l, func(s string) string { return kit.Nat(p.names.ID(s)) })
}

func (p *printer) trial(t *trialsv1beta1.Trial) string {
	strat := kit.ListOf(t.Spec.Objective.MetricStrategies, func(s commonv1beta1.MetricStrategy) string {
		v := "SOther"
		switch s.Value {
		case commonv1beta1.ExtractByMin:
			v = "SMin"
		case commonv1beta1.ExtractByMax:
			v = "SMax"
		case commonv1beta1.ExtractByLatest:
			v = "SLatest"
		}
		return kit.Pair(kit.Nat(p.metrics.ID(s.Name)), v)
	})
	conds := kit.ListOf(t.Status.Conditions, func(c trialsv1beta1.TrialCondition) string {
		return p.cond(p.ttypes, string(c.Type), string(c.Status), c.Reason)
	})
	obs := "None"
	if t.Status.Observation != nil {
		obs = "(Some " + p.metricsOf(t.Status.Observation.Metrics) + ")"
	}
	return fmt.Sprintf("{| t_name := %s; t_conds := %s; t_objective_metric := %s; t_strategies := %s; t_observation := %s; t_assignments := %s |}",
		kit.Nat(p.names.ID(t.Name)), conds, kit.Nat(p.metrics.ID(t.Spec.Objective.ObjectiveMetricName)), strat, obs, p.assign(t.Spec.ParameterAssignments))
}

func (p *printer) status(st *experimentsv1beta1.ExperimentStatus) string {
	conds := kit.ListOf(st.Conditions, func(c experimentsv1beta1.ExperimentCondition) string {
		return p.cond(p.etypes, string(c.Type), string(c.Status), c.Reason)
	})
	compl := "None"
	if st.CompletionTime != nil {
		if st.CompletionTime.Time.Equal(t0.Time) {
			compl = "(Some 0%nat)"
		} else {
			compl = "(Some 1%nat)"
		}
	}
	opt := fmt.Sprintf("{| best_name := %s; best_assignments := %s; best_observation := %s |}",
		kit.Nat(p.names.ID(st.CurrentOptimalTrial.BestTrialName)), p.assign(st.CurrentOptimalTrial.ParameterAssignments),
		p.metricsOf(st.CurrentOptimalTrial.Observation.Metrics))
	z := func(i int32) string { return kit.Z(int64(i)) }
	return fmt.Sprintf("{| e_conds := %s; e_completion := %s; e_optimal := %s; e_running_list := %s; e_pending_list := %s; e_failed_list := %s; "+
		"e_succeeded_list := %s; e_killed_list := %s; e_early_stopped_list := %s; e_metrics_unavailable_list := %s; e_trials := %s; "+
		"e_trials_succeeded := %s; e_trials_failed := %s; e_trials_killed := %s; e_trials_pending := %s; e_trials_running := %s; "+
		"e_trials_early_stopped := %s; e_trials_metrics_unavailable := %s |}",
		conds, compl, opt, p.nameList(st.RunningTrialList), p.nameList(st.PendingTrialList), p.nameList(st.FailedTrialList),
		p.nameList(st.SucceededTrialList), p.nameList(st.KilledTrialList), p.nameList(st.EarlyStoppedTrialList), p.nameList(st.MetricsUnavailableTrialList),
		z(st.Trials), z(st.TrialsSucceeded), z(st.TrialsFailed), z(st.TrialsKilled), z(st.TrialsPending), z(st.TrialsRunning),
		z(st.TrialsEarlyStopped), z(st.TrialMetricsUnavailable))
}

func (p *printer) spec(e *experimentsv1beta1.Experiment) string {
	ty := "OTUnknown"
	switch e.Spec.Objective.Type {
	case commonv1beta1.ObjectiveTypeMinimize:
		ty = "Minimize"
	case commonv1beta1.ObjectiveTypeMaximize:
		ty = "Maximize"
	}
	goal := "None"
	if e.Spec.Objective.Goal != nil {
		g := *e.Spec.Objective.Goal
		if g*8 != math.Trunc(g*8) || math.Abs(g*8) > 1<<40 {
			p.viol = "generator produced a goal outside the modelled domain"
		}
		goal = "(Some " + kit.Z(int64(g*8)) + ")"
	}
	oz := func(v *int32) string {
		if v == nil {
			return "None"
		}
		return "(Some " + kit.Z(int64(*v)) + ")"
	}
	rp := "RPOther"
	switch e.Spec.ResumePolicy {
	case experimentsv1beta1.NeverResume:
		rp = "NeverResume"
	case experimentsv1beta1.LongRunning:
		rp = "LongRunning"
	case experimentsv1beta1.FromVolume:
		rp = "FromVolume"
	}
	return fmt.Sprintf("{| obj_type := %s; obj_goal := %s; max_trials := %s; max_failed := %s; resume_policy := %s |}",
		ty, goal, oz(e.Spec.MaxTrialCount), oz(e.Spec.MaxFailedTrialCount), rp)
}

type observed struct {
	Conditions  []string       `json:"conditions"`
	Completion  string         `json:"completion_time"`
	Lists       map[string]any `json:"lists"`
	Counters    map[string]int `json:"counters"`
	Optimal     any            `json:"optimal"`
	Succeeded   int            `json:"collector_succeeded_inc"`
	Failed      int            `json:"collector_failed_inc"`
	Restartable bool           `json:"restartable"`
}

func (d drv) Run(inp any) kit.Case {
	in := inp.(input)
	exp, tl := build(in)
	p := newPrinter()
	// inputs are printed before the call: the implementation mutates the experiment in place
	var call string
	if in.Call == "condition" {
		call = fmt.Sprintf("(CallCondition %s %s)", kit.Bool(in.Goal), kit.Bool(in.SugDone))
	} else {
		call = "CallStatus"
	}
	spec := p.spec(exp)
	prior := p.status(&exp.Status)
	trials := kit.ListOf(tl.Items, func(t trialsv1beta1.Trial) string { return p.trial(&t) })

	// side comparison: every experiment Mark… helper on a copy of the prior status; the trial predicates and every
	// trial Mark… helper on copies of the first three trials
	var expMarks, trialMarks, trialFlags []string
	sidePanic := kit.Recover(func() {
		for op := 0; op < 5; op++ {
			e := exp.DeepCopy()
			switch op {
			case 0:
				e.MarkExperimentStatusCreated(in.MarkReason, "x")
			case 1:
				e.MarkExperimentStatusRunning(in.MarkReason, "x")
			case 2:
				e.MarkExperimentStatusRestarting(in.MarkReason, "x")
			case 3:
				e.MarkExperimentStatusSucceeded(in.MarkReason, "x")
			case 4:
				e.MarkExperimentStatusFailed(in.MarkReason, "x")
			}
			conds := kit.ListOf(e.Status.Conditions, func(c experimentsv1beta1.ExperimentCondition) string {
				return p.cond(p.etypes, string(c.Type), string(c.Status), c.Reason)
			})
			expMarks = append(expMarks, fmt.Sprintf("(%s, %s, %s)", kit.Nat(op), kit.Nat(p.reasons.ID(in.MarkReason)), conds))
		}
		for i := range tl.Items {
			t := &tl.Items[i]
			trialFlags = append(trialFlags, kit.Pair(kit.Bool(t.IsCompleted()), kit.Bool(t.IsObservationAvailable())))
			if i >= 3 {
				continue
			}
			for op := 0; op < 6; op++ {
				c := t.DeepCopy()
				switch op {
				case 0:
					c.MarkTrialStatusCreated(in.TrialMarkReason, "x")
				case 1:
					c.MarkTrialStatusRunning(in.TrialMarkReason, "x")
				case 2:
					c.MarkTrialStatusSucceeded(corev1.ConditionStatus(in.TrialMarkStatus), in.TrialMarkReason, "x")
				case 3:
					c.MarkTrialStatusFailed(in.TrialMarkReason, "x")
				case 4:
					c.MarkTrialStatusKilled(in.TrialMarkReason, "x")
				case 5:
					c.MarkTrialStatusMetricsUnavailable(in.TrialMarkReason, "x")
				}
				conds := kit.ListOf(c.Status.Conditions, func(cd trialsv1beta1.TrialCondition) string {
					return p.cond(p.ttypes, string(cd.Type), string(cd.Status), cd.Reason)
				})
				trialMarks = append(trialMarks, fmt.Sprintf("(%s, %s, %s, %s, %s)", kit.Nat(i), kit.Nat(op), cstatus(in.TrialMarkStatus),
					kit.Nat(p.reasons.ID(in.TrialMarkReason)), conds))
			}
		}
	})

	reg := prometheus.NewRegistry()
	collector := util.NewExpsCollector(noCache{}, reg)
	var err error
	pan := kit.Recover(func() {
		if in.Call == "condition" {
			util.UpdateExperimentStatusCondition(collector, exp, in.Goal, in.SugDone)
		} else {
			err = util.UpdateExperimentStatus(collector, exp, tl)
		}
	})
	var restartable bool
	pan2 := kit.Recover(func() { restartable = util.IsCompletedExperimentRestartable(exp) })

	var c kit.Case
	c.Input = in
	var impl string
	switch {
	case pan != "" || pan2 != "":
		impl = "(Crash 0%nat)"
		c.Observed = "panic: " + pan + pan2
		c.GoViol = "panic in UpdateExperimentStatus: " + pan + pan2
	case err != nil:
		impl = "(Err 1%nat)"
		c.Observed = "error: " + err.Error()
	default:
		impl = "(Ok " + p.status(&exp.Status) + ")"
		st := exp.Status
		o := observed{Lists: map[string]any{}, Counters: map[string]int{}}
		for _, cd := range st.Conditions {
			o.Conditions = append(o.Conditions, fmt.Sprintf("%s=%s(%s)", cd.Type, cd.Status, cd.Reason))
		}
		if st.CompletionTime != nil {
			o.Completion = "set"
			if st.CompletionTime.Time.Equal(t0.Time) {
				o.Completion = "prior"
			}
		}
		o.Lists["running"], o.Lists["pending"], o.Lists["failed"], o.Lists["succeeded"] = st.RunningTrialList, st.PendingTrialList, st.FailedTrialList, st.SucceededTrialList
		o.Lists["killed"], o.Lists["earlyStopped"], o.Lists["metricsUnavailable"] = st.KilledTrialList, st.EarlyStoppedTrialList, st.MetricsUnavailableTrialList
		o.Counters["trials"], o.Counters["succeeded"], o.Counters["failed"], o.Counters["killed"] = int(st.Trials), int(st.TrialsSucceeded), int(st.TrialsFailed), int(st.TrialsKilled)
		o.Counters["pending"], o.Counters["running"], o.Counters["earlyStopped"], o.Counters["metricsUnavailable"] = int(st.TrialsPending), int(st.TrialsRunning), int(st.TrialsEarlyStopped), int(st.TrialMetricsUnavailable)
		o.Optimal = st.CurrentOptimalTrial
		o.Succeeded = counterTotal(reg, "katib_experiment_succeeded_total")
		o.Failed = counterTotal(reg, "katib_experiment_failed_total")
		o.Restartable = restartable
		c.Observed = o
	}
	succInc := counterTotal(reg, "katib_experiment_succeeded_total")
	failInc := counterTotal(reg, "katib_experiment_failed_total")
	if succInc < 0 || failInc < 0 {
		c.GoViol = "cannot gather the collector's counters"
		succInc, failInc = 0, 0
	}
	if p.viol != "" {
		c.GoViol = p.viol
	}
	if sidePanic != "" {
		c.GoViol = "panic in a Mark… helper or trial predicate: " + sidePanic
	}
	c.Coq = fmt.Sprintf("Case %s %s %s %s %s %s %s %s %s %s %s", call, spec, prior, trials, impl, kit.Nat(succInc), kit.Nat(failInc), kit.Bool(restartable),
		kit.List(expMarks), kit.List(trialMarks), kit.List(trialFlags))
	c.Sig = call + spec + prior + trials

	// tags and the non-triviality rule
	classes := map[string]bool{}
	numeric, hasText := 0, false
	for _, t := range in.Trials {
		classes[classOf(t)] = true
		for _, m := range t.Metrics {
			for _, v := range []string{m.Min, m.Max, m.Latest} {
				if _, e := strconv.ParseFloat(v, 64); e != nil && v != "unavailable" {
					hasText = true
				}
			}
			if m.Name == t.ObjMetric {
				if _, e := strconv.ParseFloat(m.Latest, 64); e == nil {
					numeric++
					break
				}
			}
		}
	}
	priorCompleted := condsCompleted(in.Prior.Conds)
	tag := func(s string) { c.Tags = append(c.Tags, s) }
	tag("call:" + in.Call)
	switch n := len(in.Trials); {
	case n == 0:
		tag("trials:0")
	case n <= 3:
		tag("trials:1-3")
	case n <= 8:
		tag("trials:4-8")
	default:
		tag("trials:9-12")
	}
	if priorCompleted {
		tag("prior:completed")
	} else {
		tag("prior:not-completed")
	}
	if in.Max == nil {
		tag("max:nil")
	}
	if in.MaxFailed == nil {
		tag("maxFailed:nil")
	} else if *in.MaxFailed == 0 {
		tag("maxFailed:0")
	}
	if in.GoalVal == nil {
		tag("goal:nil")
	}
	tag("type:" + in.ObjType)
	if hasText {
		tag("values:with-non-numeric-text")
	}
	if err == nil && pan == "" {
		switch {
		case priorCompleted && in.Call == "status":
			tag("outcome:condition-update-skipped")
		case exp.IsSucceeded() && exp.IsFailed():
			tag("outcome:Succeeded+Failed")
		case exp.IsSucceeded():
			for _, cd := range exp.Status.Conditions {
				if cd.Type == experimentsv1beta1.ExperimentSucceeded {
					tag("outcome:Succeeded/" + cd.Reason)
					break
				}
			}
		case exp.IsFailed():
			tag("outcome:Failed")
		default:
			tag("outcome:Running")
		}
	}
	var cl []string
	for k := range classes {
		cl = append(cl, k)
	}
	sort.Strings(cl)
	if d.name == "c03" {
		sum := 0
		for _, v := range in.Prior.Counters[1:] {
			sum += int(v)
		}
		c.Nontrivial = !priorCompleted && ((len(in.Trials) >= 3 && len(cl) >= 2 && numeric >= 1) || (in.Call == "condition" && sum > 0))
	} else {
		c.Nontrivial = len(in.Trials) >= 3 && len(cl) >= 2 && numeric >= 2
	}
	return c
}

// condsCompleted: the first Succeeded or the first Failed condition is True.
func condsCompleted(cs []inCond) bool {
	seen := map[string]bool{}
	for _, cd := range cs {
		if !seen[cd.Type] && (cd.Type == "Succeeded" || cd.Type == "Failed") && cd.Status == "True" {
			return true
		}
		seen[cd.Type] = true
	}
	return false
}

// classOf is used for the distribution table only (not for any verdict).
func classOf(t inTrial) string {
	first := map[string]string{}
	for _, c := range t.Conds {
		if _, ok := first[c.Type]; !ok {
			first[c.Type] = c.Status
		}
	}
	for _, k := range []string{"Killed", "Failed", "Succeeded", "EarlyStopped", "Running", "MetricsUnavailable"} {
		if first[k] == "True" {
			return k
		}
	}
	return "Pending"
}
