// c05 drives the real util.UpdateExperimentStatus / util.UpdateExperimentStatusCondition of katib on generated
// experiments and trial lists and prints the cases for Corr/C05.v (gen name "c05") and Corr/C03.v (gen name "c03").
package main

import (
	"fmt"
	"os"

	"verifharness/internal/kit"
)

func main() {
	if len(os.Args) < 2 {
		fmt.Fprintln(os.Stderr, "usage: c05 <c05|c03> -seed S -n N -out DIR [-replay file]")
		os.Exit(2)
	}
	switch os.Args[1] {
	case "c05":
		kit.Main(drv{name: "c05", module: "C05"}, os.Args[2:])
	case "c03":
		kit.Main(drv{name: "c03", module: "C03"}, os.Args[2:])
	default:
		fmt.Fprintln(os.Stderr, "unknown generator", os.Args[1])
		os.Exit(2)
	}
}
