package main

import (
	"encoding/json"
	"fmt"
	"math"
	"math/rand"
	"strconv"
	"strings"
	"time"

	"github.com/prometheus/client_golang/prometheus"
	metav1 "k8s.io/apimachinery/pkg/apis/meta/v1"
	"k8s.io/client-go/tools/record"

	commonv1beta1 "github.com/kubeflow/katib/pkg/apis/controller/common/v1beta1"
	trialsv1beta1 "github.com/kubeflow/katib/pkg/apis/controller/trials/v1beta1"
	api_pb "github.com/kubeflow/katib/pkg/apis/manager/v1beta1"
	"github.com/kubeflow/katib/pkg/controller.v1beta1/trial"
	trialutil "github.com/kubeflow/katib/pkg/controller.v1beta1/trial/util"

	"verifharness/internal/kit"
)

// C11: getMetrics through ReconcileTrial.UpdateTrialStatusObservation with a fake DB manager.

type c11Entry struct {
	Name  string `json:"name"`
	Value string `json:"value"`
	TS    string `json:"ts"`
}
type c11Input struct {
	Strategies []string   `json:"strategies"`
	Log        []c11Entry `json:"log"`
}

type c11DB struct{ log []*api_pb.MetricLog }

func (d *c11DB) GetTrialObservationLog(*trialsv1beta1.Trial) (*api_pb.GetObservationLogReply, error) {
	return &api_pb.GetObservationLogReply{ObservationLog: &api_pb.ObservationLog{MetricLogs: d.log}}, nil
}
func (d *c11DB) DeleteTrialObservationLog(*trialsv1beta1.Trial) (*api_pb.DeleteObservationLogReply, error) {
	return &api_pb.DeleteObservationLogReply{}, nil
}
func (d *c11DB) ReportTrialObservationLog(*trialsv1beta1.Trial, *api_pb.ObservationLog) (*api_pb.ReportObservationLogReply, error) {
	return &api_pb.ReportObservationLogReply{}, nil
}

type c11 struct{}

func init() { register(c11{}) }

func (c11) Name() string      { return "c11" }
func (c11) CoqModule() string { return "C11" }
func (c11) Rule() string {
	return "logs of 1-60 entries over 5 metric names (1-4 tracked, strategies may repeat a name); values k/1024 printed in " +
		"random float syntaxes (plain, exponent, leading +, trailing zeros, leading dot, hex float) plus non-numeric texts and the " +
		"literal 'unavailable'; RFC3339Nano timestamps drawn from a small window (ties, out of order, zone offsets), ~8% of the logs " +
		"carry one unparsable timestamp. Non-trivial: some tracked metric has >=3 entries with >=2 distinct numbers, or the log has a bad timestamp. " +
		"Distinct: by the interned (strategies, log) tuple."
}

func c11Value(r *rand.Rand) string {
	switch r.Intn(12) {
	case 0:
		return kit.Pick(r, []string{"abc", "", "1_0", "0x10", "--1", "1.2.3", "nan-", "1e", " 1"})
	case 1:
		return "unavailable"
	}
	k := int64(r.Intn(4096) - 2048)
	if r.Intn(5) == 0 {
		k = int64(r.Intn(1<<30)) - (1 << 29)
	}
	if r.Intn(3) == 0 {
		k = k / 256 * 256 // coarse values => many numeric ties with different texts
	}
	v := float64(k) / 1024
	switch r.Intn(7) {
	case 0:
		return strconv.FormatFloat(v, 'e', -1, 64)
	case 1:
		s := strconv.FormatFloat(v, 'f', -1, 64)
		if v >= 0 {
			return "+" + s
		}
		return s
	case 2:
		s := strconv.FormatFloat(v, 'f', -1, 64)
		if !strings.Contains(s, ".") {
			s += "."
		}
		return s + strings.Repeat("0", 1+r.Intn(3))
	case 3:
		s := strconv.FormatFloat(v, 'f', -1, 64)
		if strings.HasPrefix(s, "0.") {
			return s[1:]
		}
		if strings.HasPrefix(s, "-0.") {
			return "-" + s[2:]
		}
		return s
	case 4:
		return strconv.FormatFloat(v, 'x', -1, 64)
	case 5:
		return strconv.FormatFloat(v, 'E', -1, 64)
	}
	return strconv.FormatFloat(v, 'f', -1, 64)
}

func c11TS(r *rand.Rand, bad bool) string {
	if bad {
		return kit.Pick(r, []string{"", "yesterday", "2024-13-01T00:00:00Z", "2024-01-01 00:00:00", "1700000000", "2024-01-01T00:00:00"})
	}
	base := time.Date(2024, 1, 1, 12, 0, 0, 0, time.UTC)
	t := base.Add(time.Duration(r.Intn(5)) * time.Second)
	if r.Intn(4) == 0 {
		t = t.Add(time.Duration(r.Intn(3)) * 500 * time.Millisecond)
	}
	if r.Intn(6) == 0 {
		t = t.Add(time.Duration(r.Intn(1000)))
	}
	switch r.Intn(4) {
	case 0:
		return t.In(time.FixedZone("x", 3600*(r.Intn(5)-2))).Format(time.RFC3339Nano)
	case 1:
		return t.Format(time.RFC3339)
	}
	return t.Format(time.RFC3339Nano)
}

func (c11) Gen(r *rand.Rand, i, n int) any {
	names := []string{"acc", "loss", "f1", "val-acc", "other"}
	var in c11Input
	ns := 1 + r.Intn(4)
	for k := 0; k < ns; k++ {
		in.Strategies = append(in.Strategies, names[r.Intn(4)])
	}
	ln := 1 + r.Intn(12)
	if r.Intn(5) == 0 {
		ln = 1 + r.Intn(60)
	}
	badAt := -1
	if r.Intn(12) == 0 {
		badAt = r.Intn(ln)
	}
	// concentrate on few names so that each metric sees several entries
	pool := names[:2+r.Intn(4)]
	for k := 0; k < ln; k++ {
		in.Log = append(in.Log, c11Entry{Name: kit.Pick(r, pool), Value: c11Value(r), TS: c11TS(r, k == badAt)})
	}
	return in
}

func (c11) Decode(raw json.RawMessage) (any, error) {
	var in c11Input
	err := json.Unmarshal(raw, &in)
	return in, err
}

func (c11) Run(input any) kit.Case {
	in := input.(c11Input)
	db := &c11DB{}
	for _, e := range in.Log {
		db.log = append(db.log, &api_pb.MetricLog{TimeStamp: e.TS, Metric: &api_pb.Metric{Name: e.Name, Value: e.Value}})
	}
	rec := trial.NewReconcilerForVerif(nil, nil, record.NewFakeRecorder(10), db, trialutil.NewTrialsCollector(nil, prometheus.NewRegistry()))
	t := &trialsv1beta1.Trial{ObjectMeta: metav1.ObjectMeta{Name: "t", Namespace: "ns"}}
	t.Spec.Objective = &commonv1beta1.ObjectiveSpec{ObjectiveMetricName: in.Strategies[0]}
	for _, s := range in.Strategies {
		t.Spec.Objective.MetricStrategies = append(t.Spec.Objective.MetricStrategies, commonv1beta1.MetricStrategy{Name: s, Value: commonv1beta1.ExtractByLatest})
	}
	var err error
	pan := kit.Recover(func() { err = rec.UpdateTrialStatusObservation(t) })

	names, texts := kit.NewIntern(), kit.NewIntern()
	texts.ID("unavailable") // id 0
	var c kit.Case
	c.Input = in
	strat := kit.ListOf(in.Strategies, func(s string) string { return kit.Nat(names.ID(s)) })
	numsPer := map[string]map[int64]bool{}
	cntPer := map[string]int{}
	hasBad := false
	entries := kit.ListOf(in.Log, func(e c11Entry) string {
		f, perr := strconv.ParseFloat(e.Value, 64)
		num := "None"
		if perr == nil {
			if math.IsNaN(f) || math.IsInf(f, 0) || f*1024 != math.Trunc(f*1024) || math.Abs(f*1024) > 1<<52 {
				c.GoViol = "generator produced a value outside the modelled domain: " + e.Value
			}
			k := int64(f * 1024)
			num = "(Some " + kit.Z(k) + ")"
			if numsPer[e.Name] == nil {
				numsPer[e.Name] = map[int64]bool{}
			}
			numsPer[e.Name][k] = true
		}
		cntPer[e.Name]++
		ts := "None"
		if tt, terr := time.Parse(time.RFC3339Nano, e.TS); terr == nil {
			ts = "(Some " + kit.Z(tt.UnixNano()) + ")"
		} else {
			hasBad = true
		}
		return fmt.Sprintf("{| ename := %s; vtext := %s; vnum := %s; ets := %s |}", kit.Nat(names.ID(e.Name)), kit.Nat(texts.ID(e.Value)), num, ts)
	})
	var impl string
	switch {
	case pan != "":
		impl = "(Crash 0%nat)"
		c.Observed = "panic: " + pan
	case err != nil:
		impl = "(Err 1%nat)"
		c.Observed = "error: " + err.Error()
	case t.Status.Observation == nil:
		impl = "(Err 2%nat)"
		c.Observed = "no observation"
	default:
		c.Observed = t.Status.Observation.Metrics
		impl = "(Ok " + kit.ListOf(t.Status.Observation.Metrics, func(m commonv1beta1.Metric) string {
			return fmt.Sprintf("(%s, (%s, %s, %s))", kit.Nat(names.ID(m.Name)), kit.Nat(texts.ID(m.Min)), kit.Nat(texts.ID(m.Max)), kit.Nat(texts.ID(m.Latest)))
		}) + ")"
	}
	c.Coq = fmt.Sprintf("C11.Case %s %s %s", strat, entries, impl)
	c.Sig = strat + entries
	for _, s := range in.Strategies {
		if cntPer[s] >= 3 && len(numsPer[s]) >= 2 {
			c.Nontrivial = true
		}
	}
	if hasBad {
		c.Nontrivial = true
		c.Tags = append(c.Tags, "bad-timestamp")
	} else {
		c.Tags = append(c.Tags, "all-timestamps-valid")
	}
	switch {
	case len(in.Log) <= 4:
		c.Tags = append(c.Tags, "len:1-4")
	case len(in.Log) <= 12:
		c.Tags = append(c.Tags, "len:5-12")
	default:
		c.Tags = append(c.Tags, "len:13-60")
	}
	return c
}
