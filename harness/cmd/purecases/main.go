// purecases drives the function-level properties: it generates inputs from one PRNG, runs the
// real katib code on them and writes Coq case files (inputs + observed outputs) for /verif/check.
package main

import (
	"fmt"
	"os"
	"sort"

	"verifharness/internal/kit"
)

var props = map[string]kit.Prop{}

func register(p kit.Prop) { props[p.Name()] = p }

func main() {
	if len(os.Args) < 2 {
		var names []string
		for n := range props {
			names = append(names, n)
		}
		sort.Strings(names)
		fmt.Fprintln(os.Stderr, "usage: purecases <prop> -seed S -n N -out DIR [-replay file]; props:", names)
		os.Exit(2)
	}
	p, ok := props[os.Args[1]]
	if !ok {
		fmt.Fprintln(os.Stderr, "unknown property driver", os.Args[1])
		os.Exit(2)
	}
	kit.Main(p, os.Args[2:])
}
