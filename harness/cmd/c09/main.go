// c09: which trials and numbers the REAL suggestion reconciler sends to an experiment's algorithm and early-stopping
// services in a cluster holding several experiments (equal names in different namespaces, shared labels).
package main

import (
	"context"
	"encoding/json"
	"fmt"
	"math/rand"
	"os"
	"sort"

	"google.golang.org/grpc"
	appsv1 "k8s.io/api/apps/v1"
	batchv1 "k8s.io/api/batch/v1"
	corev1 "k8s.io/api/core/v1"
	rbacv1 "k8s.io/api/rbac/v1"
	metav1 "k8s.io/apimachinery/pkg/apis/meta/v1"
	"k8s.io/apimachinery/pkg/runtime"
	"k8s.io/apimachinery/pkg/types"
	"sigs.k8s.io/controller-runtime/pkg/client/fake"
	"sigs.k8s.io/controller-runtime/pkg/reconcile"

	configv1beta1 "github.com/kubeflow/katib/pkg/apis/config/v1beta1"
	apis "github.com/kubeflow/katib/pkg/apis/controller"
	commonv1beta1 "github.com/kubeflow/katib/pkg/apis/controller/common/v1beta1"
	experimentsv1beta1 "github.com/kubeflow/katib/pkg/apis/controller/experiments/v1beta1"
	suggestionsv1beta1 "github.com/kubeflow/katib/pkg/apis/controller/suggestions/v1beta1"
	trialsv1beta1 "github.com/kubeflow/katib/pkg/apis/controller/trials/v1beta1"
	api_pb "github.com/kubeflow/katib/pkg/apis/manager/v1beta1"
	"github.com/kubeflow/katib/pkg/controller.v1beta1/consts"
	"github.com/kubeflow/katib/pkg/controller.v1beta1/suggestion"
	"github.com/kubeflow/katib/pkg/controller.v1beta1/suggestion/composer"
	"github.com/kubeflow/katib/pkg/controller.v1beta1/suggestion/suggestionclient"
	"github.com/kubeflow/katib/pkg/controller.v1beta1/util"

	"verifharness/internal/kit"
)

type Exp struct {
	NS     string            `json:"ns"`
	Name   string            `json:"name"`
	Labels map[string]string `json:"labels"`
	ES     bool              `json:"es"`
	Count  int               `json:"count"`   // suggestionCount already stored
	Extra  int               `json:"extra"`   // requests - count
	// labels put on the experiment (or changed) AFTER its trials were created: a metadata-only update, always admitted
	Relabel map[string]string `json:"relabel,omitempty"`
}
type Trial struct {
	Owner  int               `json:"owner"`
	Name   string            `json:"name"`
	ALabel map[string]string `json:"alabels"` // labels the algorithm attached to the assignment
	MU     bool              `json:"mu"`
	ES     bool              `json:"es"`
	Obs    bool              `json:"obs"`
	Done   bool              `json:"done"` // Succeeded (otherwise Running) when neither MU nor ES
	Failed bool              `json:"failed"` // Failed, without observation
	// the trial is being deleted (kubectl delete trial) and still exists because its finalizer is pending: still the
	// experiment's own trial
	Deleting bool `json:"deleting,omitempty"`
}
type Input struct {
	Exps   []Exp   `json:"exps"`
	Trials []Trial `json:"trials"`
	Target int     `json:"target"` // experiment whose suggestion is reconciled
	// a second sync by the same controller process: after the first request the early-stopped trials of the target get
	// their observation (the trial controller writes it at its next reconcile), one more suggestion is requested, and the
	// SECOND request is the one judged (what an earlier request saw must not matter)
	Late bool `json:"late,omitempty"`
}

type c09 struct{}

func main() { kit.Main(c09{}, os.Args[2:]) }

func (c09) Name() string      { return "c09" }
func (c09) CoqModule() string { return "C09" }
func (c09) Rule() string {
	return "clusters of 2-4 experiments over 2 namespaces and 2 names (equal names in different namespaces, equal labels across experiments, " +
		"experiments with extra labels), 0-6 trials each built like getTrialInstance does (util.TrialLabels(owner) plus algorithm labels, one in eight on a key the experiment itself uses), some experiments relabelled after their trials were created, " +
		"in states running / succeeded / failed / metrics-unavailable / early-stopped with or without observation; some experiments carry another experiment's name under the experiment-name label key; the REAL suggestion reconciler runs for one " +
		"experiment's suggestion with requests > suggestionCount; the requests seen by the fake algorithm and early-stopping services are the observation. " +
		"Non-trivial: another experiment shares the target's name or a label and has trials, and the target has a skipped trial. Distinct: by the cluster."
}
func (c09) Decode(raw json.RawMessage) (any, error) {
	var in Input
	err := json.Unmarshal(raw, &in)
	return in, err
}

func (c09) Gen(r *rand.Rand, i, n int) any {
	var in Input
	nss := []string{"ns1", "ns2"}
	names := []string{"e", "f"}
	used := map[string]bool{}
	ne := 2 + r.Intn(3)
	shared := map[string]string{"team": "a"}
	for len(in.Exps) < ne {
		ns, nm := kit.Pick(r, nss), kit.Pick(r, names)
		if used[ns+"/"+nm] {
			if len(used) == 4 {
				break
			}
			continue
		}
		used[ns+"/"+nm] = true
		e := Exp{NS: ns, Name: nm, Labels: map[string]string{}, ES: r.Intn(2) == 0, Extra: 1 + r.Intn(3)}
		switch r.Intn(5) {
		case 4:
			// an experiment that itself carries the experiment-name label of another experiment
			e.Labels[consts.LabelExperimentName] = kit.Pick(r, names)
			e.Labels["team"] = "a"
		case 0:
			e.Labels["team"] = shared["team"]
		case 1:
			e.Labels["team"] = "b"
		case 2:
			e.Labels["team"] = "a"
			e.Labels["tier"] = "x"
		}
		if r.Intn(8) == 0 {
			e.Relabel = map[string]string{kit.Pick(r, []string{"team", "tier", "cost-center"}): "relabelled"}
		}
		in.Exps = append(in.Exps, e)
	}
	for ei := range in.Exps {
		k := r.Intn(7)
		in.Exps[ei].Count = k + r.Intn(2)
		for j := 0; j < k; j++ {
			t := Trial{Owner: ei, Name: fmt.Sprintf("%s-%s-t%d", in.Exps[ei].NS, in.Exps[ei].Name, j), ALabel: map[string]string{}}
			if r.Intn(3) == 0 {
				t.ALabel["algo"] = kit.Pick(r, []string{"p", "q"})
			}
			if r.Intn(8) == 0 {
				// the algorithm labels its proposal with a key the experiment itself happens to use
				for k := range in.Exps[ei].Labels {
					if k != consts.LabelExperimentName {
						t.ALabel[k] = "from-algorithm"
						break
					}
				}
			}
			switch r.Intn(6) {
			case 0:
				t.MU = true
			case 1:
				t.ES = true
				t.Obs = r.Intn(2) == 0
			case 2, 3:
				t.Done, t.Obs = true, true
			case 4:
				t.Failed = true
			}
			t.Deleting = r.Intn(10) == 0
			in.Trials = append(in.Trials, t)
		}
	}
	r.Shuffle(len(in.Trials), func(a, b int) { in.Trials[a], in.Trials[b] = in.Trials[b], in.Trials[a] })
	in.Target = r.Intn(len(in.Exps))
	in.Late = r.Intn(4) == 0
	return in
}

type capture struct {
	sug   *api_pb.GetSuggestionsRequest
	es    *api_pb.GetEarlyStoppingRulesRequest
	extra int
}

func (c *capture) GetSuggestions(ctx context.Context, in *api_pb.GetSuggestionsRequest, opts ...grpc.CallOption) (*api_pb.GetSuggestionsReply, error) {
	c.sug = in
	rep := &api_pb.GetSuggestionsReply{}
	for i := 0; i < int(in.CurrentRequestNumber); i++ {
		rep.ParameterAssignments = append(rep.ParameterAssignments, &api_pb.GetSuggestionsReply_ParameterAssignments{
			TrialName: fmt.Sprintf("new-%d", i), Assignments: []*api_pb.ParameterAssignment{{Name: "lr", Value: "0.1"}}})
	}
	return rep, nil
}
func (c *capture) ValidateAlgorithmSettings(ctx context.Context, in *api_pb.ValidateAlgorithmSettingsRequest, opts ...grpc.CallOption) (*api_pb.ValidateAlgorithmSettingsReply, error) {
	return &api_pb.ValidateAlgorithmSettingsReply{}, nil
}
func (c *capture) GetEarlyStoppingRules(ctx context.Context, in *api_pb.GetEarlyStoppingRulesRequest, opts ...grpc.CallOption) (*api_pb.GetEarlyStoppingRulesReply, error) {
	c.es = in
	return &api_pb.GetEarlyStoppingRulesReply{}, nil
}
func (c *capture) SetTrialStatus(ctx context.Context, in *api_pb.SetTrialStatusRequest, opts ...grpc.CallOption) (*api_pb.SetTrialStatusReply, error) {
	return &api_pb.SetTrialStatusReply{}, nil
}
func (c *capture) ValidateEarlyStoppingSettings(ctx context.Context, in *api_pb.ValidateEarlyStoppingSettingsRequest, opts ...grpc.CallOption) (*api_pb.ValidateEarlyStoppingSettingsReply, error) {
	return &api_pb.ValidateEarlyStoppingSettingsReply{}, nil
}

type nopRecorder struct{}

func (nopRecorder) Event(runtime.Object, string, string, string)                  {}
func (nopRecorder) Eventf(runtime.Object, string, string, string, ...interface{}) {}
func (nopRecorder) AnnotatedEventf(runtime.Object, map[string]string, string, string, string, ...interface{}) {
}

const katibConfig = `
apiVersion: config.kubeflow.org/v1beta1
kind: KatibConfig
runtime:
  suggestions:
  - algorithmName: random
    image: img/random
  earlyStoppings:
  - algorithmName: medianstop
    image: img/ms
`

func copyMap(m map[string]string) map[string]string {
	if m == nil {
		return nil
	}
	c := make(map[string]string, len(m))
	for k, v := range m {
		c[k] = v
	}
	return c
}

func cond(t trialsv1beta1.TrialConditionType) trialsv1beta1.TrialCondition {
	return trialsv1beta1.TrialCondition{Type: t, Status: corev1.ConditionTrue, Reason: string(t)}
}

func (c09) Run(input any) kit.Case {
	in := input.(Input)
	trs := append([]Trial(nil), in.Trials...) // the trials as they are when the judged request is made (late observations)
	ctx := context.TODO()
	s := runtime.NewScheme()
	_ = apis.AddToScheme(s)
	_ = corev1.AddToScheme(s)
	_ = batchv1.AddToScheme(s)
	_ = appsv1.AddToScheme(s)
	_ = rbacv1.AddToScheme(s)
	_ = configv1beta1.AddToScheme(s)
	cm := &corev1.ConfigMap{ObjectMeta: metav1.ObjectMeta{Name: "katib-config", Namespace: "kubeflow"}, Data: map[string]string{"katib-config.yaml": katibConfig}}
	cl := fake.NewClientBuilder().WithScheme(s).WithStatusSubresource(&experimentsv1beta1.Experiment{}, &suggestionsv1beta1.Suggestion{}, &trialsv1beta1.Trial{}).WithObjects(cm).Build()
	var exps []*experimentsv1beta1.Experiment
	for _, e := range in.Exps {
		// a copy of the labels: in.Exps is what the model is given and must not share memory with objects handed to katib code
		x := &experimentsv1beta1.Experiment{ObjectMeta: metav1.ObjectMeta{Name: e.Name, Namespace: e.NS, Labels: copyMap(e.Labels)}}
		x.Spec.Objective = &commonv1beta1.ObjectiveSpec{Type: commonv1beta1.ObjectiveTypeMaximize, ObjectiveMetricName: "acc",
			MetricStrategies: []commonv1beta1.MetricStrategy{{Name: "acc", Value: commonv1beta1.ExtractByMax}}}
		x.Spec.Algorithm = &commonv1beta1.AlgorithmSpec{AlgorithmName: "random"}
		if e.ES {
			x.Spec.EarlyStopping = &commonv1beta1.EarlyStoppingSpec{AlgorithmName: "medianstop"}
		}
		p := int32(3)
		x.Spec.ParallelTrialCount = &p
		x.Spec.Parameters = []experimentsv1beta1.ParameterSpec{{Name: "lr", ParameterType: experimentsv1beta1.ParameterTypeDouble,
			FeasibleSpace: experimentsv1beta1.FeasibleSpace{Min: "0", Max: "1"}}}
		if err := cl.Create(ctx, x); err != nil {
			panic(err)
		}
		exps = append(exps, x)
		sg := &suggestionsv1beta1.Suggestion{ObjectMeta: metav1.ObjectMeta{Name: e.Name, Namespace: e.NS}}
		sg.Spec.Algorithm = x.Spec.Algorithm
		sg.Spec.EarlyStopping = x.Spec.EarlyStopping
		sg.Spec.Requests = int32(e.Count + e.Extra)
		sg.Spec.ResumePolicy = experimentsv1beta1.LongRunning
		if err := cl.Create(ctx, sg); err != nil {
			panic(err)
		}
		sg.Status.SuggestionCount = int32(e.Count)
		for k := 0; k < e.Count; k++ {
			sg.Status.Suggestions = append(sg.Status.Suggestions, suggestionsv1beta1.TrialAssignment{Name: fmt.Sprintf("%s-%s-t%d", e.NS, e.Name, k)})
		}
		sg.Status.Conditions = []suggestionsv1beta1.SuggestionCondition{
			{Type: suggestionsv1beta1.SuggestionCreated, Status: corev1.ConditionTrue, Reason: "SuggestionCreated"},
			{Type: suggestionsv1beta1.SuggestionDeploymentReady, Status: corev1.ConditionTrue, Reason: "DeploymentReady"},
			{Type: suggestionsv1beta1.SuggestionRunning, Status: corev1.ConditionTrue, Reason: "SuggestionRunning"}}
		if err := cl.Status().Update(ctx, sg); err != nil {
			panic(err)
		}
	}
	// the labels every trial is created with, recorded before anything else runs: what the model is given
	trialLabels := make([]map[string]string, len(in.Trials))
	for i, t := range in.Trials {
		e := exps[t.Owner]
		tr := &trialsv1beta1.Trial{ObjectMeta: metav1.ObjectMeta{Name: t.Name, Namespace: e.Namespace, Labels: util.TrialLabels(e)}}
		for k, v := range t.ALabel {
			tr.Labels[k] = v
		}
		trialLabels[i] = copyMap(tr.Labels)
		tr.Spec.Objective = e.Spec.Objective
		tr.Finalizers = []string{"clean-metrics-in-db"}
		if err := cl.Create(ctx, tr); err != nil {
			panic(err)
		}
		tr.Status.Conditions = []trialsv1beta1.TrialCondition{cond(trialsv1beta1.TrialCreated), cond(trialsv1beta1.TrialRunning)}
		if t.MU {
			tr.Status.Conditions = append(tr.Status.Conditions, cond(trialsv1beta1.TrialMetricsUnavailable))
		}
		if t.ES {
			tr.Status.Conditions = append(tr.Status.Conditions, cond(trialsv1beta1.TrialEarlyStopped))
		}
		if t.Done && !t.MU && !t.ES {
			tr.Status.Conditions = append(tr.Status.Conditions, cond(trialsv1beta1.TrialSucceeded))
		}
		if t.Failed && !t.MU && !t.ES {
			tr.Status.Conditions = append(tr.Status.Conditions, cond(trialsv1beta1.TrialFailed))
		}
		if t.Obs {
			tr.Status.Observation = &commonv1beta1.Observation{Metrics: []commonv1beta1.Metric{{Name: "acc", Min: "0.5", Max: "0.5", Latest: "0.5"}}}
		} else if t.MU {
			tr.Status.Observation = &commonv1beta1.Observation{Metrics: []commonv1beta1.Metric{{Name: "acc", Min: "unavailable", Max: "unavailable", Latest: "unavailable"}}}
		}
		if err := cl.Status().Update(ctx, tr); err != nil {
			panic(err)
		}
		if t.Deleting {
			if err := cl.Delete(ctx, tr); err != nil { // the finalizer keeps the object, with a deletion timestamp
				panic(err)
			}
		}
	}
	// metadata-only updates of the experiments after their trials exist; the model is given the experiments as they are now
	cur := make([]Exp, len(in.Exps))
	for i, e := range in.Exps {
		cur[i] = e
		cur[i].Labels = copyMap(e.Labels)
		if len(e.Relabel) == 0 {
			continue
		}
		x := &experimentsv1beta1.Experiment{}
		if err := cl.Get(ctx, types.NamespacedName{Name: e.Name, Namespace: e.NS}, x); err != nil {
			panic(err)
		}
		if x.Labels == nil {
			x.Labels = map[string]string{}
		}
		if cur[i].Labels == nil {
			cur[i].Labels = map[string]string{}
		}
		for k, v := range e.Relabel {
			x.Labels[k] = v
			cur[i].Labels[k] = v
		}
		if err := cl.Update(ctx, x); err != nil {
			panic(err)
		}
	}
	cap := &capture{}
	suggestionclient.SetRPCClientFactoriesForVerif(func(*grpc.ClientConn) api_pb.SuggestionClient { return cap },
		func(*grpc.ClientConn) api_pb.EarlyStoppingClient { return cap })
	comp := composer.NewGeneralForVerif(s, cl)
	rec := suggestion.NewReconcilerForVerif(cl, s, nopRecorder{}, comp, suggestionclient.New())
	te := in.Exps[in.Target]
	key := types.NamespacedName{Name: te.Name, Namespace: te.NS}
	// infrastructure of the target: created by a first reconcile, then the deployment is made available
	var c kit.Case
	c.Input = in
	pan := kit.Recover(func() {
		_, _ = rec.Reconcile(ctx, reconcile.Request{NamespacedName: key})
		dl := &appsv1.DeploymentList{}
		_ = cl.List(ctx, dl)
		for i := range dl.Items {
			d := &dl.Items[i]
			d.Status.Conditions = []appsv1.DeploymentCondition{{Type: appsv1.DeploymentAvailable, Status: corev1.ConditionTrue}}
			_ = cl.Status().Update(ctx, d)
		}
		cap.sug, cap.es = nil, nil
		_, _ = rec.Reconcile(ctx, reconcile.Request{NamespacedName: key})
		if in.Late && cap.sug != nil {
			for i := range trs {
				t := &trs[i]
				if t.Owner != in.Target || !t.ES || t.Obs {
					continue
				}
				tr := &trialsv1beta1.Trial{}
				if err := cl.Get(ctx, types.NamespacedName{Name: t.Name, Namespace: te.NS}, tr); err != nil {
					panic(err)
				}
				tr.Status.Observation = &commonv1beta1.Observation{Metrics: []commonv1beta1.Metric{{Name: "acc", Min: "0.5", Max: "0.5", Latest: "0.5"}}}
				if err := cl.Status().Update(ctx, tr); err != nil {
					panic(err)
				}
				t.Obs = true
			}
			sg := &suggestionsv1beta1.Suggestion{}
			if err := cl.Get(ctx, key, sg); err != nil {
				panic(err)
			}
			te.Count = int(sg.Status.SuggestionCount)
			te.Extra = 1
			sg.Spec.Requests = int32(te.Count + te.Extra)
			if err := cl.Update(ctx, sg); err != nil {
				panic(err)
			}
			cap.sug, cap.es = nil, nil
			_, _ = rec.Reconcile(ctx, reconcile.Request{NamespacedName: key})
		}
	})
	if pan != "" {
		c.GoViol = "panic: " + pan
	}

	// ---- Coq term
	ids := kit.NewIntern()
	ids.ID(consts.LabelExperimentName) // key 0 = KEY_EXPERIMENT
	vals := kit.NewIntern()
	lab := func(m map[string]string) string {
		var ks []string
		for k := range m {
			ks = append(ks, k)
		}
		sort.Strings(ks)
		return kit.ListOf(ks, func(k string) string { return fmt.Sprintf("(%d, %d)", ids.ID(k), vals.ID(m[k])) }) + "%nat"
	}
	nsid := kit.NewIntern()
	expsC := kit.ListOf(cur, func(e Exp) string {
		return fmt.Sprintf("Build_sexp %d%%nat %d%%nat %s", nsid.ID(e.NS), vals.ID(e.Name), lab(e.Labels))
	})
	tnames := kit.NewIntern()
	ti := -1
	trialsC := kit.ListOf(trs, func(t Trial) string {
		ti++
		return fmt.Sprintf("Build_strial %d%%nat %d%%nat %s %d%%nat %s %s %s", nsid.ID(in.Exps[t.Owner].NS), tnames.ID(t.Name), lab(trialLabels[ti]), t.Owner, kit.Bool(t.MU), kit.Bool(t.ES), kit.Bool(t.Obs))
	})
	names := func(ts []*api_pb.Trial) string {
		var l []string
		for _, t := range ts {
			l = append(l, fmt.Sprintf("%d", tnames.ID(t.Name)))
		}
		return kit.List(l) + "%nat"
	}
	obs := "None"
	observed := map[string]any{}
	if cap.sug != nil {
		obs = fmt.Sprintf("(Some (%s, %d, %d))", names(cap.sug.Trials), cap.sug.CurrentRequestNumber, cap.sug.TotalRequestNumber)
		var l []string
		for _, t := range cap.sug.Trials {
			l = append(l, t.Name)
		}
		observed["get_suggestions"] = map[string]any{"trials": l, "current": cap.sug.CurrentRequestNumber, "total": cap.sug.TotalRequestNumber}
	}
	esobs := "None"
	if cap.es != nil {
		esobs = "(Some " + names(cap.es.Trials) + ")"
		var l []string
		for _, t := range cap.es.Trials {
			l = append(l, t.Name)
		}
		observed["get_es_rules"] = l
	}
	c.Observed = observed
	c.Coq = fmt.Sprintf("C09.Case %s %s %d%%nat %d %d %s %s %s", expsC, trialsC, in.Target, te.Count+te.Extra, te.Count, kit.Bool(te.ES), obs, esobs)
	c.Sig = expsC + trialsC + fmt.Sprint(in.Target)
	shares, skipped := false, false
	for i, e := range in.Exps {
		if i != in.Target && (e.Name == te.Name || (e.Labels["team"] != "" && e.Labels["team"] == te.Labels["team"])) {
			for _, t := range in.Trials {
				if t.Owner == i {
					shares = true
				}
			}
		}
	}
	for _, t := range trs {
		if t.Owner == in.Target && (t.MU || (t.ES && !t.Obs)) {
			skipped = true
		}
	}
	c.Nontrivial = shares && skipped
	if shares {
		c.Tags = append(c.Tags, "shares-name-or-label")
	}
	if in.Late {
		c.Tags = append(c.Tags, "second-sync-after-late-observations")
	}
	for _, t := range trs {
		if t.Owner == in.Target && t.Deleting {
			c.Tags = append(c.Tags, "has-terminating-trial")
			break
		}
	}
	if skipped {
		c.Tags = append(c.Tags, "has-skipped-trial")
	}
	c.Tags = append(c.Tags, fmt.Sprintf("experiments:%d", len(in.Exps)))
	return c
}
