// c20 drives the UI backend (pkg/ui/v1beta1) of the working tree: every route registered in
// cmd/ui/v1beta1/main.go is called through httptest on a KatibUIHandler built over an intercepting fake
// client and a loopback gRPC DB manager, with authorisation enabled, under different users / RBAC answers /
// request shapes / cluster states.  The recorded effect trace (reviews, accesses, status, namespaces of the
// objects in the body) is the case; Coq compares it with `run` of the translated skeleton (Gen/Routes.v) and
// evaluates the monitor `safeb` on it.
package main

import (
	"bytes"
	"encoding/json"
	"fmt"
	"go/ast"
	"go/parser"
	"go/token"
	"io"
	"log"
	"math/rand"
	"net/http"
	"net/http/httptest"
	"net/url"
	"os"
	"path/filepath"
	"reflect"
	"sort"
	"strconv"
	"strings"

	experimentsv1beta1 "github.com/kubeflow/katib/pkg/apis/controller/experiments/v1beta1"
	ui "github.com/kubeflow/katib/pkg/ui/v1beta1"
	"github.com/kubeflow/katib/pkg/util/v1beta1/katibclient"
	"sigs.k8s.io/controller-runtime/pkg/client/config"

	"verifharness/internal/kit"
)

// ------------------------------------------------------------------ dynamic route enumeration

type dynRoute struct {
	Path, Name string
	Static     bool
}

func repoDir() string {
	if d := os.Getenv("VERIF_REPO"); d != "" {
		return d
	}
	return "/repo"
}

// parseRoutes reads the registrations of main.go on its own (syntax only, independent of xlate-ui).
func parseRoutes() ([]dynRoute, error) {
	fset := token.NewFileSet()
	f, err := parser.ParseFile(fset, filepath.Join(repoDir(), "cmd/ui/v1beta1/main.go"), nil, 0)
	if err != nil {
		return nil, err
	}
	var res []dynRoute
	ast.Inspect(f, func(n ast.Node) bool {
		call, ok := n.(*ast.CallExpr)
		if !ok || len(call.Args) != 2 {
			return true
		}
		sel, ok := call.Fun.(*ast.SelectorExpr)
		if !ok {
			return true
		}
		if x, ok := sel.X.(*ast.Ident); !ok || x.Name != "http" || (sel.Sel.Name != "HandleFunc" && sel.Sel.Name != "Handle") {
			return true
		}
		lit, ok := call.Args[0].(*ast.BasicLit)
		if !ok {
			res = append(res, dynRoute{Path: "?", Name: "?"})
			return true
		}
		path, _ := strconv.Unquote(lit.Value)
		r := dynRoute{Path: path}
		switch h := call.Args[1].(type) {
		case *ast.SelectorExpr:
			r.Name = h.Sel.Name
		case *ast.CallExpr:
			if s, ok := h.Fun.(*ast.SelectorExpr); ok {
				if x, ok := s.X.(*ast.Ident); ok && x.Name == "http" {
					r.Name, r.Static = "http.FileServer", true
				} else {
					r.Name = s.Sel.Name
				}
			}
		}
		res = append(res, r)
		return true
	})
	return res, nil
}

// handlerFor resolves the handler of a route on a live KatibUIHandler by reflection.
func handlerFor(h *ui.KatibUIHandler, r dynRoute) (http.HandlerFunc, error) {
	m := reflect.ValueOf(h).MethodByName(r.Name)
	if !m.IsValid() {
		return nil, fmt.Errorf("route %s: KatibUIHandler has no method %s", r.Path, r.Name)
	}
	switch f := m.Interface().(type) {
	case func(http.ResponseWriter, *http.Request):
		return f, nil
	case func(string) func(http.ResponseWriter, *http.Request):
		return f(emptyDir), nil
	}
	return nil, fmt.Errorf("route %s: method %s has an unexpected type %s", r.Path, r.Name, m.Type())
}

var emptyDir string

// ------------------------------------------------------------------ inputs

type input struct {
	Route  string            `json:"route"`
	Method string            `json:"method"`
	Header *string           `json:"header"` // nil = no user header
	Rbac   rbacSpec          `json:"rbac"`
	Query  map[string]string `json:"query"`
	Query2 map[string]string `json:"query2,omitempty"` // a second value of a repeated query parameter (?namespace=a&namespace=b)
	Body   *string           `json:"body"`
	World  worldSpec         `json:"world"`
}

type c20 struct{ routes []dynRoute }

func (c20) Name() string      { return "c20" }
func (c20) CoqModule() string { return "C20" }
func (c20) Rule() string {
	return "routes of cmd/ui/v1beta1/main.go round-robin; per case: user header (absent 15%, 'alice', ':' = empty user), RBAC oracle (deny all 15%, every verb in namespace " +
		"'mine' 45%, allow all 15%, read-only member of 'mine' = get/list/watch only 25%), query parameters namespace in {mine, victim, kubeflow, other, '', absent} (one request in six repeats the parameter with another value) and object names (existing in that namespace, " +
		"existing elsewhere, unknown, absent), JSON bodies for the POST routes (well formed, missing fields, malformed), cluster state (which namespaces hold " +
		"templates, 0-3 trials, the k-th API call fails, DB manager fails, delayed experiment deletion). Non-trivial: the request reached an authorisation " +
		"decision or an API access (the trace has at least one event). Distinct: by (route, request, oracle, cluster state)."
}

func pickW[T any](r *rand.Rand, xs []T, ws []int) T {
	t := 0
	for _, w := range ws {
		t += w
	}
	k := r.Intn(t)
	for i, w := range ws {
		if k < w {
			return xs[i]
		}
		k -= w
	}
	return xs[0]
}

func (c c20) Gen(r *rand.Rand, i, n int) any {
	var data []dynRoute
	for _, rt := range c.routes {
		if !rt.Static {
			data = append(data, rt)
		}
	}
	rt := data[i%len(data)]
	if (rt.Name == "ServeIndex" || rt.Name == "FetchNamespaces") && (i/len(data))%4 != 0 {
		// the two routes without namespaced data get a quarter of their share; the rest goes to the data routes
		for {
			rt = data[r.Intn(len(data))]
			if rt.Name != "ServeIndex" && rt.Name != "FetchNamespaces" {
				break
			}
		}
	}
	in := input{Route: rt.Path, Method: "GET", Query: map[string]string{}}
	switch pickW(r, []int{0, 1, 2}, []int{15, 80, 5}) {
	case 1:
		s := "alice"
		in.Header = &s
	case 2:
		s := ":"
		in.Header = &s
	}
	in.Rbac = pickW(r, []rbacSpec{{Mode: "deny"}, {Mode: "ns", Ns: "mine"}, {Mode: "all"}, {Mode: "ro", Ns: "mine"}}, []int{15, 45, 15, 25})
	// cluster state
	in.World.Trials = pickW(r, []int{0, 1, 2, 3}, []int{10, 25, 30, 35})
	in.World.Templates = pickW(r, [][]string{{"kubeflow", "mine", "victim"}, {"kubeflow", "mine"}, {"kubeflow"}, {"mine"}, {}, {"kubeflow", "victim"}}, []int{40, 20, 10, 10, 5, 15})
	if r.Intn(5) == 0 {
		in.World.FailAt = 1 + r.Intn(6)
	}
	in.World.DbFail = r.Intn(12) == 0
	if r.Intn(4) == 0 {
		in.World.Slow = 1 + r.Intn(2)
	}
	// request
	ns := pickW(r, []string{"mine", "victim", "kubeflow", "other", "", "-"}, []int{52, 25, 8, 4, 5, 6})
	if ns != "-" {
		in.Query["namespace"] = ns
		if r.Intn(6) == 0 {
			// the parameter is given twice: only the first value is the one the review is made for
			in.Query2 = map[string]string{"namespace": kit.Pick(r, []string{"victim", "mine", "kubeflow"})}
		}
	}
	objNs := ns
	switch r.Intn(10) {
	case 0:
		objNs = "victim" // a name that exists in another namespace
	case 1:
		objNs = "nowhere"
	}
	if objNs == "" || objNs == "-" || objNs == "other" {
		objNs = "mine"
	}
	if r.Intn(15) != 0 {
		in.Query["experimentName"] = expName(objNs)
		in.Query["suggestionName"] = expName(objNs)
		in.Query["trialName"] = trialName(objNs, pickW(r, []int{1, 2, 3}, []int{50, 30, 20}))
	} else if r.Intn(2) == 0 {
		in.Query["experimentName"] = expName(objNs)
	}
	var body any
	switch rt.Name {
	case "CreateExperiment":
		in.Method = "POST"
		bns := pickW(r, []string{"mine", "victim", "", "kubeflow"}, []int{50, 35, 7, 8})
		exp := map[string]any{"apiVersion": "kubeflow.org/v1beta1", "kind": "Experiment", "metadata": map[string]any{"name": "new-" + marker(bns), "namespace": bns}}
		switch r.Intn(12) {
		case 0:
			body = map[string]any{"other": exp}
		case 1:
			body = map[string]any{"postData": map[string]any{"metadata": 7}}
		case 2:
			body = "not an object"
		case 3:
			exp["metadata"].(map[string]any)["name"] = expName(bns) // already exists
			body = map[string]any{"postData": exp}
		default:
			body = map[string]any{"postData": exp}
		}
	case "AddTemplate", "EditTemplate", "DeleteTemplate":
		in.Method = "POST"
		bns := pickW(r, []string{"mine", "victim", "kubeflow", ""}, []int{50, 35, 10, 5})
		name := pickW(r, []string{cmName(bns), "cm-" + marker(bns) + "-new"}, []int{60, 40})
		path := pickW(r, []string{"tpl-" + marker(bns) + ".yaml", "new-" + marker(bns) + ".yaml"}, []int{60, 40})
		m := map[string]any{"updatedConfigMapNamespace": bns, "updatedConfigMapName": name, "updatedConfigMapPath": path,
			"configMapPath": "tpl-" + marker(bns) + ".yaml", "updatedTemplateYaml": "kind: Job # new " + marker(bns)}
		switch r.Intn(14) {
		case 0:
			delete(m, "updatedConfigMapNamespace")
		case 1:
			delete(m, "updatedConfigMapPath")
		case 2:
			m["updatedConfigMapName"] = 3
		case 3:
			body = []int{1}
		}
		if body == nil {
			body = m
		}
	}
	if body != nil {
		raw, _ := json.Marshal(body)
		s := string(raw)
		if r.Intn(25) == 0 {
			s = s[:len(s)/2] // malformed
		}
		in.Body = &s
	}
	return in
}

func (c20) Decode(raw json.RawMessage) (any, error) {
	var in input
	err := json.Unmarshal(raw, &in)
	return in, err
}

// finding domains: decided from the input alone (route + "the request passes the route's own authorisation")
var findingDomain = map[string]string{
	"/katib/fetch_nas_job_info/":    "all",
	"/katib/fetch_trial_templates/": "all",
	"/katib/delete_experiment/":     "authorised-query",
	"/katib/add_template/":          "authorised-body",
	"/katib/edit_template/":         "authorised-body",
	"/katib/delete_template/":       "authorised-body",
}

// the verb of the route's own review (part of the definition of the finding domains "the request passes the route's
// own authorisation")
var routeVerb = map[string]string{
	"/katib/delete_experiment/": "delete",
	"/katib/add_template/":      "create",
	"/katib/edit_template/":     "update",
	"/katib/delete_template/":   "delete",
}

func (c c20) Run(inp any) kit.Case {
	in := inp.(input)
	var rt *dynRoute
	for i := range c.routes {
		if c.routes[i].Path == in.Route {
			rt = &c.routes[i]
		}
	}
	rec := &recorder{rbac: in.Rbac}
	cl := buildWorld(in.World, rec)
	db.mu.Lock()
	db.rec = rec
	db.mu.Unlock()
	h := ui.NewKatibUIHandlerForVerif(katibclient.NewWithGivenClient(cl), dbAddr)

	q := url.Values{}
	for k, v := range in.Query {
		q.Set(k, v)
	}
	for k, v := range in.Query2 {
		q.Add(k, v)
	}
	target := in.Route
	if len(q) > 0 {
		target += "?" + q.Encode()
	}
	var bodyBytes []byte
	if in.Body != nil {
		bodyBytes = []byte(*in.Body)
	}
	// the handler reads a copy: bodyBytes is decoded again below for the request as the model sees it
	req := httptest.NewRequest(in.Method, target, bytes.NewReader(append([]byte(nil), bodyBytes...)))
	hdr := ""
	if in.Header != nil {
		hdr = *in.Header
		req.Header.Set(ui.USER_HEADER, hdr)
	}
	w := httptest.NewRecorder()
	status := 0
	var goViol string
	if rt == nil {
		goViol = "route " + in.Route + " is not registered in main.go of this tree"
	} else if f, err := handlerFor(h, *rt); err != nil {
		goViol = err.Error()
	} else {
		p := kit.Recover(func() { f(w, req) })
		if p == "" {
			status = w.Code
		}
	}
	body := w.Body.String()
	var bodyNs []string
	if status >= 200 && status < 300 {
		for _, n := range nsAll {
			if strings.Contains(body, marker(n)) {
				bodyNs = append(bodyNs, n)
			}
		}
	}

	// ---- the request as the model sees it (results of the library calls are computed here)
	user := strings.Replace(hdr, ui.USER_PREFIX, "", 1)
	var libfail []string
	var keys []string
	var fields [][2]string
	var data map[string]interface{}
	if err := json.NewDecoder(bytes.NewReader(bodyBytes)).Decode(&data); err != nil {
		libfail = append(libfail, "json.Decode")
	} else {
		for k, v := range data {
			keys = append(keys, k)
			if s, ok := v.(string); ok {
				fields = append(fields, [2]string{k, s})
			}
		}
		if pd, ok := data["postData"]; ok {
			raw, _ := json.Marshal(pd)
			job := experimentsv1beta1.Experiment{}
			if err := json.Unmarshal(raw, &job); err != nil {
				libfail = append(libfail, "json.Unmarshal")
			} else {
				fields = append(fields, [2]string{"postData.metadata.namespace", job.Namespace})
			}
		}
	}
	sort.Strings(keys)
	sort.Slice(fields, func(i, j int) bool { return fields[i][0] < fields[j][0] })
	libfail = append(libfail, "config.GetConfig") // no kubeconfig in the harness (checked at start-up)
	var params [][2]string
	for k, v := range in.Query {
		params = append(params, [2]string{k, v})
	}
	for k, v := range in.Query2 { // after the first values: a lookup takes the first
		params = append(params, [2]string{k, v})
	}
	sort.SliceStable(params, func(i, j int) bool { return params[i][0] < params[j][0] })

	pair := func(p [2]string) string { return kit.Pair(kit.Str(p[0]), kit.Str(p[1])) }
	reqC := kit.Rec("Req", kit.Str(hdr), kit.Str(user), kit.ListOf(params, pair), kit.ListOf(keys, kit.Str), kit.ListOf(fields, pair), kit.ListOf(libfail, kit.Str))
	rbacC := map[string]string{"deny": "RDeny", "all": "RAllowAll", "ns": "(RAllowNs " + kit.Str(in.Rbac.Ns) + ")",
		"ro": "(RReadOnly " + kit.Str(in.Rbac.Ns) + ")"}[in.Rbac.Mode]
	apisC := kit.ListOf(rec.apis, func(a apires) string {
		switch {
		case a.Ok:
			return "(AOk " + kit.ListOf(a.Objs, kit.Str) + ")"
		case a.NotFound:
			return "ANotFound"
		}
		return "AErr"
	})
	evsC := kit.ListOf(rec.evs, func(e event) string {
		if e.Auth {
			return kit.Rec("EAuth", kit.Str(e.User), kit.Str(e.Verb), kit.Str(e.Res), kit.Str(e.Ns), kit.Bool(e.Allowed))
		}
		return kit.Rec("EAcc", e.Op, e.Kind, kit.Str(e.Ns))
	})
	traceC := kit.Rec("Trace", evsC, kit.Nat(status), kit.ListOf(bodyNs, kit.Str))

	// ---- finding domain of the input
	key := ""
	authNs := func(ns string, ok bool) bool {
		return ok && in.Header != nil && in.Rbac.allows(routeVerb[in.Route], ns)
	}
	switch findingDomain[in.Route] {
	case "all":
		key = "route:" + in.Route
	case "authorised-query":
		ns, ok := in.Query["namespace"]
		if authNs(ns, ok) {
			key = "route:" + in.Route
		}
	case "authorised-body":
		ns, ok := "", false
		for _, f := range fields {
			if f[0] == "updatedConfigMapNamespace" {
				ns, ok = f[1], true
			}
		}
		if authNs(ns, ok) {
			key = "route:" + in.Route
		}
	}
	key = kit.KeyIf("C20", key, key != "")

	tags := []string{"route:" + in.Route, "rbac:" + in.Rbac.Mode, fmt.Sprintf("status:%d", status)}
	if in.Header == nil {
		tags = append(tags, "user:absent")
	} else {
		tags = append(tags, "user:present")
	}
	if in.World.FailAt > 0 {
		tags = append(tags, "fault:api")
	}
	if len(rec.evs) > 0 {
		tags = append(tags, fmt.Sprintf("events:%d", min(len(rec.evs), 6)))
	} else {
		tags = append(tags, "events:0")
	}
	sig, _ := json.Marshal(in)
	if len(body) > 300 {
		body = body[:300]
	}
	return kit.Case{
		Input:      in,
		Observed:   map[string]any{"status": status, "events": rec.evs, "api_results": rec.apis, "body_namespaces": bodyNs, "body": body},
		Key:        key,
		Coq:        kit.Rec("Case", kit.Str(in.Route), reqC, rbacC, apisC, traceC),
		Sig:        string(sig),
		Nontrivial: len(rec.evs) > 0,
		Tags:       tags,
		GoViol:     goViol,
	}
}

// ------------------------------------------------------------------ set-up

func setup() (c20, error) {
	ui.DISABLE_AUTH = "false" // authorisation enabled (authzn.go: APP_DISABLE_AUTH)
	d, err := os.MkdirTemp("", "c20")
	if err != nil {
		return c20{}, err
	}
	emptyDir = d
	_ = os.MkdirAll(filepath.Join(d, "static"), 0o755)
	_ = os.WriteFile(filepath.Join(d, "static/index.html"), []byte("<html></html>"), 0o644)
	log.SetOutput(io.Discard)
	os.Setenv("HOME", d)
	os.Setenv("KUBECONFIG", filepath.Join(d, "none"))
	os.Unsetenv("KUBERNETES_SERVICE_HOST")
	if _, err := config.GetConfig(); err == nil {
		return c20{}, fmt.Errorf("harness: a kubeconfig is reachable; FetchTrialLogs would talk to a real cluster")
	}
	if err := startDB(); err != nil {
		return c20{}, err
	}
	rs, err := parseRoutes()
	if err != nil {
		return c20{}, err
	}
	return c20{routes: rs}, nil
}

func min(a, b int) int {
	if a < b {
		return a
	}
	return b
}
