package main

import (
	"context"
	"errors"
	"fmt"
	"net"
	"strings"
	"sync"

	"google.golang.org/grpc"
	authv1 "k8s.io/api/authorization/v1"
	corev1 "k8s.io/api/core/v1"
	apierrors "k8s.io/apimachinery/pkg/api/errors"
	metav1 "k8s.io/apimachinery/pkg/apis/meta/v1"
	"k8s.io/apimachinery/pkg/runtime"
	"sigs.k8s.io/controller-runtime/pkg/client"
	"sigs.k8s.io/controller-runtime/pkg/client/fake"
	"sigs.k8s.io/controller-runtime/pkg/client/interceptor"

	apis "github.com/kubeflow/katib/pkg/apis/controller"
	commonv1beta1 "github.com/kubeflow/katib/pkg/apis/controller/common/v1beta1"
	experimentsv1beta1 "github.com/kubeflow/katib/pkg/apis/controller/experiments/v1beta1"
	suggestionsv1beta1 "github.com/kubeflow/katib/pkg/apis/controller/suggestions/v1beta1"
	trialsv1beta1 "github.com/kubeflow/katib/pkg/apis/controller/trials/v1beta1"
	api_pb "github.com/kubeflow/katib/pkg/apis/manager/v1beta1"
	ui "github.com/kubeflow/katib/pkg/ui/v1beta1"
)

// The fixture cluster.  Every object of namespace n carries the marker "mk<n>" in its name and in the data a
// handler may show, so that "the 2xx body contains objects of n" is observable as "the body contains mk<n>".
var nsAll = []string{"kubeflow", "mine", "victim", "other"}

func marker(ns string) string { return "mk" + ns }

func nsOfName(name string) string {
	for _, n := range nsAll {
		if strings.Contains(name, marker(n)) {
			return n
		}
	}
	return "?"
}

type event struct {
	Auth    bool   `json:"auth,omitempty"`
	User    string `json:"user,omitempty"`
	Verb    string `json:"verb,omitempty"`
	Res     string `json:"res,omitempty"`
	Op      string `json:"op,omitempty"`
	Kind    string `json:"kind,omitempty"`
	Ns      string `json:"ns"`
	Allowed bool   `json:"allowed,omitempty"`
}

type apires struct {
	Ok       bool     `json:"ok"`
	NotFound bool     `json:"notfound,omitempty"`
	Objs     []string `json:"objs,omitempty"`
}

// recorder of one request
type recorder struct {
	mu     sync.Mutex
	evs    []event
	apis   []apires
	calls  int
	failAt int // 1-based index of the API call that fails (0 = none)
	dbFail bool
	rbac   rbacSpec
	slow   int // the next experiment delete only takes effect after this many experiment lists
	pend   []client.Object
}

type rbacSpec struct {
	Mode string `json:"mode"` // deny | ns (every verb in Ns) | all | ro (read-only member of Ns: get/list/watch only)
	Ns   string `json:"ns,omitempty"`
}

func readVerb(v string) bool { return v == "get" || v == "list" || v == "watch" }

func (r rbacSpec) allows(verb, ns string) bool {
	switch r.Mode {
	case "all":
		return true
	case "ns":
		return r.Ns == ns
	case "ro":
		return r.Ns == ns && readVerb(verb)
	}
	return false
}

var scheme = func() *runtime.Scheme {
	s := runtime.NewScheme()
	_ = apis.AddToScheme(s)
	_ = corev1.AddToScheme(s)
	_ = authv1.AddToScheme(s)
	return s
}()

func kindOf(o any) string {
	if s, ok := o.(string); ok && s == "obslog" {
		return "KObsLog"
	}
	switch o.(type) {
	case *experimentsv1beta1.Experiment, *experimentsv1beta1.ExperimentList:
		return "KExperiment"
	case *trialsv1beta1.Trial, *trialsv1beta1.TrialList:
		return "KTrial"
	case *suggestionsv1beta1.Suggestion, *suggestionsv1beta1.SuggestionList:
		return "KSuggestion"
	case *corev1.ConfigMap, *corev1.ConfigMapList:
		return "KConfigMap"
	case *corev1.Namespace, *corev1.NamespaceList:
		return "KNamespace"
	case *corev1.Pod, *corev1.PodList:
		return "KPod"
	}
	return fmt.Sprintf("(KOther %q)", fmt.Sprintf("%T", o))
}

func (r *recorder) begin(op string, o any, ns string) (fail bool) {
	r.mu.Lock()
	defer r.mu.Unlock()
	r.calls++
	r.evs = append(r.evs, event{Op: op, Kind: kindOf(o), Ns: ns})
	return r.calls == r.failAt
}

func (r *recorder) end(err error, objs []string) error {
	r.mu.Lock()
	defer r.mu.Unlock()
	switch {
	case err == nil:
		r.apis = append(r.apis, apires{Ok: true, Objs: objs})
	case apierrors.IsNotFound(err):
		r.apis = append(r.apis, apires{NotFound: true})
	default:
		r.apis = append(r.apis, apires{})
	}
	return err
}

var errInjected = errors.New("injected API failure")

type worldSpec struct {
	Templates []string `json:"templates"` // namespaces holding a trial-template ConfigMap
	Trials    int      `json:"trials"`    // trials per experiment (the first is succeeded)
	FailAt    int      `json:"fail_at"`
	DbFail    bool     `json:"db_fail"`
	Slow      int      `json:"slow_delete"`
}

const nasDecoder = `{'num_layers': 1, 'input_size': [32, 32, 3], 'output_size': [10], 'embedding': {'1': {'opt_id': 1, 'opt_type': 'convolution', 'opt_params': {'filter_size': '3', 'num_filter': '32', 'stride': '1'}}}}`

func expName(ns string) string   { return "e-" + marker(ns) + "-1" }
func trialName(ns string, i int) string { return fmt.Sprintf("t-%s-%d", marker(ns), i) }
func cmName(ns string) string    { return "cm-" + marker(ns) + "-1" }

func buildWorld(w worldSpec, rec *recorder) client.Client {
	var objs []client.Object
	for _, n := range nsAll {
		objs = append(objs, &corev1.Namespace{ObjectMeta: metav1.ObjectMeta{Name: n}})
	}
	for _, n := range []string{"kubeflow", "mine", "victim"} {
		e := &experimentsv1beta1.Experiment{ObjectMeta: metav1.ObjectMeta{Name: expName(n), Namespace: n}}
		e.Spec.Objective = &commonv1beta1.ObjectiveSpec{Type: commonv1beta1.ObjectiveTypeMaximize, ObjectiveMetricName: "acc-" + marker(n)}
		e.Spec.Parameters = []experimentsv1beta1.ParameterSpec{{Name: "lr-" + marker(n), ParameterType: experimentsv1beta1.ParameterTypeDouble}}
		e.MarkExperimentStatusCreated("Created", "created")
		objs = append(objs, e)
		objs = append(objs, &suggestionsv1beta1.Suggestion{ObjectMeta: metav1.ObjectMeta{Name: expName(n), Namespace: n}})
		for i := 1; i <= w.Trials; i++ {
			t := &trialsv1beta1.Trial{ObjectMeta: metav1.ObjectMeta{Name: trialName(n, i), Namespace: n, Labels: map[string]string{"katib.kubeflow.org/experiment": expName(n)}}}
			t.Spec.Objective = &commonv1beta1.ObjectiveSpec{Type: commonv1beta1.ObjectiveTypeMaximize, ObjectiveMetricName: "acc-" + marker(n)}
			t.Spec.ParameterAssignments = []commonv1beta1.ParameterAssignment{{Name: "architecture", Value: "[[1]]"}, {Name: "nn_config", Value: nasDecoder}}
			t.Status.Conditions = []trialsv1beta1.TrialCondition{{Type: trialsv1beta1.TrialCreated, Status: corev1.ConditionTrue}}
			if i == 1 {
				t.Status.Conditions = append(t.Status.Conditions, trialsv1beta1.TrialCondition{Type: trialsv1beta1.TrialSucceeded, Status: corev1.ConditionTrue})
			} else {
				t.Status.Conditions = append(t.Status.Conditions, trialsv1beta1.TrialCondition{Type: trialsv1beta1.TrialRunning, Status: corev1.ConditionTrue})
			}
			objs = append(objs, t)
		}
	}
	for _, n := range w.Templates {
		objs = append(objs, &corev1.ConfigMap{ObjectMeta: metav1.ObjectMeta{Name: cmName(n), Namespace: n, Labels: ui.TrialTemplateLabel},
			Data: map[string]string{"tpl-" + marker(n) + ".yaml": "kind: Job # " + marker(n)}})
	}
	rec.failAt, rec.dbFail, rec.slow = w.FailAt, w.DbFail, w.Slow
	return fake.NewClientBuilder().WithScheme(scheme).WithObjects(objs...).WithInterceptorFuncs(interceptor.Funcs{
		Create: func(ctx context.Context, cl client.WithWatch, obj client.Object, opts ...client.CreateOption) error {
			if sar, ok := obj.(*authv1.SubjectAccessReview); ok {
				// the RBAC oracle answers here (authzn.go: client.Create(ctx, sar))
				ra := sar.Spec.ResourceAttributes
				sar.Status.Allowed = rec.rbac.allows(ra.Verb, ra.Namespace)
				res := ra.Resource
				if ra.Subresource != "" {
					res += "/" + ra.Subresource
				}
				rec.mu.Lock()
				rec.evs = append(rec.evs, event{Auth: true, User: sar.Spec.User, Verb: ra.Verb, Res: res, Ns: ra.Namespace, Allowed: sar.Status.Allowed})
				rec.mu.Unlock()
				return nil
			}
			if rec.begin("OCreate", obj, obj.GetNamespace()) {
				return rec.end(errInjected, nil)
			}
			return rec.end(cl.Create(ctx, obj, opts...), nil)
		},
		Update: func(ctx context.Context, cl client.WithWatch, obj client.Object, opts ...client.UpdateOption) error {
			if rec.begin("OUpdate", obj, obj.GetNamespace()) {
				return rec.end(errInjected, nil)
			}
			return rec.end(cl.Update(ctx, obj, opts...), nil)
		},
		Delete: func(ctx context.Context, cl client.WithWatch, obj client.Object, opts ...client.DeleteOption) error {
			if rec.begin("ODelete", obj, obj.GetNamespace()) {
				return rec.end(errInjected, nil)
			}
			if _, ok := obj.(*experimentsv1beta1.Experiment); ok && rec.slow > 0 {
				rec.pend = append(rec.pend, obj) // like a finalizer: the object disappears later
				return rec.end(nil, nil)
			}
			return rec.end(cl.Delete(ctx, obj, opts...), nil)
		},
		Patch: func(ctx context.Context, cl client.WithWatch, obj client.Object, patch client.Patch, opts ...client.PatchOption) error {
			if rec.begin("OUpdate", obj, obj.GetNamespace()) {
				return rec.end(errInjected, nil)
			}
			return rec.end(cl.Patch(ctx, obj, patch, opts...), nil)
		},
		Get: func(ctx context.Context, cl client.WithWatch, key client.ObjectKey, obj client.Object, opts ...client.GetOption) error {
			if rec.begin("OGet", obj, key.Namespace) {
				return rec.end(errInjected, nil)
			}
			err := cl.Get(ctx, key, obj, opts...)
			return rec.end(err, []string{obj.GetNamespace()})
		},
		List: func(ctx context.Context, cl client.WithWatch, list client.ObjectList, opts ...client.ListOption) error {
			lo := &client.ListOptions{}
			lo.ApplyOptions(opts)
			if rec.begin("OList", list, lo.Namespace) {
				return rec.end(errInjected, nil)
			}
			if _, ok := list.(*experimentsv1beta1.ExperimentList); ok && len(rec.pend) > 0 {
				rec.slow--
				if rec.slow <= 0 {
					for _, o := range rec.pend {
						_ = cl.Delete(ctx, o)
					}
					rec.pend = nil
				}
			}
			err := cl.List(ctx, list, opts...)
			var objs []string
			if err == nil {
				switch l := list.(type) {
				case *corev1.NamespaceList:
					for _, it := range l.Items {
						objs = append(objs, it.Name)
					}
				case *experimentsv1beta1.ExperimentList:
					for _, it := range l.Items {
						objs = append(objs, it.Namespace)
					}
				case *trialsv1beta1.TrialList:
					for _, it := range l.Items {
						objs = append(objs, it.Namespace)
					}
				case *corev1.ConfigMapList:
					for _, it := range l.Items {
						objs = append(objs, it.Namespace)
					}
				default:
					err = fmt.Errorf("harness: list of unexpected type %T", list)
				}
			}
			return rec.end(err, objs)
		},
	}).Build()
}

// ------------------------------------------------------------------ fake DB manager (real gRPC, loopback)

type dbServer struct {
	api_pb.UnimplementedDBManagerServer
	mu  sync.Mutex
	rec *recorder
}

func (d *dbServer) GetObservationLog(ctx context.Context, in *api_pb.GetObservationLogRequest) (*api_pb.GetObservationLogReply, error) {
	d.mu.Lock()
	rec := d.rec
	d.mu.Unlock()
	ns := nsOfName(in.TrialName)
	if rec.begin("OGet", "obslog", ns) || rec.dbFail {
		return nil, rec.end(errInjected, nil)
	}
	_ = rec.end(nil, []string{ns})
	return &api_pb.GetObservationLogReply{ObservationLog: &api_pb.ObservationLog{MetricLogs: []*api_pb.MetricLog{
		{TimeStamp: "2024-01-01T00:00:00Z", Metric: &api_pb.Metric{Name: "acc-" + marker(ns), Value: "0.5"}},
		{TimeStamp: "2024-01-01T00:00:01Z", Metric: &api_pb.Metric{Name: "acc-" + marker(ns), Value: "0.75"}},
	}}}, nil
}

var db = &dbServer{}
var dbAddr string

func startDB() error {
	lis, err := net.Listen("tcp", "127.0.0.1:0")
	if err != nil {
		return err
	}
	dbAddr = lis.Addr().String()
	s := grpc.NewServer()
	api_pb.RegisterDBManagerServer(s, db)
	go func() { _ = s.Serve(lis) }()
	return nil
}
