// C19 shared code. This file is compiled twice:
//   - as part of the harness binary harness/cmd/c19 (package main), for the DB layer driven directly;
//   - overlaid (go test -overlay) as zz_c19_rec_test.go into /repo/cmd/db-manager/v1beta1 (also package main), next to
//     dbm_driver_test.go.txt, for the gRPC handlers. Every identifier carries the prefix c19 to avoid clashes there.
// It contains the replayable input type, the construction of the protobuf messages (with nil sub-messages), and a
// recording database/sql driver: every Prepare / Exec / Query that reaches the driver is recorded with the exact
// statement text and the exact bound values, in order.
package main

import (
	"context"
	"database/sql"
	"database/sql/driver"
	"encoding/base64"
	"encoding/json"
	"errors"
	"fmt"
	"io"
	"sync"
	"unicode/utf8"

	api_pb "github.com/kubeflow/katib/pkg/apis/manager/v1beta1"
	"github.com/kubeflow/katib/pkg/db/v1beta1/common"
	"github.com/kubeflow/katib/pkg/db/v1beta1/mysql"
	"github.com/kubeflow/katib/pkg/db/v1beta1/postgres"
)

// c19S is a byte string that survives JSON: valid UTF-8 is written as a JSON string, anything else as {"b64": ...}.
type c19S string

func (s c19S) MarshalJSON() ([]byte, error) {
	if utf8.ValidString(string(s)) {
		return json.Marshal(string(s))
	}
	return json.Marshal(map[string]string{"b64": base64.StdEncoding.EncodeToString([]byte(s))})
}

func (s *c19S) UnmarshalJSON(b []byte) error {
	var plain string
	if json.Unmarshal(b, &plain) == nil {
		*s = c19S(plain)
		return nil
	}
	var m map[string]string
	if err := json.Unmarshal(b, &m); err != nil {
		return err
	}
	raw, err := base64.StdEncoding.DecodeString(m["b64"])
	*s = c19S(raw)
	return err
}

type c19Entry struct {
	Nil       bool `json:"nil,omitempty"`        // the list element is a nil *MetricLog
	TS        c19S `json:"ts"`                   // MetricLog.TimeStamp
	NilMetric bool `json:"nil_metric,omitempty"` // MetricLog.Metric == nil
	Name      c19S `json:"name"`
	Value     c19S `json:"value"`
}

type c19Input struct {
	Level   string     `json:"level"`   // db | handler
	Dialect string     `json:"dialect"` // mysql | postgres
	Op      string     `json:"op"`      // report | get | delete
	Trial   c19S       `json:"trial"`
	NilLog  bool       `json:"nil_log,omitempty"` // report: observation_log == nil
	Entries []c19Entry `json:"entries,omitempty"`
	Metric  c19S       `json:"metric,omitempty"` // get: filters ("" = absent)
	Start   c19S       `json:"start,omitempty"`
	End     c19S       `json:"end,omitempty"`
	Fault   int        `json:"fault,omitempty"` // k > 0: the k-th call that reaches the database driver fails
	// earlier requests served by the same storage object (same process, same connection pool) before this one; what
	// they were must not matter for the SQL of this request (DB level only; their own SQL is not recorded)
	Pre []c19Input `json:"pre,omitempty"`
}

type c19Event struct {
	Call string `json:"call"` // prepare | stmt-exec | stmt-query | exec | query | begin
	SQL  c19S   `json:"sql"`
	Args []c19S `json:"args"`
}

type c19Result struct {
	Kind   string     `json:"kind"` // ok | err | panic
	Msg    string     `json:"msg,omitempty"`
	Events []c19Event `json:"events"`
}

// c19Log builds the ObservationLog pointer of a report, nil sub-messages included.
func c19Log(in c19Input) *api_pb.ObservationLog {
	if in.NilLog {
		return nil
	}
	ol := &api_pb.ObservationLog{}
	for _, e := range in.Entries {
		if e.Nil {
			ol.MetricLogs = append(ol.MetricLogs, nil)
			continue
		}
		ml := &api_pb.MetricLog{TimeStamp: string(e.TS)}
		if !e.NilMetric {
			ml.Metric = &api_pb.Metric{Name: string(e.Name), Value: string(e.Value)}
		}
		ol.MetricLogs = append(ol.MetricLogs, ml)
	}
	return ol
}

// ---------------------------------------------------------------- recording driver

type c19Rec struct {
	mu     sync.Mutex
	events []c19Event
	fault  int
	calls  int
	timeOK string // a time string the dialect's scanner accepts (rows returned by Query)
}

var errC19Fault = errors.New("c19: injected database failure")

func c19ArgText(v driver.Value) c19S {
	switch x := v.(type) {
	case string:
		return c19S(x)
	case []byte:
		return c19S("\x00[]byte:" + string(x))
	default:
		return c19S(fmt.Sprintf("\x00%T:%v", v, v))
	}
}

func (r *c19Rec) record(call, q string, args []driver.Value) error {
	r.mu.Lock()
	defer r.mu.Unlock()
	ev := c19Event{Call: call, SQL: c19S(q), Args: []c19S{}}
	for _, a := range args {
		ev.Args = append(ev.Args, c19ArgText(a))
	}
	r.events = append(r.events, ev)
	r.calls++
	if r.fault > 0 && r.calls == r.fault {
		return errC19Fault
	}
	return nil
}

func c19Named(args []driver.NamedValue) []driver.Value {
	out := make([]driver.Value, len(args))
	for i, a := range args {
		out[i] = a.Value
	}
	return out
}

type c19Connector struct{ r *c19Rec }
type c19Driver struct{}
type c19Conn struct{ r *c19Rec }
type c19Stmt struct {
	r *c19Rec
	q string
}
type c19Tx struct{}
type c19Rows struct {
	data [][]driver.Value
	i    int
}

func (c c19Connector) Connect(context.Context) (driver.Conn, error) { return &c19Conn{c.r}, nil }
func (c c19Connector) Driver() driver.Driver                        { return c19Driver{} }
func (c19Driver) Open(string) (driver.Conn, error)                  { return nil, errors.New("c19: use the connector") }

func (c *c19Conn) Prepare(q string) (driver.Stmt, error) {
	if err := c.r.record("prepare", q, nil); err != nil {
		return nil, err
	}
	return &c19Stmt{c.r, q}, nil
}
func (c *c19Conn) Close() error { return nil }
func (c *c19Conn) Begin() (driver.Tx, error) {
	if err := c.r.record("begin", "", nil); err != nil {
		return nil, err
	}
	return c19Tx{}, nil
}
func (c *c19Conn) ExecContext(_ context.Context, q string, args []driver.NamedValue) (driver.Result, error) {
	if err := c.r.record("exec", q, c19Named(args)); err != nil {
		return nil, err
	}
	return driver.RowsAffected(1), nil
}
func (c *c19Conn) QueryContext(_ context.Context, q string, args []driver.NamedValue) (driver.Rows, error) {
	if err := c.r.record("query", q, c19Named(args)); err != nil {
		return nil, err
	}
	return c.r.rows(), nil
}

func (c19Tx) Commit() error   { return nil }
func (c19Tx) Rollback() error { return nil }

func (s *c19Stmt) Close() error  { return nil }
func (s *c19Stmt) NumInput() int { return -1 }
func (s *c19Stmt) Exec(args []driver.Value) (driver.Result, error) {
	if err := s.r.record("stmt-exec", s.q, args); err != nil {
		return nil, err
	}
	return driver.RowsAffected(1), nil
}
func (s *c19Stmt) Query(args []driver.Value) (driver.Rows, error) {
	if err := s.r.record("stmt-query", s.q, args); err != nil {
		return nil, err
	}
	return s.r.rows(), nil
}

// rows answered to every query: one well-formed row, one whose time does not parse, one with a NULL (scan error).
func (r *c19Rec) rows() driver.Rows {
	return &c19Rows{data: [][]driver.Value{
		{r.timeOK, "accuracy", "0.5"},
		{"not a time", "m'; --", "\x00"},
		{nil, "x", "y"},
	}}
}
func (r *c19Rows) Columns() []string { return []string{"time", "metric_name", "value"} }
func (r *c19Rows) Close() error      { return nil }
func (r *c19Rows) Next(dest []driver.Value) error {
	if r.i >= len(r.data) {
		return io.EOF
	}
	copy(dest, r.data[r.i])
	r.i++
	return nil
}

// c19Open returns the real dbConn of the dialect over a recording connection.
func c19Open(in c19Input) (common.KatibDBInterface, *c19Rec, *sql.DB) {
	rec := &c19Rec{fault: in.Fault}
	db := sql.OpenDB(c19Connector{rec})
	if in.Dialect == "postgres" {
		rec.timeOK = "2024-01-02T03:04:05.5Z"
		return postgres.NewWithDBForVerif(db), rec, db
	}
	rec.timeOK = "2024-01-02 03:04:05.5"
	return mysql.NewWithDBForVerif(db), rec, db
}

// c19RunDB calls the DB layer directly.
func c19RunDB(in c19Input) (res c19Result) {
	iface, rec, db := c19Open(in)
	defer db.Close()
	defer func() {
		if p := recover(); p != nil {
			res = c19Result{Kind: "panic", Msg: fmt.Sprint(p)}
		}
		res.Events = append([]c19Event{}, rec.events...)
	}()
	var err error
	if len(in.Pre) > 0 {
		rec.fault = 0
		for _, p := range in.Pre {
			func() {
				defer func() { _ = recover() }()
				switch p.Op {
				case "report":
					_ = iface.RegisterObservationLog(string(p.Trial), c19Log(p))
				case "get":
					_, _ = iface.GetObservationLog(string(p.Trial), string(p.Metric), string(p.Start), string(p.End))
				case "delete":
					_ = iface.DeleteObservationLog(string(p.Trial))
				}
			}()
		}
		rec.mu.Lock()
		rec.events, rec.calls, rec.fault = nil, 0, in.Fault
		rec.mu.Unlock()
	}
	switch in.Op {
	case "report":
		err = iface.RegisterObservationLog(string(in.Trial), c19Log(in))
	case "get":
		_, err = iface.GetObservationLog(string(in.Trial), string(in.Metric), string(in.Start), string(in.End))
	case "delete":
		err = iface.DeleteObservationLog(string(in.Trial))
	default:
		return c19Result{Kind: "err", Msg: "unknown op " + in.Op}
	}
	if err != nil {
		return c19Result{Kind: "err", Msg: err.Error()}
	}
	return c19Result{Kind: "ok"}
}
