// c19 drives property C19 (observation-log storage treats all strings as data and never crashes).
//
//	(a) level "db":      the real mysql / postgres dbConn (NewWithDBForVerif) over the recording connection of rec.go;
//	(b) level "handler": the real gRPC handlers of cmd/db-manager/v1beta1 (package main). They are reached by one
//	    `go test -tags verif -overlay …` run in the repository under test: the overlay adds rec.go and
//	    dbm_driver_test.go.txt (both embedded here) as test files of that package; nothing is written into the repo.
//
// Every case is run twice: on the generated request and on the canonical request of the same shape ("twin"); the Coq
// monitor compares the two statement texts.
package main

import (
	"context"
	_ "embed"
	"encoding/json"
	"flag"
	"fmt"
	"math/rand"
	"os"
	"os/exec"
	"path/filepath"
	"strings"
	"time"
	"unicode/utf8"

	"k8s.io/klog/v2"

	"verifharness/internal/kit"
)

//go:embed rec.go
var c19RecSrc []byte

//go:embed dbm_driver_test.go.txt
var c19DriverSrc []byte

type c19 struct{}

func main() {
	fs := flag.NewFlagSet("klog", flag.ContinueOnError)
	klog.InitFlags(fs)
	_ = fs.Set("logtostderr", "false")
	_ = fs.Set("alsologtostderr", "false")
	_ = fs.Set("stderrthreshold", "FATAL")
	klog.SetOutput(discard{})
	kit.Main(c19{}, os.Args[2:])
}

type discard struct{}

func (discard) Write(p []byte) (int, error) { return len(p), nil }

func (c19) Name() string      { return "c19" }
func (c19) CoqModule() string { return "C19" }
func (c19) Rule() string {
	return "requests to the observation-log storage: ~65% DB layer directly, ~35% through the gRPC handlers of package main; both dialects; " +
		"report (0-8, sometimes up to 40 entries) / get (0-3 filters) / delete; every string drawn from a pool of plain identifiers and hostile texts " +
		"(quotes, comment markers, statement separators, placeholders '?' '$1', printf verbs, NUL, control bytes, unicode, invalid UTF-8 at the DB level, 300-byte strings, empty); " +
		"a third of the DB-level requests are served after one or two earlier requests on the same storage object (same operation, same number of entries or other filters: what the object keeps between requests must not matter); time stamps valid (zones, fractions), empty, or unparsable; missing sub-messages (nil observation_log / nil entry / nil metric); ~6% with an injected database failure. " +
		"The last fifth of a run is the malformed stream (every string hostile, more nil sub-messages and bad times). " +
		"Non-trivial: a report with >= 2 timestamped entries, or a get with >= 2 filters, or a hostile string in a bound position, or a malformed request. " +
		"Distinct: by the JSON of the input."
}

// ---------------------------------------------------------------- generator

var c19Plain = []string{"trial-1", "tfjob-example-abc", "accuracy", "loss", "Validation-accuracy", "0.93", "1e-3", "12", "-0.5", "m"}

var c19Hostile = []string{
	"'", "\"", "`", "\\", "';--", "' OR '1'='1", "x'); DROP TABLE observation_logs;--", "a\"; DELETE FROM observation_logs; --",
	"?", "??", "$1", "$2, $3", "(?, ?, ?, ?),", "%d", "%s%s%n", "%!d(string=x)", "/* c */", "-- c", "#", ";", ",", ")", "(", " ",
	"\x00", "a\x00b", "\n", "\r\n", "\t", "\x1a", "\x7f", "é", "日本語", "𝒳", "\u202e", "\ufeff", "NULL", "null", "0", "",
	"INSERT INTO observation_logs (trial_name, time, metric_name, value) VALUES ", " ORDER BY time", " AND time >= ?",
}

var c19InvalidUTF8 = []string{"\xff", "\xc3\x28", "a\xe2\x82", "\xf0\x28\x8c\xbc'", "\x80?"}

func c19Str(r *rand.Rand, hostile bool, raw bool) string {
	if !hostile && r.Intn(4) != 0 {
		return kit.Pick(r, c19Plain)
	}
	switch r.Intn(12) {
	case 0:
		s := strings.Repeat(kit.Pick(r, c19Hostile)+"x", 1+r.Intn(100))
		if n := 1 + r.Intn(300); n < len(s) {
			s = s[:n]
		}
		if !raw {
			s = strings.ToValidUTF8(s, "?")
		}
		return s
	case 1:
		if raw {
			return kit.Pick(r, c19InvalidUTF8)
		}
	case 2:
		return kit.Pick(r, c19Hostile) + kit.Pick(r, c19Plain) + kit.Pick(r, c19Hostile)
	}
	return kit.Pick(r, c19Hostile)
}

func c19Time(r *rand.Rand, bad int) string {
	// bad: percent of unparsable non-empty strings
	if r.Intn(100) < bad {
		return kit.Pick(r, []string{"yesterday", "2024-13-01T00:00:00Z", "2024-01-01 00:00:00", "1700000000", "2024-01-01T00:00:00", "' OR 1=1 --",
			"2024-01-01T00:00:00Z'", "\x00", " ", "2024-02-30T00:00:00Z", "2024-01-01T25:00:00Z", "0000-00-00T00:00:00Z"})
	}
	base := time.Date(2019+r.Intn(8), time.Month(1+r.Intn(12)), 1+r.Intn(28), r.Intn(24), r.Intn(60), r.Intn(60), 0, time.UTC)
	switch r.Intn(4) {
	case 0:
		base = base.Add(time.Duration(r.Intn(1000000000)))
	case 1:
		base = base.Add(time.Duration(r.Intn(1000)) * time.Millisecond)
	}
	switch r.Intn(4) {
	case 0:
		return base.In(time.FixedZone("x", 1800*(r.Intn(49)-24))).Format(time.RFC3339Nano)
	case 1:
		return base.Format(time.RFC3339)
	case 2:
		return base.In(time.FixedZone("y", 3600*9)).Format(time.RFC3339Nano)
	}
	return base.Format(time.RFC3339Nano)
}

func (c19) Gen(r *rand.Rand, i, n int) any {
	malformed := i*5 >= n*4
	var in c19Input
	in.Level = "db"
	if r.Intn(100) < 35 {
		in.Level = "handler"
	}
	raw := in.Level == "db" // invalid UTF-8 cannot travel in a proto3 string field, so only the DB layer sees it
	in.Dialect = kit.Pick(r, []string{"mysql", "postgres"})
	switch x := r.Intn(10); {
	case x < 6:
		in.Op = "report"
	case x < 9:
		in.Op = "get"
	default:
		in.Op = "delete"
	}
	in.Trial = c19S(c19Str(r, malformed, raw))
	if r.Intn(100) < 6 {
		in.Fault = 1 + r.Intn(2)
	}
	badPct, nilPct := 3, 0
	switch {
	case malformed:
		badPct, nilPct = 10, 15
	case in.Level == "handler" && r.Intn(3) == 0:
		nilPct = 20
	case r.Intn(12) == 0:
		nilPct = 20
	}
	switch in.Op {
	case "report":
		if nilPct > 0 && r.Intn(6) == 0 {
			in.NilLog = true
			break
		}
		ln := r.Intn(9)
		if r.Intn(10) == 0 {
			ln = r.Intn(41)
		}
		if r.Intn(12) == 0 {
			ln = 0
		}
		for k := 0; k < ln; k++ {
			var e c19Entry
			if r.Intn(100) < nilPct {
				e.Nil = true
				in.Entries = append(in.Entries, e)
				continue
			}
			if r.Intn(8) != 0 {
				e.TS = c19S(c19Time(r, badPct))
			}
			if r.Intn(100) < nilPct {
				e.NilMetric = true
			} else {
				e.Name = c19S(c19Str(r, malformed, raw))
				e.Value = c19S(c19Str(r, malformed, raw))
			}
			in.Entries = append(in.Entries, e)
		}
	case "get":
		if r.Intn(2) == 0 {
			in.Metric = c19S(c19Str(r, malformed, raw))
		}
		if r.Intn(2) == 0 {
			in.Start = c19S(c19Time(r, badPct*3))
		}
		if r.Intn(2) == 0 {
			in.End = c19S(c19Time(r, badPct*3))
		}
	}
	// a third of the DB-level requests come after one or two earlier requests on the same storage object: mostly the same
	// operation with the same number of entries / another set of filters, so that anything the storage object keeps between
	// requests (prepared statements, buffers) is reused with a different shape
	if in.Level == "db" && r.Intn(3) == 0 {
		for k := 1 + r.Intn(2); k > 0; k-- {
			p := c19Input{Level: "db", Dialect: in.Dialect, Op: in.Op, Trial: c19S(c19Str(r, false, false))}
			if r.Intn(5) == 0 {
				p.Op = kit.Pick(r, []string{"report", "get", "delete"})
			}
			switch p.Op {
			case "report":
				ln := len(in.Entries)
				if ln == 0 || r.Intn(4) == 0 {
					ln = 1 + r.Intn(6)
				}
				for j := 0; j < ln; j++ {
					e := c19Entry{Name: c19S(c19Str(r, false, false)), Value: c19S(c19Str(r, false, false))}
					if r.Intn(3) != 0 {
						e.TS = c19S(c19Time(r, 0))
					}
					p.Entries = append(p.Entries, e)
				}
			case "get":
				if r.Intn(2) == 0 {
					p.Metric = c19S(c19Str(r, false, false))
				}
				if r.Intn(2) == 0 {
					p.Start = c19S(c19Time(r, 0))
				}
				if r.Intn(2) == 0 {
					p.End = c19S(c19Time(r, 0))
				}
			}
			in.Pre = append(in.Pre, p)
		}
	}
	c19Note(in)
	return in
}

func (c19) Decode(raw json.RawMessage) (any, error) {
	var in c19Input
	err := json.Unmarshal(raw, &in)
	if err == nil {
		c19Note(in)
	}
	return in, err
}

// c19Twin is the canonical request of the same shape: plain identifiers, one fixed valid time, no missing sub-message.
func c19Twin(in c19Input) c19Input {
	tw := c19Input{Level: in.Level, Dialect: in.Dialect, Op: in.Op, Trial: "t"}
	const ts = "2020-01-02T03:04:05Z"
	for _, e := range in.Entries {
		te := c19Entry{Name: "m", Value: "1"}
		if !e.Nil && e.TS != "" {
			te.TS = ts
		}
		tw.Entries = append(tw.Entries, te)
	}
	if in.Metric != "" {
		tw.Metric = "m"
	}
	if in.Start != "" {
		tw.Start = ts
	}
	if in.End != "" {
		tw.End = ts
	}
	return tw
}

// ---------------------------------------------------------------- handler level: one `go test -overlay` run per process

var (
	c19Pending []c19Input           // handler-level inputs seen by Gen/Decode (kit.Main generates every input before it runs any)
	c19Handler map[string]c19Result // results by JSON of the input
	c19HandErr string
)

func c19Key(in c19Input) string { b, _ := json.Marshal(in); return string(b) }

func c19RunHandlers(inputs []c19Input) (map[string]c19Result, error) {
	repo := os.Getenv("VERIF_REPO")
	if repo == "" {
		repo = "/repo"
	}
	dir, err := os.MkdirTemp("", "c19dbm")
	if err != nil {
		return nil, err
	}
	defer os.RemoveAll(dir)
	pkg := filepath.Join(repo, "cmd", "db-manager", "v1beta1")
	rec, drv := filepath.Join(dir, "rec.go"), filepath.Join(dir, "driver_test.go")
	if err := os.WriteFile(rec, c19RecSrc, 0o644); err != nil {
		return nil, err
	}
	if err := os.WriteFile(drv, c19DriverSrc, 0o644); err != nil {
		return nil, err
	}
	ov, _ := json.Marshal(map[string]any{"Replace": map[string]string{
		filepath.Join(pkg, "zz_c19_rec_test.go"):    rec,
		filepath.Join(pkg, "zz_c19_driver_test.go"): drv,
	}})
	ovf, inf, outf := filepath.Join(dir, "overlay.json"), filepath.Join(dir, "in.json"), filepath.Join(dir, "out.json")
	if err := os.WriteFile(ovf, ov, 0o644); err != nil {
		return nil, err
	}
	b, _ := json.Marshal(inputs)
	if err := os.WriteFile(inf, b, 0o644); err != nil {
		return nil, err
	}
	ctx, cancel := context.WithTimeout(context.Background(), 20*time.Minute)
	defer cancel()
	cmd := exec.CommandContext(ctx, "go", "test", "-tags", "verif", "-vet=off", "-count=1", "-overlay", ovf, "-run", "^TestC19HandlerDriver$", "./cmd/db-manager/v1beta1/")
	cmd.Dir = repo
	cmd.Env = append(os.Environ(), "C19_DBM_IN="+inf, "C19_DBM_OUT="+outf, "GOFLAGS=-mod=mod", "GOPROXY=off", "GOSUMDB=off", "GOTOOLCHAIN=local")
	out, err := cmd.CombinedOutput()
	if err != nil {
		return nil, fmt.Errorf("go test of cmd/db-manager/v1beta1 failed: %v\n%s", err, out)
	}
	raw, err := os.ReadFile(outf)
	if err != nil {
		return nil, fmt.Errorf("no handler results: %v\n%s", err, out)
	}
	var results []c19Result
	if err := json.Unmarshal(raw, &results); err != nil || len(results) != len(inputs) {
		return nil, fmt.Errorf("handler results unreadable (%v), %d results for %d inputs", err, len(results), len(inputs))
	}
	m := map[string]c19Result{}
	for i, in := range inputs {
		m[c19Key(in)] = results[i]
	}
	return m, nil
}

func c19HandlerResult(in c19Input) c19Result {
	if c19Handler == nil {
		c19Handler = map[string]c19Result{}
		if len(c19Pending) > 0 {
			m, err := c19RunHandlers(c19Pending)
			if err != nil {
				c19HandErr = err.Error()
				fmt.Fprintln(os.Stderr, "c19:", c19HandErr)
				os.Exit(3) // the handlers of the tree under test do not build or the driver died: no cases
			}
			c19Handler = m
		}
	}
	if res, ok := c19Handler[c19Key(in)]; ok {
		return res
	}
	m, err := c19RunHandlers([]c19Input{in})
	if err != nil {
		fmt.Fprintln(os.Stderr, "c19:", err)
		os.Exit(3)
	}
	return m[c19Key(in)]
}

func c19Note(in c19Input) {
	if in.Level == "handler" {
		c19Pending = append(c19Pending, in, c19Twin(in))
	}
}

// ---------------------------------------------------------------- running one case

func c19Exec(in c19Input) c19Result {
	if in.Level == "handler" {
		return c19HandlerResult(in)
	}
	return c19RunDB(in)
}

const c19MysqlTimeFmt = "2006-01-02 15:04:05.999999" // mysql.mysqlTimeFmt (unexported)

func c19IsHostile(s string) bool {
	for _, p := range c19Plain {
		if s == p {
			return false
		}
	}
	return s != ""
}

func (c19) Run(input any) kit.Case {
	in := input.(c19Input)
	if c19Handler == nil && in.Level == "handler" {
		// replayed / corpus inputs are registered by Decode; generated ones by Gen. Make sure this one is known.
		found := false
		k := c19Key(in)
		for _, p := range c19Pending {
			if c19Key(p) == k {
				found = true
				break
			}
		}
		if !found {
			c19Note(in)
		}
	}
	res := c19Exec(in)
	tw := c19Exec(c19Twin(in))

	ids := kit.NewIntern()
	id := func(s string) string { return kit.Nat(ids.ID(s)) }
	layout := time.RFC3339Nano
	if in.Dialect == "mysql" {
		layout = c19MysqlTimeFmt
	}
	tstamp := func(s string) string {
		if s == "" {
			return "TsEmpty"
		}
		t, err := time.Parse(time.RFC3339Nano, s)
		if err != nil {
			return "TsBad"
		}
		return "(TsGood " + id(t.UTC().Format(layout)) + ")"
	}
	var c kit.Case
	c.Input = in
	hostile, malformed, hasNil := false, false, false
	nts := 0
	var req string
	switch in.Op {
	case "report":
		log := "None"
		if in.NilLog {
			hasNil, malformed = true, true
		} else {
			log = "(Some " + kit.ListOf(in.Entries, func(e c19Entry) string {
				if e.Nil {
					hasNil, malformed = true, true
					return "None"
				}
				ts := tstamp(string(e.TS))
				if ts == "TsBad" {
					malformed = true
				}
				if ts != "TsEmpty" {
					nts++
				}
				m := "None"
				if e.NilMetric {
					hasNil, malformed = true, true
				} else {
					m = fmt.Sprintf("(Some {| m_name := %s; m_value := %s |})", id(string(e.Name)), id(string(e.Value)))
					if ts != "TsEmpty" && (c19IsHostile(string(e.Name)) || c19IsHostile(string(e.Value))) {
						hostile = true
					}
				}
				return fmt.Sprintf("(Some {| e_ts := %s; e_metric := %s |})", ts, m)
			}) + ")"
		}
		req = fmt.Sprintf("(RReport {| r_trial := %s; r_log := %s |})", id(string(in.Trial)), log)
		c.Tags = append(c.Tags, fmt.Sprintf("report:timestamped=%s", bucket(nts)))
	case "get":
		m := "None"
		nf := 0
		if in.Metric != "" {
			m = "(Some " + id(string(in.Metric)) + ")"
			nf++
			hostile = hostile || c19IsHostile(string(in.Metric))
		}
		s, e := tstamp(string(in.Start)), tstamp(string(in.End))
		if s == "TsBad" || e == "TsBad" {
			malformed = true
		}
		if s != "TsEmpty" {
			nf++
		}
		if e != "TsEmpty" {
			nf++
		}
		nts = nf
		req = fmt.Sprintf("(RGet {| g_trial := %s; g_metric := %s; g_start := %s; g_end := %s |})", id(string(in.Trial)), m, s, e)
		c.Tags = append(c.Tags, fmt.Sprintf("get:filters=%d", nf))
	default:
		req = "(RDelete " + id(string(in.Trial)) + ")"
		c.Tags = append(c.Tags, "delete")
	}
	hostile = hostile || c19IsHostile(string(in.Trial))

	kind := map[string]string{"ok": "KOk", "err": "KErr", "panic": "KCrash"}[res.Kind]
	if kind == "" {
		kind = "KErr"
	}
	callOf := func(s string) string {
		switch s {
		case "prepare":
			return "CPrepare"
		case "stmt-exec":
			return "CStmtExec"
		case "exec":
			return "CExec"
		case "query":
			return "CQuery"
		}
		return ""
	}
	stmts := kit.ListOf(res.Events, func(e c19Event) string {
		cl := callOf(e.Call)
		if cl == "" {
			c.GoViol = "database entry point outside the modelled ones: " + e.Call
			cl = "CExec"
		}
		return fmt.Sprintf("(%s, %s, %s)", cl, kit.Str(string(e.SQL)), kit.ListOf(e.Args, func(a c19S) string { return id(string(a)) }))
	})
	twin := "None"
	if tw.Kind == "ok" {
		twin = "(Some " + kit.ListOf(tw.Events, func(e c19Event) string {
			cl := callOf(e.Call)
			if cl == "" {
				cl = "CExec"
			}
			return fmt.Sprintf("(%s, %s)", cl, kit.Str(string(e.SQL)))
		}) + ")"
	}
	lv := "LDb"
	if in.Level == "handler" {
		lv = "LHandler"
	}
	dl := "Mysql"
	if in.Dialect == "postgres" {
		dl = "Postgres"
	}
	c.Coq = fmt.Sprintf("C19.Case %s %s %s %s %s %s %s", lv, dl, kit.Nat(in.Fault), req, kind, stmts, twin)
	c.Sig = c19Key(in)
	obs := map[string]any{"kind": res.Kind, "calls": res.Events}
	if res.Msg != "" {
		obs["msg"] = res.Msg
	}
	c.Observed = obs
	c.Key = kit.KeyIf("C19", "nil-submessage", in.Level == "handler" && in.Op == "report" && hasNil)
	c.Nontrivial = malformed || hostile || nts >= 2
	c.Tags = append(c.Tags, "level:"+in.Level, "dialect:"+in.Dialect, "answer:"+res.Kind)
	if len(in.Pre) > 0 {
		c.Tags = append(c.Tags, fmt.Sprintf("after-earlier-requests=%d", len(in.Pre)))
	}
	if hostile {
		c.Tags = append(c.Tags, "hostile-string-bound")
	}
	if malformed {
		c.Tags = append(c.Tags, "malformed")
	}
	if hasNil {
		c.Tags = append(c.Tags, "missing-submessage")
	}
	if in.Fault > 0 {
		c.Tags = append(c.Tags, "db-failure-injected")
	}
	for _, s := range append([]c19S{in.Trial, in.Metric}, entryStrings(in)...) {
		if !utf8.ValidString(string(s)) {
			c.Tags = append(c.Tags, "invalid-utf8")
			break
		}
	}
	return c
}

func entryStrings(in c19Input) []c19S {
	var out []c19S
	for _, e := range in.Entries {
		out = append(out, e.Name, e.Value)
	}
	return out
}

func bucket(n int) string {
	switch {
	case n == 0:
		return "0"
	case n == 1:
		return "1"
	case n <= 4:
		return "2-4"
	case n <= 8:
		return "5-8"
	}
	return "9+"
}
