package main

import (
	"context"
	"encoding/json"
	"fmt"
	"math/rand"
	"sort"
	"strings"

	"github.com/spf13/viper"
	"google.golang.org/grpc"
	appsv1 "k8s.io/api/apps/v1"
	corev1 "k8s.io/api/core/v1"
	rbacv1 "k8s.io/api/rbac/v1"
	"k8s.io/apimachinery/pkg/api/equality"
	"k8s.io/apimachinery/pkg/api/resource"
	metav1 "k8s.io/apimachinery/pkg/apis/meta/v1"
	"k8s.io/apimachinery/pkg/runtime"
	"k8s.io/apimachinery/pkg/runtime/serializer"
	"k8s.io/apimachinery/pkg/types"
	"k8s.io/apimachinery/pkg/util/intstr"
	clientgoscheme "k8s.io/client-go/kubernetes/scheme"
	"k8s.io/client-go/tools/record"
	"sigs.k8s.io/controller-runtime/pkg/client"
	"sigs.k8s.io/controller-runtime/pkg/client/fake"

	configv1beta1 "github.com/kubeflow/katib/pkg/apis/config/v1beta1"
	commonv1beta1 "github.com/kubeflow/katib/pkg/apis/controller/common/v1beta1"
	experimentsv1beta1 "github.com/kubeflow/katib/pkg/apis/controller/experiments/v1beta1"
	suggestionsv1beta1 "github.com/kubeflow/katib/pkg/apis/controller/suggestions/v1beta1"
	trialsv1beta1 "github.com/kubeflow/katib/pkg/apis/controller/trials/v1beta1"
	suggestionapi "github.com/kubeflow/katib/pkg/apis/manager/v1beta1"
	"github.com/kubeflow/katib/pkg/controller.v1beta1/consts"
	"github.com/kubeflow/katib/pkg/controller.v1beta1/suggestion"
	"github.com/kubeflow/katib/pkg/controller.v1beta1/suggestion/composer"
	"github.com/kubeflow/katib/pkg/controller.v1beta1/suggestion/suggestionclient"
	"github.com/kubeflow/katib/pkg/controller.v1beta1/util"

	"verifharness/internal/kit"
)

// ------------------------------------------------------------------ input

type c17Sug struct {
	Name        string            `json:"name"`
	Namespace   string            `json:"namespace"`
	UID         string            `json:"uid"`
	Labels      map[string]string `json:"labels,omitempty"`
	Annotations map[string]string `json:"annotations,omitempty"`
	Algorithm   string            `json:"algorithm"`
	ES          *string           `json:"earlyStopping"` // nil: Spec.EarlyStopping == nil; else its AlgorithmName
	Resume      string            `json:"resumePolicy"`
}

type c17Input struct {
	Probe   bool                      `json:"grpcProbe"`
	CfgMode string                    `json:"cfgMode"` // ok | no-configmap | no-key | garbage
	Config  configv1beta1.KatibConfig `json:"config"`
	S       c17Sug                    `json:"suggestion"`
	Echo    bool                      `json:"echo,omitempty"` // the labels echo keys of the generated objects
}

type c17 struct{}

func (c17) Name() string      { return "c17" }
func (c17) CoqModule() string { return "C17" }
func (c17) Rule() string {
	return "one Suggestion (names incl. dashes/dots/upper case/long, 6 namespaces, 0-3 labels and 0-2 annotations incl. collisions with the katib label " +
		"keys and the istio annotation, 11 algorithms, early stopping nil / named / empty name / without config entry, resume policies '', Never, " +
		"LongRunning, FromVolume, fromvolume) and one katib-config with 1-4 suggestion entries (entry for the algorithm present ~95%, duplicates where " +
		"the last wins, blank image ~4%; custom container name, 0-2 extra ports, ~12% redefine the suggestion port name or number, ~6% reuse the " +
		"early-stopping port, 0-1 extra volume mounts, ~10% a custom mount named suggestion-volume, command/args/env, custom gRPC/HTTP/exec probes, " +
		"resources, pull policy, custom service account ~30% (sometimes equal to <name>-<algorithm>), volumeMountPath, PVC spec, PV spec ~40%, PV labels) " +
		"and 0-3 early-stopping entries; ~6% unreadable config (ConfigMap missing, key missing, undecodable). gRPC probes on ~70%. " +
		"Non-trivial: DesiredDeployment succeeded with early stopping on, FromVolume or a customised entry, or the entry was rejected for redefining the port. " +
		"Distinct: by the JSON of the input."
}

var (
	c17Names = []string{"exp", "tpe-experiment", "a", "a-custom", "my.exp", "Exp_A", "x-y-z", "random-search-2024", "grid-", "e1", "nas-darts-very-long-experiment-name-0123456789-abcdefghij"}
	c17NS    = []string{"default", "kubeflow", "ns1", "team-a", "kubeflow-user-example-com", "kubeflow"}
	c17Algs  = []string{"random", "tpe", "grid", "bayesianoptimization", "hyperband", "enas", "darts", "custom-algo", "algo", "my.algo", "cmaes"}
	c17ES    = []string{"medianstop", "medianstop", "medianstop", "custom-es"}
)

func c17Entry(r *rand.Rand, alg string, rbacName string) configv1beta1.SuggestionConfig {
	e := configv1beta1.SuggestionConfig{AlgorithmName: alg}
	e.Image = "docker.io/kubeflowkatib/suggestion-" + alg + ":latest"
	switch r.Intn(25) {
	case 0:
		e.Image = ""
	case 1:
		e.Image = " \t "
	}
	switch r.Intn(8) {
	case 0:
		e.Name = "custom-suggestion"
	case 1:
		e.Name = consts.ContainerEarlyStopping
	}
	e.ImagePullPolicy = corev1.PullPolicy(kit.Pick(r, []string{"", "", "Always", "Never", "IfNotPresent", "bogus"}))
	extra := []corev1.ContainerPort{{Name: "metrics", ContainerPort: 9090}, {Name: "debug", ContainerPort: 8080}, {ContainerPort: 7777}}
	for k := r.Intn(3); k > 0; k-- {
		e.Ports = append(e.Ports, extra[r.Intn(len(extra))])
	}
	switch r.Intn(16) {
	case 0:
		e.Ports = append(e.Ports, corev1.ContainerPort{Name: consts.DefaultSuggestionPortName, ContainerPort: 1234})
	case 1:
		e.Ports = append([]corev1.ContainerPort{{Name: "grpc", ContainerPort: consts.DefaultSuggestionPort}}, e.Ports...)
	case 2:
		e.Ports = append(e.Ports, corev1.ContainerPort{Name: consts.DefaultEarlyStoppingPortName, ContainerPort: 7000})
	case 3:
		e.Ports = append(e.Ports, corev1.ContainerPort{Name: "es", ContainerPort: consts.DefaultEarlyStoppingPort})
	}
	if r.Intn(4) == 0 {
		e.VolumeMounts = append(e.VolumeMounts, corev1.VolumeMount{Name: "cache", MountPath: "/cache"})
	}
	if r.Intn(10) == 0 {
		e.VolumeMounts = append(e.VolumeMounts, corev1.VolumeMount{Name: consts.ContainerSuggestionVolumeName, MountPath: "/custom/path"})
	}
	if r.Intn(5) == 0 {
		e.Command = []string{"python3", "main.py"}
	}
	if r.Intn(6) == 0 {
		e.Args = []string{"--verbose"}
	}
	if r.Intn(6) == 0 {
		e.Env = []corev1.EnvVar{{Name: "LOG_LEVEL", Value: "debug"}}
	}
	switch r.Intn(10) {
	case 0:
		svc := "custom.Service"
		e.ReadinessProbe = &corev1.Probe{ProbeHandler: corev1.ProbeHandler{GRPC: &corev1.GRPCAction{Port: 9999, Service: &svc}}, PeriodSeconds: 7}
	case 1:
		e.ReadinessProbe = &corev1.Probe{ProbeHandler: corev1.ProbeHandler{HTTPGet: &corev1.HTTPGetAction{Path: "/healthz", Port: intstr.FromInt(8080)}}, InitialDelaySeconds: 3}
	}
	switch r.Intn(10) {
	case 0:
		e.LivenessProbe = &corev1.Probe{ProbeHandler: corev1.ProbeHandler{Exec: &corev1.ExecAction{Command: []string{"true"}}}, FailureThreshold: 5}
	case 1:
		e.LivenessProbe = &corev1.Probe{ProbeHandler: corev1.ProbeHandler{GRPC: &corev1.GRPCAction{Port: consts.DefaultSuggestionPort}}, PeriodSeconds: 30}
	}
	if r.Intn(4) == 0 {
		e.Resources = corev1.ResourceRequirements{Requests: corev1.ResourceList{corev1.ResourceCPU: resource.MustParse("200m")},
			Limits: corev1.ResourceList{corev1.ResourceMemory: resource.MustParse("1Gi")}}
	}
	switch r.Intn(10) {
	case 0, 1:
		e.ServiceAccountName = "custom-sa"
	case 2:
		e.ServiceAccountName = rbacName
	}
	if r.Intn(4) == 0 {
		e.VolumeMountPath = "/opt/suggestion/data"
	}
	if r.Intn(3) == 0 {
		sc := "fast"
		e.PersistentVolumeClaimSpec.StorageClassName = &sc
	}
	if r.Intn(4) == 0 {
		e.PersistentVolumeClaimSpec.Resources.Requests = corev1.ResourceList{corev1.ResourceStorage: resource.MustParse("3Gi")}
	}
	if r.Intn(5) < 2 {
		e.PersistentVolumeSpec = corev1.PersistentVolumeSpec{
			StorageClassName:       "katib-suggestion",
			AccessModes:            []corev1.PersistentVolumeAccessMode{corev1.ReadWriteOnce},
			Capacity:               corev1.ResourceList{corev1.ResourceStorage: resource.MustParse("1Gi")},
			PersistentVolumeSource: corev1.PersistentVolumeSource{HostPath: &corev1.HostPathVolumeSource{Path: "/tmp/" + alg}},
		}
		if r.Intn(2) == 0 {
			e.PersistentVolumeLabels = map[string]string{"type": "local", "owner": "katib"}
		}
	} else if r.Intn(10) == 0 {
		e.PersistentVolumeLabels = map[string]string{"unused": "labels"}
	}
	return e
}

func (c17) Gen(r *rand.Rand, i, n int) any {
	var in c17Input
	in.Probe = r.Intn(10) < 7
	in.CfgMode = "ok"
	switch r.Intn(50) {
	case 0:
		in.CfgMode = "no-configmap"
	case 1:
		in.CfgMode = "no-key"
	case 2:
		in.CfgMode = "garbage"
	}
	s := &in.S
	s.Name = kit.Pick(r, c17Names)
	s.Namespace = kit.Pick(r, c17NS)
	s.UID = fmt.Sprintf("uid-%04x", r.Intn(1<<16))
	s.Algorithm = kit.Pick(r, c17Algs)
	labelPool := [][2]string{{"app", "katib"}, {"team", "ml"}, {consts.LabelExperimentName, "other-exp"}, {consts.LabelDeploymentName, "other-deploy"},
		{consts.LabelSuggestionName, "other-sugg"}, {"katib.kubeflow.org/metrics-collector-injection", "enabled"}, {"version", "v1"}}
	for k := r.Intn(4); k > 0; k-- {
		p := kit.Pick(r, labelPool)
		if s.Labels == nil {
			s.Labels = map[string]string{}
		}
		s.Labels[p[0]] = p[1]
	}
	annPool := [][2]string{{"note", "x"}, {consts.AnnotationIstioSidecarInjectName, "true"}, {"owner", "alice"}}
	for k := r.Intn(3); k > 0; k-- {
		p := kit.Pick(r, annPool)
		if s.Annotations == nil {
			s.Annotations = map[string]string{}
		}
		s.Annotations[p[0]] = p[1]
	}
	switch x := r.Intn(20); {
	case x < 9:
	case x < 18:
		v := kit.Pick(r, c17ES)
		s.ES = &v
	case x < 19:
		v := ""
		s.ES = &v
	default:
		v := "unknown-es"
		s.ES = &v
	}
	s.Resume = kit.Pick(r, []string{"", "Never", "LongRunning", "FromVolume", "FromVolume", "FromVolume", "fromvolume"})
	if r.Intn(12) == 0 {
		s.Resume = "FromVolume"
	}

	rbacName := s.Name + "-" + s.Algorithm
	nEntries := 1 + r.Intn(4)
	present := r.Intn(20) != 0
	for k := 0; k < nEntries; k++ {
		alg := kit.Pick(r, c17Algs)
		if alg == s.Algorithm && !present {
			continue
		}
		in.Config.RuntimeConfig.SuggestionConfigs = append(in.Config.RuntimeConfig.SuggestionConfigs, c17Entry(r, alg, rbacName))
	}
	if present {
		e := c17Entry(r, s.Algorithm, rbacName)
		lst := in.Config.RuntimeConfig.SuggestionConfigs
		pos := r.Intn(len(lst) + 1)
		lst = append(lst[:pos:pos], append([]configv1beta1.SuggestionConfig{e}, lst[pos:]...)...)
		in.Config.RuntimeConfig.SuggestionConfigs = lst
	}
	for k := r.Intn(4); k > 0; k-- {
		ec := configv1beta1.EarlyStoppingConfig{AlgorithmName: kit.Pick(r, c17ES), Image: "docker.io/kubeflowkatib/earlystopping-medianstop:latest"}
		if r.Intn(15) == 0 {
			ec.Image = "  "
		}
		ec.ImagePullPolicy = corev1.PullPolicy(kit.Pick(r, []string{"", "Always", "Never"}))
		if r.Intn(4) == 0 {
			ec.Resource = corev1.ResourceRequirements{Limits: corev1.ResourceList{corev1.ResourceCPU: resource.MustParse("1")}}
		}
		in.Config.RuntimeConfig.EarlyStoppingConfigs = append(in.Config.RuntimeConfig.EarlyStoppingConfigs, ec)
	}
	if s.ES != nil && *s.ES != "" && *s.ES != "unknown-es" && r.Intn(12) != 0 {
		has := false
		for _, ec := range in.Config.RuntimeConfig.EarlyStoppingConfigs {
			has = has || ec.AlgorithmName == *s.ES
		}
		if !has {
			in.Config.RuntimeConfig.EarlyStoppingConfigs = append(in.Config.RuntimeConfig.EarlyStoppingConfigs,
				configv1beta1.EarlyStoppingConfig{AlgorithmName: *s.ES, Image: "docker.io/kubeflowkatib/earlystopping-" + *s.ES + ":v0.17"})
		}
	}
	// echo: every fourth suggestion carries, with a value of its own, label keys that the composer itself puts on the objects
	// it generates for this very input (learned by composing once): whatever keys the generated objects use, a user's
	// label with the same key must not break the fit between selectors and pods
	if r.Intn(4) == 0 {
		c17OutKeys = nil
		_ = c17{}.Run(in)
		for _, k := range c17OutKeys {
			if _, has := s.Labels[k]; !has && r.Intn(3) > 0 {
				if s.Labels == nil {
					s.Labels = map[string]string{}
				}
				s.Labels[k] = "user-set"
				in.Echo = true
			}
		}
	}
	return in
}

// label keys seen on the objects generated by the last Run
var c17OutKeys []string

func c17NoteKeys(ms ...map[string]string) {
	seen := map[string]bool{}
	for _, k := range c17OutKeys {
		seen[k] = true
	}
	for _, m := range ms {
		for k := range m {
			if !seen[k] {
				seen[k] = true
				c17OutKeys = append(c17OutKeys, k)
			}
		}
	}
	sort.Strings(c17OutKeys)
}

func (c17) Decode(raw json.RawMessage) (any, error) {
	var in c17Input
	err := json.Unmarshal(raw, &in)
	return in, err
}

// ------------------------------------------------------------------ fake gRPC clients recording the dialled target

type dial struct {
	es     bool
	target string
}

type fakeSuggestion struct{}

func (fakeSuggestion) GetSuggestions(ctx context.Context, in *suggestionapi.GetSuggestionsRequest, opts ...grpc.CallOption) (*suggestionapi.GetSuggestionsReply, error) {
	rep := &suggestionapi.GetSuggestionsReply{}
	for k := int32(0); k < in.CurrentRequestNumber; k++ {
		rep.ParameterAssignments = append(rep.ParameterAssignments, &suggestionapi.GetSuggestionsReply_ParameterAssignments{TrialName: fmt.Sprintf("t%d", k)})
	}
	return rep, nil
}
func (fakeSuggestion) ValidateAlgorithmSettings(ctx context.Context, in *suggestionapi.ValidateAlgorithmSettingsRequest, opts ...grpc.CallOption) (*suggestionapi.ValidateAlgorithmSettingsReply, error) {
	return &suggestionapi.ValidateAlgorithmSettingsReply{}, nil
}

type fakeES struct{}

func (fakeES) GetEarlyStoppingRules(ctx context.Context, in *suggestionapi.GetEarlyStoppingRulesRequest, opts ...grpc.CallOption) (*suggestionapi.GetEarlyStoppingRulesReply, error) {
	return &suggestionapi.GetEarlyStoppingRulesReply{}, nil
}
func (fakeES) SetTrialStatus(ctx context.Context, in *suggestionapi.SetTrialStatusRequest, opts ...grpc.CallOption) (*suggestionapi.SetTrialStatusReply, error) {
	return &suggestionapi.SetTrialStatusReply{}, nil
}
func (fakeES) ValidateEarlyStoppingSettings(ctx context.Context, in *suggestionapi.ValidateEarlyStoppingSettingsRequest, opts ...grpc.CallOption) (*suggestionapi.ValidateEarlyStoppingSettingsReply, error) {
	return &suggestionapi.ValidateEarlyStoppingSettingsReply{}, nil
}

// ------------------------------------------------------------------ Coq printing

// String literals are the expensive part of a case file for coqc (about 40 us per character), and a case repeats the same
// names many times: every distinct string of a case is bound once by a let and referred to by name.
var strTab *kit.Intern

func qs(s string) string {
	if len(s) <= 2 {
		return kit.Str(s)
	}
	return fmt.Sprintf("s%d", strTab.ID(s))
}

func withStrings(body string) string {
	var b strings.Builder
	for i, s := range strTab.Keys {
		fmt.Fprintf(&b, "let s%d := %s in ", i, kit.Str(s))
	}
	return b.String() + body
}

func js(v any) string {
	b, err := json.Marshal(v)
	if err != nil {
		return "!" + err.Error()
	}
	return string(b)
}

type toks struct{ res, rest, pvc, pv *kit.Intern }

func restOf(c corev1.Container) string {
	d := c.DeepCopy()
	d.Name, d.Image, d.ImagePullPolicy = "", "", ""
	d.Ports, d.VolumeMounts, d.ReadinessProbe, d.LivenessProbe = nil, nil, nil, nil
	d.Resources = corev1.ResourceRequirements{}
	return js(d)
}

func newToks() *toks {
	t := &toks{kit.NewIntern(), kit.NewIntern(), kit.NewIntern(), kit.NewIntern()}
	t.res.ID(js(corev1.ResourceRequirements{}))
	t.rest.ID(restOf(corev1.Container{})) // token 0: every other field empty
	return t
}

func coqMap(m map[string]string) string {
	keys := make([]string, 0, len(m))
	for k := range m {
		keys = append(keys, k)
	}
	sort.Strings(keys)
	return kit.ListOf(keys, func(k string) string { return kit.Pair(qs(k), qs(m[k])) })
}

func coqProbe(p *corev1.Probe) string {
	if p == nil {
		return "None"
	}
	g := "None"
	if p.GRPC != nil {
		svc := ""
		if p.GRPC.Service != nil {
			svc = *p.GRPC.Service
		}
		g = "(Some " + kit.Pair(kit.Z(int64(p.GRPC.Port)), qs(svc)) + ")"
	}
	return "(Some " + kit.Rec("Probe", g, kit.Z(int64(p.InitialDelaySeconds)), kit.Z(int64(p.PeriodSeconds)), kit.Z(int64(p.FailureThreshold))) + ")"
}

func (t *toks) coqContainer(c corev1.Container) string {
	return kit.Rec("Container", qs(c.Name), qs(c.Image), qs(string(c.ImagePullPolicy)),
		kit.ListOf(c.Ports, func(p corev1.ContainerPort) string { return kit.Rec("Port", qs(p.Name), kit.Z(int64(p.ContainerPort))) }),
		kit.ListOf(c.VolumeMounts, func(m corev1.VolumeMount) string { return kit.Rec("VMount", qs(m.Name), qs(m.MountPath)) }),
		coqProbe(c.ReadinessProbe), coqProbe(c.LivenessProbe),
		kit.Nat(t.res.ID(js(c.Resources))), kit.Nat(t.rest.ID(restOf(c))))
}

func coqOwners(refs []metav1.OwnerReference) string {
	return kit.ListOf(refs, func(o metav1.OwnerReference) string {
		return kit.Rec("OwnerRef", qs(o.APIVersion), qs(o.Kind), qs(o.Name), qs(string(o.UID)),
			kit.Bool(o.Controller != nil && *o.Controller), kit.Bool(o.BlockOwnerDeletion != nil && *o.BlockOwnerDeletion))
	})
}

func labelsOf(sel *metav1.LabelSelector) map[string]string {
	if sel == nil {
		return nil
	}
	return sel.MatchLabels
}

func (t *toks) coqDeployment(d *appsv1.Deployment) string {
	ps := d.Spec.Template.Spec
	return kit.Rec("Deployment", qs(d.Name), qs(d.Namespace), coqMap(d.Labels), coqMap(d.Annotations),
		coqMap(labelsOf(d.Spec.Selector)), coqMap(d.Spec.Template.Labels), coqMap(d.Spec.Template.Annotations),
		kit.ListOf(ps.Containers, t.coqContainer), qs(ps.ServiceAccountName),
		kit.ListOf(ps.Volumes, func(v corev1.Volume) string {
			claim := ""
			if v.PersistentVolumeClaim != nil {
				claim = v.PersistentVolumeClaim.ClaimName
			}
			return kit.Rec("Volume", qs(v.Name), qs(claim))
		}),
		coqOwners(d.OwnerReferences))
}

func coqService(s *corev1.Service) string {
	return kit.Rec("Service", qs(s.Name), qs(s.Namespace), coqMap(s.Spec.Selector),
		kit.ListOf(s.Spec.Ports, func(p corev1.ServicePort) string {
			tgt := "TDefault"
			switch {
			case p.TargetPort.Type == intstr.Int && p.TargetPort.IntVal != 0:
				tgt = "(TNum " + kit.Z(int64(p.TargetPort.IntVal)) + ")"
			case p.TargetPort.Type == intstr.String && p.TargetPort.StrVal != "":
				tgt = "(TName " + qs(p.TargetPort.StrVal) + ")"
			}
			return kit.Rec("SPort", qs(p.Name), kit.Z(int64(p.Port)), tgt)
		}),
		qs(string(s.Spec.Type)), coqOwners(s.OwnerReferences))
}

func (t *toks) coqVolume(pvc *corev1.PersistentVolumeClaim, pv *corev1.PersistentVolume) string {
	a := kit.Rec("PVC", qs(pvc.Name), qs(pvc.Namespace), kit.Nat(t.pvc.ID(js(pvc.Spec))), coqOwners(pvc.OwnerReferences))
	b := "None"
	if pv != nil {
		b = "(Some " + kit.Rec("PV", qs(pv.Name), qs(pv.Namespace), coqMap(pv.Labels), kit.Nat(t.pv.ID(js(pv.Spec))), coqOwners(pv.OwnerReferences)) + ")"
	}
	return kit.Pair(a, b)
}

func coqStrs(xs []string) string { return kit.ListOf(xs, qs) }

func coqRBAC(sa *corev1.ServiceAccount, ro *rbacv1.Role, rb *rbacv1.RoleBinding) string {
	a := kit.Rec("SAcc", qs(sa.Name), qs(sa.Namespace), coqOwners(sa.OwnerReferences))
	r := kit.Rec("Role", qs(ro.Name), qs(ro.Namespace),
		kit.ListOf(ro.Rules, func(p rbacv1.PolicyRule) string { return kit.Rec("Rule", coqStrs(p.APIGroups), coqStrs(p.Resources), coqStrs(p.Verbs)) }),
		coqOwners(ro.OwnerReferences))
	b := kit.Rec("RoleBinding", qs(rb.Name), qs(rb.Namespace),
		kit.ListOf(rb.Subjects, func(s rbacv1.Subject) string { return kit.Rec("Subject", qs(s.Kind), qs(s.Name), qs(s.Namespace)) }),
		qs(rb.RoleRef.APIGroup), qs(rb.RoleRef.Kind), qs(rb.RoleRef.Name), coqOwners(rb.OwnerReferences))
	return "(" + a + ", " + r + ", " + b + ")"
}

func coqConsts(scheme *runtime.Scheme) string {
	gvks, _, _ := scheme.ObjectKinds(&suggestionsv1beta1.Suggestion{})
	api, kind := "", ""
	if len(gvks) > 0 {
		api, kind = gvks[0].GroupVersion().String(), gvks[0].Kind
	}
	return kit.Rec("Consts",
		qs(consts.DefaultSuggestionPortName), kit.Z(int64(consts.DefaultSuggestionPort)),
		qs(consts.DefaultEarlyStoppingPortName), kit.Z(int64(consts.DefaultEarlyStoppingPort)),
		qs(consts.ContainerSuggestion), qs(consts.ContainerEarlyStopping), qs(consts.ContainerSuggestionVolumeName),
		qs(consts.LabelDeploymentName), qs(consts.LabelExperimentName), qs(consts.LabelSuggestionName),
		qs(consts.AnnotationIstioSidecarInjectName), qs(consts.AnnotationIstioSidecarInjectValue),
		qs(string(experimentsv1beta1.FromVolume)), qs(consts.DefaultGRPCService), qs(string(corev1.ServiceTypeClusterIP)),
		qs(api), qs(kind), qs(trialsv1beta1.Group), qs(consts.PluralTrial), qs(rbacv1.VerbAll),
		qs(rbacv1.ServiceAccountKind), qs(rbacv1.GroupName))
}

func (t *toks) coqConfig(cfg *configv1beta1.KatibConfig) string {
	if cfg == nil {
		return "None"
	}
	sug := kit.ListOf(cfg.RuntimeConfig.SuggestionConfigs, func(e configv1beta1.SuggestionConfig) string {
		pv := "None"
		if !equality.Semantic.DeepEqual(e.PersistentVolumeSpec, corev1.PersistentVolumeSpec{}) {
			pv = "(Some " + kit.Nat(t.pv.ID(js(e.PersistentVolumeSpec))) + ")"
		}
		return kit.Rec("SConfig", qs(e.AlgorithmName), t.coqContainer(e.Container), kit.Bool(strings.TrimSpace(e.Image) == ""),
			qs(e.ServiceAccountName), qs(e.VolumeMountPath), kit.Nat(t.pvc.ID(js(e.PersistentVolumeClaimSpec))), pv, coqMap(e.PersistentVolumeLabels))
	})
	es := kit.ListOf(cfg.RuntimeConfig.EarlyStoppingConfigs, func(e configv1beta1.EarlyStoppingConfig) string {
		return kit.Rec("ESConfig", qs(e.AlgorithmName), qs(e.Image), kit.Bool(strings.TrimSpace(e.Image) == ""),
			qs(string(e.ImagePullPolicy)), kit.Nat(t.res.ID(js(e.Resource))))
	})
	return "(Some " + kit.Rec("KatibConfig", sug, es) + ")"
}

func copyMap(m map[string]string) map[string]string {
	if m == nil {
		return nil
	}
	c := make(map[string]string, len(m))
	for k, v := range m {
		c[k] = v
	}
	return c
}

func coqSuggestion(s *suggestionsv1beta1.Suggestion) string {
	es := "None"
	if s.Spec.EarlyStopping != nil {
		es = "(Some " + qs(s.Spec.EarlyStopping.AlgorithmName) + ")"
	}
	return kit.Rec("Suggestion", qs(s.Name), qs(s.Namespace), qs(string(s.UID)), coqMap(s.Labels), coqMap(s.Annotations),
		qs(s.Spec.Algorithm.AlgorithmName), es, qs(string(s.Spec.ResumePolicy)))
}

func errCode(err error, cfgReadable bool) int {
	m := err.Error()
	switch {
	case strings.Contains(m, "must not be specified"):
		return 3
	case strings.Contains(m, "failed to find suggestion config"):
		return 1
	case strings.Contains(m, "failed to find early stopping config"):
		return 4
	case strings.Contains(m, "required value for image configuration"):
		return 2
	case !cfgReadable:
		return 0
	}
	return 9
}

func outcome(pan string, err error, cfgReadable bool, ok func() string) (string, string) {
	switch {
	case pan != "":
		return "(Crash 0%nat)", "panic: " + pan
	case err != nil:
		return fmt.Sprintf("(Err %d%%nat)", errCode(err, cfgReadable)), "error: " + err.Error()
	}
	return "(Ok " + ok() + ")", "ok"
}

// ------------------------------------------------------------------ run

func (c17) Run(input any) kit.Case {
	in := input.(c17Input)
	ctx := context.TODO()
	scheme := runtime.NewScheme()
	_ = clientgoscheme.AddToScheme(scheme)
	_ = suggestionsv1beta1.AddToScheme(scheme)
	_ = experimentsv1beta1.AddToScheme(scheme)
	_ = trialsv1beta1.AddToScheme(scheme)
	_ = configv1beta1.AddToScheme(scheme)

	// katib-config ConfigMap
	cfg := in.Config.DeepCopy()
	cfg.TypeMeta = metav1.TypeMeta{APIVersion: configv1beta1.GroupVersion.String(), Kind: "KatibConfig"}
	data := js(cfg)
	var objs []client.Object
	var decoded *configv1beta1.KatibConfig
	switch in.CfgMode {
	case "no-configmap":
	case "no-key":
		objs = append(objs, &corev1.ConfigMap{ObjectMeta: metav1.ObjectMeta{Name: consts.KatibConfigMapName, Namespace: consts.DefaultKatibNamespace},
			Data: map[string]string{"other.yaml": data}})
	default:
		if in.CfgMode == "garbage" {
			data = "runtime: [not a katib config"
		}
		objs = append(objs, &corev1.ConfigMap{ObjectMeta: metav1.ObjectMeta{Name: consts.KatibConfigMapName, Namespace: consts.DefaultKatibNamespace},
			Data: map[string]string{consts.LabelKatibConfigTag: data}})
		// what the katibconfig package will see: the same decoder (it applies the defaulting functions)
		d := &configv1beta1.KatibConfig{}
		if err := runtime.DecodeInto(serializer.NewCodecFactory(scheme).UniversalDecoder(), []byte(data), d); err == nil {
			decoded = d
		}
	}

	sg := &suggestionsv1beta1.Suggestion{
		ObjectMeta: metav1.ObjectMeta{Name: in.S.Name, Namespace: in.S.Namespace, UID: types.UID(in.S.UID), Labels: copyMap(in.S.Labels), Annotations: copyMap(in.S.Annotations)},
		Spec: suggestionsv1beta1.SuggestionSpec{Algorithm: &commonv1beta1.AlgorithmSpec{AlgorithmName: in.S.Algorithm}, Requests: 1,
			ResumePolicy: experimentsv1beta1.ResumePolicyType(in.S.Resume)},
	}
	exp := &experimentsv1beta1.Experiment{ObjectMeta: metav1.ObjectMeta{Name: in.S.Name, Namespace: in.S.Namespace},
		Spec: experimentsv1beta1.ExperimentSpec{Algorithm: &commonv1beta1.AlgorithmSpec{AlgorithmName: in.S.Algorithm},
			Objective: &commonv1beta1.ObjectiveSpec{Type: commonv1beta1.ObjectiveTypeMaximize, ObjectiveMetricName: "accuracy"}}}
	if in.S.ES != nil {
		sg.Spec.EarlyStopping = &commonv1beta1.EarlyStoppingSpec{AlgorithmName: *in.S.ES}
		exp.Spec.EarlyStopping = &commonv1beta1.EarlyStoppingSpec{AlgorithmName: *in.S.ES}
	}
	sg0 := sg.DeepCopy() // what the model is given: the suggestion as it is before any katib code has seen it
	sg.MarkSuggestionStatusCreated("SuggestionCreated", "Suggestion is created")
	objs = append(objs, sg.DeepCopy(), exp)
	cl := fake.NewClientBuilder().WithScheme(scheme).WithObjects(objs...).
		WithStatusSubresource(&suggestionsv1beta1.Suggestion{}, &experimentsv1beta1.Experiment{}).Build()
	viper.Set(consts.ConfigEnableGRPCProbeInSuggestion, in.Probe)
	g := composer.NewGeneralForVerif(scheme, cl)

	t := newToks()
	strTab = kit.NewIntern()
	var c kit.Case
	c.Input = in
	obs := map[string]any{}
	var pans []string
	readable := decoded != nil

	cfgCoq := t.coqConfig(decoded) // interns the config's opaque tokens first

	// the four Desired* functions on the suggestion
	var (
		dep  *appsv1.Deployment
		svc  *corev1.Service
		pvc  *corev1.PersistentVolumeClaim
		pv   *corev1.PersistentVolume
		sa   *corev1.ServiceAccount
		ro   *rbacv1.Role
		rb   *rbacv1.RoleBinding
		e1   error
		e2   error
		e3   error
		e4   error
		algE string
		esE  string
	)
	// like ReconcileSuggestion, which passes one in-memory instance to DesiredVolume (FromVolume only), DesiredService,
	// DesiredDeployment and DesiredRBAC in this order: the calls share one copy of the suggestion
	shared := sg.DeepCopy()
	volArg := shared
	if sg.Spec.ResumePolicy != experimentsv1beta1.FromVolume {
		volArg = sg.DeepCopy()
	}
	p3 := kit.Recover(func() { pvc, pv, e3 = g.DesiredVolume(volArg) })
	p2 := kit.Recover(func() { svc, e2 = g.DesiredService(shared) })
	p1 := kit.Recover(func() { dep, e1 = g.DesiredDeployment(shared) })
	p4 := kit.Recover(func() { sa, ro, rb, e4 = g.DesiredRBAC(shared) })
	p5 := kit.Recover(func() {
		algE = util.GetAlgorithmEndpoint(sg.DeepCopy())
		esE = util.GetEarlyStoppingEndpoint(sg.DeepCopy())
	})
	if js(shared) != js(sg) {
		obs["note"] = "a Desired* function modified the suggestion it was given"
	}
	depCoq, o1 := outcome(p1, e1, readable, func() string { return t.coqDeployment(dep) })
	svcCoq, o2 := outcome(p2, e2, readable, func() string { return coqService(svc) })
	volCoq, o3 := outcome(p3, e3, readable, func() string { return t.coqVolume(pvc, pv) })
	rbacCoq, o4 := outcome(p4, e4, readable, func() string { return coqRBAC(sa, ro, rb) })
	obs["DesiredDeployment"], obs["DesiredService"], obs["DesiredVolume"], obs["DesiredRBAC"] = o1, o2, o3, o4
	if e1 == nil && p1 == "" && dep != nil {
		obs["deployment"] = dep
		c17NoteKeys(dep.Labels, labelsOf(dep.Spec.Selector), dep.Spec.Template.Labels)
	}
	if e2 == nil && p2 == "" && svc != nil {
		obs["service"] = svc
		c17NoteKeys(svc.Labels, svc.Spec.Selector)
	}
	obs["algorithmEndpoint"], obs["earlyStoppingEndpoint"] = algE, esE
	for _, p := range []string{p1, p2, p3, p4, p5} {
		if p != "" {
			pans = append(pans, p)
		}
	}

	// the real controller: first ReconcileSuggestion on the empty cluster, then one with a ready deployment
	var dials []dial
	suggestionclient.SetRPCClientFactoriesForVerif(
		func(conn *grpc.ClientConn) suggestionapi.SuggestionClient {
			dials = append(dials, dial{false, conn.Target()})
			return fakeSuggestion{}
		},
		func(conn *grpc.ClientConn) suggestionapi.EarlyStoppingClient {
			dials = append(dials, dial{true, conn.Target()})
			return fakeES{}
		})
	rec := suggestion.NewReconcilerForVerif(cl, scheme, record.NewFakeRecorder(100), g, suggestionclient.New())
	var recErr error
	inst := sg.DeepCopy()
	p6 := kit.Recover(func() { recErr = rec.ReconcileSuggestion(inst) })
	created := listCreated(ctx, cl)
	if p6 != "" {
		pans = append(pans, p6)
	}
	if recErr == nil && p6 == "" {
		dl := &appsv1.DeploymentList{}
		_ = cl.List(ctx, dl)
		for k := range dl.Items {
			d := &dl.Items[k]
			d.Status.Conditions = []appsv1.DeploymentCondition{{Type: appsv1.DeploymentAvailable, Status: corev1.ConditionTrue}}
			_ = cl.Status().Update(ctx, d)
		}
		var err2 error
		p7 := kit.Recover(func() { err2 = rec.ReconcileSuggestion(inst) })
		if p7 != "" {
			pans = append(pans, p7)
		}
		if err2 != nil {
			obs["secondReconcile"] = "error: " + err2.Error()
		}
	}
	obs["created"] = created
	obs["dialled"] = fmt.Sprint(dials)
	if recErr != nil {
		obs["reconcile"] = "error: " + recErr.Error()
	}

	impl := kit.Rec("Impl", depCoq, svcCoq, volCoq, rbacCoq, qs(algE), qs(esE),
		kit.ListOf(dials, func(d dial) string { return kit.Pair(kit.Bool(d.es), qs(d.target)) }),
		kit.ListOf(created, func(o objRef) string { return kit.Rec("ObjRef", kit.Nat(o.Kind), qs(o.Namespace), qs(o.Name)) }),
		kit.Bool(recErr != nil))
	c.Coq = withStrings("C17.Case " + coqConsts(scheme) + " " + kit.Bool(in.Probe) + " " + cfgCoq + " " + coqSuggestion(sg0) + " " + impl)
	c.Sig = js(in)
	c.Observed = obs
	if len(pans) > 0 {
		c.GoViol = "panic: " + strings.Join(pans, " | ")
	}

	// distribution and non-triviality
	esOn := in.S.ES != nil && *in.S.ES != ""
	if in.Echo {
		c.Tags = append(c.Tags, "labels-echo-generated-keys")
	}
	switch {
	case in.S.ES == nil:
		c.Tags = append(c.Tags, "es:off")
	case *in.S.ES == "":
		c.Tags = append(c.Tags, "es:empty-name")
	default:
		c.Tags = append(c.Tags, "es:on")
	}
	if in.S.Resume == string(experimentsv1beta1.FromVolume) {
		c.Tags = append(c.Tags, "resume:FromVolume")
	} else {
		c.Tags = append(c.Tags, "resume:other")
	}
	customised := false
	switch {
	case !readable:
		c.Tags = append(c.Tags, "cfg:unreadable")
	case e1 == nil:
		c.Tags = append(c.Tags, "deployment:generated")
		var ent *configv1beta1.SuggestionConfig
		for k := range decoded.RuntimeConfig.SuggestionConfigs {
			if decoded.RuntimeConfig.SuggestionConfigs[k].AlgorithmName == in.S.Algorithm {
				ent = &decoded.RuntimeConfig.SuggestionConfigs[k]
			}
		}
		if ent != nil {
			customised = len(ent.Ports) > 0 || len(ent.VolumeMounts) > 0 || ent.ServiceAccountName != "" || ent.Name != ""
			if ent.ServiceAccountName != "" {
				c.Tags = append(c.Tags, "sa:custom")
			}
			if pv != nil {
				c.Tags = append(c.Tags, "pv:configured")
			}
		}
	default:
		c.Tags = append(c.Tags, fmt.Sprintf("deployment:err%d", errCode(e1, readable)))
	}
	if len(dials) > 0 {
		c.Tags = append(c.Tags, "dials:observed")
	}
	c.Nontrivial = (e1 == nil && p1 == "" && (esOn || in.S.Resume == string(experimentsv1beta1.FromVolume) || customised)) ||
		(e1 != nil && errCode(e1, readable) == 3)
	return c
}

type objRef struct {
	Kind      int    `json:"kind"`
	Namespace string `json:"namespace"`
	Name      string `json:"name"`
}

// listCreated lists the objects of the seven generated kinds present in the fake cluster (kind ids as in Model/Composer.v kind_id).
func listCreated(ctx context.Context, cl client.Client) []objRef {
	var res []objRef
	add := func(kind int, ns, name string) { res = append(res, objRef{kind, ns, name}) }
	pvl := &corev1.PersistentVolumeList{}
	_ = cl.List(ctx, pvl)
	for _, o := range pvl.Items {
		add(0, o.Namespace, o.Name)
	}
	pvcl := &corev1.PersistentVolumeClaimList{}
	_ = cl.List(ctx, pvcl)
	for _, o := range pvcl.Items {
		add(1, o.Namespace, o.Name)
	}
	sl := &corev1.ServiceList{}
	_ = cl.List(ctx, sl)
	for _, o := range sl.Items {
		add(2, o.Namespace, o.Name)
	}
	sal := &corev1.ServiceAccountList{}
	_ = cl.List(ctx, sal)
	for _, o := range sal.Items {
		add(3, o.Namespace, o.Name)
	}
	rl := &rbacv1.RoleList{}
	_ = cl.List(ctx, rl)
	for _, o := range rl.Items {
		add(4, o.Namespace, o.Name)
	}
	rbl := &rbacv1.RoleBindingList{}
	_ = cl.List(ctx, rbl)
	for _, o := range rbl.Items {
		add(5, o.Namespace, o.Name)
	}
	dl := &appsv1.DeploymentList{}
	_ = cl.List(ctx, dl)
	for _, o := range dl.Items {
		add(6, o.Namespace, o.Name)
	}
	return res
}
