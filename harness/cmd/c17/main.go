// c17 drives property C17 (generated algorithm-service resources are mutually consistent and reachable):
// it runs the real composer.General, util.Get*Endpoint, suggestionclient.General and ReconcileSuggestion on generated
// Suggestions and katib-config entries and writes Coq case files for /verif/check.
package main

import (
	"os"

	"verifharness/internal/kit"
)

func main() {
	if len(os.Args) < 2 {
		os.Stderr.WriteString("usage: c17 c17 -seed S -n N -out DIR [-replay file]\n")
		os.Exit(2)
	}
	kit.Main(c17{}, os.Args[2:])
}
