// c10 is the correspondence driver of property C10 (Experiment/Trial resources reach the algorithm services without loss):
// it runs the real suggestionclient conversion code of the katib tree on generated objects and writes Coq case files.
//
//	c10 c10 -seed S -n N -out DIR [-replay file] [-corpus dir]
//
// It is kit.Main plus an "extra" block for the evidence file (remarks probed on the current tree on every run).
package main

import (
	"encoding/json"
	"flag"
	"fmt"
	"math/rand"
	"os"
	"path/filepath"
	"sort"
	"time"

	metav1 "k8s.io/apimachinery/pkg/apis/meta/v1"

	"verifharness/internal/c10api"
	"verifharness/internal/kit"
)

func load(p kit.Prop, path string) []any {
	raw, err := os.ReadFile(path)
	if err != nil {
		fmt.Fprintln(os.Stderr, "replay:", err)
		os.Exit(2)
	}
	var lst []json.RawMessage
	if json.Unmarshal(raw, &lst) != nil {
		var obj struct {
			Case json.RawMessage `json:"case"`
		}
		if err := json.Unmarshal(raw, &obj); err != nil || obj.Case == nil {
			fmt.Fprintln(os.Stderr, "replay: neither a list of inputs nor a replay object with .case")
			os.Exit(2)
		}
		lst = []json.RawMessage{obj.Case}
	}
	var res []any
	for _, r := range lst {
		in, err := p.Decode(r)
		if err != nil {
			fmt.Fprintln(os.Stderr, "replay decode:", err)
			os.Exit(2)
		}
		res = append(res, in)
	}
	return res
}

// remarks are observations outside the letter of the property, re-probed on the current tree on every run.
func remarks() map[string]any {
	res := map[string]any{}
	// (1) time zone: convertTrialStatusTime formats with the layout "2006-01-02T15:04:05Z" whose Z is a literal
	loc := time.FixedZone("UTC+2", 2*3600)
	tm := metav1.NewTime(time.Date(2024, 5, 6, 12, 0, 0, 0, loc))
	_, ts, _ := baseObjects()
	ts[0].Status.StartTime = &tm
	sent := ""
	if pan := kit.Recover(func() { sent = client.ConvertTrials(ts)[0].Status.StartTime }); pan != "" {
		sent = "panic: " + pan
	}
	res["stamp_zone"] = map[string]string{
		"remark": "convertTrialStatusTime prints the wall clock of the time's location followed by a literal 'Z'; the stamps are the same instant only when " +
			"the controller's local zone is UTC (the generated cases use UTC times; stamps are not among the fields the property lists)",
		"input_instant_utc": tm.UTC().Format(time.RFC3339), "input_location": "UTC+2", "sent": sent,
	}
	// (2) labels
	res["labels"] = "ConvertTrials sends Trial.spec.labels, but no controller ever fills spec.labels: the experiment controller's getTrialInstance copies the " +
		"labels of a TrialAssignment (those the algorithm returned) into the Trial's metadata.labels. What an algorithm attaches to an assignment therefore " +
		"never comes back to it. Both models (C02, C10) follow the code; the property as written (spec.labels arrive unchanged) holds."
	// (3) zero values
	res["zero_values"] = "a trial without any condition is reported with condition CREATED (zero value of the proto enum); absent goal, parallelTrialCount, " +
		"maxTrialCount and numLayers are reported as 0 (proto3 scalars); a metric without a (known) strategy is reported with the empty value; " +
		"TrialMetricsUnavailable has no case in convertTrialConditionType (image UNKNOWN) although the proto enum has METRICSUNAVAILABLE - trials for which " +
		"it is True are withheld"
	return res
}

func main() {
	p := c10{}
	if len(os.Args) < 2 {
		fmt.Fprintln(os.Stderr, "usage: c10 c10 -seed S -n N -out DIR [-replay file] [-corpus dir]")
		os.Exit(2)
	}
	fs := flag.NewFlagSet("c10", flag.ExitOnError)
	seed := fs.Int64("seed", 1, "PRNG seed")
	n := fs.Int("n", 100, "number of cases")
	out := fs.String("out", "build", "output directory")
	replay := fs.String("replay", "", "JSON file holding a list of inputs (or a replay file with .case)")
	corpus := fs.String("corpus", "", "directory of minimised failing inputs run first")
	_ = fs.Parse(os.Args[2:])

	var err error
	declaredEnums, err = c10api.Enums(c10api.Repo())
	if err != nil {
		fmt.Fprintln(os.Stderr, "c10: cannot enumerate the enum constants of the tree:", err)
		os.Exit(2)
	}

	var inputs []any
	if *replay != "" {
		inputs = load(p, *replay)
	} else {
		if *corpus != "" {
			files, _ := filepath.Glob(filepath.Join(*corpus, "*.json"))
			sort.Strings(files)
			for _, f := range files {
				inputs = append(inputs, load(p, f)...)
			}
		}
		r := rand.New(rand.NewSource(*seed))
		for i := 0; i < *n; i++ {
			inputs = append(inputs, p.Gen(r, i, *n))
		}
	}
	cases := make([]kit.Case, len(inputs))
	for i, in := range inputs {
		cases[i] = p.Run(in)
		if cases[i].Input == nil {
			cases[i].Input = in
		}
	}
	kit.WriteCases(p, *seed, cases, *out, map[string]any{"remarks": remarks(), "fields_probed": len(c10api.FieldsOf(c10api.APIStructs())), "enum_constants": len(declaredEnums)})
}
