package main

import (
	"context"
	"encoding/json"
	"fmt"
	"math/rand"
	"reflect"
	"regexp"
	"sort"
	"strings"
	"time"

	"google.golang.org/grpc"
	"google.golang.org/protobuf/encoding/prototext"
	"google.golang.org/protobuf/proto"
	metav1 "k8s.io/apimachinery/pkg/apis/meta/v1"

	commonv1beta1 "github.com/kubeflow/katib/pkg/apis/controller/common/v1beta1"
	experimentsv1beta1 "github.com/kubeflow/katib/pkg/apis/controller/experiments/v1beta1"
	suggestionsv1beta1 "github.com/kubeflow/katib/pkg/apis/controller/suggestions/v1beta1"
	trialsv1beta1 "github.com/kubeflow/katib/pkg/apis/controller/trials/v1beta1"
	api "github.com/kubeflow/katib/pkg/apis/manager/v1beta1"
	"github.com/kubeflow/katib/pkg/controller.v1beta1/suggestion/suggestionclient"

	"verifharness/internal/c10api"
	"verifharness/internal/kit"
)

type c10 struct{}

func (c10) Name() string      { return "c10" }
func (c10) CoqModule() string { return "C10" }
func (c10) Rule() string {
	return "first the reflective pass: one probe per exported field of the API structs named by the property (enumerated by reflection on the " +
		"current tree; the field is set to a distinctive value on fully populated Experiment/Trial/Suggestion objects and searched for in the " +
		"messages produced by the real ConvertExperiment / ConvertTrials / SyncAssignments) and one probe per mapped enum type (every constant " +
		"declared in the tree plus undeclared strings); then random cases: 30% ConvertExperiment on experiments with 0-5 parameters (types and " +
		"distributions drawn from the declared constants, 1/6 other strings), optional goal (incl. NaN, -0, Inf), NAS config, early stopping, nil " +
		"algorithm/objective (4% each); 30% ConvertTrials on 0-6 (10%: up to 24) trials with life-cycle or arbitrary condition lists, " +
		"observations with 'unavailable' texts, duplicate / missing / unknown strategies, labels, UTC stamps; 40% SyncAssignments against " +
		"in-process fake services with remembered settings overriding the spec and reply settings (with nil entries) remembered afterwards. " +
		"Strings come from small pools (name collisions) plus quotes, backslashes, UTF-8, control characters. 25% of the cases build zero-length " +
		"slices as empty instead of nil. Non-trivial: a probe; an experiment with >=2 parameters or NAS; a trial list in which some trial is " +
		"withheld and some is sent, or a metric falls back to latest; a sync whose remembered settings override a spec setting. " +
		"Distinct: by the Coq term of the input."
}

func (c10) Gen(r *rand.Rand, i, n int) any { return gen(r, i, n) }

func (c10) Decode(raw json.RawMessage) (any, error) {
	var in Input
	err := json.Unmarshal(raw, &in)
	return in, err
}

var client = suggestionclient.New().(*suggestionclient.General)

// ---------------------------------------------------------------- running the real conversion

func outcome(pan string, ok string) string {
	if pan != "" {
		return "(Crash 0%nat)"
	}
	return "(Ok " + ok + ")"
}

// runExp calls the real ConvertExperiment.
func runExp(e *experimentsv1beta1.Experiment, p *proj) (msg *api.Experiment, coq string, observed any) {
	pan := kit.Recover(func() { msg = client.ConvertExperiment(e) })
	if pan != "" {
		return nil, "(Crash 0%nat)", "panic: " + pan
	}
	return msg, "(Ok " + p.pbExperiment(msg) + ")", prototext.MarshalOptions{}.Format(msg)
}

// runTrials calls the real ConvertTrials.
func runTrials(ts []trialsv1beta1.Trial, p *proj) (msgs []*api.Trial, coq string, observed any) {
	pan := kit.Recover(func() { msgs = client.ConvertTrials(ts) })
	if pan != "" {
		return nil, "(Crash 0%nat)", "panic: " + pan
	}
	var txt []string
	for _, m := range msgs {
		txt = append(txt, prototext.MarshalOptions{}.Format(m))
	}
	return msgs, "(Ok " + p.pbTrials(msgs) + ")", txt
}

// ---------------------------------------------------------------- fake services for SyncAssignments

type fakeSuggestion struct {
	reply    *api.GetSuggestionsReply
	got      *api.GetSuggestionsRequest
	validate *api.ValidateAlgorithmSettingsRequest
}

func (f *fakeSuggestion) GetSuggestions(_ context.Context, in *api.GetSuggestionsRequest, _ ...grpc.CallOption) (*api.GetSuggestionsReply, error) {
	f.got = in
	return f.reply, nil
}
func (f *fakeSuggestion) ValidateAlgorithmSettings(_ context.Context, in *api.ValidateAlgorithmSettingsRequest, _ ...grpc.CallOption) (*api.ValidateAlgorithmSettingsReply, error) {
	f.validate = in
	return &api.ValidateAlgorithmSettingsReply{}, nil
}

type fakeEarlyStopping struct {
	got      *api.GetEarlyStoppingRulesRequest
	validate *api.ValidateEarlyStoppingSettingsRequest
}

func (f *fakeEarlyStopping) GetEarlyStoppingRules(_ context.Context, in *api.GetEarlyStoppingRulesRequest, _ ...grpc.CallOption) (*api.GetEarlyStoppingRulesReply, error) {
	f.got = in
	return &api.GetEarlyStoppingRulesReply{EarlyStoppingRules: []*api.EarlyStoppingRule{{Name: "loss", Value: "0.5", Comparison: api.ComparisonType_LESS, StartStep: 2}}}, nil
}
func (f *fakeEarlyStopping) SetTrialStatus(context.Context, *api.SetTrialStatusRequest, ...grpc.CallOption) (*api.SetTrialStatusReply, error) {
	return &api.SetTrialStatusReply{}, nil
}
func (f *fakeEarlyStopping) ValidateEarlyStoppingSettings(_ context.Context, in *api.ValidateEarlyStoppingSettingsRequest, _ ...grpc.CallOption) (*api.ValidateEarlyStoppingSettingsReply, error) {
	f.validate = in
	return &api.ValidateEarlyStoppingSettingsReply{}, nil
}

// checkValidators: the two validation requests must carry the same messages as the direct conversion.
func checkValidators(e *experimentsv1beta1.Experiment, direct *api.Experiment) (viol []string) {
	fs, fe := &fakeSuggestion{}, &fakeEarlyStopping{}
	suggestionclient.SetRPCClientFactoriesForVerif(
		func(*grpc.ClientConn) api.SuggestionClient { return fs },
		func(*grpc.ClientConn) api.EarlyStoppingClient { return fe })
	inst := newSuggestion(nil, false, false)
	var err error
	if pan := kit.Recover(func() { err = client.ValidateAlgorithmSettings(inst, e) }); pan != "" || err != nil {
		viol = append(viol, fmt.Sprintf("ValidateAlgorithmSettings failed where ConvertExperiment succeeds: %s %v", pan, err))
	} else if fs.validate == nil || !proto.Equal(fs.validate.Experiment, direct) {
		viol = append(viol, "the ValidateAlgorithmSettings request carries another Experiment than ConvertExperiment returns")
	}
	if pan := kit.Recover(func() { err = client.ValidateEarlyStoppingSettings(inst, e) }); pan != "" || err != nil {
		viol = append(viol, fmt.Sprintf("ValidateEarlyStoppingSettings failed where ConvertExperiment succeeds: %s %v", pan, err))
	} else if fe.validate == nil || !proto.Equal(fe.validate.EarlyStopping, direct.Spec.EarlyStopping) {
		viol = append(viol, "the ValidateEarlyStoppingSettings request carries another EarlyStoppingSpec than ConvertExperiment returns")
	}
	return viol
}

type syncResult struct {
	pan, err string
	req      *api.GetSuggestionsRequest
	esReq    *api.GetEarlyStoppingRulesRequest
	status   []commonv1beta1.AlgorithmSetting
	goViol   []string
}

// runSync calls the real SyncAssignments; the two gRPC client factories are replaced by in-process fakes (verif hook).
func runSync(e *experimentsv1beta1.Experiment, ts []trialsv1beta1.Trial, inst *suggestionsv1beta1.Suggestion, reply []*KV, noAlgo bool) syncResult {
	var res syncResult
	want := int(inst.Spec.Requests) - int(inst.Status.SuggestionCount)
	fs := &fakeSuggestion{reply: &api.GetSuggestionsReply{}}
	for i := 0; i < want; i++ {
		fs.reply.ParameterAssignments = append(fs.reply.ParameterAssignments, &api.GetSuggestionsReply_ParameterAssignments{
			Assignments: []*api.ParameterAssignment{{Name: "lr", Value: fmt.Sprint(i)}}})
	}
	if !noAlgo {
		fs.reply.Algorithm = &api.AlgorithmSpec{AlgorithmName: "ignored"}
		for _, s := range reply {
			if s == nil {
				fs.reply.Algorithm.AlgorithmSettings = append(fs.reply.Algorithm.AlgorithmSettings, nil)
			} else {
				fs.reply.Algorithm.AlgorithmSettings = append(fs.reply.Algorithm.AlgorithmSettings, &api.AlgorithmSetting{Name: s.Name, Value: s.Value})
			}
		}
	}
	fe := &fakeEarlyStopping{}
	suggestionclient.SetRPCClientFactoriesForVerif(
		func(*grpc.ClientConn) api.SuggestionClient { return fs },
		func(*grpc.ClientConn) api.EarlyStoppingClient { return fe })
	// compared through the printer of the modelled fields (reflect.DeepEqual is false on NaN goals)
	before, tsBefore := cExperiment(e), cTrials(ts)
	nSug := len(inst.Status.Suggestions)
	var err error
	res.pan = kit.Recover(func() { err = client.SyncAssignments(inst, e, ts) })
	if err != nil {
		res.err = err.Error()
	}
	res.req, res.esReq, res.status = fs.got, fe.got, inst.Status.AlgorithmSettings
	if before != cExperiment(e) {
		res.goViol = append(res.goViol, "SyncAssignments modified the Experiment object it was given")
	}
	if tsBefore != cTrials(ts) {
		res.goViol = append(res.goViol, "SyncAssignments modified the Trial objects it was given")
	}
	if res.pan == "" && res.err == "" {
		if fs.got == nil {
			res.goViol = append(res.goViol, "no GetSuggestions request was sent")
		}
		if inst.Spec.EarlyStopping != nil {
			if fe.got == nil {
				res.goViol = append(res.goViol, "no GetEarlyStoppingRules request was sent although early stopping is set")
			} else if fs.got != nil && (!proto.Equal(fe.got.Experiment, fs.got.Experiment) || !trialsEqual(fe.got.Trials, fs.got.Trials)) {
				res.goViol = append(res.goViol, "the early-stopping request carries another Experiment/Trials than the suggestion request")
			}
		}
		if len(inst.Status.Suggestions) != nSug+want {
			res.goViol = append(res.goViol, fmt.Sprintf("%d assignments appended, %d requested", len(inst.Status.Suggestions)-nSug, want))
		}
	}
	return res
}

func trialsEqual(a, b []*api.Trial) bool {
	if len(a) != len(b) {
		return false
	}
	for i := range a {
		if !proto.Equal(a[i], b[i]) {
			return false
		}
	}
	return true
}

func newSuggestion(sug []KV, early bool, enn bool) *suggestionsv1beta1.Suggestion {
	inst := &suggestionsv1beta1.Suggestion{ObjectMeta: metav1.ObjectMeta{Name: "exp", Namespace: "ns"}}
	inst.Spec.Algorithm = &commonv1beta1.AlgorithmSpec{AlgorithmName: "random"}
	inst.Spec.Requests = 3
	inst.Status.SuggestionCount = 1
	inst.Status.Suggestions = []suggestionsv1beta1.TrialAssignment{{Name: "exp-old", ParameterAssignments: []commonv1beta1.ParameterAssignment{{Name: "lr", Value: "0.1"}}}}
	inst.Status.AlgorithmSettings = realSettings(sug, enn)
	if early {
		inst.Spec.EarlyStopping = &commonv1beta1.EarlyStoppingSpec{AlgorithmName: "medianstop"}
	}
	return inst
}

// ---------------------------------------------------------------- Run

func (c10) Run(input any) kit.Case {
	in := input.(Input)
	var c kit.Case
	c.Input = in
	p := &proj{}
	switch in.Kind {
	case "exp":
		e := realExperiment(in.Exp, in.EmptyNotNil)
		ce := cExperiment(e)
		msg, out, obs := runExp(e, p)
		if msg != nil {
			c.GoViol = strings.Join(checkValidators(e, msg), "; ")
			c.Tags = append(c.Tags, "exp:validate-requests-compared")
		}
		c.Coq = fmt.Sprintf("C10.CExp %s %s", ce, out)
		c.Sig, c.Observed = "exp"+ce, obs
		c.Nontrivial = len(in.Exp.Params) >= 2 || in.Exp.Nas != nil
		c.Tags = append(append(c.Tags, "kind:exp"), expTags(in.Exp)...)
	case "trials":
		ts := realTrials(in.Trials, in.EmptyNotNil)
		cts := cTrials(ts)
		msgs, out, obs := runTrials(ts, p)
		c.Coq = fmt.Sprintf("C10.CTrials %s %s", cts, out)
		c.Sig, c.Observed = "trials"+cts, obs
		tags, nt := trialTags(in.Trials, len(msgs))
		c.Tags = append(c.Tags, "kind:trials")
		c.Tags = append(c.Tags, tags...)
		c.Nontrivial = nt
	case "sync":
		e := realExperiment(in.Exp, in.EmptyNotNil)
		ts := realTrials(in.Trials, in.EmptyNotNil)
		inst := newSuggestion(in.Sug, in.EarlyInSug, in.EmptyNotNil)
		// like GetOrCreateSuggestion: the Suggestion's spec carries a copy of the experiment's algorithm (settings included)
		if e.Spec.Algorithm != nil {
			inst.Spec.Algorithm = e.Spec.Algorithm.DeepCopy()
		}
		ce, cts := cExperiment(e), cTrials(ts)
		reply := in.Reply
		if in.ReplyNoAlgo {
			reply = nil
		}
		res := runSync(e, ts, inst, reply, in.ReplyNoAlgo)
		var out string
		switch {
		case res.pan != "":
			out, c.Observed = "(Crash 0%nat)", "panic: "+res.pan
		case res.err != "":
			out, c.Observed = "(Err 0%nat)", "error: "+res.err
		case res.req == nil:
			out, c.Observed = "(Err 1%nat)", "no request captured"
		default:
			out = fmt.Sprintf("(Ok (%s, %s, %s))", p.pbExperiment(res.req.Experiment), p.pbTrials(res.req.Trials),
				kit.ListOf(res.status, func(s commonv1beta1.AlgorithmSetting) string { return cKV(s.Name, s.Value) }))
			c.Observed = map[string]any{"request": prototext.MarshalOptions{}.Format(res.req), "status_settings": res.status}
		}
		c.GoViol = strings.Join(res.goViol, "; ")
		csug := kit.ListOf(in.Sug, func(s KV) string { return cKV(s.Name, s.Value) })
		creply := kit.ListOf(reply, func(s *KV) string {
			if s == nil {
				return "None"
			}
			return "(Some " + cKV(s.Name, s.Value) + ")"
		})
		c.Coq = fmt.Sprintf("C10.CSync %s %s %s %s %s", ce, csug, creply, cts, out)
		c.Sig = "sync" + ce + csug + creply + cts
		c.Tags = append(c.Tags, "kind:sync")
		if in.Exp.Algorithm != nil {
			for _, s := range in.Sug {
				for _, t := range in.Exp.Algorithm.Settings {
					if s.Name == t.Name {
						c.Nontrivial = true
					}
				}
			}
		}
		if c.Nontrivial {
			c.Tags = append(c.Tags, "sync:override")
		} else {
			c.Tags = append(c.Tags, "sync:no-override")
		}
		if in.EarlyInSug {
			c.Tags = append(c.Tags, "sync:early-stopping-service")
		}
	case "field":
		c = runFieldProbe(in, p)
	case "enum":
		c = runEnumProbe(in, p)
	default:
		c.Coq = `C10.CEnum "bad input kind" [("", true, "")]`
		c.GoViol = "unknown input kind " + in.Kind
	}
	if in.EmptyNotNil {
		c.Tags = append(c.Tags, "slices:empty-not-nil")
	}
	if v := p.viol(); v != "" {
		if c.GoViol != "" {
			c.GoViol += "; "
		}
		c.GoViol += v
	}
	return c
}

func expTags(e *Experiment) []string {
	var t []string
	if e.Algorithm == nil {
		t = append(t, "exp:nil-algorithm")
	}
	if e.Objective == nil {
		t = append(t, "exp:nil-objective")
	}
	if e.Nas != nil {
		t = append(t, "exp:nas")
	}
	if e.Early != nil {
		t = append(t, "exp:early-stopping")
	}
	switch n := len(e.Params); {
	case n == 0:
		t = append(t, "params:0")
	case n <= 2:
		t = append(t, "params:1-2")
	default:
		t = append(t, "params:3-5")
	}
	return t
}

func trialTags(ts []Trial, sent int) ([]string, bool) {
	var t []string
	switch n := len(ts); {
	case n == 0:
		t = append(t, "trials:0")
	case n <= 3:
		t = append(t, "trials:1-3")
	case n <= 6:
		t = append(t, "trials:4-6")
	default:
		t = append(t, "trials:7-24")
	}
	fallback := false
	for _, tr := range ts {
		if tr.Objective == nil {
			continue
		}
		for _, m := range tr.Metrics {
			st := ""
			for _, s := range tr.Objective.Strategies {
				if s.Name == m.Name {
					st = s.Value
				}
			}
			if (st == "min" && m.Min == "unavailable") || (st == "max" && m.Max == "unavailable") {
				fallback = true
			}
		}
	}
	if fallback {
		t = append(t, "trials:fallback-to-latest")
	}
	withheld := sent < len(ts)
	if withheld {
		t = append(t, "trials:some-withheld")
	}
	return t, fallback || (withheld && sent > 0)
}

// ---------------------------------------------------------------- reflective pass: fields

// baseObjects builds fully populated objects: every API struct named by the property occurs with all of its fields non zero.
func baseObjects() (*experimentsv1beta1.Experiment, []trialsv1beta1.Trial, *suggestionsv1beta1.Suggestion) {
	goal, par, max, layers := 0.75, int32(3), int32(12), int32(8)
	obj := func() *commonv1beta1.ObjectiveSpec {
		g := goal
		return &commonv1beta1.ObjectiveSpec{Type: commonv1beta1.ObjectiveTypeMaximize, Goal: &g, ObjectiveMetricName: "accuracy",
			AdditionalMetricNames: []string{"loss", "f1"},
			MetricStrategies: []commonv1beta1.MetricStrategy{{Name: "accuracy", Value: commonv1beta1.ExtractByMax},
				{Name: "loss", Value: commonv1beta1.ExtractByMin}, {Name: "f1", Value: commonv1beta1.ExtractByLatest}}}
	}
	param := func(n string) experimentsv1beta1.ParameterSpec {
		return experimentsv1beta1.ParameterSpec{Name: n, ParameterType: experimentsv1beta1.ParameterTypeDouble,
			FeasibleSpace: experimentsv1beta1.FeasibleSpace{Max: "0.9", Min: "0.1", List: []string{"p", "q"}, Step: "0.2",
				Distribution: experimentsv1beta1.DistributionLogUniform}}
	}
	e := &experimentsv1beta1.Experiment{ObjectMeta: metav1.ObjectMeta{Name: "exp", Namespace: "ns"}}
	e.Spec.Parameters = []experimentsv1beta1.ParameterSpec{param("lr")}
	e.Spec.Objective = obj()
	e.Spec.Algorithm = &commonv1beta1.AlgorithmSpec{AlgorithmName: "tpe", AlgorithmSettings: []commonv1beta1.AlgorithmSetting{{Name: "seed", Value: "10"}}}
	e.Spec.EarlyStopping = &commonv1beta1.EarlyStoppingSpec{AlgorithmName: "medianstop", AlgorithmSettings: []commonv1beta1.EarlyStoppingSetting{{Name: "min_trials", Value: "4"}}}
	e.Spec.ParallelTrialCount, e.Spec.MaxTrialCount = &par, &max
	e.Spec.NasConfig = &experimentsv1beta1.NasConfig{
		GraphConfig: experimentsv1beta1.GraphConfig{NumLayers: &layers, InputSizes: []int32{32, 33}, OutputSizes: []int32{10}},
		Operations:  []experimentsv1beta1.Operation{{OperationType: "convolution", Parameters: []experimentsv1beta1.ParameterSpec{param("filter")}}}}

	now := metav1.NewTime(time.Date(2024, 5, 6, 7, 8, 9, 0, time.UTC))
	t := trialsv1beta1.Trial{ObjectMeta: metav1.ObjectMeta{Name: "exp-t1", Namespace: "ns"}}
	t.Spec.Objective = obj()
	t.Spec.ParameterAssignments = []commonv1beta1.ParameterAssignment{{Name: "lr", Value: "0.3"}}
	t.Spec.Labels = map[string]string{"k": "v"}
	t.Status.StartTime, t.Status.CompletionTime = &now, &now
	t.Status.Conditions = []trialsv1beta1.TrialCondition{{Type: trialsv1beta1.TrialCreated, Status: "True"}, {Type: trialsv1beta1.TrialSucceeded, Status: "True"}}
	t.Status.Observation = &commonv1beta1.Observation{Metrics: []commonv1beta1.Metric{
		{Name: "accuracy", Min: "0.1", Max: "0.9", Latest: "0.8"}, {Name: "loss", Min: "0.2", Max: "1.9", Latest: "0.3"},
		{Name: "f1", Min: "0.4", Max: "0.6", Latest: "0.5"}}}

	s := newSuggestion([]KV{{"seed", "11"}}, true, false)
	s.Status.Suggestions = []suggestionsv1beta1.TrialAssignment{{Name: "exp-t1", ParameterAssignments: []commonv1beta1.ParameterAssignment{{Name: "lr", Value: "0.3"}},
		EarlyStoppingRules: []commonv1beta1.EarlyStoppingRule{{Name: "loss", Value: "1", Comparison: commonv1beta1.ComparisonTypeLess, StartStep: 1}},
		Labels:             map[string]string{"k": "v"}}}
	return e, []trialsv1beta1.Trial{t}, s
}

const katibAPI = "github.com/kubeflow/katib/pkg/apis/controller"

// visit calls f on every addressable value of struct type named st (of the katib API packages) reachable from v.
func visit(v reflect.Value, st string, f func(reflect.Value)) {
	switch v.Kind() {
	case reflect.Ptr:
		if !v.IsNil() {
			visit(v.Elem(), st, f)
		}
	case reflect.Slice:
		for i := 0; i < v.Len(); i++ {
			visit(v.Index(i), st, f)
		}
	case reflect.Struct:
		if !strings.HasPrefix(v.Type().PkgPath(), katibAPI) {
			return
		}
		if v.Type().Name() == st {
			f(v)
		}
		for i := 0; i < v.NumField(); i++ {
			if v.Type().Field(i).IsExported() {
				visit(v.Field(i), st, f)
			}
		}
	}
}

var listed = func() map[string]bool {
	m := map[string]bool{}
	for _, t := range c10api.APIStructs() {
		m[t.Name()] = true
	}
	return m
}()

// fill writes distinctive content into any value: strings get tag(+suffix), integers 7919.., floats 7919.25
type filler struct {
	tag  string
	strs []string
	nums []string
}

func (fl *filler) fill(v reflect.Value, depth int) {
	if depth > 4 {
		return
	}
	switch v.Kind() {
	case reflect.String:
		s := fmt.Sprintf("%s-%d", fl.tag, len(fl.strs))
		v.SetString(s)
		fl.strs = append(fl.strs, s)
	case reflect.Int, reflect.Int8, reflect.Int16, reflect.Int32, reflect.Int64:
		n := int64(7919 + 2*len(fl.nums))
		v.SetInt(n)
		fl.nums = append(fl.nums, fmt.Sprint(n))
	case reflect.Uint, reflect.Uint8, reflect.Uint16, reflect.Uint32, reflect.Uint64:
		n := uint64(7919 + 2*len(fl.nums))
		v.SetUint(n)
		fl.nums = append(fl.nums, fmt.Sprint(n))
	case reflect.Float32, reflect.Float64:
		v.SetFloat(7919.25)
		fl.nums = append(fl.nums, "7919.25")
	case reflect.Bool:
		v.SetBool(!v.Bool())
	case reflect.Ptr:
		v.Set(reflect.New(v.Type().Elem()))
		fl.fill(v.Elem(), depth+1)
	case reflect.Slice:
		v.Set(reflect.MakeSlice(v.Type(), 2, 2))
		fl.fill(v.Index(0), depth+1)
		fl.fill(v.Index(1), depth+1)
	case reflect.Map:
		m := reflect.MakeMap(v.Type())
		k, e := reflect.New(v.Type().Key()).Elem(), reflect.New(v.Type().Elem()).Elem()
		fl.fill(k, depth+1)
		fl.fill(e, depth+1)
		m.SetMapIndex(k, e)
		v.Set(m)
	case reflect.Struct:
		for i := 0; i < v.NumField(); i++ {
			if v.Type().Field(i).IsExported() {
				fl.fill(v.Field(i), depth+1)
			}
		}
	}
}

// elemStruct returns the name of the struct a field ultimately holds (through pointers / slices), "" if none.
func elemStruct(t reflect.Type) string {
	for t.Kind() == reflect.Ptr || t.Kind() == reflect.Slice {
		t = t.Elem()
	}
	if t.Kind() == reflect.Struct {
		return t.Name()
	}
	return ""
}

// enumOf returns the declared values of the named string type of a field, if it is one of the parsed enum types.
func enumOf(t reflect.Type) []string {
	if t.Kind() != reflect.String || t.Name() == "string" {
		return nil
	}
	var vs []string
	for _, e := range declaredEnums {
		if e.Type == t.Name() {
			vs = append(vs, e.Value)
		}
	}
	return vs
}

type snapshot struct {
	text string // text form of everything the services are sent
}

// sendAll runs the three real entry points on the objects and renders every message produced.
func sendAll(e *experimentsv1beta1.Experiment, ts []trialsv1beta1.Trial, s *suggestionsv1beta1.Suggestion) snapshot {
	var b strings.Builder
	var msg *api.Experiment
	if pan := kit.Recover(func() { msg = client.ConvertExperiment(e) }); pan != "" {
		b.WriteString("panic ConvertExperiment: " + pan)
	} else {
		b.WriteString(prototext.MarshalOptions{Multiline: true}.Format(msg))
	}
	var msgs []*api.Trial
	if pan := kit.Recover(func() { msgs = client.ConvertTrials(ts) }); pan != "" {
		b.WriteString("panic ConvertTrials: " + pan)
	}
	for _, m := range msgs {
		b.WriteString(prototext.MarshalOptions{Multiline: true}.Format(m))
	}
	res := runSync(e.DeepCopy(), ts, s.DeepCopy(), nil, true)
	b.WriteString("sync:" + res.pan + res.err)
	if res.req != nil {
		b.WriteString(prototext.MarshalOptions{Multiline: true}.Format(res.req))
	}
	if res.esReq != nil {
		b.WriteString(prototext.MarshalOptions{Multiline: true}.Format(res.esReq))
	}
	return snapshot{text: b.String()}
}

func containsAll(text string, strsQ []string, nums []string) bool {
	if len(strsQ) == 0 && len(nums) == 0 {
		return false
	}
	for _, s := range strsQ {
		if !strings.Contains(text, `"`+s+`"`) {
			return false
		}
	}
	for _, n := range nums {
		if !regexp.MustCompile(`(^|[^0-9.])` + regexp.QuoteMeta(n) + `($|[^0-9.])`).MatchString(text) {
			return false
		}
	}
	return true
}

// runFieldProbe: verdict 2 = the distinctive content is found in the messages (for enum-typed fields: all declared values give
// pairwise different messages; for fields holding one of the named structs: dropping the field changes the messages),
// 1 = the messages differ from the unprobed ones, 0 = no effect.
func runFieldProbe(in Input, p *proj) kit.Case {
	var c kit.Case
	c.Input = in
	be, bts, bs := baseObjects()
	base := sendAll(be, bts, bs)

	apply := func(set func(f reflect.Value)) (*experimentsv1beta1.Experiment, []trialsv1beta1.Trial, *suggestionsv1beta1.Suggestion, int) {
		e, ts, s := baseObjects()
		n := 0
		do := func(v reflect.Value) {
			f := v.FieldByName(in.Field)
			if f.IsValid() && f.CanSet() {
				set(f)
				n++
			}
		}
		visit(reflect.ValueOf(e), in.Struct, do)
		visit(reflect.ValueOf(ts), in.Struct, do)
		visit(reflect.ValueOf(s), in.Struct, do)
		return e, ts, s, n
	}

	verdict, how := 0, ""
	// pe, pts: the probed objects of the case; ce, cts: their terms, printed before the objects are handed to any code
	var pe *experimentsv1beta1.Experiment
	var pts []trialsv1beta1.Trial
	var ce, cts string
	keep := func(e *experimentsv1beta1.Experiment, ts []trialsv1beta1.Trial) {
		pe, pts, ce, cts = e, ts, cExperiment(e), cTrials(ts)
	}
	var ft reflect.Type
	for _, t := range c10api.APIStructs() {
		if t.Name() == in.Struct {
			if f, ok := t.FieldByName(in.Field); ok {
				ft = f.Type
			}
		}
	}
	switch {
	case ft == nil:
		c.GoViol = "no field " + in.Struct + "." + in.Field + " in the current tree"
		be, bts, _ := baseObjects()
		keep(be, bts)
	case enumOf(ft) != nil:
		how = "enum-typed: every declared value"
		seen := map[string]bool{}
		vals := enumOf(ft)
		changed := false
		for _, val := range vals {
			val := val
			e, ts, s, _ := apply(func(f reflect.Value) { f.SetString(val) })
			ce1, cts1 := cExperiment(e), cTrials(ts)
			txt := sendAll(e, ts, s).text
			seen[txt] = true
			if txt != base.text {
				changed = true
				pe, pts, ce, cts = e, ts, ce1, cts1
			}
		}
		if pe == nil {
			be, bts, _ := baseObjects()
			keep(be, bts)
		}
		if len(seen) == len(vals) {
			verdict = 2
		} else if changed {
			verdict = 1
		}
	case listed[elemStruct(ft)]:
		how = "holds a named struct: dropped"
		e, ts, s, _ := apply(func(f reflect.Value) { f.Set(reflect.Zero(f.Type())) })
		keep(e, ts)
		if sendAll(e, ts, s).text != base.text {
			verdict = 2
		}
	default:
		how = "leaf: distinctive content"
		fl := &filler{tag: "zzp-" + in.Struct + "-" + in.Field}
		var strsQ, nums []string
		e, ts, s, n := apply(func(f reflect.Value) {
			one := &filler{tag: fl.tag}
			one.fill(f, 0)
			strsQ, nums = one.strs, one.nums
		})
		keep(e, ts)
		txt := sendAll(e, ts, s).text
		if n == 0 {
			c.GoViol = "the base objects contain no " + in.Struct
		}
		if containsAll(txt, strsQ, nums) {
			verdict = 2
		} else if txt != base.text {
			verdict = 1
		}
	}
	// the conversions below run on objects the three entry points have already seen once (sendAll above)
	_, oute, _ := runExp(pe, p)
	_, outts, _ := runTrials(pts, p)
	c.Coq = fmt.Sprintf("C10.CField %s %s %s %s %s %s %s", kit.Str(in.Struct), kit.Str(in.Field), kit.Nat(verdict), ce, cts, oute, outts)
	c.Sig = "field" + in.Struct + "." + in.Field
	c.Observed = map[string]any{"probe": how, "verdict": []string{"no effect on any message", "messages change, value not found", "arrives"}[verdict]}
	c.Nontrivial = true
	c.Tags = []string{"kind:field-probe"}
	return c
}

// ---------------------------------------------------------------- reflective pass: enums

func runEnumProbe(in Input, p *proj) kit.Case {
	var c kit.Case
	c.Input = in
	type row struct {
		v        string
		declared bool
		img      string
	}
	var rows []row
	seen := map[string]bool{}
	for _, e := range declaredEnums {
		if e.Type == in.EnumType && !seen[e.Value] {
			seen[e.Value] = true
			rows = append(rows, row{v: e.Value, declared: true})
		}
	}
	und := append([]string{}, in.Undeclared...)
	sort.Strings(und)
	for _, v := range und {
		if !seen[v] {
			seen[v] = true
			rows = append(rows, row{v: v})
		}
	}
	obs := map[string]string{}
	for i := range rows {
		e, ts, _ := baseObjects()
		v := rows[i].v
		var img string
		pan := kit.Recover(func() {
			switch in.EnumType {
			case "ParameterType":
				e.Spec.Parameters[0].ParameterType = experimentsv1beta1.ParameterType(v)
				img = client.ConvertExperiment(e).Spec.ParameterSpecs.Parameters[0].ParameterType.String()
			case "Distribution":
				e.Spec.Parameters[0].FeasibleSpace.Distribution = experimentsv1beta1.Distribution(v)
				img = client.ConvertExperiment(e).Spec.ParameterSpecs.Parameters[0].FeasibleSpace.Distribution.String()
			case "ObjectiveType":
				e.Spec.Objective.Type = commonv1beta1.ObjectiveType(v)
				img = client.ConvertExperiment(e).Spec.Objective.Type.String()
			case "TrialConditionType":
				// status False so that the two "continue" of ConvertTrials do not withhold the trial
				ts[0].Status.Conditions = append(ts[0].Status.Conditions, trialsv1beta1.TrialCondition{Type: trialsv1beta1.TrialConditionType(v), Status: "False"})
				img = client.ConvertTrials(ts)[0].Status.Condition.String()
			default:
				panic("no probe for enum type " + in.EnumType)
			}
		})
		if pan != "" {
			c.GoViol = "enum probe panicked: " + pan
			img = "PANIC"
		}
		rows[i].img = img
		obs[v] = img
	}
	c.Coq = fmt.Sprintf("C10.CEnum %s %s", kit.Str(in.EnumType), kit.ListOf(rows, func(r row) string {
		return "(" + kit.Str(r.v) + ", " + kit.Bool(r.declared) + ", " + kit.Str(r.img) + ")"
	}))
	c.Sig = "enum" + in.EnumType
	c.Observed = obs
	c.Nontrivial = true
	c.Tags = []string{"kind:enum-probe"}
	return c
}
