package main

import (
	"math"
	"math/rand"
	"strconv"

	"verifharness/internal/c10api"
	"verifharness/internal/kit"
)

// Generators. Every random choice is drawn from the PRNG handed in by kit.Main.

var (
	weird      = []string{"", " ", "unavailable", "a\"b", "x\\y", "naïve", "日本", "tab\tsep", "new\nline", "True", "unknown", "0", "-0.0", "1e-3"}
	paramNames = []string{"lr", "momentum", "layers", "optimizer", "batch", "lr"} // "lr" twice: duplicate names happen
	setNames   = []string{"a", "b", "c", "random_state", "n_startup_trials", "x"}
	metricPool = []string{"accuracy", "loss", "f1", "val-loss"}
)

func word(r *rand.Rand) string {
	switch r.Intn(8) {
	case 0:
		return kit.Pick(r, weird)
	case 1:
		return strconv.FormatFloat(float64(r.Intn(2000)-1000)/64, 'g', -1, 64)
	}
	n := 1 + r.Intn(6)
	b := make([]byte, n)
	for i := range b {
		const alphabet = "abcdefgXYZ0189_-."
		b[i] = alphabet[r.Intn(len(alphabet))]
	}
	return string(b)
}

func maybe(r *rand.Rand, oneIn int) bool { return r.Intn(oneIn) == 0 }

// enumValue draws a declared value of the enum type most of the time, else some other string.
func enumValue(r *rand.Rand, ty string) string {
	if maybe(r, 6) {
		return kit.Pick(r, []string{"", "unknown", "Double", "INT", "log_uniform", "MAXIMIZE", "created", "zz", "Unknown", "min "})
	}
	var vs []string
	for _, e := range declaredEnums {
		if e.Type == ty {
			vs = append(vs, e.Value)
		}
	}
	return kit.Pick(r, vs)
}

func genParam(r *rand.Rand) Param {
	p := Param{Name: kit.Pick(r, paramNames), Type: enumValue(r, "ParameterType")}
	if maybe(r, 6) {
		p.Name = word(r)
	}
	if maybe(r, 2) {
		p.Space.Min, p.Space.Max = word(r), word(r)
	}
	if maybe(r, 3) {
		p.Space.Step = word(r)
	}
	if maybe(r, 2) {
		for k := r.Intn(4); k > 0; k-- {
			p.Space.List = append(p.Space.List, word(r))
		}
	}
	if maybe(r, 2) {
		p.Space.Dist = enumValue(r, "Distribution")
	}
	return p
}

func genParams(r *rand.Rand, max int) []Param {
	var ps []Param
	for k := r.Intn(max + 1); k > 0; k-- {
		ps = append(ps, genParam(r))
	}
	return ps
}

func genSettings(r *rand.Rand, max int) []KV {
	var l []KV
	for k := r.Intn(max + 1); k > 0; k-- {
		l = append(l, KV{Name: kit.Pick(r, setNames), Value: word(r)})
	}
	return l
}

func genGoal(r *rand.Rand) *uint64 {
	if maybe(r, 3) {
		return nil
	}
	var f float64
	switch r.Intn(8) {
	case 0:
		f = 0
	case 1:
		f = math.Copysign(0, -1)
	case 2:
		f = math.NaN()
	case 3:
		f = math.Inf(1 - 2*r.Intn(2))
	case 4:
		f = math.SmallestNonzeroFloat64
	default:
		f = float64(r.Intn(2000)-1000) / 1000
	}
	b := math.Float64bits(f)
	return &b
}

func genObjective(r *rand.Rand) *Objective {
	o := &Objective{Type: enumValue(r, "ObjectiveType"), GoalBits: genGoal(r), Metric: kit.Pick(r, metricPool)}
	for k := r.Intn(3); k > 0; k-- {
		o.Additional = append(o.Additional, kit.Pick(r, metricPool))
	}
	// strategies: usually one per metric, sometimes missing, duplicated (the later one wins) or of an unknown kind
	for _, m := range append([]string{o.Metric}, o.Additional...) {
		if maybe(r, 8) {
			continue
		}
		o.Strategies = append(o.Strategies, KV{Name: m, Value: enumValue(r, "MetricStrategyType")})
	}
	if maybe(r, 5) {
		o.Strategies = append(o.Strategies, KV{Name: kit.Pick(r, metricPool), Value: enumValue(r, "MetricStrategyType")})
	}
	return o
}

func i32(r *rand.Rand) *int32 {
	if maybe(r, 4) {
		return nil
	}
	v := int32(r.Intn(40))
	switch r.Intn(10) {
	case 0:
		v = 0
	case 1:
		v = math.MaxInt32
	case 2:
		v = -int32(r.Intn(5))
	}
	return &v
}

func i32s(r *rand.Rand) []int32 {
	var l []int32
	for k := r.Intn(4); k > 0; k-- {
		l = append(l, int32(r.Intn(512)))
	}
	return l
}

func genExperiment(r *rand.Rand) *Experiment {
	e := &Experiment{Name: "exp-" + word(r), Params: genParams(r, 5)}
	if !maybe(r, 25) {
		e.Objective = genObjective(r)
	}
	if !maybe(r, 25) {
		e.Algorithm = &Algorithm{Name: kit.Pick(r, []string{"random", "tpe", "bayesianoptimization", "enas", ""}), Settings: genSettings(r, 5)}
	}
	if maybe(r, 3) {
		e.Early = &Algorithm{Name: kit.Pick(r, []string{"medianstop", ""}), Settings: genSettings(r, 3)}
	}
	e.Parallel, e.Max = i32(r), i32(r)
	if maybe(r, 3) {
		n := &Nas{Graph: Graph{Layers: i32(r), Inputs: i32s(r), Outputs: i32s(r)}}
		for k := r.Intn(4); k > 0; k-- {
			n.Ops = append(n.Ops, Operation{Type: kit.Pick(r, []string{"convolution", "reduction", "separable_convolution", word(r)}), Params: genParams(r, 3)})
		}
		e.Nas = n
	}
	return e
}

func genMetricText(r *rand.Rand) string {
	switch r.Intn(6) {
	case 0:
		return "unavailable"
	case 1:
		return word(r)
	}
	return strconv.FormatFloat(float64(r.Intn(1000))/1000, 'f', -1, 64)
}

func genConditions(r *rand.Rand) []Cond {
	status := func() string {
		switch r.Intn(6) {
		case 0:
			return "False"
		case 1:
			return kit.Pick(r, []string{"Unknown", "", "true"})
		}
		return "True"
	}
	var cs []Cond
	switch r.Intn(10) {
	case 0: // none
	case 1: // arbitrary list, duplicates allowed
		for k := 1 + r.Intn(4); k > 0; k-- {
			cs = append(cs, Cond{Type: enumValue(r, "TrialConditionType"), Status: status()})
		}
	default: // a life cycle as the trial controller writes it
		cs = append(cs, Cond{"Created", "True"})
		if maybe(r, 4) {
			break
		}
		final := kit.Pick(r, []string{"", "Succeeded", "Failed", "Killed", "EarlyStopped", "MetricsUnavailable", "EarlyStopped", "MetricsUnavailable"})
		if final == "" {
			cs = append(cs, Cond{"Running", "True"})
		} else {
			cs = append(cs, Cond{"Running", "False"}, Cond{final, status()})
		}
	}
	return cs
}

func genTrial(r *rand.Rand, i int, obj *Objective) Trial {
	t := Trial{Name: "trial-" + strconv.Itoa(i) + word(r), Objective: obj, Conditions: genConditions(r)}
	if maybe(r, 4) {
		t.Objective = genObjective(r)
	}
	if maybe(r, 30) {
		t.Objective = nil
	}
	for k := r.Intn(4); k > 0; k-- {
		t.Assignments = append(t.Assignments, KV{Name: kit.Pick(r, paramNames), Value: word(r)})
	}
	if maybe(r, 3) {
		t.Labels = map[string]string{}
		for k := 1 + r.Intn(3); k > 0; k-- {
			t.Labels[kit.Pick(r, []string{"pbt/parent", "pbt/generation", "k", word(r)})] = word(r)
		}
	}
	base := int64(1700000000) * 1e9
	if !maybe(r, 4) {
		ns := base + int64(r.Intn(100000))*1e9 + int64(r.Intn(2))*int64(r.Intn(1e9))
		t.StartNs = &ns
		if !maybe(r, 3) {
			ns2 := ns + int64(r.Intn(5000))*1e9
			t.EndNs = &ns2
		}
	}
	if !maybe(r, 4) {
		t.HasObs = true
		names := []string{}
		if t.Objective != nil {
			names = append(names, t.Objective.Metric)
			names = append(names, t.Objective.Additional...)
		}
		if maybe(r, 5) {
			names = append(names, kit.Pick(r, metricPool))
		}
		for _, n := range names {
			if maybe(r, 10) {
				continue
			}
			t.Metrics = append(t.Metrics, Metric{Name: n, Min: genMetricText(r), Max: genMetricText(r), Latest: genMetricText(r)})
		}
	}
	return t
}

func genTrials(r *rand.Rand) []Trial {
	obj := genObjective(r)
	var ts []Trial
	n := r.Intn(7)
	if maybe(r, 10) {
		n = r.Intn(25)
	}
	for i := 0; i < n; i++ {
		ts = append(ts, genTrial(r, i, obj))
	}
	return ts
}

var declaredEnums []c10api.Enum

// probes lists the deterministic inputs of the reflective pass (computed from the current tree).
func probes() []Input {
	var res []Input
	for _, f := range c10api.FieldsOf(c10api.APIStructs()) {
		res = append(res, Input{Kind: "field", Struct: f.Struct, Field: f.Name})
	}
	for _, ty := range []string{"ParameterType", "Distribution", "ObjectiveType", "TrialConditionType"} {
		res = append(res, Input{Kind: "enum", EnumType: ty, Undeclared: []string{"Double", "zz", "UNIFORM", " maximize", "running"}})
	}
	return res
}

func gen(r *rand.Rand, i, n int) Input {
	ps := probes()
	if i < len(ps) {
		return ps[i]
	}
	in := Input{EmptyNotNil: maybe(r, 4)}
	switch k := r.Intn(10); {
	case k < 3:
		in.Kind = "exp"
		in.Exp = genExperiment(r)
	case k < 6:
		in.Kind = "trials"
		in.Trials = genTrials(r)
	default:
		in.Kind = "sync"
		in.Exp = genExperiment(r)
		in.Trials = genTrials(r)
		if len(in.Trials) > 4 {
			in.Trials = in.Trials[:4]
		}
		in.Sug = genSettings(r, 4)
		if in.Exp.Algorithm != nil && len(in.Exp.Algorithm.Settings) > 0 && maybe(r, 2) {
			// make sure overriding happens often
			in.Sug = append(in.Sug, KV{Name: kit.Pick(r, in.Exp.Algorithm.Settings).Name, Value: word(r)})
		}
		for _, s := range genSettings(r, 4) {
			s := s
			if maybe(r, 8) {
				in.Reply = append(in.Reply, nil)
			}
			in.Reply = append(in.Reply, &s)
		}
		// most services echo the settings they were sent: some of the experiment's own settings come back unchanged (also
		// when the suggestion remembers another value for them from an earlier round), some with a new value
		if in.Exp.Algorithm != nil {
			for _, sp := range in.Exp.Algorithm.Settings {
				sp := sp
				switch r.Intn(4) {
				case 0:
					in.Reply = append(in.Reply, &KV{Name: sp.Name, Value: sp.Value})
				case 1:
					in.Reply = append(in.Reply, &KV{Name: sp.Name, Value: word(r)})
				}
			}
		}
		if in.Exp.Algorithm != nil && len(in.Exp.Algorithm.Settings) > 0 && maybe(r, 3) {
			// a setting the service once moved away from its spec value comes back WITH the spec value
			sp := kit.Pick(r, in.Exp.Algorithm.Settings)
			in.Sug = append(in.Sug, KV{Name: sp.Name, Value: "moved-" + word(r)})
			in.Reply = append(in.Reply, &KV{Name: sp.Name, Value: sp.Value})
		}
		in.ReplyNoAlgo = maybe(r, 6)
		if in.ReplyNoAlgo {
			in.Reply = nil
		}
		in.EarlyInSug = in.Exp.Early != nil && maybe(r, 2)
	}
	return in
}
