package main

import (
	"fmt"
	"math"
	"sort"
	"strconv"
	"strings"
	"time"

	metav1 "k8s.io/apimachinery/pkg/apis/meta/v1"

	commonv1beta1 "github.com/kubeflow/katib/pkg/apis/controller/common/v1beta1"
	experimentsv1beta1 "github.com/kubeflow/katib/pkg/apis/controller/experiments/v1beta1"
	trialsv1beta1 "github.com/kubeflow/katib/pkg/apis/controller/trials/v1beta1"
	api "github.com/kubeflow/katib/pkg/apis/manager/v1beta1"
	corev1 "k8s.io/api/core/v1"

	"verifharness/internal/kit"
)

// ---------------------------------------------------------------- replayable inputs (plain data, JSON)

type KV struct {
	Name  string `json:"name"`
	Value string `json:"value"`
}
type Feasible struct {
	Max  string   `json:"max"`
	Min  string   `json:"min"`
	List []string `json:"list,omitempty"`
	Step string   `json:"step"`
	Dist string   `json:"dist"`
}
type Param struct {
	Name  string   `json:"name"`
	Type  string   `json:"type"`
	Space Feasible `json:"space"`
}
type Objective struct {
	Type       string   `json:"type"`
	GoalBits   *uint64  `json:"goal_bits,omitempty"` // math.Float64bits of *Goal
	Metric     string   `json:"metric"`
	Additional []string `json:"additional,omitempty"`
	Strategies []KV     `json:"strategies,omitempty"`
}
type Algorithm struct {
	Name     string `json:"name"`
	Settings []KV   `json:"settings,omitempty"`
}
type Graph struct {
	Layers  *int32  `json:"layers,omitempty"`
	Inputs  []int32 `json:"inputs,omitempty"`
	Outputs []int32 `json:"outputs,omitempty"`
}
type Operation struct {
	Type   string  `json:"type"`
	Params []Param `json:"params,omitempty"`
}
type Nas struct {
	Graph Graph       `json:"graph"`
	Ops   []Operation `json:"ops,omitempty"`
}
type Experiment struct {
	Name      string     `json:"name"`
	Params    []Param    `json:"params,omitempty"`
	Objective *Objective `json:"objective,omitempty"`
	Algorithm *Algorithm `json:"algorithm,omitempty"`
	Early     *Algorithm `json:"early,omitempty"`
	Parallel  *int32     `json:"parallel,omitempty"`
	Max       *int32     `json:"max,omitempty"`
	Nas       *Nas       `json:"nas,omitempty"`
}
type Cond struct {
	Type   string `json:"type"`
	Status string `json:"status"`
}
type Metric struct {
	Name   string `json:"name"`
	Min    string `json:"min"`
	Max    string `json:"max"`
	Latest string `json:"latest"`
}
type Trial struct {
	Name        string            `json:"name"`
	Objective   *Objective        `json:"objective,omitempty"`
	Assignments []KV              `json:"assignments,omitempty"`
	Labels      map[string]string `json:"labels,omitempty"`
	StartNs     *int64            `json:"start_ns,omitempty"` // unix ns, built as a UTC time
	EndNs       *int64            `json:"end_ns,omitempty"`
	Conditions  []Cond            `json:"conditions,omitempty"`
	HasObs      bool              `json:"has_obs"`
	Metrics     []Metric          `json:"metrics,omitempty"`
}

// Input is one replayable case.
type Input struct {
	Kind        string      `json:"kind"` // exp | trials | sync | field | enum
	Exp         *Experiment `json:"exp,omitempty"`
	Trials      []Trial     `json:"trials,omitempty"`
	Sug         []KV        `json:"sug,omitempty"`           // Suggestion.status.algorithmSettings before the call
	Reply       []*KV       `json:"reply,omitempty"`         // settings of the reply (null entries = nil pointers)
	ReplyNoAlgo bool        `json:"reply_no_algo,omitempty"` // reply.Algorithm == nil
	EarlyInSug  bool        `json:"early_in_sug,omitempty"`  // Suggestion.spec.earlyStopping set: the early-stopping service is called too
	EmptyNotNil bool        `json:"empty_not_nil,omitempty"` // zero-length slices / maps are built empty instead of nil
	Struct      string      `json:"struct,omitempty"`        // field probe
	Field       string      `json:"field,omitempty"`
	EnumType    string      `json:"enum_type,omitempty"` // enum probe
	Undeclared  []string    `json:"undeclared,omitempty"`
}

// ---------------------------------------------------------------- plain -> real API objects

func sl[T any](xs []T, emptyNotNil bool) []T {
	if len(xs) == 0 {
		if emptyNotNil {
			return []T{}
		}
		return nil
	}
	// a copy: the plain input (replayed, printed as JSON after the call) shares no memory with the objects given to the code
	return append([]T(nil), xs...)
}

func ptrCopy[T any](p *T) *T {
	if p == nil {
		return nil
	}
	v := *p
	return &v
}

func realParam(p Param, enn bool) experimentsv1beta1.ParameterSpec {
	return experimentsv1beta1.ParameterSpec{
		Name:          p.Name,
		ParameterType: experimentsv1beta1.ParameterType(p.Type),
		FeasibleSpace: experimentsv1beta1.FeasibleSpace{
			Max: p.Space.Max, Min: p.Space.Min, List: sl(p.Space.List, enn), Step: p.Space.Step,
			Distribution: experimentsv1beta1.Distribution(p.Space.Dist),
		},
	}
}

func realParams(ps []Param, enn bool) []experimentsv1beta1.ParameterSpec {
	var res []experimentsv1beta1.ParameterSpec
	for _, p := range ps {
		res = append(res, realParam(p, enn))
	}
	return sl(res, enn)
}

func realObjective(o *Objective, enn bool) *commonv1beta1.ObjectiveSpec {
	if o == nil {
		return nil
	}
	r := &commonv1beta1.ObjectiveSpec{
		Type:                  commonv1beta1.ObjectiveType(o.Type),
		ObjectiveMetricName:   o.Metric,
		AdditionalMetricNames: sl(o.Additional, enn),
	}
	if o.GoalBits != nil {
		g := math.Float64frombits(*o.GoalBits)
		r.Goal = &g
	}
	for _, s := range o.Strategies {
		r.MetricStrategies = append(r.MetricStrategies, commonv1beta1.MetricStrategy{Name: s.Name, Value: commonv1beta1.MetricStrategyType(s.Value)})
	}
	r.MetricStrategies = sl(r.MetricStrategies, enn)
	return r
}

func realSettings(l []KV, enn bool) []commonv1beta1.AlgorithmSetting {
	var res []commonv1beta1.AlgorithmSetting
	for _, s := range l {
		res = append(res, commonv1beta1.AlgorithmSetting{Name: s.Name, Value: s.Value})
	}
	return sl(res, enn)
}

func realExperiment(e *Experiment, enn bool) *experimentsv1beta1.Experiment {
	r := &experimentsv1beta1.Experiment{ObjectMeta: metav1.ObjectMeta{Name: e.Name, Namespace: "ns"}}
	r.Spec.Parameters = realParams(e.Params, enn)
	r.Spec.Objective = realObjective(e.Objective, enn)
	if e.Algorithm != nil {
		r.Spec.Algorithm = &commonv1beta1.AlgorithmSpec{AlgorithmName: e.Algorithm.Name, AlgorithmSettings: realSettings(e.Algorithm.Settings, enn)}
	}
	if e.Early != nil {
		es := &commonv1beta1.EarlyStoppingSpec{AlgorithmName: e.Early.Name}
		for _, s := range e.Early.Settings {
			es.AlgorithmSettings = append(es.AlgorithmSettings, commonv1beta1.EarlyStoppingSetting{Name: s.Name, Value: s.Value})
		}
		es.AlgorithmSettings = sl(es.AlgorithmSettings, enn)
		r.Spec.EarlyStopping = es
	}
	r.Spec.ParallelTrialCount = ptrCopy(e.Parallel)
	r.Spec.MaxTrialCount = ptrCopy(e.Max)
	if e.Nas != nil {
		n := &experimentsv1beta1.NasConfig{GraphConfig: experimentsv1beta1.GraphConfig{
			NumLayers: ptrCopy(e.Nas.Graph.Layers), InputSizes: sl(e.Nas.Graph.Inputs, enn), OutputSizes: sl(e.Nas.Graph.Outputs, enn)}}
		for _, o := range e.Nas.Ops {
			n.Operations = append(n.Operations, experimentsv1beta1.Operation{OperationType: o.Type, Parameters: realParams(o.Params, enn)})
		}
		n.Operations = sl(n.Operations, enn)
		r.Spec.NasConfig = n
	}
	return r
}

func realTime(ns *int64) *metav1.Time {
	if ns == nil {
		return nil
	}
	t := metav1.NewTime(time.Unix(0, *ns).UTC())
	return &t
}

func realTrial(t Trial, enn bool) trialsv1beta1.Trial {
	r := trialsv1beta1.Trial{ObjectMeta: metav1.ObjectMeta{Name: t.Name, Namespace: "ns"}}
	r.Spec.Objective = realObjective(t.Objective, enn)
	for _, a := range t.Assignments {
		r.Spec.ParameterAssignments = append(r.Spec.ParameterAssignments, commonv1beta1.ParameterAssignment{Name: a.Name, Value: a.Value})
	}
	r.Spec.ParameterAssignments = sl(r.Spec.ParameterAssignments, enn)
	if len(t.Labels) > 0 {
		r.Spec.Labels = map[string]string{}
		for k, v := range t.Labels {
			r.Spec.Labels[k] = v
		}
	} else if enn {
		r.Spec.Labels = map[string]string{}
	}
	r.Status.StartTime = realTime(t.StartNs)
	r.Status.CompletionTime = realTime(t.EndNs)
	for _, c := range t.Conditions {
		r.Status.Conditions = append(r.Status.Conditions, trialsv1beta1.TrialCondition{
			Type: trialsv1beta1.TrialConditionType(c.Type), Status: corev1.ConditionStatus(c.Status), Reason: "r", Message: "m"})
	}
	if t.HasObs {
		obs := &commonv1beta1.Observation{}
		for _, m := range t.Metrics {
			obs.Metrics = append(obs.Metrics, commonv1beta1.Metric{Name: m.Name, Min: m.Min, Max: m.Max, Latest: m.Latest})
		}
		obs.Metrics = sl(obs.Metrics, enn)
		r.Status.Observation = obs
	}
	return r
}

func realTrials(ts []Trial, enn bool) []trialsv1beta1.Trial {
	var res []trialsv1beta1.Trial
	for _, t := range ts {
		res = append(res, realTrial(t, enn))
	}
	return res
}

// ---------------------------------------------------------------- real API objects -> Coq terms of Model/Convert.v
// Only the fields the model names are printed (a field the model does not know cannot reach it).

func zOpt32(p *int32) string {
	if p == nil {
		return "None"
	}
	return "(Some " + kit.Z(int64(*p)) + ")"
}

func z32s(xs []int32) string {
	return kit.ListOf(xs, func(x int32) string { return kit.Z(int64(x)) })
}

func strs(xs []string) string { return kit.ListOf(xs, kit.Str) }

func cKV(n, v string) string { return "(KV " + kit.Str(n) + " " + kit.Str(v) + ")" }

func cParam(p experimentsv1beta1.ParameterSpec) string {
	f := p.FeasibleSpace
	return fmt.Sprintf("(Param %s %s (Feasible %s %s %s %s %s))", kit.Str(p.Name), kit.Str(string(p.ParameterType)),
		kit.Str(f.Max), kit.Str(f.Min), strs(f.List), kit.Str(f.Step), kit.Str(string(f.Distribution)))
}

func cParams(ps []experimentsv1beta1.ParameterSpec) string { return kit.ListOf(ps, cParam) }

func cObjective(o *commonv1beta1.ObjectiveSpec) string {
	if o == nil {
		return "None"
	}
	goal := "None"
	if o.Goal != nil {
		goal = "(Some " + strconv.FormatUint(math.Float64bits(*o.Goal), 10) + ")"
	}
	return fmt.Sprintf("(Some (Objective %s %s %s %s %s))", kit.Str(string(o.Type)), goal, kit.Str(o.ObjectiveMetricName),
		strs(o.AdditionalMetricNames), kit.ListOf(o.MetricStrategies, func(s commonv1beta1.MetricStrategy) string { return cKV(s.Name, string(s.Value)) }))
}

func cExperiment(e *experimentsv1beta1.Experiment) string {
	alg, early, nas := "None", "None", "None"
	if a := e.Spec.Algorithm; a != nil {
		alg = fmt.Sprintf("(Some (Algorithm %s %s))", kit.Str(a.AlgorithmName),
			kit.ListOf(a.AlgorithmSettings, func(s commonv1beta1.AlgorithmSetting) string { return cKV(s.Name, s.Value) }))
	}
	if a := e.Spec.EarlyStopping; a != nil {
		early = fmt.Sprintf("(Some (Algorithm %s %s))", kit.Str(a.AlgorithmName),
			kit.ListOf(a.AlgorithmSettings, func(s commonv1beta1.EarlyStoppingSetting) string { return cKV(s.Name, s.Value) }))
	}
	if n := e.Spec.NasConfig; n != nil {
		nas = fmt.Sprintf("(Some (Nas (Graph %s %s %s) %s))", zOpt32(n.GraphConfig.NumLayers), z32s(n.GraphConfig.InputSizes), z32s(n.GraphConfig.OutputSizes),
			kit.ListOf(n.Operations, func(o experimentsv1beta1.Operation) string {
				return fmt.Sprintf("(Operation %s %s)", kit.Str(o.OperationType), cParams(o.Parameters))
			}))
	}
	return fmt.Sprintf("(Experiment %s %s %s %s %s %s %s %s)", kit.Str(e.Name), cParams(e.Spec.Parameters), cObjective(e.Spec.Objective),
		alg, early, zOpt32(e.Spec.ParallelTrialCount), zOpt32(e.Spec.MaxTrialCount), nas)
}

func cLabels(m map[string]string) string {
	ks := make([]string, 0, len(m))
	for k := range m {
		ks = append(ks, k)
	}
	sort.Strings(ks)
	return kit.ListOf(ks, func(k string) string { return "(" + kit.Str(k) + ", " + kit.Str(m[k]) + ")" })
}

// stamp renders a time independently of the implementation: the instant in UTC, RFC 3339, whole seconds.
func stamp(t *metav1.Time) string {
	if t == nil {
		return "None"
	}
	return "(Some " + kit.Str(t.UTC().Format(time.RFC3339)) + ")"
}

func cTrial(t trialsv1beta1.Trial) string {
	obs := "None"
	if t.Status.Observation != nil {
		obs = "(Some " + kit.ListOf(t.Status.Observation.Metrics, func(m commonv1beta1.Metric) string {
			return fmt.Sprintf("(Metric %s %s %s %s)", kit.Str(m.Name), kit.Str(m.Min), kit.Str(m.Max), kit.Str(m.Latest))
		}) + ")"
	}
	return fmt.Sprintf("(Trial %s %s %s %s %s %s %s %s)", kit.Str(t.Name), cObjective(t.Spec.Objective),
		kit.ListOf(t.Spec.ParameterAssignments, func(a commonv1beta1.ParameterAssignment) string { return cKV(a.Name, a.Value) }),
		cLabels(t.Spec.Labels), stamp(t.Status.StartTime), stamp(t.Status.CompletionTime),
		kit.ListOf(t.Status.Conditions, func(c trialsv1beta1.TrialCondition) string {
			return "(Cond " + kit.Str(string(c.Type)) + " " + kit.Str(string(c.Status)) + ")"
		}), obs)
}

func cTrials(ts []trialsv1beta1.Trial) string { return kit.ListOf(ts, cTrial) }

// ---------------------------------------------------------------- proto messages -> Coq terms
// A nil pointer where the conversion always allocates a message is reported through *bad.

type proj struct{ bad []string }

func (p *proj) nilAt(where string) { p.bad = append(p.bad, "unexpected nil "+where) }

func (p *proj) pbParam(x *api.ParameterSpec) string {
	if x == nil {
		p.nilAt("ParameterSpec")
		x = &api.ParameterSpec{}
	}
	f := x.FeasibleSpace
	if f == nil {
		p.nilAt("ParameterSpec.feasible_space")
		f = &api.FeasibleSpace{}
	}
	return fmt.Sprintf("(PbParam %s PT_%s (PbFeasible %s %s %s %s D_%s))", kit.Str(x.Name), x.ParameterType.String(),
		kit.Str(f.Max), kit.Str(f.Min), strs(f.List), kit.Str(f.Step), f.Distribution.String())
}

func (p *proj) pbParams(xs []*api.ParameterSpec) string { return kit.ListOf(xs, p.pbParam) }

func (p *proj) pbObjective(o *api.ObjectiveSpec, where string) string {
	if o == nil {
		p.nilAt(where + ".objective")
		o = &api.ObjectiveSpec{}
	}
	return fmt.Sprintf("(PbObjective O_%s %s %s %s)", o.Type.String(), strconv.FormatUint(math.Float64bits(o.Goal), 10),
		kit.Str(o.ObjectiveMetricName), strs(o.AdditionalMetricNames))
}

func (p *proj) pbExperiment(e *api.Experiment) string {
	if e == nil {
		p.nilAt("Experiment")
		e = &api.Experiment{}
	}
	s := e.Spec
	if s == nil {
		p.nilAt("Experiment.spec")
		s = &api.ExperimentSpec{}
	}
	if s.ParameterSpecs == nil {
		p.nilAt("ExperimentSpec.parameter_specs")
		s.ParameterSpecs = &api.ExperimentSpec_ParameterSpecs{}
	}
	a := s.Algorithm
	if a == nil {
		p.nilAt("ExperimentSpec.algorithm")
		a = &api.AlgorithmSpec{}
	}
	alg := fmt.Sprintf("(PbAlgorithm %s %s)", kit.Str(a.AlgorithmName), kit.ListOf(a.AlgorithmSettings, func(x *api.AlgorithmSetting) string {
		if x == nil {
			p.nilAt("AlgorithmSetting")
			x = &api.AlgorithmSetting{}
		}
		return cKV(x.Name, x.Value)
	}))
	early, nas := "None", "None"
	if es := s.EarlyStopping; es != nil {
		early = fmt.Sprintf("(Some (PbAlgorithm %s %s))", kit.Str(es.AlgorithmName), kit.ListOf(es.AlgorithmSettings, func(x *api.EarlyStoppingSetting) string {
			if x == nil {
				p.nilAt("EarlyStoppingSetting")
				x = &api.EarlyStoppingSetting{}
			}
			return cKV(x.Name, x.Value)
		}))
	}
	if n := s.NasConfig; n != nil {
		g := n.GraphConfig
		if g == nil {
			p.nilAt("NasConfig.graph_config")
			g = &api.GraphConfig{}
		}
		ops := n.Operations
		if ops == nil {
			p.nilAt("NasConfig.operations")
			ops = &api.NasConfig_Operations{}
		}
		nas = fmt.Sprintf("(Some (PbNas (PbGraph %s %s %s) %s))", kit.Z(int64(g.NumLayers)), z32s(g.InputSizes), z32s(g.OutputSizes),
			kit.ListOf(ops.Operation, func(o *api.Operation) string {
				if o == nil {
					p.nilAt("Operation")
					o = &api.Operation{}
				}
				ps := o.ParameterSpecs
				if ps == nil {
					p.nilAt("Operation.parameter_specs")
					ps = &api.Operation_ParameterSpecs{}
				}
				return fmt.Sprintf("(PbOperation %s %s)", kit.Str(o.OperationType), p.pbParams(ps.Parameters))
			}))
	}
	return fmt.Sprintf("(PbExperiment %s %s %s %s %s %s %s %s)", kit.Str(e.Name), p.pbParams(s.ParameterSpecs.Parameters),
		p.pbObjective(s.Objective, "ExperimentSpec"), alg, early, kit.Z(int64(s.ParallelTrialCount)), kit.Z(int64(s.MaxTrialCount)), nas)
}

func (p *proj) pbTrial(t *api.Trial) string {
	if t == nil {
		p.nilAt("Trial")
		t = &api.Trial{}
	}
	s, st := t.Spec, t.Status
	if s == nil {
		p.nilAt("Trial.spec")
		s = &api.TrialSpec{}
	}
	if st == nil {
		p.nilAt("Trial.status")
		st = &api.TrialStatus{}
	}
	pas := s.ParameterAssignments
	if pas == nil {
		p.nilAt("TrialSpec.parameter_assignments")
		pas = &api.TrialSpec_ParameterAssignments{}
	}
	obs := st.Observation
	if obs == nil {
		p.nilAt("TrialStatus.observation")
		obs = &api.Observation{}
	}
	return fmt.Sprintf("(PbTrial %s %s %s %s %s %s C_%s %s)", kit.Str(t.Name), p.pbObjective(s.Objective, "TrialSpec"),
		kit.ListOf(pas.Assignments, func(a *api.ParameterAssignment) string {
			if a == nil {
				p.nilAt("ParameterAssignment")
				a = &api.ParameterAssignment{}
			}
			return cKV(a.Name, a.Value)
		}), cLabels(s.Labels), kit.Str(st.StartTime), kit.Str(st.CompletionTime), st.Condition.String(),
		kit.ListOf(obs.Metrics, func(m *api.Metric) string {
			if m == nil {
				p.nilAt("Metric")
				m = &api.Metric{}
			}
			return cKV(m.Name, m.Value)
		}))
}

func (p *proj) pbTrials(ts []*api.Trial) string { return kit.ListOf(ts, p.pbTrial) }

func (p *proj) viol() string { return strings.Join(p.bad, "; ") }
