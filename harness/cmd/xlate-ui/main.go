// xlate-ui: see verifharness/internal/xlateui.
package main

import (
	"os"

	"verifharness/internal/xlateui"
)

func main() { xlateui.Main(os.Args[1:]) }
