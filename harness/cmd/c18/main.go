// c18 drives the real Go suggestion service (pkg/suggestion/v1beta1/goptuna) for property C18:
// ValidateAlgorithmSettings, then multi-round GetSuggestions histories in which the service's own suggestions are fed
// back as Katib trials in every condition; plus direct calls of the vendored goptuna ToExternalRepr arithmetic.
package main

import (
	"context"
	"encoding/json"
	"flag"
	"fmt"
	"io"
	"math"
	"math/rand"
	"os"
	"sort"
	"strconv"
	"strings"

	"github.com/c-bata/goptuna"
	api "github.com/kubeflow/katib/pkg/apis/manager/v1beta1"
	sg "github.com/kubeflow/katib/pkg/suggestion/v1beta1/goptuna"
	"google.golang.org/grpc/codes"
	"google.golang.org/grpc/status"
	"k8s.io/klog/v2"

	"verifharness/internal/kit"
)

func main() {
	fs := flag.NewFlagSet("klog", flag.ContinueOnError)
	klog.InitFlags(fs)
	_ = fs.Set("logtostderr", "false")
	_ = fs.Set("alsologtostderr", "false")
	_ = fs.Set("stderrthreshold", "FATAL")
	klog.SetOutput(io.Discard)
	kit.Main(c18{}, os.Args[2:])
}

// ---------------------------------------------------------------- input

type Param struct {
	Name string   `json:"name"`
	Type string   `json:"type"` // int double discrete categorical unknown
	Min  string   `json:"min,omitempty"`
	Max  string   `json:"max,omitempty"`
	Step string   `json:"step,omitempty"`
	List []string `json:"list,omitempty"`
	Dist int32    `json:"dist,omitempty"` // FeasibleSpace.distribution: 0 unspecified 1 uniform 2 logUniform 3 normal 4 logNormal (the Go service ignores it)
}

type Setting struct {
	Name  string `json:"name"`
	Value string `json:"value"`
}

// Feed says how one earlier suggestion is sent back in one later round.
type Feed struct {
	Omit    bool   `json:"omit,omitempty"`
	Cond    int    `json:"cond"`              // api TrialConditionType 0..7
	Obj     string `json:"obj,omitempty"`     // objective value text ("" = no objective metric)
	Extra   int    `json:"extra,omitempty"`   // 1: another metric after, 2: an older objective metric before (last one wins)
	TsBad   bool   `json:"ts_bad,omitempty"`  // unparsable start time
	Mutate  int    `json:"mutate,omitempty"`  // 0 none 1 alter one value 2 extra unknown assignment 3 drop one assignment 4 unparsable number
	MutSeed int    `json:"mut_seed,omitempty"`
}

type TrialPlan struct {
	Create  bool   `json:"create"`
	ByRound []Feed `json:"by_round"` // indexed by round number; entries of rounds <= birth are unused
}

type Round struct {
	N     int         `json:"n"`
	Plans []TrialPlan `json:"plans"`
}

type ArithIn struct {
	Kind int     `json:"kind"` // 0 DiscreteUniform, 1 IntUniform, 2 StepIntUniform
	Lo   float64 `json:"lo"`
	Q    float64 `json:"q"`
	X    float64 `json:"x"`
}

type Input struct {
	Arith    *ArithIn  `json:"arith,omitempty"`
	Alg      string    `json:"alg,omitempty"`
	Settings []Setting `json:"settings,omitempty"`
	Params   []Param   `json:"params,omitempty"`
	Maximize bool      `json:"maximize,omitempty"`
	Rounds   []Round   `json:"rounds,omitempty"`
}

type c18 struct{}

func (c18) Name() string      { return "c18" }
func (c18) CoqModule() string { return "C18" }
func (c18) Rule() string {
	return "85% service cases: algorithm random/tpe/cmaes/sobol (few unknown) with settings random_state (from the PRNG), n_startup_trials, n_ei_candidates, " +
		"sigma in [0.01,10], restart_strategy; 1-6 parameters mixing int with/without step, double with/without step, discrete, categorical, " +
		"negative and fractional bounds; ValidateAlgorithmSettings first, and if it accepts and the space is in the property's domain (min<max, step>0, " +
		"non-empty lists) 3-5 rounds of GetSuggestions (1-4 assignments each) where earlier suggestions are fed back as trials whose condition walks " +
		"CREATED/RUNNING -> SUCCEEDED/FAILED/EARLYSTOPPED (flavoured cases also KILLED/METRICSUNAVAILABLE/UNKNOWN) with random finite objective texts; some suggestions never become trials, " +
		"some are omitted from a round; a malformed stream (~10%) alters/drops/adds assignments, removes the objective metric, breaks a timestamp " +
		"or makes min>max / empty lists / bad numbers / duplicate names (validation-only or expected failures). One finding domain at most per generated case (double-step, int-step or int-step-single, state-rejected, tpe-ei-candidates; about 35% of the service cases in total). " +
		"15% arithmetic cases call goptuna's ToExternalRepr directly (DiscreteUniform in binary64, Int/StepInt with fractional draws). " +
		"Non-trivial: a service case with >=3 successful rounds, >=3 trials fed back and >=2 parameter kinds, or an arithmetic case whose quotient is within 0.02 of a rounding boundary. " +
		"Distinct: by the input JSON."
}

func (c18) Decode(raw json.RawMessage) (any, error) {
	var in Input
	if err := json.Unmarshal(raw, &in); err != nil {
		return nil, err
	}
	return in, nil
}

// ---------------------------------------------------------------- generator

func fnum(r *rand.Rand) float64 {
	switch r.Intn(4) {
	case 0:
		return float64(r.Intn(41) - 20)
	case 1:
		return float64(r.Intn(4001)-2000) / 100
	case 2:
		return float64(r.Intn(2001)-1000) / 1000
	}
	return (r.Float64() - 0.5) * math.Pow(10, float64(r.Intn(7)-3))
}

func ftext(r *rand.Rand, v float64) string {
	switch r.Intn(4) {
	case 0:
		return strconv.FormatFloat(v, 'g', -1, 64)
	case 1:
		return strconv.FormatFloat(v, 'e', -1, 64)
	}
	return strconv.FormatFloat(v, 'f', -1, 64)
}

var catWords = []string{"adam", "sgd", "relu", "tanh", "a b", "x", "32", "64", "0.5", "1e-3", "-1", "Z", "rmsprop", "", "3", "2", "6"}

func genParam(r *rand.Rand, i int, flavour string, malformed bool) Param {
	p := Param{Name: fmt.Sprintf("p%d", i)}
	kind := r.Intn(6) // 0 int 1 int+step 2 double 3 double+step 4 discrete 5 categorical
	if kind == 3 && flavour != "double-step" {
		kind = 2
	}
	if flavour == "double-step" && i == 0 {
		kind = 3
	}
	if flavour == "int-step" && i == 0 {
		kind = 1
	}
	switch kind {
	case 0, 1:
		p.Type = "int"
		lo := r.Intn(61) - 30
		if r.Intn(8) == 0 {
			lo = r.Intn(200001) - 100000
		}
		w := 1 + r.Intn(12)
		if r.Intn(4) == 0 {
			w = 1 + r.Intn(300)
		}
		if r.Intn(25) == 0 {
			w = 0
		}
		p.Min, p.Max = strconv.Itoa(lo), strconv.Itoa(lo+w)
		if kind == 1 {
			st := 1 + r.Intn(5)
			if w > 0 && r.Intn(3) == 0 {
				st = 1 + r.Intn(w+2)
			}
			bad := w > 0 && 2*(w%st) >= st
			if flavour == "int-step" && i == 0 {
				for !bad {
					w = 1 + r.Intn(12)
					st = 2 + r.Intn(5)
					bad = 2*(w%st) >= st
				}
				p.Max = strconv.Itoa(lo + w)
			} else if bad {
				// keep the case outside the int-step finding domain: make the step divide the range or round down
				w = w - w%st
				if w == 0 {
					w = st
				}
				p.Max = strconv.Itoa(lo + w)
			}
			p.Step = strconv.Itoa(st)
		}
	case 2, 3:
		p.Type = "double"
		lo := fnum(r)
		w := math.Abs(fnum(r)) + 0.001
		hi := lo + w
		p.Min, p.Max = ftext(r, lo), ftext(r, hi)
		if kind == 3 {
			q := w / float64(1+r.Intn(6))
			if r.Intn(2) == 0 {
				q = math.Abs(fnum(r))/4 + 0.01
			}
			if r.Intn(4) == 0 {
				p.Min, p.Max, q = "0.1", "0.9", 0.3
			}
			p.Step = strconv.FormatFloat(q, 'g', -1, 64)
		}
	case 4:
		p.Type = "discrete"
		n := 1 + r.Intn(5)
		for j := 0; j < n; j++ {
			p.List = append(p.List, ftext(r, fnum(r)))
		}
	default:
		p.Type = "categorical"
		n := 1 + r.Intn(5)
		for j := 0; j < n; j++ {
			p.List = append(p.List, kit.Pick(r, catWords))
		}
	}
	if malformed {
		switch r.Intn(7) {
		case 0:
			p.Min, p.Max = p.Max, p.Min
		case 1:
			p.Min = kit.Pick(r, []string{"", "abc", "1.5x", "0x10"})
		case 2:
			if p.Type == "int" {
				p.Max = "3.5"
			} else {
				p.List = nil
			}
		case 3:
			p.Step = kit.Pick(r, []string{"0", "-1", "zz"})
		case 4:
			p.Type = "unknown"
		}
	}
	return p
}

func genSettings(r *rand.Rand, alg, flavour string, malformed bool) []Setting {
	var s []Setting
	if r.Intn(5) > 0 {
		s = append(s, Setting{"random_state", strconv.Itoa(r.Intn(100000))})
	}
	switch alg {
	case "tpe":
		if r.Intn(3) > 0 {
			s = append(s, Setting{"n_startup_trials", strconv.Itoa(r.Intn(6))})
		}
		if flavour == "tpe-ei-candidates" {
			s = append(s, Setting{"n_startup_trials", "0"}, Setting{"n_ei_candidates", strconv.Itoa(-r.Intn(3))})
		} else if r.Intn(2) == 0 {
			s = append(s, Setting{"n_ei_candidates", strconv.Itoa(1 + r.Intn(30))})
		}
	case "cmaes":
		if r.Intn(2) == 0 {
			s = append(s, Setting{"sigma", strconv.FormatFloat(0.01*math.Pow(1000, r.Float64()), 'g', 4, 64)})
		}
		if r.Intn(2) == 0 {
			s = append(s, Setting{"restart_strategy", kit.Pick(r, []string{"ipop", "bipop", "none"})})
		}
	}
	if r.Intn(6) == 0 {
		s = append(s, Setting{"unused_setting", "whatever"})
	}
	if malformed && r.Intn(2) == 0 {
		s = append(s, kit.Pick(r, []Setting{{"random_state", "x1"}, {"random_state", "1.5"}, {"sigma", "big"}, {"restart_strategy", "sometimes"},
			{"n_startup_trials", ""}, {"n_ei_candidates", "ten"}}))
	}
	r.Shuffle(len(s), func(i, j int) { s[i], s[j] = s[j], s[i] })
	return s
}

func genFeed(r *rand.Rand, prev *Feed, flavour string, malformed bool) Feed {
	f := Feed{}
	if r.Intn(12) == 0 {
		f.Omit = true
	}
	final := []int{2, 2, 2, 4, 6}
	if flavour == "state-rejected" {
		final = []int{2, 3, 5, 7, 3, 5, 4, 6}
	}
	if prev != nil && prev.Cond >= 2 {
		f.Cond = prev.Cond // final conditions persist
		f.Obj, f.Extra = prev.Obj, prev.Extra
		if malformed && r.Intn(6) == 0 {
			f.Cond = r.Intn(3)
		}
	} else {
		switch r.Intn(5) {
		case 0:
			f.Cond = 0
		case 1, 2:
			f.Cond = 1
		default:
			f.Cond = kit.Pick(r, final)
		}
		if prev != nil && prev.Cond == 1 && f.Cond == 0 {
			f.Cond = 1
		}
		if f.Cond == 2 || (f.Cond >= 3 && r.Intn(2) == 0) {
			f.Obj = ftext(r, fnum(r))
			f.Extra = r.Intn(3)
		}
	}
	if malformed {
		switch r.Intn(10) {
		case 0:
			f.Mutate, f.MutSeed = 1+r.Intn(4), r.Intn(1000)
		case 1:
			f.TsBad = true
		case 2:
			if f.Cond == 2 {
				f.Obj = kit.Pick(r, []string{"", "n/a", "NaN", "+Inf"})
			}
		}
	}
	return f
}

func (c18) Gen(r *rand.Rand, i, n int) any {
	if r.Intn(100) < 15 {
		a := &ArithIn{Kind: r.Intn(3)}
		switch a.Kind {
		case 0:
			a.Lo = fnum(r)
			a.Q = math.Abs(fnum(r))/4 + 0.01
			k := float64(r.Intn(12))
			switch r.Intn(3) {
			case 0:
				a.X = a.Lo + k*a.Q
			case 1:
				a.X = a.Lo + (k+0.5)*a.Q
			default:
				a.X = a.Lo + k*a.Q*r.Float64()
			}
			if r.Intn(5) == 0 {
				a.Lo, a.Q, a.X = 0.1, 0.3, 0.9
			}
		default:
			a.Lo = float64(r.Intn(61) - 30)
			a.Q = float64(1 + r.Intn(7))
			switch r.Intn(3) {
			case 0:
				a.X = a.Lo + float64(r.Intn(40))
			case 1:
				a.X = a.Lo + float64(r.Intn(80))/2
			default:
				a.X = a.Lo + r.Float64()*40
			}
			if a.Kind == 1 {
				a.X -= 20
			}
		}
		return Input{Arith: a}
	}
	flavour := ""
	switch r.Intn(20) {
	case 0, 1:
		flavour = "double-step"
	case 2, 3:
		flavour = "int-step"
	case 4, 5:
		flavour = "state-rejected"
	case 6:
		flavour = "tpe-ei-candidates"
	}
	malformed := flavour == "" && r.Intn(8) == 0
	in := Input{Alg: kit.Pick(r, []string{"random", "tpe", "cmaes", "sobol"}), Maximize: r.Intn(2) == 0}
	if flavour == "int-step" {
		in.Alg = kit.Pick(r, []string{"tpe", "cmaes"})
	}
	if flavour == "tpe-ei-candidates" {
		in.Alg = "tpe"
	}
	if malformed && r.Intn(10) == 0 {
		in.Alg = kit.Pick(r, []string{"grid", "", "TPE", "bayesianoptimization"})
	}
	np := 1 + r.Intn(6)
	if in.Alg == "cmaes" && np < 3 {
		np += 2
	}
	for j := 0; j < np; j++ {
		in.Params = append(in.Params, genParam(r, j, flavour, malformed && r.Intn(3) == 0))
		if r.Intn(3) == 0 {
			// a distribution as other suggestion services honour it; the ranges here often include 0 and negative numbers
			in.Params[j].Dist = int32(1 + r.Intn(4))
		}
	}
	if malformed && r.Intn(8) == 0 && np > 1 {
		in.Params[np-1].Name = in.Params[0].Name
	}
	in.Settings = genSettings(r, in.Alg, flavour, malformed)
	nr := 3 + r.Intn(3)
	if flavour == "int-step" || flavour == "tpe-ei-candidates" {
		nr = 5
	}
	for k := 0; k < nr; k++ {
		rd := Round{N: 1 + r.Intn(4)}
		if flavour == "int-step" || flavour == "tpe-ei-candidates" {
			rd.N = 4
		}
		if r.Intn(30) == 0 {
			rd.N = 0
		}
		for j := 0; j < rd.N; j++ {
			tp := TrialPlan{Create: r.Intn(10) > 0, ByRound: make([]Feed, nr)}
			var prev *Feed
			for k2 := k + 1; k2 < nr; k2++ {
				tp.ByRound[k2] = genFeed(r, prev, flavour, malformed)
				if flavour == "int-step" || flavour == "tpe-ei-candidates" { // give the model-based samplers observations quickly
					tp.ByRound[k2].Cond, tp.ByRound[k2].Obj, tp.ByRound[k2].Omit = 2, ftext(r, fnum(r)), false
				}
				if !tp.ByRound[k2].Omit {
					prev = &tp.ByRound[k2]
				}
			}
			rd.Plans = append(rd.Plans, tp)
		}
		in.Rounds = append(in.Rounds, rd)
	}
	return in
}

// ---------------------------------------------------------------- running the implementation

// flit prints a binary64 value as an exact Coq primitive-float literal.
func flit(v float64) string {
	switch {
	case math.IsNaN(v):
		return "nan"
	case math.IsInf(v, 1):
		return "infinity"
	case math.IsInf(v, -1):
		return "neg_infinity"
	}
	s := strconv.FormatFloat(v, 'x', -1, 64)
	if strings.HasPrefix(s, "-") {
		return "(" + s + ")"
	}
	return s
}

// bitsZ prints the bit pattern of v (as the Coq term F <literal>).
func bitsZ(v float64) string { return "(F " + flit(v) + ")" }

// drawTerm prints a stored internal value (as the Coq term D <literal>: exact dyadic rational and bits).
func drawTerm(v float64, isDouble bool) string { return "(D " + flit(v) + ")" }

func optZ(ok bool, s string) string { return kit.Opt(ok, s) }

func atoiOpt(s string) string {
	v, err := strconv.Atoi(s)
	return optZ(err == nil, kit.Z(int64(v)))
}

func pfloatOpt(s string) string {
	v, err := strconv.ParseFloat(s, 64)
	return optZ(err == nil, bitsZ(v))
}

func ptypeOf(t string) (api.ParameterType, string) {
	switch t {
	case "int":
		return api.ParameterType_INT, "PInt"
	case "double":
		return api.ParameterType_DOUBLE, "PDouble"
	case "discrete":
		return api.ParameterType_DISCRETE, "PDiscrete"
	case "categorical":
		return api.ParameterType_CATEGORICAL, "PCategorical"
	}
	return api.ParameterType_UNKNOWN_TYPE, "PUnknown"
}

func errCode(err error) (string, string) {
	if err == nil {
		return "", ""
	}
	msg := err.Error()
	switch {
	case strings.Contains(msg, "Same parameter is not found"):
		return "Err 3", msg
	case strings.Contains(msg, "Failed to create goptuna study"):
		return "Err 1", msg
	}
	for _, s := range []string{"Unexpected Trial condition", "No objective metric", "strconv.", "parsing time", "Invalid categorical value"} {
		if strings.Contains(msg, s) {
			return "Err 2", msg
		}
	}
	return "Err 4", msg
}

type sugg struct {
	assigns []*api.ParameterAssignment
	name    string
}

// in the property's domain: numeric parameters with min < max and (if given) step > 0, non-empty lists, known types, distinct names
func inDomain(in Input) bool {
	seen := map[string]bool{}
	for _, p := range in.Params {
		if seen[p.Name] {
			return false
		}
		seen[p.Name] = true
		switch p.Type {
		case "int":
			lo, e1 := strconv.Atoi(p.Min)
			hi, e2 := strconv.Atoi(p.Max)
			if e1 != nil || e2 != nil || lo >= hi {
				return false
			}
			if p.Step != "" {
				st, e3 := strconv.Atoi(p.Step)
				if e3 != nil || st <= 0 {
					return false
				}
			}
		case "double":
			lo, e1 := strconv.ParseFloat(p.Min, 64)
			hi, e2 := strconv.ParseFloat(p.Max, 64)
			if e1 != nil || e2 != nil || !(lo < hi) || math.IsInf(lo, 0) || math.IsInf(hi, 0) {
				return false
			}
			if p.Step != "" {
				q, e3 := strconv.ParseFloat(p.Step, 64)
				if e3 != nil || !(q > 0) || math.IsInf(q, 0) {
					return false
				}
			}
		case "discrete", "categorical":
			if len(p.List) == 0 {
				return false
			}
		default:
			return false
		}
	}
	return len(in.Params) > 0
}

// keyOf decides the known-finding domain from the INPUT alone.
func keyOf(in Input) string {
	if in.Arith != nil {
		return ""
	}
	for _, p := range in.Params {
		if p.Type == "double" && p.Step != "" {
			return kit.KeyIf("C18", "double-step", true)
		}
	}
	if in.Alg == "tpe" || in.Alg == "cmaes" {
		for _, p := range in.Params {
			if p.Type == "int" && p.Step != "" {
				lo, e1 := strconv.Atoi(p.Min)
				hi, e2 := strconv.Atoi(p.Max)
				st, e3 := strconv.Atoi(p.Step)
				if e1 == nil && e2 == nil && e3 == nil && st > 0 && hi > lo && 2*((hi-lo)%st) >= st {
					key := "int-step" // at least two grid points: repaired by ending the range on the top grid point
					if hi-lo < st {
						key = "int-step-single" // one grid point
					}
					if k := kit.KeyIf("C18", key, true); k != "" {
						return k
					}
				}
			}
		}
	}
	if in.Alg == "tpe" {
		for _, s := range in.Settings {
			if s.Name == "n_ei_candidates" {
				if v, err := strconv.Atoi(s.Value); err == nil && v < 1 {
					if k := kit.KeyIf("C18", "tpe-ei-candidates", true); k != "" {
						return k
					}
				}
			}
		}
	}
	for k, rd := range in.Rounds {
		for _, tp := range rd.Plans {
			if !tp.Create {
				continue
			}
			for k2 := k + 1; k2 < len(tp.ByRound) && k2 < len(in.Rounds); k2++ {
				f := tp.ByRound[k2]
				if !f.Omit && (f.Cond == 3 || f.Cond == 5 || f.Cond >= 7) {
					if key := kit.KeyIf("C18", "state-rejected", true); key != "" {
						return key
					}
				}
			}
		}
	}
	return ""
}

func (c18) Run(input any) kit.Case {
	in := input.(Input)
	if in.Arith != nil {
		return runArith(in)
	}
	js, _ := json.Marshal(in)
	c := kit.Case{Input: in, Sig: string(js), Key: keyOf(in)}

	// ---- request objects
	pid := map[string]int{}
	for _, p := range in.Params {
		if _, ok := pid[p.Name]; !ok {
			pid[p.Name] = len(pid)
		}
	}
	nameID := func(s string) int {
		if v, ok := pid[s]; ok {
			return v
		}
		pid[s] = len(pid)
		return pid[s]
	}
	var specs []*api.ParameterSpec
	var coqSpecs []string
	kinds := map[string]bool{}
	for _, p := range in.Params {
		t, ct := ptypeOf(p.Type)
		specs = append(specs, &api.ParameterSpec{Name: p.Name, ParameterType: t,
			// a copy of the list: in.Params is read again after the calls (feeding trials back, printing replies) and is the replayable input
			FeasibleSpace: &api.FeasibleSpace{Min: p.Min, Max: p.Max, Step: p.Step, List: append([]string(nil), p.List...), Distribution: api.Distribution(p.Dist)}})
		// the strconv readings are given only where toGoptunaSearchSpace takes them (Atoi for int, ParseFloat for double)
		ai, af := [3]string{"None", "None", "None"}, [3]string{"None", "None", "None"}
		if p.Type == "int" {
			ai = [3]string{atoiOpt(p.Min), atoiOpt(p.Max), atoiOpt(p.Step)}
		}
		if p.Type == "double" {
			af = [3]string{pfloatOpt(p.Min), pfloatOpt(p.Max), pfloatOpt(p.Step)}
		}
		coqSpecs = append(coqSpecs, kit.Rec("PSpec", kit.Nat(pid[p.Name]), ct, ai[0], ai[1], ai[2], af[0], af[1], af[2],
			kit.Bool(p.Step == ""), kit.ListOf(p.List, kit.Str)))
		k := p.Type
		if p.Step != "" {
			k += "+step"
		}
		kinds[k] = true
	}
	var sets []*api.AlgorithmSetting
	var coqSets []string
	for _, s := range in.Settings {
		sets = append(sets, &api.AlgorithmSetting{Name: s.Name, Value: s.Value})
		_, ferr := strconv.ParseFloat(s.Value, 64)
		coqSets = append(coqSets, kit.Rec("Setting", kit.Str(s.Name), kit.Str(s.Value), atoiOpt(s.Value), kit.Bool(ferr == nil)))
	}
	objType := api.ObjectiveType_MINIMIZE
	if in.Maximize {
		objType = api.ObjectiveType_MAXIMIZE
	}
	const objName = "loss"
	exp := &api.Experiment{Name: "e", Spec: &api.ExperimentSpec{
		Algorithm:      &api.AlgorithmSpec{AlgorithmName: in.Alg, AlgorithmSettings: sets},
		Objective:      &api.ObjectiveSpec{Type: objType, ObjectiveMetricName: objName},
		ParameterSpecs: &api.ExperimentSpec_ParameterSpecs{Parameters: specs},
	}}
	metricID := func(s string) int {
		if s == objName {
			return 0
		}
		return 1
	}

	svc := sg.NewSuggestionService()
	ctx := context.Background()
	obs := map[string]any{}

	// ---- validation
	var verr error
	vpanic := kit.Recover(func() {
		_, verr = svc.ValidateAlgorithmSettings(ctx, &api.ValidateAlgorithmSettingsRequest{Experiment: exp})
	})
	vcode := "(Ok tt)"
	switch {
	case vpanic != "":
		vcode = "(Crash 0%nat)"
		c.GoViol = "ValidateAlgorithmSettings panicked: " + vpanic
	case verr != nil && status.Code(verr) == codes.InvalidArgument:
		vcode = "(Err 1%nat)"
	case verr != nil:
		vcode = "(Err 2%nat)"
	}
	obs["validate"] = fmt.Sprint(verr)
	c.Tags = append(c.Tags, "alg:"+in.Alg, "validate:"+strings.Trim(vcode, "()"))

	drive := verr == nil && vpanic == "" && inDomain(in)
	var coqRounds []string
	var final string = "[]"
	fedBack, okRounds := 0, 0
	if drive {
		var all []sugg // every suggestion so far, by global index
		var birth []int
		var plans []TrialPlan
		nGtr := 0
		for k, rd := range in.Rounds {
			// trials of this request
			var trials []*api.Trial
			var coqTrials []string
			for g, sgn := range all {
				tp := plans[g]
				if !tp.Create || k <= birth[g] || k >= len(tp.ByRound) {
					continue
				}
				f := tp.ByRound[k]
				if f.Omit {
					continue
				}
				assigns := make([]*api.ParameterAssignment, 0, len(sgn.assigns)+1)
				for _, a := range sgn.assigns {
					assigns = append(assigns, &api.ParameterAssignment{Name: a.Name, Value: a.Value})
				}
				mr := rand.New(rand.NewSource(int64(f.MutSeed)))
				switch f.Mutate {
				case 1:
					if len(assigns) > 0 {
						a := assigns[mr.Intn(len(assigns))]
						a.Value = mutateValue(mr, in, a)
					}
				case 2:
					assigns = append(assigns, &api.ParameterAssignment{Name: "ghost", Value: "1"})
				case 3:
					if len(assigns) > 0 {
						j := mr.Intn(len(assigns))
						assigns = append(assigns[:j], assigns[j+1:]...)
					}
				case 4:
					if len(assigns) > 0 {
						assigns[mr.Intn(len(assigns))].Value = "1.2.3"
					}
				}
				var metrics []*api.Metric
				if f.Obj != "" {
					if f.Extra == 2 {
						metrics = append(metrics, &api.Metric{Name: objName, Value: "12345.5"})
					}
					metrics = append(metrics, &api.Metric{Name: objName, Value: f.Obj})
					if f.Extra == 1 {
						metrics = append(metrics, &api.Metric{Name: "accuracy", Value: "0.5"})
					}
				} else if f.Extra == 1 {
					metrics = append(metrics, &api.Metric{Name: "accuracy", Value: "0.25"})
				}
				start, done := "2024-03-01T10:00:00Z", ""
				if f.Cond >= 2 {
					done = "2024-03-01T10:05:00.5Z"
				}
				if f.Cond == 0 {
					start = ""
				}
				if f.TsBad {
					start = "2024-03-01 10:00"
				}
				trials = append(trials, &api.Trial{Name: sgn.name,
					Spec:   &api.TrialSpec{ParameterAssignments: &api.TrialSpec_ParameterAssignments{Assignments: assigns}},
					Status: &api.TrialStatus{Condition: api.TrialStatus_TrialConditionType(f.Cond), StartTime: start, CompletionTime: done,
						Observation: &api.Observation{Metrics: metrics}}})
				var cm []string
				for _, m := range metrics {
					cm = append(cm, kit.Pair(kit.Nat(metricID(m.Name)), pfloatOpt(m.Value)))
				}
				if f.Mutate == 0 {
					coqTrials = append(coqTrials, kit.Rec("KRef", kit.Nat(g), kit.Nat(f.Cond), kit.Bool(!f.TsBad), kit.List(cm)))
				} else {
					var ca []string
					for _, a := range assigns {
						ai, af := "None", "None"
						switch typeOf(in, a.Name) {
						case "int":
							iv, ierr := strconv.ParseInt(a.Value, 10, 64)
							ai = optZ(ierr == nil, kit.Z(iv))
						case "double":
							af = pfloatOpt(a.Value)
						}
						ca = append(ca, kit.Rec("KA", kit.Nat(nameID(a.Name)), kit.Str(a.Value), ai, af))
					}
					coqTrials = append(coqTrials, "(KFull "+kit.Rec("KT", kit.Nat(g), kit.Nat(f.Cond), kit.Bool(!f.TsBad), kit.List(cm), kit.List(ca))+")")
				}
				fedBack++
			}
			// trials are sent in a shuffled order (the service must not depend on it)
			sh := rand.New(rand.NewSource(int64(len(trials)*7919 + k)))
			sh.Shuffle(len(trials), func(i, j int) {
				trials[i], trials[j] = trials[j], trials[i]
				coqTrials[i], coqTrials[j] = coqTrials[j], coqTrials[i]
			})

			var rep *api.GetSuggestionsReply
			var err error
			pn := kit.Recover(func() {
				rep, err = svc.GetSuggestions(ctx, &api.GetSuggestionsRequest{Experiment: exp, Trials: trials, CurrentRequestNumber: int32(rd.N)})
			})
			gts, _ := svc.VerifTrials()
			// internal draws of the goptuna trials created by this request
			var coqDraws []string
			for g := nGtr; g < len(gts); g++ {
				names := make([]string, 0, len(gts[g].InternalParams))
				for nm := range gts[g].InternalParams {
					names = append(names, nm)
				}
				sort.Strings(names)
				var ds []string
				for _, nm := range names {
					ds = append(ds, kit.Pair(kit.Nat(nameID(nm)), drawTerm(gts[g].InternalParams[nm], typeOf(in, nm) == "double")))
				}
				coqDraws = append(coqDraws, kit.List(ds))
			}
			var impl string
			switch {
			case pn != "":
				impl = "(Crash 0%nat)"
				c.GoViol = fmt.Sprintf("GetSuggestions panicked in round %d: %s", k, pn)
				obs[fmt.Sprintf("round%d", k)] = "PANIC " + pn
			case err != nil:
				code, msg := errCode(err)
				impl = "(" + code + "%nat)"
				obs[fmt.Sprintf("round%d", k)] = msg
			default:
				var ras []string
				var show []string
				for j, pa := range rep.ParameterAssignments {
					var as []string
					line := ""
					for _, a := range pa.Assignments {
						as = append(as, rassignTerm(in, nameID, a))
						line += a.Name + "=" + a.Value + " "
					}
					ras = append(ras, kit.List(as))
					show = append(show, strings.TrimSpace(line))
					// copies: the reply belongs to the service; what is fed back in later rounds (KRef) is the reply as printed above
					kept := make([]*api.ParameterAssignment, 0, len(pa.Assignments))
					for _, a := range pa.Assignments {
						kept = append(kept, &api.ParameterAssignment{Name: a.Name, Value: a.Value})
					}
					all = append(all, sugg{assigns: kept, name: fmt.Sprintf("t%d", len(all))})
					birth = append(birth, k)
					if j < len(rd.Plans) {
						plans = append(plans, rd.Plans[j])
					} else { // reply longer than requested (a violation by itself): never fed back
						plans = append(plans, TrialPlan{})
					}
				}
				impl = "(Ok " + kit.List(ras) + ")"
				obs[fmt.Sprintf("round%d", k)] = show
				okRounds++
			}
			coqRounds = append(coqRounds, kit.Rec("Round", kit.List(coqTrials), kit.Nat(rd.N), kit.List(coqDraws), impl))
			nGtr = len(gts)
			if pn != "" || err != nil {
				break
			}
			// the study after the last successful round
			var fs []string
			for _, gt := range gts {
				var ps []string
				for _, p := range in.Params {
					v, ok := gt.Params[p.Name]
					ps = append(ps, kit.Opt(ok, rvTerm(v)))
				}
				fs = append(fs, "("+kit.List(ps)+", "+kit.Nat(int(gt.State))+", "+bitsZ(gt.Value)+")")
			}
			final = kit.List(fs)
		}
	}
	c.Tags = append(c.Tags, fmt.Sprintf("rounds_ok:%d", okRounds))
	for k := range kinds {
		c.Tags = append(c.Tags, "kind:"+k)
	}
	if !drive {
		c.Tags = append(c.Tags, "validation-only")
	}
	c.Nontrivial = okRounds >= 3 && fedBack >= 3 && len(kinds) >= 2
	c.Observed = obs
	c.Coq = kit.Rec("Svc", kit.Str(in.Alg), kit.List(coqSets), kit.List(coqSpecs), vcode, kit.Bool(drive), kit.List(coqRounds), final)
	return c
}

func rvTerm(v any) string {
	switch x := v.(type) {
	case int:
		return "(RInt " + kit.Z(int64(x)) + ")"
	case float64:
		return "(RFlt " + bitsZ(x) + ")"
	case string:
		return "(RStr " + kit.Str(x) + ")"
	}
	return "(RStr \"?\")"
}

// rassignTerm prints one assignment of a reply with what the monitor needs: the text, its integer reading, its binary64
// reading, and for double parameters the comparisons with the bounds done in binary64 by Go.
func rassignTerm(in Input, nameID func(string) int, a *api.ParameterAssignment) string {
	iv, ierr := strconv.ParseInt(a.Value, 10, 64)
	fv, ferr := strconv.ParseFloat(a.Value, 64)
	ge, le, grid := false, false, false
	ai, af := "None", "None"
	switch typeOf(in, a.Name) {
	case "int":
		ai = optZ(ierr == nil, kit.Z(iv))
	case "double":
		af = optZ(ferr == nil, bitsZ(fv))
	}
	for _, p := range in.Params {
		if p.Name == a.Name && p.Type == "double" && ferr == nil {
			lo, _ := strconv.ParseFloat(p.Min, 64)
			hi, _ := strconv.ParseFloat(p.Max, 64)
			ge, le = fv >= lo, fv <= hi
			if p.Step != "" {
				q, _ := strconv.ParseFloat(p.Step, 64)
				k := (fv - lo) / q
				grid = math.Abs(k-math.Round(k)) <= 1e-9*math.Max(1, math.Abs(k))
			}
			break
		}
	}
	return kit.Rec("RA", kit.Nat(nameID(a.Name)), kit.Str(a.Value), ai, af, kit.Bool(ge), kit.Bool(le), kit.Bool(grid))
}

func typeOf(in Input, name string) string {
	for _, p := range in.Params {
		if p.Name == name {
			return p.Type
		}
	}
	return ""
}

func mutateValue(mr *rand.Rand, in Input, a *api.ParameterAssignment) string {
	for _, p := range in.Params {
		if p.Name != a.Name {
			continue
		}
		switch p.Type {
		case "int":
			v, _ := strconv.Atoi(a.Value)
			st := 1
			if p.Step != "" {
				st, _ = strconv.Atoi(p.Step)
			}
			return strconv.Itoa(v + st*(1+mr.Intn(3)))
		case "double":
			v, _ := strconv.ParseFloat(a.Value, 64)
			return strconv.FormatFloat(math.Nextafter(v, math.Inf(1)), 'f', -1, 64)
		default:
			if mr.Intn(2) == 0 {
				return "not-in-list"
			}
			return p.List[mr.Intn(len(p.List))]
		}
	}
	return a.Value
}

func runArith(in Input) kit.Case {
	a := in.Arith
	js, _ := json.Marshal(in)
	c := kit.Case{Input: in, Sig: string(js), Tags: []string{fmt.Sprintf("arith:%d", a.Kind)}}
	switch a.Kind {
	case 0:
		d := goptuna.DiscreteUniformDistribution{Low: a.Lo, High: a.Lo + 20*a.Q, Q: a.Q}
		v := d.ToExternalRepr(a.X).(float64)
		c.Observed = v
		k := (a.X-a.Lo)/a.Q + 0.5
		c.Nontrivial = math.Abs(k-math.Round(k)) < 0.02
		c.Coq = kit.Rec("ArithD", bitsZ(a.Lo), bitsZ(a.Q), bitsZ(a.X), bitsZ(v))
	case 1:
		d := goptuna.IntUniformDistribution{Low: int(a.Lo), High: int(a.Lo) + 100}
		v := d.ToExternalRepr(a.X).(int)
		c.Observed = v
		c.Nontrivial = math.Abs(a.X+0.5-math.Round(a.X+0.5)) < 0.02
		c.Coq = kit.Rec("ArithI", kit.Z(int64(a.Lo)), "1", "false", drawTerm(a.X, false), kit.Z(int64(v)))
	default:
		d := goptuna.StepIntUniformDistribution{Low: int(a.Lo), High: int(a.Lo) + 100, Step: int(a.Q)}
		v := d.ToExternalRepr(a.X).(int)
		c.Observed = v
		k := (a.X-a.Lo)/a.Q + 0.5
		c.Nontrivial = math.Abs(k-math.Round(k)) < 0.02
		c.Coq = kit.Rec("ArithI", kit.Z(int64(a.Lo)), kit.Z(int64(a.Q)), "true", drawTerm(a.X, false), kit.Z(int64(v)))
	}
	return c
}
