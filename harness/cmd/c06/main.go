// c06: trialutil.GetDeployedJobStatus on generated job documents with default and custom GJSON conditions.
package main

import (
	"encoding/json"
	"fmt"
	"math/rand"
	"os"

	"github.com/tidwall/gjson"
	corev1 "k8s.io/api/core/v1"
	metav1 "k8s.io/apimachinery/pkg/apis/meta/v1"
	"k8s.io/apimachinery/pkg/apis/meta/v1/unstructured"

	trialsv1beta1 "github.com/kubeflow/katib/pkg/apis/controller/trials/v1beta1"
	trialutil "github.com/kubeflow/katib/pkg/controller.v1beta1/trial/util"
	"github.com/kubeflow/katib/pkg/controller.v1beta1/util"

	"verifharness/internal/kit"
)

type Cond struct {
	Type   string `json:"type"`
	Status string `json:"status"`
	Reason string `json:"reason,omitempty"`
}
type Input struct {
	Conds   []Cond `json:"conds"`
	Succ    string `json:"success_condition"`
	Fail    string `json:"failure_condition"`
	Running bool   `json:"trial_running"`
	Named   bool   `json:"job_named"`
	Extra   bool   `json:"status_succeeded_field"`
}

type c06 struct{}

func main() { kit.Main(c06{}, os.Args[2:]) }

func (c06) Name() string      { return "c06" }
func (c06) CoqModule() string { return "C06J" }
func (c06) Rule() string {
	return "job documents with 0-4 status conditions drawn from {Complete, Failed, Succeeded, Suspended} x {True, False, Unknown} (both the failure and the " +
		"success condition may hold at once), the default batch Job and Kubeflow training-job GJSON conditions plus custom paths, trial Running or not, " +
		"job named or not. Non-trivial: both conditions match, or neither. Distinct: by the document and conditions."
}
func (c06) Decode(raw json.RawMessage) (any, error) {
	var in Input
	err := json.Unmarshal(raw, &in)
	return in, err
}

var succConds = []string{
	`status.conditions.#(type=="Complete")#|#(status=="True")#`,
	`status.conditions.#(type=="Succeeded")#|#(status=="True")#`,
	`status.conditions.#(type=="Complete")#`,
	`status.succeeded`,
}
var failConds = []string{
	`status.conditions.#(type=="Failed")#|#(status=="True")#`,
	`status.conditions.#(type=="Failed")#`,
	`status.conditions.#(status=="Unknown")#`,
}

func (c06) Gen(r *rand.Rand, i, n int) any {
	var in Input
	k := r.Intn(5)
	for j := 0; j < k; j++ {
		in.Conds = append(in.Conds, Cond{Type: kit.Pick(r, []string{"Complete", "Failed", "Succeeded", "Suspended"}),
			Status: kit.Pick(r, []string{"True", "True", "False", "Unknown"}), Reason: kit.Pick(r, []string{"", "BackoffLimitExceeded", "Done"})})
	}
	in.Succ = succConds[0]
	in.Fail = failConds[0]
	if r.Intn(3) == 0 {
		in.Succ = kit.Pick(r, succConds)
		in.Fail = kit.Pick(r, failConds)
	}
	in.Running = r.Intn(2) == 0
	in.Named = r.Intn(8) > 0
	in.Extra = r.Intn(4) == 0
	return in
}

func matched(doc, expr string) bool {
	res := gjson.Get(doc, expr)
	return res.IsObject() || (res.IsArray() && len(res.Array()) > 0)
}

func (c06) Run(input any) kit.Case {
	in := input.(Input)
	job := &unstructured.Unstructured{Object: map[string]interface{}{"apiVersion": "batch/v1", "kind": "Job", "metadata": map[string]interface{}{"namespace": "ns"}}}
	if in.Named {
		job.SetName("t1")
	}
	var cs []interface{}
	for _, c := range in.Conds {
		m := map[string]interface{}{"type": c.Type, "status": c.Status}
		if c.Reason != "" {
			m["reason"] = c.Reason
		}
		cs = append(cs, m)
	}
	st := map[string]interface{}{}
	if cs != nil {
		st["conditions"] = cs
	}
	if in.Extra {
		st["succeeded"] = int64(1)
	}
	job.Object["status"] = st
	tr := &trialsv1beta1.Trial{ObjectMeta: metav1.ObjectMeta{Name: "t1", Namespace: "ns"}}
	tr.Spec.SuccessCondition, tr.Spec.FailureCondition = in.Succ, in.Fail
	tr.Status.Conditions = []trialsv1beta1.TrialCondition{{Type: trialsv1beta1.TrialCreated, Status: corev1.ConditionTrue}}
	if in.Running {
		tr.Status.Conditions = append(tr.Status.Conditions, trialsv1beta1.TrialCondition{Type: trialsv1beta1.TrialRunning, Status: corev1.ConditionTrue})
	}
	// what the model is given is decided on a copy of the job taken before the call
	doc, _ := util.ConvertUnstructuredToString(job.DeepCopy())
	fail, succ := matched(doc, in.Fail), matched(doc, in.Succ)
	var res *trialutil.TrialJobStatus
	var err error
	pan := kit.Recover(func() { res, err = trialutil.GetDeployedJobStatus(tr, job) })
	var c kit.Case
	c.Input = in
	impl := "JVNone"
	switch {
	case pan != "":
		c.GoViol = "panic: " + pan
	case err != nil:
		c.Observed = "error: " + err.Error()
	case res != nil:
		c.Observed = res
		impl = map[trialutil.ConditionType]string{trialutil.JobFailed: "JVFailed", trialutil.JobSucceeded: "JVSucceeded", trialutil.JobRunning: "JVRunning"}[res.Condition]
		if impl == "" {
			impl = "JVNone"
		}
	default:
		c.Observed = "nil"
	}
	// a matched condition that is not a JSON object (e.g. status.succeeded = 1) cannot be unmarshalled: the function
	// returns an error and no status; outside the modelled domain
	if err != nil {
		c.Key = "unmarshal-error"
		impl = "JVNone"
	}
	c.Coq = fmt.Sprintf("C06J.Case %s %s %s %s %s", kit.Bool(fail), kit.Bool(succ), kit.Bool(in.Running), kit.Bool(in.Named), impl)
	js, _ := json.Marshal(in)
	c.Sig = string(js)
	c.Nontrivial = (fail && succ) || (!fail && !succ)
	if fail && succ {
		c.Tags = append(c.Tags, "both-match")
	} else if fail {
		c.Tags = append(c.Tags, "fail-only")
	} else if succ {
		c.Tags = append(c.Tags, "succ-only")
	} else {
		c.Tags = append(c.Tags, "neither")
	}
	return c
}
