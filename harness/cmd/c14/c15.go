package main

// C15: ValidateExperiment(new, old) on stored experiments in every completion state; one-path-at-a-time sweep over every
// leaf/node path of ExperimentSpec on a fully populated stored experiment, plus random edits of valid experiments.

import (
	"encoding/json"
	"fmt"
	"math/rand"
	"reflect"
	"strings"

	corev1 "k8s.io/api/core/v1"
	metav1 "k8s.io/apimachinery/pkg/apis/meta/v1"

	expv1 "github.com/kubeflow/katib/pkg/apis/controller/experiments/v1beta1"
	exputil "github.com/kubeflow/katib/pkg/controller.v1beta1/experiment/util"

	"verifharness/internal/kit"
)

type c15Input struct {
	Old   *expv1.Experiment `json:"old"`
	New   *expv1.Experiment `json:"new"`
	World world             `json:"world"`
	Muts  []string          `json:"edits"`
	// the updated object reaches the validator as submitted, not defaulted (the defaulting webhook is a separate webhook
	// whose failure can be ignored by configuration; the update rule is a property of the validator on every pair)
	Raw bool `json:"raw,omitempty"`
	// earlier update requests for the same experiment (same UID) answered by the same validator object before this one:
	// what was admitted earlier must not matter, the rule is a function of (stored, updated)
	Pre []prePair `json:"pre,omitempty"`
}

type c15 struct{}

func (c15) Name() string      { return "c15" }
func (c15) CoqModule() string { return "C15" }
func (c15) Rule() string {
	return "stored experiment x update. (a) sweep: the first cases take a fully populated ExperimentSpec (every pointer/slice/map of the Go type " +
		"filled by reflection) and mutate exactly one type-level path each (every leaf value; every pointer to nil, slice grown, map key added) - " +
		"the path list is the one the translator wrote to Gen/SpecFields.v; (b) random: a valid defaulted experiment (4 shapes x collectors) with " +
		"no edit / metadata-only edit / budget edits around status.trials / one or two structural C14 mutations / both. Stored status: 10 condition " +
		"lists (none, created, running, succeeded by max trials / by goal, failed, restarted, succeeded=False, duplicate conditions) x status.trials 0-8 x resumePolicy (Never / LongRunning / FromVolume, and unset as on an experiment stored without defaulting). " +
		"Non-trivial: the specs differ. Distinct: by (new, old budget, digests, status)."
}

var condStates = [][]expv1.ExperimentCondition{
	nil,
	{{Type: expv1.ExperimentCreated, Status: corev1.ConditionTrue, Reason: "ExperimentCreated"}},
	{{Type: expv1.ExperimentCreated, Status: corev1.ConditionTrue, Reason: "ExperimentCreated"}, {Type: expv1.ExperimentRunning, Status: corev1.ConditionTrue, Reason: "ExperimentRunning"}},
	{{Type: expv1.ExperimentCreated, Status: corev1.ConditionTrue}, {Type: expv1.ExperimentRunning, Status: corev1.ConditionFalse}, {Type: expv1.ExperimentSucceeded, Status: corev1.ConditionTrue, Reason: exputil.ExperimentMaxTrialsReachedReason}},
	{{Type: expv1.ExperimentCreated, Status: corev1.ConditionTrue}, {Type: expv1.ExperimentRunning, Status: corev1.ConditionFalse}, {Type: expv1.ExperimentSucceeded, Status: corev1.ConditionTrue, Reason: exputil.ExperimentGoalReachedReason}},
	{{Type: expv1.ExperimentCreated, Status: corev1.ConditionTrue}, {Type: expv1.ExperimentFailed, Status: corev1.ConditionTrue, Reason: exputil.ExperimentMaxTrialsReachedReason}},
	{{Type: expv1.ExperimentCreated, Status: corev1.ConditionTrue}, {Type: expv1.ExperimentSucceeded, Status: corev1.ConditionFalse, Reason: exputil.ExperimentMaxTrialsReachedReason}, {Type: expv1.ExperimentRestarting, Status: corev1.ConditionTrue}},
	{{Type: expv1.ExperimentSucceeded, Status: corev1.ConditionFalse, Reason: exputil.ExperimentMaxTrialsReachedReason}, {Type: expv1.ExperimentSucceeded, Status: corev1.ConditionTrue, Reason: exputil.ExperimentMaxTrialsReachedReason}},
	{{Type: expv1.ExperimentSucceeded, Status: corev1.ConditionTrue, Reason: exputil.ExperimentMaxTrialsReachedReason}, {Type: expv1.ExperimentFailed, Status: corev1.ConditionTrue, Reason: "ExperimentFailed"}},
	{{Type: expv1.ExperimentSucceeded, Status: corev1.ConditionUnknown, Reason: exputil.ExperimentMaxTrialsReachedReason}, {Type: expv1.ExperimentFailed, Status: corev1.ConditionFalse}},
}

var sweepList []string

func sweep() []string {
	if sweepList == nil {
		sweepList = sweptPaths()
	}
	return sweepList
}

func randomStatus(r *rand.Rand, e *expv1.Experiment) string {
	k := r.Intn(len(condStates))
	e.Status.Conditions = append([]expv1.ExperimentCondition{}, condStates[k]...)
	e.Status.Trials = int32(r.Intn(9))
	return fmt.Sprintf("status:%d", k)
}

func (c15) Gen(r *rand.Rand, i, n int) any {
	var in c15Input
	in.World = baseWorld()
	paths := sweep()
	if i < len(paths) {
		old := &expv1.Experiment{ObjectMeta: metav1.ObjectMeta{Name: "stored", Namespace: "ns1"}, Spec: populatedSpec()}
		old.SetDefault()
		in.Muts = append(in.Muts, randomStatus(r, old))
		nw := old.DeepCopy()
		if !mutatePath(reflect.ValueOf(&nw.Spec).Elem(), paths[i]) {
			panic("sweep path not mutable: " + paths[i])
		}
		in.Old, in.New = old, nw
		in.Muts = append(in.Muts, "sweep", "path:"+paths[i])
		return in // not passed through JSON: the sweep needs the exact in-memory object (empty-but-set fields)
	}
	base := c14Input{Exp: baseExp(r.Intn(4)), World: baseWorld(), Dflt: true}
	setCollector(r, base.Exp)
	if r.Intn(3) == 0 {
		base.Exp.Spec.MaxTrialCount, base.Exp.Spec.MaxFailedTrialCount = nil, nil
	}
	base.Exp.Spec.ResumePolicy = expv1.ResumePolicyType(kit.Pick(r, []string{"", "Never", "LongRunning", "FromVolume"}))
	if r.Intn(8) == 0 { // a stored experiment that would not be admitted today
		mutations[r.Intn(len(mutations))].f(r, &base)
	}
	base = canon(base)
	old := base.Exp
	old.SetDefault()
	if r.Intn(5) == 0 {
		// a stored experiment that never went through the defaulting webhook: resumePolicy unset (the validator accepts "")
		old.Spec.ResumePolicy = ""
	}
	in.World = base.World
	in.Muts = append(in.Muts, randomStatus(r, old), "resume:"+string(old.Spec.ResumePolicy))
	nw := old.DeepCopy()
	edit := r.Intn(20)
	if r.Intn(6) == 0 && old.Spec.MaxTrialCount != nil {
		// a restart attempt: a completed stored experiment (by max trials / by goal / failed) whose maxTrialCount is raised above
		// the trials it has, nothing else touched -- admitted exactly for "succeeded by max trials" under LongRunning / FromVolume
		k := kit.Pick(r, []int{3, 3, 3, 4, 5, 8})
		old.Status.Conditions = append([]expv1.ExperimentCondition{}, condStates[k]...)
		nw = old.DeepCopy()
		nw.Spec.MaxTrialCount = i32(old.Status.Trials + 1 + int32(r.Intn(5)))
		if nw.Spec.MaxFailedTrialCount != nil && *nw.Spec.MaxFailedTrialCount > *nw.Spec.MaxTrialCount {
			nw.Spec.MaxFailedTrialCount = nw.Spec.MaxTrialCount
		}
		in.Muts[len(in.Muts)-2] = fmt.Sprintf("status:%d", k)
		in.Muts = append(in.Muts, "edit:restart-attempt")
		edit = -1
	}
	switch {
	case edit < 0:
	case edit < 4:
		in.Muts = append(in.Muts, "edit:none")
	case edit < 6:
		nw.Labels = map[string]string{"touched": "yes"}
		nw.Finalizers = []string{"update-prometheus-metrics"}
		nw.Status.Trials++
		in.Muts = append(in.Muts, "edit:metadata-only")
	default:
		if edit < 14 || edit >= 17 {
			nb := 1 + r.Intn(2)
			for k := 0; k < nb; k++ {
				t := old.Status.Trials
				v := i32(kit.Pick(r, []int32{t - 1, t, t + 1, t + 5, 1, 0, -1, 100}))
				switch r.Intn(7) {
				case 0, 1, 2:
					nw.Spec.MaxTrialCount = v
				case 3:
					nw.Spec.ParallelTrialCount = v
				case 4:
					nw.Spec.MaxFailedTrialCount = v
				case 5:
					nw.Spec.MaxTrialCount = nil
				case 6:
					nw.Spec.MaxFailedTrialCount = nil
				}
			}
			in.Muts = append(in.Muts, "edit:budget")
		}
		if edit >= 14 {
			tmp := c14Input{Exp: nw, World: in.World}
			nm := 1 + r.Intn(2)
			for k := 0; k < nm; k++ {
				m := mutations[1+r.Intn(len(mutations)-3)] // not the name, not the config mutations
				if strings.HasPrefix(m.name, "par:") || strings.HasPrefix(m.name, "max:") || strings.HasPrefix(m.name, "mf:") {
					continue
				}
				if m.f(r, &tmp) {
					in.Muts = append(in.Muts, "edit:"+m.name)
				}
			}
			in.World = tmp.World
		}
	}
	in.Old, in.New = old, nw
	old.UID, nw.UID = "uid-c15", "uid-c15"
	if r.Intn(4) == 0 {
		// the same edit was asked for (and probably admitted) earlier, when the experiment was still running with few trials:
		// a dry run, or a write that another webhook refused
		earlier := old.DeepCopy()
		earlier.Status.Conditions = append([]expv1.ExperimentCondition{}, condStates[2]...)
		earlier.Status.Trials = 0
		in.Pre = append(in.Pre, prePair{New: nw.DeepCopy(), Old: earlier})
		in.Muts = append(in.Muts, "after-earlier-request")
	}
	if old.Spec.ResumePolicy == "" && edit < 14 && r.Intn(2) == 0 { // budget / metadata / no edit only: crash safety is stated (C14) for defaulted objects
		in.Raw = true
		in.Muts = append(in.Muts, "new-not-defaulted")
	}
	raw, _ := json.Marshal(in)
	var out c15Input
	if err := json.Unmarshal(raw, &out); err != nil {
		panic(err)
	}
	return out
}

func (c15) Decode(raw json.RawMessage) (any, error) {
	var in c15Input
	err := json.Unmarshal(raw, &in)
	if err == nil && (in.Old == nil || in.New == nil) {
		err = fmt.Errorf("replayed input lacks old/new")
	}
	return in, err
}

func projConds(cs []expv1.ExperimentCondition) string {
	return kit.ListOf(cs, func(c expv1.ExperimentCondition) string {
		t := map[expv1.ExperimentConditionType]int{expv1.ExperimentCreated: 0, expv1.ExperimentRunning: 1, expv1.ExperimentRestarting: 2, expv1.ExperimentSucceeded: 3, expv1.ExperimentFailed: 4}
		n, ok := t[c.Type]
		if !ok {
			n = 5
		}
		return fmt.Sprintf("{| oc_type := %s; oc_true := %s; oc_maxreached := %s |}", kit.Nat(n), kit.Bool(c.Status == corev1.ConditionTrue),
			kit.Bool(c.Reason == exputil.ExperimentMaxTrialsReachedReason))
	})
}

func resumeOf(p expv1.ResumePolicyType) string {
	res := map[expv1.ResumePolicyType]string{"": "REmpty", expv1.NeverResume: "RNever", expv1.LongRunning: "RLong", expv1.FromVolume: "RVolume"}[p]
	if res == "" {
		res = "ROther"
	}
	return res
}

func (c15) Run(input any) kit.Case {
	in := input.(c15Input)
	var c kit.Case
	c.Input = in
	vo := runValidate(in.World, in.Old, nil, true)
	_ = withStrings("") // forget the strings of the old object's projection
	v := runValidate(in.World, in.New, in.Old, !in.Raw, in.Pre...)
	oldAdmitted := vo.panicked == "" && len(vo.errs) == 0
	old := fmt.Sprintf("{| o_par := %s; o_max := %s; o_mf := %s; o_rest := %s; o_trials := %s; o_conds := %s; o_resume := %s |}",
		optZ32(in.Old.Spec.ParallelTrialCount), optZ32(in.Old.Spec.MaxTrialCount), optZ32(in.Old.Spec.MaxFailedTrialCount),
		cstr(restDigest(in.Old.Spec)), kit.Z(int64(in.Old.Status.Trials)), projConds(in.Old.Status.Conditions), resumeOf(in.Old.Spec.ResumePolicy))
	newRest := restDigest(v.validated.Spec)
	c.Coq = withStrings(fmt.Sprintf("C15.Case %s %s %s %s %s %s", v.env, v.implExp, cstr(newRest), old, kit.Bool(oldAdmitted), v.impl))
	c.Sig = v.env + v.implExp + newRest + old
	c.Observed = map[string]any{"errors": v.human, "old_admitted_on_create": oldAdmitted,
		"rest_equal": newRest == restDigest(in.Old.Spec), "spec_equal": fullDigest(v.validated.Spec) == fullDigest(in.Old.Spec)}
	c.Key = domainKey("C15", in.New, in.World)
	c.Nontrivial = fullDigest(v.validated.Spec) != fullDigest(in.Old.Spec)
	for _, m := range in.Muts {
		if strings.HasPrefix(m, "path:") {
			continue
		}
		c.Tags = append(c.Tags, m)
	}
	switch {
	case v.panicked != "":
		c.Tags = append(c.Tags, "result:panic")
	case len(v.errs) == 0:
		c.Tags = append(c.Tags, "result:admitted")
	default:
		c.Tags = append(c.Tags, "result:rejected")
		for _, h := range v.human {
			r := strings.SplitN(h, " ", 2)[0]
			if r == "#7" || r == "#8" || r == "#9" {
				c.Tags = append(c.Tags, "rule:"+r)
			}
		}
	}
	return c
}
