package main

// C14: SetDefault + the real DefaultValidator over the real manifest generator and a fake client; for admitted
// experiments the derived names are judged by k8s validation and trials are really built by the generator.

import (
	"encoding/json"
	"fmt"
	"math/rand"
	"regexp"
	"strconv"
	"strings"

	corev1 "k8s.io/api/core/v1"
	metav1 "k8s.io/apimachinery/pkg/apis/meta/v1"
	"k8s.io/apimachinery/pkg/apis/meta/v1/unstructured"
	"k8s.io/apimachinery/pkg/util/intstr"
	"k8s.io/apimachinery/pkg/util/validation"
	"k8s.io/apimachinery/pkg/util/validation/field"

	commonv1beta1 "github.com/kubeflow/katib/pkg/apis/controller/common/v1beta1"
	expv1 "github.com/kubeflow/katib/pkg/apis/controller/experiments/v1beta1"
	sugv1 "github.com/kubeflow/katib/pkg/apis/controller/suggestions/v1beta1"
	"github.com/kubeflow/katib/pkg/controller.v1beta1/experiment/manifest"
	"github.com/kubeflow/katib/pkg/controller.v1beta1/util"
	"github.com/kubeflow/katib/pkg/webhook/v1beta1/experiment/validator"

	"verifharness/internal/kit"
)

type c14Input struct {
	Exp     *expv1.Experiment `json:"exp"`
	World   world             `json:"world"`
	Dflt    bool              `json:"dflt"`
	RunSeed int64             `json:"run_seed"`
	Muts    []string          `json:"mutations"`
}

type c14 struct{}

func (c14) Name() string      { return "c14" }
func (c14) CoqModule() string { return "C14" }
func (c14) Rule() string {
	return "four valid experiment shapes (inline batch Job as in validator_test.go; template from a ConfigMap; inline TFJob with trial-metadata " +
		"references; NAS) x random metrics collector (all 6 kinds, with/without source) x katib-config, then 0-3 structural mutations out of ~90 " +
		"(every pointer to nil, every enum to garbage/empty, names, counts and their order relations, parameter/feasible-space shapes, trial-parameter " +
		"lists: duplicates, dangling and unused references, unused placeholders, template metadata/kind/garbage, ConfigMap lookups, config lookups); " +
		"~10% of the cases skip SetDefault (crash sites). Admitted experiments: names checked by k8s validation, 3 trials built by the real generator " +
		"with random feasible values. Non-trivial: at least one mutation applied or admitted. Distinct: by the projected (env, experiment, dflt)."
}

// ---------------------------------------------------------------- valid shapes

func i32(v int32) *int32 { return &v }

func jobTemplate() map[string]interface{} {
	return map[string]interface{}{
		"apiVersion": "batch/v1", "kind": "Job",
		"spec": map[string]interface{}{"template": map[string]interface{}{"spec": map[string]interface{}{
			"restartPolicy": "Never",
			"containers": []interface{}{map[string]interface{}{
				"name": "training-container", "image": "ghcr.io/kubeflow/katib/pytorch-mnist-cpu",
				"command": []interface{}{"python3", "/opt/pytorch-mnist/mnist.py", "--epochs=1", "--lr=${trialParameters.learningRate}", "--momentum=${trialParameters.momentum}"},
			}}}}},
	}
}

const cmTemplate = `apiVersion: batch/v1
kind: Job
spec:
  template:
    spec:
      containers:
        - name: training-container
          image: docker.io/kubeflowkatib/mxnet-mnist
          command:
            - "python3"
            - "/opt/mxnet-mnist/mnist.py"
            - "--lr=${trialParameters.learningRate}"
            - "--momentum=${trialParameters.momentum}"
      restartPolicy: Never
`

func tfjobTemplate() map[string]interface{} {
	return map[string]interface{}{
		"apiVersion": "kubeflow.org/v1", "kind": "TFJob",
		"metadata": map[string]interface{}{"labels": map[string]interface{}{"app": "mnist"}, "annotations": map[string]interface{}{"note": "n1"}},
		"spec": map[string]interface{}{"tfReplicaSpecs": map[string]interface{}{"Worker": map[string]interface{}{"replicas": int64(1),
			"template": map[string]interface{}{"spec": map[string]interface{}{"containers": []interface{}{map[string]interface{}{
				"name": "tensorflow", "image": "tf-mnist",
				"command": []interface{}{"python", "/mnist.py", "--lr=${trialParameters.learningRate}", "--layers=${trialParameters.numLayers}",
					"--trial=${trialParameters.trialName}", "--app=${trialParameters.appLabel}"},
			}}}}}}},
	}
}

func baseWorld() world {
	return world{
		Cfg: cfgIn{Mode: "ok",
			Sug: []cfgEntry{{"random", "img/random"}, {"tpe", "img/tpe"}, {"bayesianoptimization", "img/bo"}, {"enas", "img/enas"}, {"blank", "  "}},
			ES:  []cfgEntry{{"medianstop", "img/median"}, {"blank", ""}},
			MC: []cfgEntry{{"StdOut", "img/file"}, {"File", "img/file"}, {"TensorFlowEvent", "img/tf"}, {"PrometheusMetric", "img/prom"}},
		},
		CMs: []cmIn{{NS: "kubeflow", Name: "trial-templates", Data: map[string]string{"defaultTrialTemplate.yaml": cmTemplate, "garbage.yaml": "a: b: c: ][", "plain.txt": "hello",
			"broken.yaml": "kind: Job\napiVersion: batch/v1\nargs: [${trialParameters.learningRate}, ${trialParameters.momentum}\nb: ][\n"}}},
	}
}

func baseExp(shape int) *expv1.Experiment {
	goal := 0.99
	e := &expv1.Experiment{ObjectMeta: metav1.ObjectMeta{Name: "exp-a1", Namespace: "ns1"}}
	e.Spec = expv1.ExperimentSpec{
		MaxTrialCount: i32(6), ParallelTrialCount: i32(2), MaxFailedTrialCount: i32(3),
		Objective: &commonv1beta1.ObjectiveSpec{Type: commonv1beta1.ObjectiveTypeMaximize, Goal: &goal, ObjectiveMetricName: "accuracy", AdditionalMetricNames: []string{"loss"}},
		Algorithm: &commonv1beta1.AlgorithmSpec{AlgorithmName: "random"},
		Parameters: []expv1.ParameterSpec{
			{Name: "lr", ParameterType: expv1.ParameterTypeInt, FeasibleSpace: expv1.FeasibleSpace{Min: "1", Max: "5"}},
			{Name: "momentum", ParameterType: expv1.ParameterTypeCategorical, FeasibleSpace: expv1.FeasibleSpace{List: []string{"0.95", "0.85", "0.75"}}},
		},
	}
	tps := []expv1.TrialParameterSpec{{Name: "learningRate", Description: "lr", Reference: "lr"}, {Name: "momentum", Reference: "momentum"}}
	switch shape {
	case 0:
		e.Spec.TrialTemplate = &expv1.TrialTemplate{PrimaryContainerName: "training-container", TrialParameters: tps,
			TrialSource: expv1.TrialSource{TrialSpec: &unstructured.Unstructured{Object: jobTemplate()}}}
	case 1:
		e.Spec.TrialTemplate = &expv1.TrialTemplate{PrimaryContainerName: "training-container", TrialParameters: tps,
			SuccessCondition: expv1.DefaultJobSuccessCondition, FailureCondition: expv1.DefaultJobFailureCondition,
			TrialSource: expv1.TrialSource{ConfigMap: &expv1.ConfigMapSource{ConfigMapName: "trial-templates", ConfigMapNamespace: "kubeflow", TemplatePath: "defaultTrialTemplate.yaml"}}}
	case 2:
		e.Spec.Parameters = []expv1.ParameterSpec{
			{Name: "lr", ParameterType: expv1.ParameterTypeDouble, FeasibleSpace: expv1.FeasibleSpace{Min: "0.01", Max: "0.1", Step: "0.01"}},
			{Name: "layers", ParameterType: expv1.ParameterTypeDiscrete, FeasibleSpace: expv1.FeasibleSpace{List: []string{"2", "4", "8"}}},
		}
		e.Spec.TrialTemplate = &expv1.TrialTemplate{PrimaryContainerName: "tensorflow",
			TrialParameters: []expv1.TrialParameterSpec{{Name: "learningRate", Reference: "lr"}, {Name: "numLayers", Reference: "layers"},
				{Name: "trialName", Reference: "${trialSpec.Name}"}, {Name: "appLabel", Reference: "${trialSpec.Labels[app]}"}},
			TrialSource: expv1.TrialSource{TrialSpec: &unstructured.Unstructured{Object: tfjobTemplate()}}}
	case 3:
		e.Spec.Parameters = nil
		e.Spec.Algorithm.AlgorithmName = "enas"
		e.Spec.NasConfig = &expv1.NasConfig{GraphConfig: expv1.GraphConfig{NumLayers: i32(8), InputSizes: []int32{32, 32, 3}, OutputSizes: []int32{10}},
			Operations: []expv1.Operation{{OperationType: "convolution", Parameters: []expv1.ParameterSpec{{Name: "filter_size", ParameterType: expv1.ParameterTypeCategorical,
				FeasibleSpace: expv1.FeasibleSpace{List: []string{"3", "5"}}}}}}}
		tpl := jobTemplate()
		c := tpl["spec"].(map[string]interface{})["template"].(map[string]interface{})["spec"].(map[string]interface{})["containers"].([]interface{})[0].(map[string]interface{})
		c["command"] = []interface{}{"python3", "run.py", "--architecture=\"${trialParameters.neuralNetworkArchitecture}\"", "--nn_config=\"${trialParameters.neuralNetworkConfig}\""}
		e.Spec.TrialTemplate = &expv1.TrialTemplate{PrimaryContainerName: "training-container",
			TrialParameters: []expv1.TrialParameterSpec{{Name: "neuralNetworkArchitecture", Reference: "architecture"}, {Name: "neuralNetworkConfig", Reference: "nn_config"}},
			TrialSource:     expv1.TrialSource{TrialSpec: &unstructured.Unstructured{Object: tpl}}}
	}
	return e
}

func setCollector(r *rand.Rand, e *expv1.Experiment) string {
	fs := func(kind commonv1beta1.FileSystemKind, path string, f commonv1beta1.FileFormat) *commonv1beta1.SourceSpec {
		return &commonv1beta1.SourceSpec{FileSystemPath: &commonv1beta1.FileSystemPath{Kind: kind, Path: path, Format: f}}
	}
	switch r.Intn(10) {
	case 0:
		return "mc:absent"
	case 1:
		e.Spec.MetricsCollectorSpec = &commonv1beta1.MetricsCollectorSpec{Collector: &commonv1beta1.CollectorSpec{Kind: commonv1beta1.StdOutCollector}}
		return "mc:stdout"
	case 2:
		e.Spec.MetricsCollectorSpec = &commonv1beta1.MetricsCollectorSpec{Collector: &commonv1beta1.CollectorSpec{Kind: commonv1beta1.FileCollector}}
		return "mc:file-default"
	case 3:
		e.Spec.MetricsCollectorSpec = &commonv1beta1.MetricsCollectorSpec{Collector: &commonv1beta1.CollectorSpec{Kind: commonv1beta1.FileCollector},
			Source: fs(commonv1beta1.FileKind, "/var/log/m.json", commonv1beta1.JsonFormat)}
		return "mc:file-json"
	case 4:
		e.Spec.MetricsCollectorSpec = &commonv1beta1.MetricsCollectorSpec{Collector: &commonv1beta1.CollectorSpec{Kind: commonv1beta1.TfEventCollector},
			Source: fs(commonv1beta1.DirectoryKind, "/train", "")}
		return "mc:tfevent"
	case 5:
		e.Spec.MetricsCollectorSpec = &commonv1beta1.MetricsCollectorSpec{Collector: &commonv1beta1.CollectorSpec{Kind: commonv1beta1.PrometheusMetricCollector}}
		return "mc:prometheus-default"
	case 6:
		e.Spec.MetricsCollectorSpec = &commonv1beta1.MetricsCollectorSpec{Collector: &commonv1beta1.CollectorSpec{Kind: commonv1beta1.PrometheusMetricCollector},
			Source: &commonv1beta1.SourceSpec{HttpGet: &corev1.HTTPGetAction{Path: "/m", Port: intstr.FromInt(9090)}}}
		return "mc:prometheus"
	case 7:
		e.Spec.MetricsCollectorSpec = &commonv1beta1.MetricsCollectorSpec{Collector: &commonv1beta1.CollectorSpec{Kind: commonv1beta1.CustomCollector,
			CustomCollector: &corev1.Container{Name: "c", Image: "i"}}, Source: fs(commonv1beta1.FileKind, "/x/y", "")}
		return "mc:custom"
	case 8:
		e.Spec.MetricsCollectorSpec = &commonv1beta1.MetricsCollectorSpec{Collector: &commonv1beta1.CollectorSpec{Kind: commonv1beta1.PushCollector}}
		return "mc:push"
	}
	e.Spec.MetricsCollectorSpec = &commonv1beta1.MetricsCollectorSpec{Collector: &commonv1beta1.CollectorSpec{Kind: commonv1beta1.StdOutCollector},
		Source: &commonv1beta1.SourceSpec{Filter: &commonv1beta1.FilterSpec{MetricsFormat: []string{`([\w|-]+)\s*=\s*([+-]?\d+)`}}}}
	return "mc:stdout-filter"
}

// ---------------------------------------------------------------- mutations

type mutation struct {
	name string
	f    func(r *rand.Rand, in *c14Input) bool // false = not applicable
}

func tt(in *c14Input) *expv1.TrialTemplate { return in.Exp.Spec.TrialTemplate }
func mcs(in *c14Input) *commonv1beta1.MetricsCollectorSpec {
	if in.Exp.Spec.MetricsCollectorSpec == nil {
		in.Exp.Spec.MetricsCollectorSpec = &commonv1beta1.MetricsCollectorSpec{}
	}
	return in.Exp.Spec.MetricsCollectorSpec
}
func mcsrc(in *c14Input) *commonv1beta1.SourceSpec {
	m := mcs(in)
	if m.Source == nil {
		m.Source = &commonv1beta1.SourceSpec{}
	}
	return m.Source
}

// edits the template text wherever it lives
func editTemplate(in *c14Input, f func(obj map[string]interface{}), g func(s string) string) bool {
	t := tt(in)
	if t == nil {
		return false
	}
	if t.TrialSpec != nil && f != nil {
		f(t.TrialSpec.Object)
		return true
	}
	if t.ConfigMap != nil && g != nil {
		for i := range in.World.CMs {
			if in.World.CMs[i].Name == t.ConfigMap.ConfigMapName {
				if s, ok := in.World.CMs[i].Data[t.ConfigMap.TemplatePath]; ok {
					in.World.CMs[i].Data[t.ConfigMap.TemplatePath] = g(s)
					return true
				}
			}
		}
	}
	return false
}

func containerOf(obj map[string]interface{}) map[string]interface{} {
	var walk func(v interface{}) map[string]interface{}
	walk = func(v interface{}) map[string]interface{} {
		switch x := v.(type) {
		case map[string]interface{}:
			if cs, ok := x["containers"].([]interface{}); ok && len(cs) > 0 {
				if c, ok := cs[0].(map[string]interface{}); ok {
					return c
				}
			}
			for _, k := range keysOfAny(x) {
				if c := walk(x[k]); c != nil {
					return c
				}
			}
		}
		return nil
	}
	return walk(obj)
}

func keysOfAny(m map[string]interface{}) []string {
	var ks []string
	for k := range m {
		ks = append(ks, k)
	}
	sortStrings(ks)
	return ks
}

var badNames = []string{"a.b", "aB_c", "a-", "-a", "1abc", "", "Abc", "a b", "a/b", "abc\n", "ab-", "a_b", "exp.v2", "é",
	"abcdefghij-abcdefghij-abcdefghij-abcdefgh", "abcdefghij-abcdefghij-abcdefghij-abcdefghi", "a", "z9", "a--b", "x-1"}

var mutations = []mutation{
	{"name", func(r *rand.Rand, in *c14Input) bool { in.Exp.Name = kit.Pick(r, badNames); return true }},
	{"par:nil", func(r *rand.Rand, in *c14Input) bool { in.Exp.Spec.ParallelTrialCount = nil; return true }},
	{"par:val", func(r *rand.Rand, in *c14Input) bool {
		in.Exp.Spec.ParallelTrialCount = i32(kit.Pick(r, []int32{0, -1, 1, 6, 7, 100}))
		return true
	}},
	{"max:nil", func(r *rand.Rand, in *c14Input) bool { in.Exp.Spec.MaxTrialCount = nil; return true }},
	{"max:val", func(r *rand.Rand, in *c14Input) bool {
		in.Exp.Spec.MaxTrialCount = i32(kit.Pick(r, []int32{0, -3, 1, 2, 3, 50}))
		return true
	}},
	{"mf:nil", func(r *rand.Rand, in *c14Input) bool { in.Exp.Spec.MaxFailedTrialCount = nil; return true }},
	{"mf:val", func(r *rand.Rand, in *c14Input) bool {
		in.Exp.Spec.MaxFailedTrialCount = i32(kit.Pick(r, []int32{0, -1, 6, 7, 1}))
		return true
	}},
	{"objective:nil", func(r *rand.Rand, in *c14Input) bool { in.Exp.Spec.Objective = nil; return true }},
	{"objective:type", func(r *rand.Rand, in *c14Input) bool {
		if in.Exp.Spec.Objective == nil {
			return false
		}
		in.Exp.Spec.Objective.Type = commonv1beta1.ObjectiveType(kit.Pick(r, []string{"", "minimise", "MAXIMIZE", "minimize"}))
		return true
	}},
	{"objective:metric-empty", func(r *rand.Rand, in *c14Input) bool {
		if in.Exp.Spec.Objective == nil {
			return false
		}
		in.Exp.Spec.Objective.ObjectiveMetricName = ""
		if r.Intn(2) == 0 {
			in.Exp.Spec.Objective.AdditionalMetricNames = append(in.Exp.Spec.Objective.AdditionalMetricNames, "")
		}
		return true
	}},
	{"objective:additional-contains", func(r *rand.Rand, in *c14Input) bool {
		if in.Exp.Spec.Objective == nil {
			return false
		}
		in.Exp.Spec.Objective.AdditionalMetricNames = append(in.Exp.Spec.Objective.AdditionalMetricNames, in.Exp.Spec.Objective.ObjectiveMetricName)
		return true
	}},
	{"objective:goal-nil", func(r *rand.Rand, in *c14Input) bool {
		if in.Exp.Spec.Objective == nil {
			return false
		}
		in.Exp.Spec.Objective.Goal = nil
		return true
	}},
	{"algorithm:nil", func(r *rand.Rand, in *c14Input) bool { in.Exp.Spec.Algorithm = nil; return true }},
	{"algorithm:name", func(r *rand.Rand, in *c14Input) bool {
		if in.Exp.Spec.Algorithm == nil {
			return false
		}
		in.Exp.Spec.Algorithm.AlgorithmName = kit.Pick(r, []string{"", "unknown-algo", "blank", "tpe", "bayesianoptimization", "Random", "dup"})
		return true
	}},
	{"early:set", func(r *rand.Rand, in *c14Input) bool {
		in.Exp.Spec.EarlyStopping = &commonv1beta1.EarlyStoppingSpec{AlgorithmName: kit.Pick(r, []string{"medianstop", "medianstop", "", "nope", "blank"})}
		return true
	}},
	{"resume", func(r *rand.Rand, in *c14Input) bool {
		in.Exp.Spec.ResumePolicy = expv1.ResumePolicyType(kit.Pick(r, []string{"Never", "LongRunning", "FromVolume", "never", "Always", ""}))
		return true
	}},
	{"params:empty", func(r *rand.Rand, in *c14Input) bool { in.Exp.Spec.Parameters = nil; return true }},
	{"params:type", func(r *rand.Rand, in *c14Input) bool {
		if len(in.Exp.Spec.Parameters) == 0 {
			return false
		}
		p := &in.Exp.Spec.Parameters[r.Intn(len(in.Exp.Spec.Parameters))]
		p.ParameterType = expv1.ParameterType(kit.Pick(r, []string{"", "unknown", "float", "int", "double", "categorical", "discrete", "Int"}))
		return true
	}},
	{"params:distribution", func(r *rand.Rand, in *c14Input) bool {
		if len(in.Exp.Spec.Parameters) == 0 {
			return false
		}
		p := &in.Exp.Spec.Parameters[r.Intn(len(in.Exp.Spec.Parameters))]
		p.FeasibleSpace.Distribution = expv1.Distribution(kit.Pick(r, []string{"uniform", "logUniform", "normal", "logNormal", "unknown", "gaussian", "Uniform", "gaussian"}))
		return true
	}},
	{"params:feasible-zero", func(r *rand.Rand, in *c14Input) bool {
		if len(in.Exp.Spec.Parameters) == 0 {
			return false
		}
		in.Exp.Spec.Parameters[r.Intn(len(in.Exp.Spec.Parameters))].FeasibleSpace = expv1.FeasibleSpace{}
		return true
	}},
	{"params:feasible-shape", func(r *rand.Rand, in *c14Input) bool {
		if len(in.Exp.Spec.Parameters) == 0 {
			return false
		}
		p := &in.Exp.Spec.Parameters[r.Intn(len(in.Exp.Spec.Parameters))]
		switch r.Intn(6) {
		case 0:
			p.FeasibleSpace.List = []string{"a", "b"}
		case 1:
			p.FeasibleSpace.Min = ""
		case 2:
			p.FeasibleSpace.Max = ""
		case 3:
			p.FeasibleSpace.Min = "0"
		case 4:
			p.FeasibleSpace.Step = "1"
		case 5:
			p.FeasibleSpace.List = nil
		}
		return true
	}},
	{"params:add-unreferenced", func(r *rand.Rand, in *c14Input) bool {
		in.Exp.Spec.Parameters = append(in.Exp.Spec.Parameters, expv1.ParameterSpec{Name: "extra", ParameterType: expv1.ParameterTypeInt, FeasibleSpace: expv1.FeasibleSpace{Min: "1", Max: "3"}})
		return true
	}},
	{"params:duplicate-name", func(r *rand.Rand, in *c14Input) bool {
		if len(in.Exp.Spec.Parameters) == 0 {
			return false
		}
		in.Exp.Spec.Parameters = append(in.Exp.Spec.Parameters, in.Exp.Spec.Parameters[r.Intn(len(in.Exp.Spec.Parameters))])
		return true
	}},
	{"params:rename", func(r *rand.Rand, in *c14Input) bool {
		if len(in.Exp.Spec.Parameters) == 0 {
			return false
		}
		in.Exp.Spec.Parameters[r.Intn(len(in.Exp.Spec.Parameters))].Name = kit.Pick(r, []string{"", "other", "${trialSpec.Name}", "${trialSpec.Foo}"})
		return true
	}},
	{"nas:set", func(r *rand.Rand, in *c14Input) bool { in.Exp.Spec.NasConfig = &expv1.NasConfig{}; return true }},
	{"nas:nil", func(r *rand.Rand, in *c14Input) bool { in.Exp.Spec.NasConfig = nil; return true }},
	{"template:nil", func(r *rand.Rand, in *c14Input) bool { in.Exp.Spec.TrialTemplate = nil; return true }},
	{"template:primary-empty", func(r *rand.Rand, in *c14Input) bool {
		if tt(in) == nil {
			return false
		}
		tt(in).PrimaryContainerName = ""
		return true
	}},
	{"template:conditions", func(r *rand.Rand, in *c14Input) bool {
		if tt(in) == nil {
			return false
		}
		switch r.Intn(3) {
		case 0:
			tt(in).SuccessCondition = ""
		case 1:
			tt(in).FailureCondition = ""
		case 2:
			tt(in).SuccessCondition, tt(in).FailureCondition = "s", "f"
		}
		return true
	}},
	{"template:params-nil", func(r *rand.Rand, in *c14Input) bool {
		if tt(in) == nil {
			return false
		}
		tt(in).TrialParameters = nil
		return true
	}},
	{"template:source-none", func(r *rand.Rand, in *c14Input) bool {
		if tt(in) == nil {
			return false
		}
		tt(in).TrialSpec, tt(in).ConfigMap = nil, nil
		return true
	}},
	{"template:source-both", func(r *rand.Rand, in *c14Input) bool {
		if tt(in) == nil {
			return false
		}
		if tt(in).TrialSpec == nil {
			tt(in).TrialSpec = &unstructured.Unstructured{Object: jobTemplate()}
		}
		if tt(in).ConfigMap == nil {
			tt(in).ConfigMap = &expv1.ConfigMapSource{ConfigMapName: "trial-templates", ConfigMapNamespace: "kubeflow", TemplatePath: "defaultTrialTemplate.yaml"}
		}
		return true
	}},
	{"template:to-configmap", func(r *rand.Rand, in *c14Input) bool {
		if tt(in) == nil {
			return false
		}
		tt(in).TrialSpec = nil
		tt(in).ConfigMap = &expv1.ConfigMapSource{ConfigMapName: "trial-templates", ConfigMapNamespace: "kubeflow", TemplatePath: "defaultTrialTemplate.yaml"}
		return true
	}},
	{"template:configmap-field", func(r *rand.Rand, in *c14Input) bool {
		if tt(in) == nil || tt(in).ConfigMap == nil {
			return false
		}
		c := tt(in).ConfigMap
		switch r.Intn(7) {
		case 0:
			c.ConfigMapName = ""
		case 1:
			c.ConfigMapNamespace = ""
		case 2:
			c.TemplatePath = ""
		case 3:
			c.ConfigMapName = "absent"
		case 4:
			c.ConfigMapNamespace = "default"
		case 5:
			c.TemplatePath = kit.Pick(r, []string{"absent.yaml", "garbage.yaml", "plain.txt", "broken.yaml", "broken.yaml"})
		case 6:
			in.World.CMs = nil
		}
		return true
	}},
	{"tparam:malformed", func(r *rand.Rand, in *c14Input) bool {
		if tt(in) == nil || len(tt(in).TrialParameters) == 0 {
			return false
		}
		p := &tt(in).TrialParameters[r.Intn(len(tt(in).TrialParameters))]
		switch r.Intn(4) {
		case 0:
			p.Name = ""
		case 1:
			p.Reference = ""
		case 2:
			p.Name = "a{b"
		case 3:
			p.Name = "x}"
		}
		return true
	}},
	{"tparam:duplicate", func(r *rand.Rand, in *c14Input) bool {
		if tt(in) == nil || len(tt(in).TrialParameters) == 0 {
			return false
		}
		p := tt(in).TrialParameters[r.Intn(len(tt(in).TrialParameters))]
		switch r.Intn(3) {
		case 0:
			p.Name = "otherName"
		case 1:
			p.Reference = "otherRef"
		}
		pos := r.Intn(len(tt(in).TrialParameters) + 1)
		tps := append([]expv1.TrialParameterSpec{}, tt(in).TrialParameters[:pos]...)
		tps = append(tps, p)
		tt(in).TrialParameters = append(tps, tt(in).TrialParameters[pos:]...)
		return true
	}},
	{"tparam:reference", func(r *rand.Rand, in *c14Input) bool {
		if tt(in) == nil || len(tt(in).TrialParameters) == 0 {
			return false
		}
		ref := kit.Pick(r, []string{"nope", "${trialSpec.Name}", "${trialSpec.Namespace}",
			"${trialSpec.Kind}", "${trialSpec.APIVersion}", "${trialSpec.Labels[app]}", "${trialSpec.Labels[missing]}", "${trialSpec.Annotations[note]}",
			"${trialSpec.Annotations[zz]}", "${trialSpec.Foo}", "${trialSpec.Labels}", "x${trialSpec.Name}y", "${trialSpec.name}", "${trialSpec.kind}", "${trialSpec.labels[app]}", "${trialSpec.Foo[bar]}", "${trialSpec.}",
			// oddly indexed references: empty, unclosed, repeated, nested index
			"${trialSpec.Labels[]}", "${trialSpec.Annotations[]}", "${trialSpec.Labels[app}", "${trialSpec.Labels[app][app]}", "${trialSpec.Annotations[note][0]}",
			"${trialSpec.Labels[[app]]}", "${trialSpec.Labels]app[}", "${trialSpec.Name[0]}", "${trialSpec.Labels[app]x}",
			"lr", "momentum", "extra"})
		i := r.Intn(len(tt(in).TrialParameters))
		if strings.HasPrefix(ref, "${trialSpec.") {
			// prefer to replace a metadata reference, so that no search-space parameter loses its only reference
			var metas []int
			for j, tp := range tt(in).TrialParameters {
				if strings.HasPrefix(tp.Reference, "${trialSpec.") {
					metas = append(metas, j)
				}
			}
			if len(metas) > 0 {
				i = metas[r.Intn(len(metas))]
			}
		}
		tt(in).TrialParameters[i].Reference = ref
		return true
	}},
	{"tparam:name-unused", func(r *rand.Rand, in *c14Input) bool {
		if tt(in) == nil || len(tt(in).TrialParameters) == 0 {
			return false
		}
		tt(in).TrialParameters[r.Intn(len(tt(in).TrialParameters))].Name = kit.Pick(r, []string{"notInTemplate", "test-value", "learningRat", "momentum"})
		return true
	}},
	{"tparam:drop", func(r *rand.Rand, in *c14Input) bool {
		if tt(in) == nil || len(tt(in).TrialParameters) == 0 {
			return false
		}
		i := r.Intn(len(tt(in).TrialParameters))
		tt(in).TrialParameters = append(append([]expv1.TrialParameterSpec{}, tt(in).TrialParameters[:i]...), tt(in).TrialParameters[i+1:]...)
		return true
	}},
	{"tparam:add", func(r *rand.Rand, in *c14Input) bool {
		if tt(in) == nil {
			return false
		}
		tt(in).TrialParameters = append(tt(in).TrialParameters, expv1.TrialParameterSpec{Name: kit.Pick(r, []string{"extraName", "learningRate", "trialNs"}),
			Reference: kit.Pick(r, []string{"extra", "${trialSpec.Namespace}", "lr", "${trialSpec.Labels[app]}", "${trialSpec.namespace}", "${trialSpec.APIversion}", "${trialSpec.Labels[missing]}"})})
		if r.Intn(2) == 0 {
			n := tt(in).TrialParameters[len(tt(in).TrialParameters)-1].Name
			editTemplate(in, func(obj map[string]interface{}) {
				if c := containerOf(obj); c != nil {
					if cmd, ok := c["command"].([]interface{}); ok {
						c["command"] = append(cmd, "--x=${trialParameters."+n+"}")
					}
				}
			}, func(s string) string {
				return strings.Replace(s, "      restartPolicy", "            - \"--x=${trialParameters."+n+"}\"\n      restartPolicy", 1)
			})
		}
		return true
	}},
	{"tpl:extra-placeholder", func(r *rand.Rand, in *c14Input) bool {
		ph := kit.Pick(r, []string{"--y=${trialParameters.undeclared}", "--y=${trialParameters.}", "--y=${trialParameters.a}b}", "--y=${trialparameters.x}", "--y=${trialParameters.${trialParameters.learningRate}}"})
		return editTemplate(in, func(obj map[string]interface{}) {
			if c := containerOf(obj); c != nil {
				if cmd, ok := c["command"].([]interface{}); ok {
					c["command"] = append(cmd, ph)
				}
			}
		}, func(s string) string {
			return strings.Replace(s, "      restartPolicy", "            - \""+ph+"\"\n      restartPolicy", 1)
		})
	}},
	{"tpl:metadata", func(r *rand.Rand, in *c14Input) bool {
		which := r.Intn(3)
		return editTemplate(in, func(obj map[string]interface{}) {
			md, _ := obj["metadata"].(map[string]interface{})
			if md == nil {
				md = map[string]interface{}{}
				obj["metadata"] = md
			}
			switch which {
			case 0:
				md["name"] = "fixed"
			case 1:
				md["namespace"] = "fixed-ns"
			case 2:
				md["labels"] = map[string]interface{}{"app": "other", "tier": "t"}
			}
		}, func(s string) string {
			return s + kit.Pick(r, []string{"metadata:\n  name: fixed\n", "metadata:\n  namespace: nsx\n", "metadata:\n  labels:\n    app: z\n"})
		})
	}},
	{"tpl:gvk", func(r *rand.Rand, in *c14Input) bool {
		which := r.Intn(4)
		return editTemplate(in, func(obj map[string]interface{}) {
			switch which {
			case 0, 1: // an inline trialSpec without kind cannot be decoded from JSON at all
				delete(obj, "apiVersion")
			case 2:
				obj["kind"] = "PyTorchJob"
			case 3:
				obj["apiVersion"] = "batch/v2"
			}
		}, func(s string) string {
			switch which {
			case 0:
				return strings.Replace(s, "kind: Job\n", "", 1)
			case 1:
				return strings.Replace(s, "apiVersion: batch/v1\n", "", 1)
			case 2:
				return strings.Replace(s, "kind: Job\n", "kind: MPIJob\n", 1)
			}
			return strings.Replace(s, "batch/v1", "batch/v2", 1)
		})
	}},
	{"tpl:bad-job-field", func(r *rand.Rand, in *c14Input) bool {
		which := r.Intn(4)
		return editTemplate(in, func(obj map[string]interface{}) {
			sp, _ := obj["spec"].(map[string]interface{})
			if sp == nil {
				return
			}
			switch which {
			case 0:
				sp["bogusField"] = "x"
			case 1:
				sp["backoffLimit"] = "three"
			case 2:
				if c := containerOf(obj); c != nil {
					c["resources"] = map[string]interface{}{"limits": map[string]interface{}{"nvidia.com/gpu": "1"}}
				}
			case 3:
				if c := containerOf(obj); c != nil {
					c["imagePullPolice"] = "Always"
				}
			}
		}, func(s string) string {
			switch which {
			case 0:
				return strings.Replace(s, "spec:\n  template:", "spec:\n  bogusField: x\n  template:", 1)
			case 1:
				return strings.Replace(s, "spec:\n  template:", "spec:\n  backoffLimit: three\n  template:", 1)
			case 2:
				return strings.Replace(s, "          image:", "          resources:\n            limits:\n              nvidia.com/gpu: 1\n          image:", 1)
			}
			return strings.Replace(s, "          image:", "          imagePullPolice: Always\n          image:", 1)
		})
	}},
	{"mc:nil", func(r *rand.Rand, in *c14Input) bool { in.Exp.Spec.MetricsCollectorSpec = nil; return true }},
	{"mc:collector-nil", func(r *rand.Rand, in *c14Input) bool { mcs(in).Collector = nil; return true }},
	{"mc:kind", func(r *rand.Rand, in *c14Input) bool {
		m := mcs(in)
		if m.Collector == nil {
			m.Collector = &commonv1beta1.CollectorSpec{}
		}
		m.Collector.Kind = commonv1beta1.CollectorKind(kit.Pick(r, []string{"StdOut", "File", "TensorFlowEvent", "PrometheusMetric", "Custom", "Push", "None", "", "file"}))
		return true
	}},
	{"mc:source-nil", func(r *rand.Rand, in *c14Input) bool { mcs(in).Source = nil; return true }},
	{"mc:source-empty", func(r *rand.Rand, in *c14Input) bool { mcs(in).Source = &commonv1beta1.SourceSpec{}; return true }},
	{"mc:fs", func(r *rand.Rand, in *c14Input) bool {
		s := mcsrc(in)
		if s.FileSystemPath == nil || r.Intn(4) == 0 {
			s.FileSystemPath = &commonv1beta1.FileSystemPath{}
		}
		switch r.Intn(4) {
		case 0:
			s.FileSystemPath.Kind = commonv1beta1.FileSystemKind(kit.Pick(r, []string{"File", "Directory", "Invalid", "", "file"}))
		case 1:
			s.FileSystemPath.Path = kit.Pick(r, []string{"", "relative/p", "/abs/p", "./x", "/"})
		case 2:
			s.FileSystemPath.Format = commonv1beta1.FileFormat(kit.Pick(r, []string{"TEXT", "JSON", "", "json", "XML"}))
		}
		return true
	}},
	{"mc:fs-nil", func(r *rand.Rand, in *c14Input) bool { mcsrc(in).FileSystemPath = nil; return true }},
	{"mc:http", func(r *rand.Rand, in *c14Input) bool {
		s := mcsrc(in)
		if s.HttpGet == nil || r.Intn(4) == 0 {
			s.HttpGet = &corev1.HTTPGetAction{}
		}
		switch r.Intn(3) {
		case 0:
			s.HttpGet.Port = kit.Pick(r, []intstr.IntOrString{intstr.FromInt(0), intstr.FromInt(-5), intstr.FromInt(8080), intstr.FromString("9090"), intstr.FromString("http"),
				intstr.FromString("0"), intstr.FromString("00"), intstr.FromString(""), intstr.FromString("-1")})
		case 1:
			s.HttpGet.Path = kit.Pick(r, []string{"", "metrics", "/metrics", "/"})
		}
		return true
	}},
	{"mc:http-nil", func(r *rand.Rand, in *c14Input) bool { mcsrc(in).HttpGet = nil; return true }},
	{"mc:filter", func(r *rand.Rand, in *c14Input) bool {
		s := mcsrc(in)
		n := r.Intn(4)
		s.Filter = &commonv1beta1.FilterSpec{}
		for i := 0; i < n; i++ {
			s.Filter.MetricsFormat = append(s.Filter.MetricsFormat, kit.Pick(r, []string{`(\w+)=(\d+)`, `(\w+)=\d+`, `(\w+=(\d+)`, `[`, `(a)(b)(c)`, `\((a)\)`, ``, `((a)b)`}))
		}
		return true
	}},
	{"mc:custom-container", func(r *rand.Rand, in *c14Input) bool {
		m := mcs(in)
		if m.Collector == nil {
			return false
		}
		if m.Collector.CustomCollector == nil {
			m.Collector.CustomCollector = &corev1.Container{Name: "cc"}
		} else {
			m.Collector.CustomCollector = nil
		}
		return true
	}},
	{"cfg:mode", func(r *rand.Rand, in *c14Input) bool {
		in.World.Cfg.Mode = kit.Pick(r, []string{"missing", "nokey", "garbage"})
		return true
	}},
	{"cfg:entries", func(r *rand.Rand, in *c14Input) bool {
		c := &in.World.Cfg
		switch r.Intn(6) {
		case 0:
			c.Sug = append(c.Sug, cfgEntry{"random", ""}) // last match wins: blank image shadows the good one
		case 1:
			c.Sug = append([]cfgEntry{{"random", ""}}, c.Sug...)
		case 2:
			c.MC = nil
		case 3:
			c.MC = append(c.MC, cfgEntry{kit.Pick(r, []string{"StdOut", "File", "TensorFlowEvent", "PrometheusMetric"}), " \t"})
		case 4:
			c.ES = append(c.ES, cfgEntry{"medianstop", ""})
		case 5:
			c.Sug = nil
		}
		return true
	}},
}

func (c14) Gen(r *rand.Rand, i, n int) any {
	in := c14Input{Exp: baseExp(r.Intn(4)), World: baseWorld(), Dflt: r.Intn(10) != 0, RunSeed: r.Int63()}
	in.Muts = append(in.Muts, setCollector(r, in.Exp))
	if r.Intn(3) == 0 {
		in.Exp.Name = kit.Pick(r, []string{"a", "exp", "my-exp-01", "x1-y2-z3", "abcdefghij-abcdefghij-abcdefghij-abcdefgh"})
	}
	if r.Intn(4) == 0 {
		in.Exp.Spec.EarlyStopping = &commonv1beta1.EarlyStoppingSpec{AlgorithmName: "medianstop"}
	}
	if r.Intn(4) == 0 {
		in.Exp.Spec.MaxTrialCount, in.Exp.Spec.MaxFailedTrialCount = nil, nil
	}
	if r.Intn(4) == 0 {
		in.Exp.Spec.ParallelTrialCount = nil
	}
	// mutations that bite on this particular shape are drawn more often
	var relevant []int
	for k, m := range mutations {
		switch {
		case strings.HasPrefix(m.name, "mc:fs"), strings.HasPrefix(m.name, "mc:http"), m.name == "mc:filter", m.name == "mc:source-nil", m.name == "mc:source-empty":
			relevant = append(relevant, k)
		case m.name == "template:configmap-field" && in.Exp.Spec.TrialTemplate.ConfigMap != nil:
			relevant = append(relevant, k, k, k, k)
		case m.name == "params:distribution", m.name == "params:feasible-shape", strings.HasPrefix(m.name, "tpl:"):
			relevant = append(relevant, k)
		case m.name == "tparam:reference":
			// the classification of references (search-space parameter / trial metadata) is where validator and generator must agree
			relevant = append(relevant, k, k, k, k, k, k)
		case m.name == "tparam:add":
			relevant = append(relevant, k, k)
		}
	}
	nm := []int{0, 1, 1, 1, 2, 2, 3}[r.Intn(7)]
	for k := 0; k < nm; k++ {
		m := mutations[r.Intn(len(mutations))]
		if r.Intn(5) < 2 {
			m = mutations[relevant[r.Intn(len(relevant))]]
		}
		if m.f(r, &in) {
			in.Muts = append(in.Muts, m.name)
		}
	}
	return canon(in)
}

// canon passes the input through JSON, the form in which the webhook (and a replay) receives it.
func canon(in c14Input) c14Input {
	raw, err := json.Marshal(in)
	if err != nil {
		panic(err)
	}
	var out c14Input
	if err := json.Unmarshal(raw, &out); err != nil {
		in.Muts = append(in.Muts, "not-json-representable")
		return in
	}
	return out
}

func (c14) Decode(raw json.RawMessage) (any, error) {
	var in c14Input
	err := json.Unmarshal(raw, &in)
	if err == nil && in.Exp == nil {
		err = fmt.Errorf("no experiment in the replayed input")
	}
	return in, err
}

// ---------------------------------------------------------------- known-finding domains (decided from the input alone)

var (
	nameUnanchored = regexp.MustCompile("^[a-z]([-a-z0-9]*[a-z0-9])?")
	nameAnchored   = regexp.MustCompile("^[a-z]([-a-z0-9]*[a-z0-9])?$")
)

func domainKey(prop string, e *expv1.Experiment, w world) string {
	if k := kit.KeyIf(prop, "unanchored-name", nameUnanchored.MatchString(e.Name) && !nameAnchored.MatchString(e.Name)); k != "" {
		return k
	}
	t := e.Spec.TrialTemplate
	if len(e.Spec.Parameters) > 0 && t != nil {
		seen := map[string]bool{}
		dup := false
		for _, p := range e.Spec.Parameters {
			if seen[p.Name] {
				dup = true
			}
			seen[p.Name] = true
		}
		if k := kit.KeyIf(prop, "duplicate-parameter-name", dup); k != "" {
			return k
		}
		refs := map[string]bool{}
		for _, tp := range t.TrialParameters {
			if len(metaRe.FindStringSubmatch(tp.Reference)) == 0 {
				refs[tp.Reference] = true
			}
		}
		unref := false
		for _, p := range e.Spec.Parameters {
			if !refs[p.Name] {
				unref = true
			}
		}
		if k := kit.KeyIf(prop, "unreferenced-parameter", unref); k != "" {
			return k
		}
	}
	if t != nil {
		// a reference to trial metadata the generator cannot resolve: a label/annotation the template does not carry
		var labels, annots map[string]string
		if t.TrialSpec != nil {
			labels, annots = t.TrialSpec.GetLabels(), t.TrialSpec.GetAnnotations()
		} else if t.ConfigMap != nil {
			for _, cm := range w.CMs {
				if cm.Name == t.ConfigMap.ConfigMapName && cm.NS == t.ConfigMap.ConfigMapNamespace {
					if u, err := util.ConvertStringToUnstructured(cm.Data[t.ConfigMap.TemplatePath]); err == nil {
						labels, annots = u.GetLabels(), u.GetAnnotations()
					}
				}
			}
		}
		bad := false
		for _, tp := range t.TrialParameters {
			m := metaRe.FindStringSubmatch(tp.Reference)
			if len(m) == 0 {
				continue
			}
			key, idx := m[1], "" // the generator looks up the empty index when the reference has none
			if m2 := parseRe.FindStringSubmatch(key); len(m2) == 3 {
				key, idx = m2[1], m2[2]
			}
			switch key {
			case "Labels":
				if _, ok := labels[idx]; !ok {
					bad = true
				}
			case "Annotations":
				if _, ok := annots[idx]; !ok {
					bad = true
				}
			}
			// an unknown key is rejected: by rule 37, or - when a parameter carries the whole reference as its name - by rule 60
		}
		if k := kit.KeyIf(prop, "unresolvable-trial-metadata", bad); k != "" {
			return k
		}
	}
	return ""
}

// ---------------------------------------------------------------- run

type validation14 struct {
	env, exp, implExp, impl string
	errs                    field.ErrorList
	human                   []string
	panicked                string
	validated               *expv1.Experiment
	gen                     manifest.Generator
}

// validate runs SetDefault (optionally) and the real ValidateExperiment(instance, old).
// prePair is an earlier update request answered by the same validator object (same webhook process)
type prePair struct {
	New *expv1.Experiment `json:"new"`
	Old *expv1.Experiment `json:"old"`
}

func runValidate(w world, e *expv1.Experiment, old *expv1.Experiment, dflt bool, pre ...prePair) validation14 {
	var v validation14
	cl := w.client()
	v.gen = manifest.New(cl)
	val := validator.New(v.gen)
	for _, p := range pre {
		pn := p.New.DeepCopy()
		if dflt {
			pn.SetDefault()
		}
		_ = kit.Recover(func() { _ = val.ValidateExperiment(pn, p.Old.DeepCopy()) })
	}
	inst := e.DeepCopy()
	v.exp = projExp(inst)
	if dflt {
		inst.SetDefault()
	}
	v.implExp = projExp(inst)
	v.env = projEnv(w, computeFacts(inst, v.gen))
	v.validated = inst
	var oldc *expv1.Experiment
	if old != nil {
		oldc = old.DeepCopy()
	}
	subject := inst.DeepCopy()
	v.panicked = kit.Recover(func() { v.errs = val.ValidateExperiment(subject, oldc) })
	if v.panicked != "" {
		v.impl = "(Crash 0%nat)"
		v.human = []string{"panic: " + v.panicked}
	} else {
		coq, human := projErrs(v.errs)
		v.impl = "(Ok " + coq + ")"
		v.human = human
	}
	return v
}

const suffixAlphabet = "bcdfghjklmnpqrstvwxz2456789" // k8s.io/apimachinery/pkg/util/rand

func feasibleValue(r *rand.Rand, p expv1.ParameterSpec) string {
	switch p.ParameterType {
	case expv1.ParameterTypeInt:
		lo, e1 := strconv.Atoi(p.FeasibleSpace.Min)
		hi, e2 := strconv.Atoi(p.FeasibleSpace.Max)
		if e1 != nil || e2 != nil || hi < lo {
			return "1"
		}
		return strconv.Itoa(lo + r.Intn(hi-lo+1))
	case expv1.ParameterTypeDouble:
		lo, e1 := strconv.ParseFloat(p.FeasibleSpace.Min, 64)
		hi, e2 := strconv.ParseFloat(p.FeasibleSpace.Max, 64)
		if e1 != nil || e2 != nil || hi < lo {
			return "0.5"
		}
		return strconv.FormatFloat(lo+r.Float64()*(hi-lo), 'f', 4, 64)
	}
	if len(p.FeasibleSpace.List) > 0 {
		return kit.Pick(r, p.FeasibleSpace.List)
	}
	return "v1"
}

func classifyGenErr(err error, f tplFacts, inline bool) int {
	s := err.Error()
	switch {
	case strings.Contains(s, "configMap not found"), strings.Contains(s, "unable to find trial template in ConfigMap"), strings.Contains(s, "failed to convert unstructured to string"):
		return 1
	case strings.Contains(s, "unable to find non-meta parameter"):
		return 3
	case strings.Contains(s, "illegal reference of trial metadata"):
		return 4
	case strings.Contains(s, "unable to find parameter from ParameterAssignment in TrialParameters"):
		return 5
	case strings.Contains(s, "failed to convert string to unstructured"):
		if !inline && !f.RawConv {
			return 2
		}
		return 0 // applyParameters succeeded; the substituted text is not YAML/JSON -> not well formed
	}
	return 9
}

func (c14) Run(input any) kit.Case {
	in := input.(c14Input)
	var c kit.Case
	c.Input = in
	v := runValidate(in.World, in.Exp, nil, in.Dflt)
	names, runs := "None", "[]"
	admittedImpl := v.panicked == "" && len(v.errs) == 0
	obs := map[string]any{"errors": v.human}
	if admittedImpl && in.Dflt {
		// the same experiment through the two webhook handlers, as the API server calls them: on CREATE, and on an UPDATE
		// that re-submits the original manifest over the stored (defaulted) object (kubectl replace -f, kubectl apply)
		ok1, st1, n1 := admissionChain(in.World, in.Exp, nil)
		if gv := chainViolation("CREATE", ok1, st1, n1); gv != "" {
			c.GoViol = gv
		} else if !ok1 {
			c.GoViol = "CREATE through the webhook chain is refused although ValidateExperiment(SetDefault(exp)) reports no error"
		}
		ok2, st2, n2 := admissionChain(in.World, in.Exp, v.validated)
		if gv := chainViolation("UPDATE with the original manifest", ok2, st2, n2); gv != "" && c.GoViol == "" {
			c.GoViol = gv
		}
		r := rand.New(rand.NewSource(in.RunSeed))
		e := v.validated
		algo := ""
		if e.Spec.Algorithm != nil {
			algo = e.Spec.Algorithm.AlgorithmName
		}
		sug := &sugv1.Suggestion{ObjectMeta: metav1.ObjectMeta{Name: e.Name, Namespace: e.Namespace}, Spec: sugv1.SuggestionSpec{Algorithm: &commonv1beta1.AlgorithmSpec{AlgorithmName: algo}}}
		svc, dep := util.GetSuggestionServiceName(sug), util.GetSuggestionDeploymentName(sug)
		suffix := make([]byte, 8)
		for k := range suffix {
			suffix[k] = suffixAlphabet[r.Intn(len(suffixAlphabet))]
		}
		trialName := fmt.Sprintf("%s-%s", e.Name, string(suffix))
		algoOK := len(validation.IsDNS1123Label(algo)) == 0 && len(algo) <= 22
		svcOK := len(validation.IsDNS1035Label(svc)) == 0
		depOK := len(validation.IsDNS1123Subdomain(dep)) == 0
		trialOK := len(validation.IsDNS1123Subdomain(trialName)) == 0 && len(validation.IsDNS1123Label(trialName)) == 0
		inCfg := false
		for _, ce := range in.World.Cfg.Sug {
			if ce.Key == algo {
				inCfg = true
			}
		}
		names = fmt.Sprintf("(Some {| n_algo := %s; n_algo_ok := %s; n_service_ok := %s; n_deploy_ok := %s; n_suffix := %s; n_trial_ok := %s; n_algo_in_cfg := %s |})",
			cstr(algo), kit.Bool(algoOK), kit.Bool(svcOK), kit.Bool(depOK), cstr(string(suffix)), kit.Bool(trialOK), kit.Bool(inCfg))
		obs["service"], obs["trial"] = svc, trialName
		obs["names_valid"] = []bool{svcOK, depOK, trialOK}
		// build trials with the real generator (hyperparameter experiments only: NAS assignments come from the algorithm service)
		if len(e.Spec.Parameters) > 0 {
			facts := computeFacts(e, v.gen)
			var rs []string
			var runObs []string
			// like createTrials, which builds every trial of a batch from one in-memory experiment: the three runs share a copy
			// of e (the model was told about e before, v.implExp)
			eRun := e.DeepCopy()
			for k := 0; k < 3; k++ {
				var asg []commonv1beta1.ParameterAssignment
				for _, p := range e.Spec.Parameters {
					asg = append(asg, commonv1beta1.ParameterAssignment{Name: p.Name, Value: feasibleValue(r, p)})
				}
				asgArg := append([]commonv1beta1.ParameterAssignment(nil), asg...) // asg is printed for the model below
				var u *unstructured.Unstructured
				var err error
				pan := kit.Recover(func() { u, err = v.gen.GetRunSpecWithHyperParameters(eRun, trialName, e.Namespace, asgArg) })
				impl, well := "(Ok tt)", false
				switch {
				case pan != "":
					impl = "(Crash 0%nat)"
					runObs = append(runObs, "panic: "+pan)
				case err != nil:
					code := classifyGenErr(err, facts, e.Spec.TrialTemplate != nil && e.Spec.TrialTemplate.TrialSpec != nil)
					if code != 0 {
						impl = fmt.Sprintf("(Err %d%%nat)", code)
					}
					msg := err.Error()
					if len(msg) > 160 {
						msg = msg[:160] + "..."
					}
					runObs = append(runObs, "error: "+msg)
				default:
					js, _ := json.Marshal(u.Object)
					// well formed: named after the trial, and no placeholder of a DECLARED trial parameter is left
					well = u.GetName() == trialName && u.GetNamespace() == e.Namespace
					for _, tp := range e.Spec.TrialTemplate.TrialParameters {
						if tp.Name != "" && strings.Contains(string(js), "${trialParameters."+tp.Name+"}") {
							well = false
						}
					}
					runObs = append(runObs, fmt.Sprintf("ok wellformed=%v", well))
				}
				rs = append(rs, fmt.Sprintf("{| r_asg := %s; r_impl := %s; r_wellformed := %s |}",
					kit.ListOf(asg, func(a commonv1beta1.ParameterAssignment) string { return "(" + cstr(a.Name) + ", " + cstr(a.Value) + ")" }), impl, kit.Bool(well)))
			}
			runs = kit.List(rs)
			obs["runs"] = runObs
		}
	}
	c.Observed = obs
	c.Coq = withStrings(fmt.Sprintf("C14.Case %s %s %s %s %s %s %s", v.env, v.exp, kit.Bool(in.Dflt), v.implExp, v.impl, names, runs))
	c.Sig = v.env + v.exp + kit.Bool(in.Dflt)
	c.Key = domainKey("C14", in.Exp, in.World)
	c.Nontrivial = len(in.Muts) > 1 || admittedImpl
	c.Tags = append(c.Tags, in.Muts...)
	switch {
	case v.panicked != "":
		c.Tags = append(c.Tags, "result:panic")
	case admittedImpl:
		c.Tags = append(c.Tags, "result:admitted")
	default:
		c.Tags = append(c.Tags, "result:rejected")
		for _, h := range v.human {
			c.Tags = append(c.Tags, "rule:"+strings.SplitN(h, " ", 2)[0])
		}
	}
	if !in.Dflt {
		c.Tags = append(c.Tags, "no-defaulting")
	}
	return c
}
