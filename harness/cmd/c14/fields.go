package main

// Reflection over ExperimentSpec: type-level leaf and node paths (the translator output Gen/SpecFields.v), a populated
// instance in which every path exists, one mutation per path, and the canonical digest of "everything but the budget fields".

import (
	"crypto/sha256"
	"encoding/hex"
	"encoding/json"
	"fmt"
	"os"
	"reflect"
	"sort"
	"strings"
	"time"

	"k8s.io/apimachinery/pkg/api/resource"
	metav1 "k8s.io/apimachinery/pkg/apis/meta/v1"
	"k8s.io/apimachinery/pkg/apis/meta/v1/unstructured"
	"k8s.io/apimachinery/pkg/util/intstr"

	expv1 "github.com/kubeflow/katib/pkg/apis/controller/experiments/v1beta1"

	"verifharness/internal/kit"
)

var (
	tQuantity = reflect.TypeOf(resource.Quantity{})
	tIntStr   = reflect.TypeOf(intstr.IntOrString{})
	tTime     = reflect.TypeOf(metav1.Time{})
	tUnstr    = reflect.TypeOf(unstructured.Unstructured{})
)

func atomic(t reflect.Type) bool { return t == tQuantity || t == tIntStr || t == tTime || t == tUnstr }

// Path syntax: fields joined by '.', "[]" = any element of a slice or map; node paths carry a suffix:
// '^' pointer, '#' slice, '%' map.
func typePaths(t reflect.Type, path string, stack map[reflect.Type]bool, leaves, nodes *[]string) {
	if atomic(t) {
		*leaves = append(*leaves, path)
		return
	}
	switch t.Kind() {
	case reflect.Ptr:
		*nodes = append(*nodes, path+"^")
		typePaths(t.Elem(), path, stack, leaves, nodes)
	case reflect.Struct:
		if stack[t] {
			*leaves = append(*leaves, path+"(recursive)")
			return
		}
		stack[t] = true
		for i := 0; i < t.NumField(); i++ {
			f := t.Field(i)
			if f.PkgPath != "" {
				*leaves = append(*leaves, path+"."+f.Name+"(unexported)")
				continue
			}
			p := f.Name
			if path != "" {
				p = path + "." + f.Name
			}
			typePaths(f.Type, p, stack, leaves, nodes)
		}
		delete(stack, t)
	case reflect.Slice, reflect.Array:
		*nodes = append(*nodes, path+"#")
		typePaths(t.Elem(), path+"[]", stack, leaves, nodes)
	case reflect.Map:
		*nodes = append(*nodes, path+"%")
		typePaths(t.Elem(), path+"[]", stack, leaves, nodes)
	case reflect.Interface, reflect.Func, reflect.Chan, reflect.UnsafePointer:
		*leaves = append(*leaves, path+"(opaque:"+t.Kind().String()+")")
	default:
		*leaves = append(*leaves, path)
	}
}

func specPaths() (leaves, nodes []string) {
	typePaths(reflect.TypeOf(expv1.ExperimentSpec{}), "", map[reflect.Type]bool{}, &leaves, &nodes)
	return
}

var budgetFields = map[string]bool{"ParallelTrialCount": true, "MaxTrialCount": true, "MaxFailedTrialCount": true}

func isBudgetPath(p string) bool { return budgetFields[strings.TrimRight(p, "^")] }

// populate fills every pointer, slice and map so that every type-level path exists in the value.
func populate(v reflect.Value) {
	t := v.Type()
	switch {
	case t == tQuantity:
		v.Set(reflect.ValueOf(resource.MustParse("1")))
		return
	case t == tIntStr:
		v.Set(reflect.ValueOf(intstr.FromInt(1)))
		return
	case t == tTime:
		v.Set(reflect.ValueOf(metav1.NewTime(time.Unix(1700000000, 0).UTC())))
		return
	case t == tUnstr:
		v.Set(reflect.ValueOf(unstructured.Unstructured{Object: jobTemplate()}))
		return
	}
	switch t.Kind() {
	case reflect.Ptr:
		v.Set(reflect.New(t.Elem()))
		populate(v.Elem())
	case reflect.Struct:
		for i := 0; i < t.NumField(); i++ {
			if t.Field(i).PkgPath == "" {
				populate(v.Field(i))
			}
		}
	case reflect.Slice:
		v.Set(reflect.MakeSlice(t, 1, 1))
		populate(v.Index(0))
	case reflect.Map:
		v.Set(reflect.MakeMap(t))
		k := reflect.New(t.Key()).Elem()
		populate(k)
		e := reflect.New(t.Elem()).Elem()
		populate(e)
		v.SetMapIndex(k, e)
	case reflect.String:
		v.SetString("s")
	case reflect.Bool:
		v.SetBool(true)
	case reflect.Int, reflect.Int8, reflect.Int16, reflect.Int32, reflect.Int64:
		v.SetInt(1)
	case reflect.Uint, reflect.Uint8, reflect.Uint16, reflect.Uint32, reflect.Uint64:
		v.SetUint(1)
	case reflect.Float32, reflect.Float64:
		v.SetFloat(1.5)
	}
}

func populatedSpec() expv1.ExperimentSpec {
	var s expv1.ExperimentSpec
	populate(reflect.ValueOf(&s).Elem())
	return s
}

// mutatePath changes the value at a type-level path (first element of slices / maps). Returns false if the path does not exist.
func mutatePath(root reflect.Value, path string) bool {
	kind := byte(0)
	if n := len(path); n > 0 && strings.ContainsRune("^#%", rune(path[n-1])) {
		kind = path[n-1]
		path = path[:n-1]
	}
	v := root
	var setBack []func() // map elements are not addressable: write the changed copy back
	deref := func() bool {
		for v.Kind() == reflect.Ptr {
			if v.IsNil() {
				return false
			}
			v = v.Elem()
		}
		return true
	}
	segs := splitPath(path)
	for si, seg := range segs {
		last := si == len(segs)-1
		if seg == "[]" {
			if !deref() {
				return false
			}
			switch v.Kind() {
			case reflect.Slice, reflect.Array:
				if v.Len() == 0 {
					return false
				}
				v = v.Index(0)
			case reflect.Map:
				keys := v.MapKeys()
				if len(keys) == 0 {
					return false
				}
				m, k := v, keys[0]
				cp := reflect.New(v.Type().Elem()).Elem()
				cp.Set(v.MapIndex(k))
				setBack = append(setBack, func() { m.SetMapIndex(k, cp) })
				v = cp
			default:
				return false
			}
		} else {
			if !deref() {
				return false
			}
			if v.Kind() != reflect.Struct {
				return false
			}
			v = v.FieldByName(seg)
			if !v.IsValid() {
				return false
			}
		}
		_ = last
	}
	ok := true
	switch kind {
	case '^':
		if v.Kind() != reflect.Ptr || v.IsNil() {
			return false
		}
		v.Set(reflect.Zero(v.Type()))
	case '#':
		if !deref() || v.Kind() != reflect.Slice || v.Len() == 0 {
			return false
		}
		v.Set(reflect.Append(v, v.Index(0)))
	case '%':
		if !deref() || v.Kind() != reflect.Map {
			return false
		}
		k := reflect.New(v.Type().Key()).Elem()
		if k.Kind() != reflect.String {
			return false
		}
		k.SetString("another-key")
		e := reflect.New(v.Type().Elem()).Elem()
		populate(e)
		v.SetMapIndex(k, e)
	default:
		if !deref() {
			return false
		}
		t := v.Type()
		switch {
		case t == tQuantity:
			v.Set(reflect.ValueOf(resource.MustParse("2")))
		case t == tIntStr:
			v.Set(reflect.ValueOf(intstr.FromInt(2)))
		case t == tTime:
			v.Set(reflect.ValueOf(metav1.NewTime(time.Unix(1700003600, 0).UTC())))
		case t == tUnstr:
			u := v.Addr().Interface().(*unstructured.Unstructured)
			u.Object["extraField"] = "x"
		default:
			switch v.Kind() {
			case reflect.String:
				v.SetString(v.String() + "x")
			case reflect.Bool:
				v.SetBool(!v.Bool())
			case reflect.Int, reflect.Int8, reflect.Int16, reflect.Int32, reflect.Int64:
				v.SetInt(v.Int() + 1)
			case reflect.Uint, reflect.Uint8, reflect.Uint16, reflect.Uint32, reflect.Uint64:
				v.SetUint(v.Uint() + 1)
			case reflect.Float32, reflect.Float64:
				v.SetFloat(v.Float() + 1)
			default:
				ok = false
			}
		}
	}
	for i := len(setBack) - 1; i >= 0; i-- {
		setBack[i]()
	}
	return ok
}

func splitPath(p string) []string {
	var out []string
	for _, part := range strings.Split(p, ".") {
		n := 0
		for strings.HasSuffix(part, "[]") {
			part = part[:len(part)-2]
			n++
		}
		if part != "" {
			out = append(out, part)
		}
		for ; n > 0; n-- {
			out = append(out, "[]")
		}
	}
	return out
}

// flatten prints every value-level leaf; nil and empty slices/maps print nothing (as equality.Semantic.DeepEqual treats them alike).
func flatten(v reflect.Value, path string, out *[]string) {
	t := v.Type()
	switch {
	case t == tQuantity:
		q := v.Interface().(resource.Quantity)
		*out = append(*out, path+"="+q.String())
		return
	case t == tIntStr:
		x := v.Interface().(intstr.IntOrString)
		*out = append(*out, fmt.Sprintf("%s=%d:%s", path, x.Type, x.String()))
		return
	case t == tTime:
		x := v.Interface().(metav1.Time)
		*out = append(*out, path+"="+x.UTC().Format(time.RFC3339Nano))
		return
	case t == tUnstr:
		x := v.Interface().(unstructured.Unstructured)
		js, _ := json.Marshal(x.Object)
		*out = append(*out, path+"="+string(js))
		return
	}
	switch v.Kind() {
	case reflect.Ptr:
		if v.IsNil() {
			*out = append(*out, path+"=nil")
			return
		}
		flatten(v.Elem(), path+"^", out)
	case reflect.Struct:
		for i := 0; i < t.NumField(); i++ {
			if t.Field(i).PkgPath == "" {
				flatten(v.Field(i), path+"."+t.Field(i).Name, out)
			}
		}
	case reflect.Slice, reflect.Array:
		for i := 0; i < v.Len(); i++ {
			flatten(v.Index(i), fmt.Sprintf("%s[%d]", path, i), out)
		}
	case reflect.Map:
		keys := v.MapKeys()
		sort.Slice(keys, func(i, j int) bool { return fmt.Sprint(keys[i]) < fmt.Sprint(keys[j]) })
		for _, k := range keys {
			flatten(v.MapIndex(k), fmt.Sprintf("%s[%q]", path, fmt.Sprint(k)), out)
		}
	case reflect.Interface:
		if !v.IsNil() {
			flatten(v.Elem(), path, out)
		}
	default:
		*out = append(*out, fmt.Sprintf("%s=%#v", path, v.Interface()))
	}
}

// restDigest = digest of the spec with the three budget fields blanked.
func restDigest(s expv1.ExperimentSpec) string {
	c := s.DeepCopy()
	c.ParallelTrialCount, c.MaxTrialCount, c.MaxFailedTrialCount = nil, nil, nil
	var out []string
	flatten(reflect.ValueOf(*c), "", &out)
	h := sha256.Sum256([]byte(strings.Join(out, "\n")))
	return hex.EncodeToString(h[:12])
}

func fullDigest(s expv1.ExperimentSpec) string {
	var out []string
	flatten(reflect.ValueOf(s), "", &out)
	h := sha256.Sum256([]byte(strings.Join(out, "\n")))
	return hex.EncodeToString(h[:12])
}

// sweptPaths = the paths whose mutation the harness can perform on the populated spec and which change its digest.
func sweptPaths() []string {
	leaves, nodes := specPaths()
	var out []string
	for _, p := range append(leaves, nodes...) {
		s := populatedSpec()
		before := fullDigest(s)
		if mutatePath(reflect.ValueOf(&s).Elem(), p) && fullDigest(s) != before {
			out = append(out, p)
		}
	}
	return out
}

func genSpecFields(file string) int {
	leaves, nodes := specPaths()
	swept := sweptPaths()
	var b strings.Builder
	b.WriteString("(* GENERATED by `c14 gen-specfields` (harness/cmd/c14/fields.go) from reflect.TypeOf(ExperimentSpec{}) of the working tree. Do not edit.\n" +
		"   spec_leaves / spec_nodes: every type-level leaf / pointer(^) slice(#) map(%) path of ExperimentSpec.\n" +
		"   swept: the paths the C15 driver mutates one at a time on a fully populated stored experiment (each mutation was executed here\n" +
		"   and changes the canonical digest of the spec). *)\n" +
		"From Coq Require Import String List.\nImport ListNotations.\nOpen Scope string_scope.\n\n")
	wr := func(name string, xs []string) {
		b.WriteString("Definition " + name + " : list string := [\n")
		for i, x := range xs {
			if i > 0 {
				b.WriteString(";\n")
			}
			b.WriteString("  " + kit.Str(x))
		}
		b.WriteString("].\n\n")
	}
	wr("spec_leaves", leaves)
	wr("spec_nodes", nodes)
	wr("swept", swept)
	old, err := os.ReadFile(file)
	if err == nil && string(old) == b.String() {
		return 0
	}
	if err := os.WriteFile(file, []byte(b.String()), 0o644); err != nil {
		fmt.Fprintln(os.Stderr, err)
		return 1
	}
	return 0
}
