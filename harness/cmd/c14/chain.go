package main

import (
	"context"
	"encoding/json"
	"fmt"

	jsonpatch "github.com/evanphx/json-patch/v5"
	admissionv1 "k8s.io/api/admission/v1"
	"k8s.io/apimachinery/pkg/api/equality"
	"k8s.io/apimachinery/pkg/runtime"
	"sigs.k8s.io/controller-runtime/pkg/webhook/admission"

	expv1 "github.com/kubeflow/katib/pkg/apis/controller/experiments/v1beta1"
	expwebhook "github.com/kubeflow/katib/pkg/webhook/v1beta1/experiment"

	"verifharness/internal/kit"
)

// admissionChain plays the API server for one request: the REAL mutating webhook handler, its JSON patch applied, then the
// REAL validating webhook handler.  old == nil: CREATE, else UPDATE.  Returns whether both allowed it, the object that would
// be stored, and a note when something crashed or could not be decoded.
func admissionChain(w world, obj, old *expv1.Experiment) (allowed bool, stored *expv1.Experiment, note string) {
	cl := w.client()
	dec := admission.NewDecoder(cl.Scheme())
	raw, err := json.Marshal(obj)
	if err != nil {
		return false, nil, "marshal: " + err.Error()
	}
	req := admission.Request{AdmissionRequest: admissionv1.AdmissionRequest{Operation: admissionv1.Create, Namespace: obj.Namespace, Name: obj.Name,
		Object: runtime.RawExtension{Raw: raw}}}
	if old != nil {
		oraw, _ := json.Marshal(old)
		req.Operation = admissionv1.Update
		req.OldObject = runtime.RawExtension{Raw: oraw}
	}
	var mresp admission.Response
	if pan := kit.Recover(func() { mresp = expwebhook.NewExperimentDefaulter(cl, dec).Handle(context.TODO(), req) }); pan != "" {
		return false, nil, "the mutating webhook crashed: " + pan
	}
	if !mresp.Allowed {
		return false, nil, ""
	}
	patched := raw
	if len(mresp.Patches) > 0 {
		pj, _ := json.Marshal(mresp.Patches)
		p, err := jsonpatch.DecodePatch(pj)
		if err != nil {
			return false, nil, "patch: " + err.Error()
		}
		if patched, err = p.Apply(raw); err != nil {
			return false, nil, "patch: " + err.Error()
		}
	}
	req.Object = runtime.RawExtension{Raw: patched}
	var vresp admission.Response
	if pan := kit.Recover(func() { vresp = expwebhook.NewExperimentValidator(cl, dec).Handle(context.TODO(), req) }); pan != "" {
		return false, nil, "the validating webhook crashed: " + pan
	}
	stored = &expv1.Experiment{}
	if err := json.Unmarshal(patched, stored); err != nil {
		return false, nil, "decode: " + err.Error()
	}
	return vresp.Allowed, stored, ""
}

// chainViolation: what the two webhooks admit must be the defaulted object (every field the controllers dereference present).
func chainViolation(op string, allowed bool, stored *expv1.Experiment, note string) string {
	if note != "" {
		return fmt.Sprintf("%s through the webhook chain: %s", op, note)
	}
	if !allowed || stored == nil {
		return ""
	}
	d := stored.DeepCopy()
	d.SetDefault()
	if stored.Spec.ParallelTrialCount == nil || !equality.Semantic.DeepEqual(d.Spec, stored.Spec) {
		return fmt.Sprintf("%s through the webhook chain: the webhooks admitted an object that is not defaulted (parallelTrialCount set: %v)", op, stored.Spec.ParallelTrialCount != nil)
	}
	return ""
}
