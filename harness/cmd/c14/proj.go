package main

// Projection of Go objects to the Coq records of Model/Validator.v, the fake cluster, the rule numbering of
// field.Errors and the harness-side evaluation of the library calls the model does not contain.

import (
	"context"
	"encoding/json"
	"fmt"
	"path/filepath"
	"regexp"
	"strconv"
	"strings"

	jsonPatch "github.com/mattbaird/jsonpatch"
	batchv1 "k8s.io/api/batch/v1"
	corev1 "k8s.io/api/core/v1"
	metav1 "k8s.io/apimachinery/pkg/apis/meta/v1"
	"k8s.io/apimachinery/pkg/apis/meta/v1/unstructured"
	"k8s.io/apimachinery/pkg/runtime"
	"k8s.io/apimachinery/pkg/util/validation/field"
	clientgoscheme "k8s.io/client-go/kubernetes/scheme"
	"sigs.k8s.io/controller-runtime/pkg/client"
	"sigs.k8s.io/controller-runtime/pkg/client/fake"

	configv1beta1 "github.com/kubeflow/katib/pkg/apis/config/v1beta1"
	commonv1beta1 "github.com/kubeflow/katib/pkg/apis/controller/common/v1beta1"
	expv1 "github.com/kubeflow/katib/pkg/apis/controller/experiments/v1beta1"
	"github.com/kubeflow/katib/pkg/controller.v1beta1/consts"
	"github.com/kubeflow/katib/pkg/controller.v1beta1/experiment/manifest"
	"github.com/kubeflow/katib/pkg/controller.v1beta1/util"

	"verifharness/internal/kit"
)

// ---------------------------------------------------------------- inputs shared by c14 and c15

type cfgEntry struct {
	Key   string `json:"key"`
	Image string `json:"image"`
}

type cfgIn struct {
	Mode string     `json:"mode"` // ok | missing | nokey | garbage
	Sug  []cfgEntry `json:"sug"`
	ES   []cfgEntry `json:"es"`
	MC   []cfgEntry `json:"mc"`
}

type cmIn struct {
	NS   string            `json:"ns"`
	Name string            `json:"name"`
	Data map[string]string `json:"data"`
}

type world struct {
	Cfg cfgIn  `json:"cfg"`
	CMs []cmIn `json:"cms"`
}

func yamlStr(s string) string { b, _ := json.Marshal(s); return string(b) }

func (w world) client() client.Client {
	scheme := runtime.NewScheme()
	_ = clientgoscheme.AddToScheme(scheme)
	_ = configv1beta1.AddToScheme(scheme)
	_ = expv1.AddToScheme(scheme)
	var objs []client.Object
	nss := map[string]bool{"ns1": true, "kubeflow": true}
	for _, cm := range w.CMs {
		objs = append(objs, &corev1.ConfigMap{ObjectMeta: metav1.ObjectMeta{Namespace: cm.NS, Name: cm.Name}, Data: cm.Data})
		nss[cm.NS] = true
	}
	for ns := range nss { // the validating webhook insists on the metrics-collector-injection label of the namespace
		objs = append(objs, &corev1.Namespace{ObjectMeta: metav1.ObjectMeta{Name: ns, Labels: map[string]string{"katib.kubeflow.org/metrics-collector-injection": "enabled"}}})
	}
	if w.Cfg.Mode != "missing" {
		var b strings.Builder
		b.WriteString("apiVersion: config.kubeflow.org/v1beta1\nkind: KatibConfig\nruntime:\n")
		sect := func(name, key string, es []cfgEntry) {
			if len(es) == 0 {
				return
			}
			b.WriteString("  " + name + ":\n")
			for _, e := range es {
				b.WriteString("  - " + key + ": " + yamlStr(e.Key) + "\n    image: " + yamlStr(e.Image) + "\n")
			}
		}
		sect("suggestions", "algorithmName", w.Cfg.Sug)
		sect("earlyStoppings", "algorithmName", w.Cfg.ES)
		sect("metricsCollectors", "kind", w.Cfg.MC)
		data := map[string]string{consts.LabelKatibConfigTag: b.String()}
		switch w.Cfg.Mode {
		case "nokey":
			data = map[string]string{"other.yaml": b.String()}
		case "garbage":
			data = map[string]string{consts.LabelKatibConfigTag: "{{{ not yaml"}
		}
		objs = append(objs, &corev1.ConfigMap{ObjectMeta: metav1.ObjectMeta{Namespace: consts.DefaultKatibNamespace, Name: consts.KatibConfigMapName}, Data: data})
	}
	return fake.NewClientBuilder().WithScheme(scheme).WithObjects(objs...).Build()
}

// ---------------------------------------------------------------- Coq printing

func optS(p bool, v string) string { return kit.Opt(p, v) }

func optZ32(p *int32) string {
	if p == nil {
		return "None"
	}
	return "(Some " + kit.Z(int64(*p)) + ")"
}

func ckind(k commonv1beta1.CollectorKind) string {
	switch k {
	case commonv1beta1.StdOutCollector:
		return "CStdOut"
	case commonv1beta1.FileCollector:
		return "CFile"
	case commonv1beta1.TfEventCollector:
		return "CTfEvent"
	case commonv1beta1.PrometheusMetricCollector:
		return "CPrometheus"
	case commonv1beta1.CustomCollector:
		return "CCustom"
	case commonv1beta1.PushCollector:
		return "CPush"
	}
	return "COther"
}

var (
	metaRe  = regexp.MustCompile(consts.TrialTemplateMetaReplaceFormatRegex)
	parseRe = regexp.MustCompile(consts.TrialTemplateMetaParseFormatRegex)
	phRe    = regexp.MustCompile(consts.TrialTemplateParamReplaceFormatRegex)
	twoRe   = regexp.MustCompile(`.*\(.*\).*\(.*\).*`)
)

func projParam(p expv1.ParameterSpec) string {
	pt := map[expv1.ParameterType]string{expv1.ParameterTypeInt: "PInt", expv1.ParameterTypeDouble: "PDouble", expv1.ParameterTypeCategorical: "PCat",
		expv1.ParameterTypeDiscrete: "PDisc", expv1.ParameterTypeUnknown: "PUnknown"}[p.ParameterType]
	if pt == "" {
		pt = "POther"
	}
	d := map[expv1.Distribution]string{"": "DEmpty", expv1.DistributionUniform: "DUniform", expv1.DistributionLogUniform: "DLogUniform",
		expv1.DistributionNormal: "DNormal", expv1.DistributionLogNormal: "DLogNormal", expv1.DistributionUnknown: "DUnknown"}[p.FeasibleSpace.Distribution]
	if d == "" {
		d = "DOther"
	}
	return fmt.Sprintf("{| p_name := %s; p_type := %s; p_min_empty := %s; p_max_empty := %s; p_step_empty := %s; p_list_len := %s; p_dist := %s |}",
		cstr(p.Name), pt, kit.Bool(p.FeasibleSpace.Min == ""), kit.Bool(p.FeasibleSpace.Max == ""), kit.Bool(p.FeasibleSpace.Step == ""),
		kit.Nat(len(p.FeasibleSpace.List)), d)
}

func projTParam(p expv1.TrialParameterSpec) string {
	sub, idx := "None", "None"
	if m := metaRe.FindStringSubmatch(p.Reference); len(m) > 0 {
		sub = "(Some " + cstr(m[1]) + ")"
		if m2 := parseRe.FindStringSubmatch(m[1]); len(m2) == 3 {
			idx = "(Some (" + cstr(m2[1]) + ", " + cstr(m2[2]) + "))"
		}
	}
	return fmt.Sprintf("{| tp_name := %s; tp_ref := %s; tp_sub := %s; tp_idx := %s |}", cstr(p.Name), cstr(p.Reference), sub, idx)
}

func projTemplate(t *expv1.TrialTemplate) string {
	if t == nil {
		return "None"
	}
	params := "None"
	if t.TrialParameters != nil {
		params = "(Some " + kit.ListOf(t.TrialParameters, projTParam) + ")"
	}
	spec := "None"
	if t.TrialSpec != nil {
		k := "JKOther"
		if t.TrialSpec.GetKind() == consts.JobKindJob {
			k = "JKJob"
		} else if expv1.KubeflowJobKinds[t.TrialSpec.GetKind()] {
			k = "JKKubeflow"
		}
		str := "None"
		if s, err := util.ConvertUnstructuredToString(t.TrialSpec); err == nil {
			str = "(Some " + cstr(s) + ")"
		}
		spec = fmt.Sprintf("(Some {| ts_kind := %s; ts_str := %s |})", k, str)
	}
	cm := "None"
	if t.ConfigMap != nil {
		cm = fmt.Sprintf("(Some {| cm_name := %s; cm_ns := %s; cm_path := %s |})", cstr(t.ConfigMap.ConfigMapName), cstr(t.ConfigMap.ConfigMapNamespace), cstr(t.ConfigMap.TemplatePath))
	}
	return fmt.Sprintf("(Some {| t_primary_empty := %s; t_succ_empty := %s; t_fail_empty := %s; t_params := %s; t_spec := %s; t_cm := %s |})",
		kit.Bool(t.PrimaryContainerName == ""), kit.Bool(t.SuccessCondition == ""), kit.Bool(t.FailureCondition == ""), params, spec, cm)
}

func projMC(m *commonv1beta1.MetricsCollectorSpec) string {
	if m == nil {
		return "None"
	}
	src := "None"
	if s := m.Source; s != nil {
		h, f, fl := "None", "None", "None"
		if s.HttpGet != nil {
			hp := "HOther"
			if s.HttpGet.Path == "" {
				hp = "HEmpty"
			} else if strings.HasPrefix(s.HttpGet.Path, "/") {
				hp = "HSlash"
			}
			port := "None"
			if i, err := strconv.Atoi(s.HttpGet.Port.String()); err == nil {
				port = "(Some " + kit.Z(int64(i)) + ")"
			}
			h = fmt.Sprintf("(Some {| hg_path := %s; hg_port_zero := %s; hg_port := %s |})", hp, kit.Bool(s.HttpGet.Port.String() == "0"), port)
		}
		if s.FileSystemPath != nil {
			p := "PRel"
			if s.FileSystemPath.Path == "" {
				p = "PEmpty"
			} else if filepath.IsAbs(s.FileSystemPath.Path) {
				p = "PAbs"
			}
			k := map[commonv1beta1.FileSystemKind]string{"": "FKEmpty", commonv1beta1.FileKind: "FKFile", commonv1beta1.DirectoryKind: "FKDir"}[s.FileSystemPath.Kind]
			if k == "" {
				k = "FKOther"
			}
			ff := map[commonv1beta1.FileFormat]string{"": "FFEmpty", commonv1beta1.TextFormat: "FFText", commonv1beta1.JsonFormat: "FFJson"}[s.FileSystemPath.Format]
			if ff == "" {
				ff = "FFOther"
			}
			f = fmt.Sprintf("(Some {| fp_path := %s; fp_kind := %s; fp_format := %s |})", p, k, ff)
		}
		if s.Filter != nil {
			fl = "(Some " + kit.ListOf(s.Filter.MetricsFormat, func(x string) string {
				_, err := regexp.Compile(x)
				return fmt.Sprintf("{| ff_compiles := %s; ff_two := %s |}", kit.Bool(err == nil), kit.Bool(twoRe.MatchString(x)))
			}) + ")"
		}
		src = fmt.Sprintf("(Some {| s_http := %s; s_fs := %s; s_filter := %s |})", h, f, fl)
	}
	col := "None"
	if c := m.Collector; c != nil {
		col = fmt.Sprintf("(Some {| c_kind := %s; c_custom := %s |})", ckind(c.Kind), kit.Bool(c.CustomCollector != nil))
	}
	return fmt.Sprintf("(Some {| mc_source := %s; mc_collector := %s |})", src, col)
}

func projExp(e *expv1.Experiment) string {
	s := e.Spec
	obj := "None"
	if o := s.Objective; o != nil {
		t := "OOther"
		if o.Type == commonv1beta1.ObjectiveTypeMinimize {
			t = "OMin"
		} else if o.Type == commonv1beta1.ObjectiveTypeMaximize {
			t = "OMax"
		}
		obj = fmt.Sprintf("(Some {| o_type := %s; o_metric := %s; o_additional := %s |})", t, cstr(o.ObjectiveMetricName), kit.ListOf(o.AdditionalMetricNames, cstr))
	}
	alg, es := "None", "None"
	if s.Algorithm != nil {
		alg = "(Some " + cstr(s.Algorithm.AlgorithmName) + ")"
	}
	if s.EarlyStopping != nil {
		es = "(Some " + cstr(s.EarlyStopping.AlgorithmName) + ")"
	}
	res := map[expv1.ResumePolicyType]string{"": "REmpty", expv1.NeverResume: "RNever", expv1.LongRunning: "RLong", expv1.FromVolume: "RVolume"}[s.ResumePolicy]
	if res == "" {
		res = "ROther"
	}
	return fmt.Sprintf("{| e_name := %s; e_par := %s; e_max := %s; e_mf := %s; e_objective := %s; e_algorithm := %s; e_early := %s; e_resume := %s; "+
		"e_params := %s; e_nas := %s; e_template := %s; e_mc := %s |}",
		cstr(e.Name), optZ32(s.ParallelTrialCount), optZ32(s.MaxTrialCount), optZ32(s.MaxFailedTrialCount), obj, alg, es, res,
		kit.ListOf(s.Parameters, projParam), kit.Bool(s.NasConfig != nil), projTemplate(s.TrialTemplate), projMC(s.MetricsCollectorSpec))
}

func projCfgTable(es []cfgEntry, key func(string) string) string {
	return kit.ListOf(es, func(e cfgEntry) string { return "(" + key(e.Key) + ", " + kit.Bool(strings.TrimSpace(e.Image) != "") + ")" })
}

// what the validator's dry run and the generator obtain from libraries on this experiment
type tplFacts struct {
	Final      string
	Unreplaced bool
	Conv       *[3]bool // named, nogvk, joberr
	RawConv    bool
	Labels     []string
	Annots     []string
}

func jobErr(runSpec *unstructured.Unstructured) bool {
	gvk := runSpec.GroupVersionKind()
	if gvk.GroupVersion() != batchv1.SchemeGroupVersion || gvk.Kind != consts.JobKindJob {
		return false
	}
	job := batchv1.Job{}
	if err := runtime.DefaultUnstructuredConverter.FromUnstructured(runSpec.Object, &job); err != nil {
		return true
	}
	before, _ := json.Marshal(runSpec.Object)
	after, _ := json.Marshal(job)
	ops, err := jsonPatch.CreatePatch(after, before)
	if err != nil {
		return true
	}
	for _, op := range ops {
		if op.Operation != "remove" && !strings.Contains(op.Path, "/resources/limits/") && !strings.Contains(op.Path, "/resources/requests/") {
			return true
		}
	}
	return false
}

func keysOf(m map[string]string) []string {
	var ks []string
	for k := range m {
		ks = append(ks, k)
	}
	sortStrings(ks)
	return ks
}

func computeFacts(e *expv1.Experiment, gen manifest.Generator) tplFacts {
	var f tplFacts
	// the facts are read from a copy taken before the generator runs, and the generator is given a copy of its own:
	// the caller's experiment is left as it was
	t := e.DeepCopy().Spec.TrialTemplate
	if t == nil || (t.TrialSpec == nil && t.ConfigMap == nil) {
		return f
	}
	var tpl string
	var err error
	if p := kit.Recover(func() { tpl, err = gen.GetTrialTemplate(e.DeepCopy()) }); p != "" || err != nil {
		return f
	}
	// generator side: metadata of the template
	if t.TrialSpec != nil {
		f.RawConv = true
		f.Labels, f.Annots = keysOf(t.TrialSpec.GetLabels()), keysOf(t.TrialSpec.GetAnnotations())
	} else if u, err := util.ConvertStringToUnstructured(tpl); err == nil {
		f.RawConv = true
		f.Labels, f.Annots = keysOf(u.GetLabels()), keysOf(u.GetAnnotations())
	}
	// validator side: the text after the substitution loop (independent replica; the model recomputes it and compares)
	names, refs := map[string]bool{}, map[string]bool{}
	for _, p := range t.TrialParameters {
		if p.Name == "" || p.Reference == "" || strings.Contains(p.Name, "{") || strings.Contains(p.Name, "}") || names[p.Name] || refs[p.Reference] {
			continue
		}
		names[p.Name], refs[p.Reference] = true, true
		ph := fmt.Sprintf(consts.TrialTemplateParamReplaceFormat, p.Name)
		if !strings.Contains(tpl, ph) {
			break
		}
		tpl = strings.Replace(tpl, ph, "test-value", -1)
	}
	f.Final = tpl
	f.Unreplaced = len(phRe.FindAllString(tpl, -1)) != 0
	if u, err := util.ConvertStringToUnstructured(tpl); err == nil {
		f.Conv = &[3]bool{u.GetName() != "" || u.GetNamespace() != "", u.GetAPIVersion() == "" || u.GetKind() == "", jobErr(u)}
	}
	return f
}

func projEnv(w world, f tplFacts) string {
	cfg := "None"
	if w.Cfg.Mode == "ok" {
		cfg = fmt.Sprintf("(Some {| c_sug := %s; c_es := %s; c_mc := %s |})", projCfgTable(w.Cfg.Sug, cstr), projCfgTable(w.Cfg.ES, cstr),
			projCfgTable(w.Cfg.MC, func(k string) string { return ckind(commonv1beta1.CollectorKind(k)) }))
	}
	cms := kit.ListOf(w.CMs, func(c cmIn) string {
		ks := keysOf(c.Data)
		return "((" + cstr(c.NS) + ", " + cstr(c.Name) + "), " + kit.ListOf(ks, func(k string) string { return "(" + cstr(k) + ", " + cstr(c.Data[k]) + ")" }) + ")"
	})
	conv := "None"
	if f.Conv != nil {
		conv = fmt.Sprintf("(Some {| cv_named := %s; cv_nogvk := %s; cv_joberr := %s |})", kit.Bool(f.Conv[0]), kit.Bool(f.Conv[1]), kit.Bool(f.Conv[2]))
	}
	facts := fmt.Sprintf("{| tf_final := %s; tf_unreplaced := %s; tf_conv := %s; tf_raw_conv := %s; tf_labels := %s; tf_annotations := %s |}",
		cstr(f.Final), kit.Bool(f.Unreplaced), conv, kit.Bool(f.RawConv), kit.ListOf(f.Labels, cstr), kit.ListOf(f.Annots, cstr))
	return fmt.Sprintf("{| cfg := %s; cms := %s; facts := %s |}", cfg, cms, facts)
}

// ---------------------------------------------------------------- rule numbers of field.Errors

var idxRe = regexp.MustCompile(`\[(\d+)\]`)

type ruleRow struct {
	typ    field.ErrorType
	path   string
	detail string // prefix of Detail ("" = any)
	rule   int
}

var ruleTable = []ruleRow{
	{field.ErrorTypeInvalid, "metadata.name", "", 1},
	{field.ErrorTypeInvalid, "spec.maxFailedTrialCount", "should not be less than 0", 2},
	{field.ErrorTypeInvalid, "spec.maxTrialCount", "must be greater than 0", 3},
	{field.ErrorTypeInvalid, "spec.parallelTrialCount", "must be greater than 0", 4},
	{field.ErrorTypeInvalid, "spec.maxFailedTrialCount", "should be less than or equal to spec.maxTrialCount", 5},
	{field.ErrorTypeInvalid, "spec.parallelTrialCount", "should be less than or equal to spec.maxTrialCount", 6},
	{field.ErrorTypeInvalid, "spec.resumePolicy", "Experiment can be restarted", 7},
	{field.ErrorTypeInvalid, "spec.maxTrialCount", "must be greater than status.trials count", 8},
	{field.ErrorTypeForbidden, "spec", "only spec.parallelTrialCount, spec.maxTrialCount and spec.maxFailedTrialCount are editable", 9},
	{field.ErrorTypeRequired, "spec.objective", "", 10},
	{field.ErrorTypeInvalid, "spec.objective.type", "", 11},
	{field.ErrorTypeRequired, "spec.objective.objectiveMetricName", "", 12},
	{field.ErrorTypeInvalid, "spec.objective.additionalMetricNames", "", 13},
	{field.ErrorTypeRequired, "spec.algorithm", "", 14},
	{field.ErrorTypeRequired, "spec.algorithm.algorithmName", "", 15},
	{field.ErrorTypeInvalid, "spec.algorithm.algorithmName", "unable to get Suggestion config data", 16},
	{field.ErrorTypeRequired, "spec.earlyStopping.algorithmName", "", 17},
	{field.ErrorTypeInvalid, "spec.earlyStopping.algorithmName", "unable to get EarlyStopping config data", 18},
	{field.ErrorTypeInvalid, "spec.resumePolicy", "invalid ResumePolicyType", 19},
	{field.ErrorTypeInvalid, "spec.parameters[].parameterType", "", 20},
	{field.ErrorTypeInvalid, "spec.parameters[].feasibleSpace.distribution", "", 21},
	{field.ErrorTypeRequired, "spec.parameters[].feasibleSpace", "", 22},
	{field.ErrorTypeInvalid, "spec.parameters[].feasibleSpace.list", "", 23},
	{field.ErrorTypeRequired, "spec.parameters[].feasibleSpace.max", "", 24},
	{field.ErrorTypeInvalid, "spec.parameters[].feasibleSpace", "", 25},
	{field.ErrorTypeRequired, "spec.trialTemplate", "must be specified", 26},
	{field.ErrorTypeRequired, "spec.trialTemplate.primaryContainerName", "", 27},
	{field.ErrorTypeRequired, "spec.trialTemplate", "successCondition and failureCondition must be specified", 28},
	{field.ErrorTypeRequired, "spec.trialTemplate.trialParameters", "", 29},
	{field.ErrorTypeRequired, "spec.trialTemplate.TrialSource", "", 30},
	{field.ErrorTypeRequired, "spec.trialTemplate", "only one of spec.trialTemplate.trialSpec or spec.trialTemplate.configMap", 31},
	{field.ErrorTypeRequired, "spec.trialTemplate.configMap", "", 32},
	{field.ErrorTypeInvalid, "spec.trialTemplate", "unable to parse spec.trialTemplate", 33},
	{field.ErrorTypeInvalid, "spec.trialTemplate.trialParameters[]", "", 34},
	{field.ErrorTypeInvalid, "spec.trialTemplate.trialParameters[].name", "parameter name ", 35},
	{field.ErrorTypeInvalid, "spec.trialTemplate.trialParameters[].reference", "parameter reference", 36},
	{field.ErrorTypeInvalid, "spec.trialTemplate.trialParameters[].name", "parameter name: ", 38},
	{field.ErrorTypeInvalid, "spec.trialTemplate", "parameters: ", 39},
	{field.ErrorTypeInvalid, "spec.trialTemplate", "unable to convert spec.trialTemplate", 40},
	{field.ErrorTypeInvalid, "spec.trialTemplate", "metadata.name and metadata.namespace", 41},
	{field.ErrorTypeRequired, "spec.trialTemplate", "APIVersion and Kind", 42},
	{field.ErrorTypeInvalid, "spec.trialTemplate", "invalid spec.trialTemplate", 43},
	{field.ErrorTypeRequired, "spec", "spec.parameters or spec.nasConfig must be specified", 44},
	{field.ErrorTypeInvalid, "spec", "only one of spec.parameters and spec.nasConfig", 45},
	{field.ErrorTypeInvalid, "spec.metricsCollectorSpec.collector.kind", "GetMetricsCollectorConfigData failed", 46},
	{field.ErrorTypeRequired, "spec.metricsCollectorSpec.source.fileSystemPath.path", "", 47},
	{field.ErrorTypeRequired, "spec.metricsCollectorSpec.source.fileSystemPath.format", "", 48},
	{field.ErrorTypeInvalid, "spec.metricsCollectorSpec.source.filter", "", 49},
	{field.ErrorTypeRequired, "spec.metricsCollectorSpec.source", "", 50},
	{field.ErrorTypeInvalid, "spec.metricsCollectorSpec.source.fileSystemPath.format", "", 51},
	{field.ErrorTypeInvalid, "spec.metricsCollectorSpec.source.httpGet.port", "", 52},
	{field.ErrorTypeInvalid, "spec.metricsCollectorSpec.source.httpGet.path", "", 53},
	{field.ErrorTypeRequired, "spec.metricsCollectorSpec.collector.customCollector", "", 54},
	{field.ErrorTypeInvalid, "spec.metricsCollectorSpec.source.fileSystemPath", "", 55},
	{field.ErrorTypeInvalid, "spec.metricsCollectorSpec.collector.kind", "invalid metrics collector kind", 56},
	{field.ErrorTypeInvalid, "spec.metricsCollectorSpec.source.filter.metricsFormat", "invalid filter", 57},
	{field.ErrorTypeInvalid, "spec.metricsCollectorSpec.source.filter.metricsFormat", "two top subexpressions are required", 58},
	{field.ErrorTypeDuplicate, "spec.parameters[].name", "", 59},
	{field.ErrorTypeInvalid, "spec.parameters[].name", "parameter ", 60},
}

// ruleOf numbers a field.Error; rule 999 = an error site the model does not know.
func ruleOf(e *field.Error) (int, int) {
	idx := 0
	if m := idxRe.FindStringSubmatch(e.Field); m != nil {
		idx, _ = strconv.Atoi(m[1])
	}
	path := idxRe.ReplaceAllString(e.Field, "[]")
	// rule 36 and 37 share path and type: "can't be duplicated" vs "does not exist"
	if e.Type == field.ErrorTypeInvalid && path == "spec.trialTemplate.trialParameters[].reference" {
		if strings.Contains(e.Detail, "does not exist in spec.parameters") && !strings.Contains(e.Detail, "can't be duplicated in spec.trialTemplate.trialParameters") {
			return 37, idx
		}
	}
	for _, r := range ruleTable {
		if r.typ == e.Type && r.path == path && strings.HasPrefix(e.Detail, r.detail) {
			if r.rule == 35 && !strings.Contains(e.Detail, "can't be duplicated") {
				continue
			}
			return r.rule, idx
		}
	}
	return 999, idx
}

func projErrs(errs field.ErrorList) (string, []string) {
	var human []string
	coq := kit.ListOf(errs, func(e *field.Error) string {
		r, i := ruleOf(e)
		d := e.Detail
		if len(d) > 80 {
			d = d[:80] + "..."
		}
		human = append(human, fmt.Sprintf("#%d %s %s: %s", r, e.Type, e.Field, d))
		return "(" + kit.Nat(r) + ", " + kit.Nat(i) + ")"
	})
	return coq, human
}

func sortStrings(s []string) {
	for i := 1; i < len(s); i++ {
		for j := i; j > 0 && s[j] < s[j-1]; j-- {
			s[j], s[j-1] = s[j-1], s[j]
		}
	}
}

var _ = context.TODO

// cstr prints a Go string as a Coq string literal; literals may contain raw newlines and tabs (kit.Str falls back to a
// list of unary byte codes for them, which costs ~1 ms per byte to type check). Long strings are shared per case:
// cstr returns a variable and withStrings wraps the case term in the corresponding let-bindings.
var strTab []string
var strIdx = map[string]int{}

func cstrLit(s string) string {
	for i := 0; i < len(s); i++ {
		if (s[i] < 32 && s[i] != '\n' && s[i] != '\t') || s[i] > 126 {
			return kit.Str(s)
		}
	}
	return `"` + strings.ReplaceAll(s, `"`, `""`) + `"`
}

func cstr(s string) string {
	if len(s) < 24 {
		return cstrLit(s)
	}
	k, ok := strIdx[s]
	if !ok {
		k = len(strTab)
		strIdx[s] = k
		strTab = append(strTab, s)
	}
	return fmt.Sprintf("s%d", k)
}

func withStrings(term string) string {
	var b strings.Builder
	for k, s := range strTab {
		fmt.Fprintf(&b, "let s%d := %s in ", k, cstrLit(s))
	}
	strTab, strIdx = nil, map[string]int{}
	return b.String() + term
}
