// c14 drives the admission properties C14 (admission soundness) and C15 (only the budget fields are editable):
//   c14 c14 -seed S -n N -out DIR [-replay f]     cases for Corr.C14
//   c14 c15 -seed S -n N -out DIR [-replay f]     cases for Corr.C15
//   c14 gen-specfields <file.v>                   translator: leaf paths of ExperimentSpec -> coq/theories/Gen/SpecFields.v
package main

import (
	"fmt"
	"os"

	"github.com/go-logr/logr"
	logf "sigs.k8s.io/controller-runtime/pkg/log"

	"verifharness/internal/kit"
)

func main() {
	logf.SetLogger(logr.Discard())
	if len(os.Args) < 2 {
		fmt.Fprintln(os.Stderr, "usage: c14 (c14|c15) -seed S -n N -out DIR [-replay file] | c14 gen-specfields FILE")
		os.Exit(2)
	}
	switch os.Args[1] {
	case "c14":
		kit.Main(c14{}, os.Args[2:])
	case "c15":
		kit.Main(c15{}, os.Args[2:])
	case "gen-specfields":
		if len(os.Args) < 3 {
			fmt.Fprintln(os.Stderr, "gen-specfields needs the output file")
			os.Exit(2)
		}
		os.Exit(genSpecFields(os.Args[2]))
	default:
		fmt.Fprintln(os.Stderr, "unknown generator", os.Args[1])
		os.Exit(2)
	}
}
