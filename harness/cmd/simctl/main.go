// simctl generates histories for the joint controller model, runs them on the three real reconcilers
// (harness/internal/sim) and writes Coq case files: actions + the implementation's projection after each.
package main

import (
	"encoding/json"
	"fmt"
	"math/rand"
	"os"
	"strings"
	"time"

	"verifharness/internal/kit"
	"verifharness/internal/sim"
)

type History struct {
	Cfg     sim.Cfg      `json:"cfg"`
	Actions []sim.Action `json:"actions"`
	Quiet   *int         `json:"quiet,omitempty"` // index of the first action of the final no-effect round
	Tear    bool         `json:"teardown,omitempty"`
	Long    bool         `json:"long,omitempty"`
}

type world struct{ long bool }

func main() {
	if len(os.Args) < 2 {
		fmt.Fprintln(os.Stderr, "usage: simctl world -seed S -n N -out DIR [-replay f]")
		os.Exit(2)
	}
	kit.Main(world{long: os.Getenv("VERIF_TIER") == "thorough"}, os.Args[2:])
}

func (world) Name() string      { return "world" }
func (world) CoqModule() string { return "WorldAll" }
func (world) Monitors() []string {
	return []string{"C01", "C03", "C04", "C06", "C07", "C08", "C16", "C16w", "C16x"}
}
func (world) Rule() string {
	return "state-aware weighted random walks over one experiment: configuration drawn from max in {nil,1..6} x par 1..3 x maxFailed x goal " +
		"{none, reachable, unreachable} x objective type x resume policy x early stopping x retain x push/pull collector; actions = Begin/Write/Abort " +
		"of the three real reconcilers (writes gated one at a time, 4% injected write failures, 1.5% aborts), job outcomes, metrics arrival (15% without objective), " +
		"early stops, deployment readiness, cache syncs per kind, algorithm replies correct/short/long/error, early-stopping-rule and DB errors, " +
		"raise of maxTrialCount after a verdict; then a drain to quiescence (all jobs finished, metrics present, services fine) ending with a full round " +
		"of reconciles on synced caches that must have no effect; 12% of the histories end with a teardown (experiment deleted, trials garbage collected). " +
		"Non-trivial: at least 3 trials created and a verdict reached or a fault/abort/conflict exercised. Distinct: by (cfg, action list)."
}

func (world) Decode(raw json.RawMessage) (any, error) {
	var h History
	err := json.Unmarshal(raw, &h)
	return h, err
}

func p64(v int64) *int64 { return &v }

func genCfg(r *rand.Rand) sim.Cfg {
	var c sim.Cfg
	if r.Intn(7) > 0 {
		c.Max = p64(int64(1 + r.Intn(6)))
	}
	c.Par = int64(1 + r.Intn(3))
	if c.Max != nil && c.Par > *c.Max {
		c.Par = *c.Max
	}
	if r.Intn(2) == 0 {
		hi := int64(4)
		if c.Max != nil {
			hi = *c.Max
		}
		c.MaxFailed = p64(r.Int63n(hi + 1))
	}
	c.Minimize = r.Intn(2) == 0
	switch r.Intn(8) {
	case 0, 1, 2: // reachable goal (met by about half of the objective values, or by one in four): a verdict often comes while siblings run
		g := int64(8)
		if r.Intn(2) == 0 {
			g = 4
		}
		if c.Minimize {
			c.Goal = p64(g)
		} else {
			c.Goal = p64(16 - g)
		}
	case 3, 4: // unreachable
		if c.Minimize {
			c.Goal = p64(-8)
		} else {
			c.Goal = p64(800)
		}
	}
	c.Resume = []string{"Never", "LongRunning", "FromVolume"}[r.Intn(3)]
	c.ES = r.Intn(2) == 0
	c.Retain = r.Intn(2) == 0
	c.Push = r.Intn(4) == 0
	return c
}

type walker struct {
	lagExp        int
	lagDecided    bool
	lagSug        int
	lagSugDecided bool
	r             *rand.Rand
	s             *sim.Sim
	acts          []sim.Action
	nextName      int
	settings      int
}

func (w *walker) do(a sim.Action) {
	w.s.Apply(a)
	w.acts = append(w.acts, a)
}

func (w *walker) freshNames(n int) []int {
	var res []int
	for i := 0; i < n; i++ {
		w.nextName++
		res = append(res, w.nextName)
	}
	return res
}

// resp builds the fake services' answers for a suggestion reconcile; mode 0 = everything fine.
func (w *walker) resp(mode int) *sim.Resp {
	p := w.s.Project()
	need := 0
	if cs := w.s.CachedSuggestion(); cs != nil {
		need = int(cs[0] - cs[1])
	}
	_ = p
	if need < 0 {
		need = 0
	}
	rp := &sim.Resp{Valid: true, ESValid: true, ESRules: true}
	switch mode {
	case 1:
		rp.ReplyErr = true
	case 2:
		if need > 0 {
			need--
		}
	case 3:
		need++
	case 4:
		rp.ESRules = false
	case 5:
		rp.Valid = false
	case 6:
		rp.ESValid = false
	}
	if !rp.ReplyErr {
		rp.Names = w.freshNames(need)
		if w.r.Intn(4) == 0 {
			w.settings++
			v := w.settings
			rp.Settings = &v
		}
	}
	return rp
}

func (w *walker) val(forceSome bool) *int64 {
	if !forceSome && w.r.Intn(5) == 0 {
		return nil
	}
	return p64(int64(w.r.Intn(17)))
}

// runToCompletion finishes a reconcile without faults.
func (w *walker) finish(c string) {
	for w.s.Pending(c) {
		w.do(sim.Action{Op: "write", C: c})
	}
}

func (w *walker) step() {
	r, s := w.r, w.s
	p := s.Project()
	type cand struct {
		wt float64
		a  sim.Action
	}
	var cs []cand
	add := func(wt float64, a sim.Action) { cs = append(cs, cand{wt, a}) }
	for _, c := range []string{"exp", "sug", "trial"} {
		if s.Pending(c) {
			add(22, sim.Action{Op: "write", C: c, Inj: r.Intn(25) == 0})
			add(0.4, sim.Action{Op: "abort", C: c})
		}
	}
	if !s.Pending("exp") {
		add(6, sim.Action{Op: "begin", C: "exp"})
	}
	if !s.Pending("sug") && s.CachedSuggestion() != nil {
		mode := 0
		if r.Intn(5) == 0 {
			mode = 1 + r.Intn(6)
			if mode >= 5 && r.Intn(3) > 0 {
				mode = 0 // failed validation ends the experiment: keep it rare
			}
		}
		add(5, sim.Action{Op: "begin", C: "sug", Resp: w.resp(mode)})
	}
	if !s.Pending("trial") {
		ct := s.CachedTrials()
		if len(ct) > 0 {
			var open []int
			for _, t := range ct {
				if !t[1].(bool) {
					open = append(open, t[0].(int))
				}
			}
			k := ct[r.Intn(len(ct))][0].(int)
			if len(open) > 0 && r.Intn(5) > 0 {
				k = open[r.Intn(len(open))]
			}
			add(12, sim.Action{Op: "begin", C: "trial", Key: k, DbErr: r.Intn(30) == 0})
			// an early-stopped trial whose objective value is still missing is looked at again and again (its job may finish meanwhile)
			for _, t := range p.Trials {
				if trialES(t) && !(t.Obs.Has && t.Obs.Val != nil) {
					add(5, sim.Action{Op: "begin", C: "trial", Key: t.Name})
				}
			}
		}
	}
	inDB := map[int]bool{}
	dbNone := map[int]bool{}
	for _, d := range p.Db {
		inDB[d.Name] = true
		dbNone[d.Name] = d.Val == nil
	}
	trialByName := map[int]sim.PTrial{}
	for _, t := range p.Trials {
		trialByName[t.Name] = t
	}
	isES := func(t sim.PTrial) bool {
		for _, c := range t.Conds {
			if c.T == 6 && c.S == "True" {
				return true
			}
		}
		return false
	}
	for _, j := range p.Jobs {
		if tj, ok := trialByNameEarly(p, j.Name); ok && trialDone(tj) && j.Phase != "active" && cachedDone(s, j.Name) {
			add(0.25, sim.Action{Op: "jobgone", Key: j.Name}) // a retained run object removed by something else (TTL, user)
		}
		if j.Phase == "active" {
			wt := 4.0
			if expCompleted(p) {
				wt = 0.6 // the siblings of the trial that brought the verdict keep running for a while
			}
			add(wt, sim.Action{Op: "jobdone", Key: j.Name, Ok: r.Intn(5) > 0})
		}
		if !inDB[j.Name] {
			v := w.val(isES(trialByName[j.Name]))
			if s.Cfg.ES && !isES(trialByName[j.Name]) && r.Intn(3) == 0 {
				v = nil // with early stopping configured the first report often comes before any objective value
			}
			add(4, sim.Action{Op: "metrics", Key: j.Name, V: v})
		}
	}
	// the objective value arrives after a first report without it (also when the run object is already gone)
	for _, t := range p.Trials {
		if dbNone[t.Name] {
			wt := 1.5
			if isES(t) {
				wt = 0.3 // an early-stopped trial may wait long for its objective value (the window in which its job finishes first)
			}
			add(wt, sim.Action{Op: "metrics", Key: t.Name, V: w.val(true)})
		}
	}
	if s.Cfg.ES {
		for _, t := range p.Trials {
			running, done := false, false
			for _, c := range t.Conds {
				if c.T == 1 && c.S == "True" {
					running = true
				}
				if (c.T == 2 || c.T == 4 || c.T == 5 || c.T == 6) && c.S == "True" {
					done = true
				}
			}
			if running && !done {
				v := w.val(true)
				if r.Intn(4) == 0 || inDB[t.Name] {
					v = nil // stopped before any objective value was reported: the trial stays incomplete until one arrives
				}
				add(7, sim.Action{Op: "earlystop", Key: t.Name, V: v})
			}
		}
	}
	if p.Infra.Dep != nil {
		if !*p.Infra.Dep {
			add(6, sim.Action{Op: "deployavail", B: true})
		} else {
			add(0.2, sim.Action{Op: "deployavail", B: false})
		}
	}
	// a lagging experiment cache right after a restart: the window in which a reconcile still reads the completed experiment
	// ... and right after a verdict: the window in which a reconcile still reads the experiment as running
	if s.StaleCompletedExp() || s.StaleRunningExp() {
		if !w.lagDecided {
			w.lagDecided = true
			if r.Intn(2) == 0 {
				w.lagExp = 30
			}
		}
	} else {
		w.lagDecided = false
	}
	if w.lagExp > 0 {
		w.lagExp--
		add(0.3, sim.Action{Op: "syncexp"})
	} else {
		add(5, sim.Action{Op: "syncexp"})
	}
	// a lagging suggestion cache around the verdict: the experiment controller then cleans up / restarts the suggestion from a
	// copy that misses what the suggestion controller wrote last
	if expCompleted(p) && s.StaleSug() {
		if !w.lagSugDecided {
			w.lagSugDecided = true
			if r.Intn(2) == 0 {
				w.lagSug = 25
			}
		}
	} else if !expCompleted(p) {
		w.lagSugDecided = false
	}
	if w.lagSug > 0 {
		w.lagSug--
		add(0.3, sim.Action{Op: "syncsug"})
	} else {
		add(5, sim.Action{Op: "syncsug"})
	}
	add(6, sim.Action{Op: "synctrials"})
	if p.Exp != nil && p.Exp.Max != nil {
		completed := false
		for _, c := range p.Exp.Conds {
			if (c.T == 3 || c.T == 4) && c.S == "True" {
				completed = true
			}
		}
		if completed {
			add(3, sim.Action{Op: "raisemax", N: *p.Exp.Max + int64(1+r.Intn(2))})
		} else {
			add(0.05, sim.Action{Op: "raisemax", N: *p.Exp.Max + 1})
		}
	}
	tot := 0.0
	for _, c := range cs {
		tot += c.wt
	}
	x := r.Float64() * tot
	for _, c := range cs {
		x -= c.wt
		if x <= 0 {
			w.do(c.a)
			return
		}
	}
	w.do(cs[len(cs)-1].a)
}

// finishFaulty finishes a reconcile whose writes may still fail or which may be aborted between two writes.
func (w *walker) finishFaulty(c string, faulty bool) {
	if !faulty {
		w.finish(c)
		return
	}
	for w.s.Pending(c) {
		switch x := w.r.Intn(100); {
		case x < 6:
			w.do(sim.Action{Op: "abort", C: c})
		default:
			w.do(sim.Action{Op: "write", C: c, Inj: x < 22})
		}
	}
}

// drain drives the cluster to quiescence; returns the index of the first action of the final no-effect round.
// The first rounds of two thirds of the histories still suffer transient faults (failed writes, aborts between two writes):
// the tail of an experiment's life -- verdict, cleanup of the algorithm service, restart -- happens mostly here, and the
// properties quantify over a finite number of faults at any point of it.
func (w *walker) drain() *int {
	s := w.s
	for _, c := range []string{"exp", "sug", "trial"} {
		w.finish(c)
	}
	// a verdict reached while other trials are still running: in two thirds of these histories the controllers go round a few
	// times before the remaining jobs finish (nothing may be created for a completed experiment meanwhile)
	if expCompleted(s.Project()) && w.r.Intn(3) > 0 {
		for k := 2 + w.r.Intn(3); k > 0; k-- {
			active := false
			for _, j := range s.Project().Jobs {
				active = active || j.Phase == "active"
			}
			if !active {
				break
			}
			w.do(sim.Action{Op: "syncexp"})
			w.do(sim.Action{Op: "syncsug"})
			w.do(sim.Action{Op: "synctrials"})
			w.do(sim.Action{Op: "begin", C: "exp"})
			w.finish("exp")
			if s.CachedSuggestion() != nil {
				w.do(sim.Action{Op: "begin", C: "sug", Resp: w.resp(0)})
				w.finish("sug")
			}
		}
	}
	rounds := 250
	faultyRounds := 0
	if w.r.Intn(3) > 0 {
		faultyRounds = 1 + w.r.Intn(6)
	}
	seenStates := map[string]int{}
	for round := 0; round < rounds; round++ {
		faulty := round < faultyRounds
		if s.Cfg.Max == nil && len(s.Project().Trials) >= 9 && !expCompleted(s.Project()) {
			return nil // without maxTrialCount (and goal not reached) the experiment may run for ever
		}
		start := len(w.acts)
		before := s.Project()
		// environment completes
		p := s.Project()
		inDB := map[int]bool{}
		for _, d := range p.Db {
			inDB[d.Name] = true
		}
		envActed := false
		// the remaining jobs finish one after the other, not all at once: a verdict may come while siblings still run
		first := true
		for _, j := range p.Jobs {
			if j.Phase == "active" {
				if first || w.r.Intn(2) == 0 {
					w.do(sim.Action{Op: "jobdone", Key: j.Name, Ok: true})
				}
				first = false
				envActed = true
			}
		}
		dbNil := map[int]bool{}
		for _, d := range p.Db {
			dbNil[d.Name] = d.Val == nil
		}
		// the objective value of an early-stopped trial whose log has none yet arrives now, or (every other round) only after
		// the controllers have looked once more: the job may finish first
		var lateObjective []int
		for _, t := range p.Trials {
			if dbNil[t.Name] && trialES(t) {
				if w.r.Intn(2) == 0 {
					lateObjective = append(lateObjective, t.Name)
				} else {
					w.do(sim.Action{Op: "metrics", Key: t.Name, V: p64(int64(w.r.Intn(17)))})
				}
				envActed = true
			}
		}
		for _, t := range p.Trials {
			if !inDB[t.Name] {
				v := p64(int64(w.r.Intn(17)))
				isEs := false
				for _, c := range t.Conds {
					if c.T == 6 && c.S == "True" {
						isEs = true
					}
				}
				if !isEs && w.r.Intn(6) == 0 {
					v = nil
				}
				w.do(sim.Action{Op: "metrics", Key: t.Name, V: v})
				envActed = true
			}
		}
		if p.Infra.Dep != nil && !*p.Infra.Dep {
			w.do(sim.Action{Op: "deployavail", B: true})
			envActed = true
		}
		w.do(sim.Action{Op: "syncexp"})
		w.do(sim.Action{Op: "syncsug"})
		w.do(sim.Action{Op: "synctrials"})
		for _, t := range s.Project().Trials {
			w.do(sim.Action{Op: "begin", C: "trial", Key: t.Name})
			w.finishFaulty("trial", faulty)
		}
		w.do(sim.Action{Op: "begin", C: "exp"})
		w.finishFaulty("exp", faulty)
		if s.CachedSuggestion() != nil {
			w.do(sim.Action{Op: "begin", C: "sug", Resp: w.resp(0)})
			w.finishFaulty("sug", faulty)
		}
		for _, n := range lateObjective {
			w.do(sim.Action{Op: "metrics", Key: n, V: p64(int64(w.r.Intn(17)))})
		}
		after := s.Project()
		if !faulty && !envActed && after.Writes == before.Writes && sameStore(before, after) {
			return &start
		}
		if faulty {
			continue // a round with faults may leave the content as it was without being a cycle
		}
		// every round syncs all caches and runs every controller without faults, so a round is a function of the stored
		// content: a content that comes back for the third time is a cycle (a hot loop), no need to go on for 250 rounds
		if !envActed {
			k := after
			k.Writes, k.NRpc, k.CTChange = 0, 0, false
			js, _ := json.Marshal(k)
			seenStates[string(js)]++
			if seenStates[string(js)] >= 3 {
				return nil
			}
		}
	}
	return nil
}

func trialByNameEarly(p sim.Proj, n int) (sim.PTrial, bool) {
	for _, t := range p.Trials {
		if t.Name == n {
			return t, true
		}
	}
	return sim.PTrial{}, false
}

// cachedDone: the trial cache already shows the trial completed. (With a cache that still shows it unfinished, the
// unchanged controller itself re-creates a run object that somebody else removed: see DESIGN.md section 6, C07.)
func cachedDone(s *sim.Sim, n int) bool {
	for _, t := range s.CachedTrials() {
		if t[0].(int) == n {
			return t[1].(bool)
		}
	}
	return false
}

func trialES(t sim.PTrial) bool {
	for _, c := range t.Conds {
		if c.T == 6 && c.S == "True" {
			return true
		}
	}
	return false
}

func trialDone(t sim.PTrial) bool {
	for _, c := range t.Conds {
		if (c.T == 2 || c.T == 4 || c.T == 5 || c.T == 6) && c.S == "True" {
			return true
		}
	}
	return false
}

func expCompleted(p sim.Proj) bool {
	if p.Exp == nil {
		return false
	}
	for _, c := range p.Exp.Conds {
		if (c.T == 3 || c.T == 4) && c.S == "True" {
			return true
		}
	}
	return false
}

func sameStore(a, b sim.Proj) bool {
	a.Writes, b.Writes, a.NRpc, b.NRpc, a.CTChange, b.CTChange = 0, 0, 0, 0, false, false
	x, _ := json.Marshal(a)
	y, _ := json.Marshal(b)
	return string(x) == string(y)
}

func (w *walker) teardown() {
	s := w.s
	for _, c := range []string{"exp", "sug", "trial"} {
		w.finish(c)
	}
	w.do(sim.Action{Op: "delexp"})
	w.do(sim.Action{Op: "syncexp"})
	w.do(sim.Action{Op: "begin", C: "exp"})
	w.finish("exp")
	w.do(sim.Action{Op: "syncexp"})
	for _, t := range s.Project().Trials {
		w.do(sim.Action{Op: "gctrial", Key: t.Name})
	}
	w.do(sim.Action{Op: "synctrials"})
	for pass := 0; pass < 2; pass++ {
		for _, t := range s.Project().Trials {
			w.do(sim.Action{Op: "begin", C: "trial", Key: t.Name})
			for s.Pending("trial") {
				w.do(sim.Action{Op: "write", C: "trial", Inj: pass == 0 && w.r.Intn(4) == 0})
			}
		}
		w.do(sim.Action{Op: "synctrials"})
	}
}

// CaseTimeout: no time limit per history (histories of several hundred actions legitimately take long under load, and the
// simulator shares process-wide state: the gRPC client factories, the table of generated trial names).
func (world) CaseTimeout() time.Duration { return 0 }

func (wd world) Gen(r *rand.Rand, i, n int) any {
	cfg := genCfg(r)
	s := sim.New(cfg)
	w := &walker{r: r, s: s}
	steps := 70 + r.Intn(130)
	if wd.long {
		steps = 100 + r.Intn(700)
	}
	for k := 0; k < steps; k++ {
		w.step()
	}
	h := History{Cfg: cfg, Long: wd.long}
	if r.Intn(8) == 0 {
		w.teardown()
		h.Tear = true
	} else {
		h.Quiet = w.drain()
		// a second life: the user raises maxTrialCount on an experiment at rest (the validating webhook admits it only for
		// a restartable one; on the others the action is a no-op), more random steps, and a second drain
		for life := 0; life < 2 && h.Quiet != nil && cfg.Max != nil && r.Intn(2) == 0; life++ {
			p := s.Project()
			if p.Exp == nil || p.Exp.Max == nil {
				break
			}
			w.do(sim.Action{Op: "raisemax", N: *p.Exp.Max + int64(1+r.Intn(2))})
			more := 20 + r.Intn(60)
			for k := 0; k < more; k++ {
				w.step()
			}
			h.Quiet = w.drain()
		}
	}
	s.Shutdown()
	h.Actions = w.acts
	return h
}

func (world) Run(input any) kit.Case {
	h := input.(History)
	s := sim.New(h.Cfg)
	var steps []string
	stats := map[string]int{}
	maxTrials := 0
	verdict := false
	prev := s.Project()
	prev.Pending, prev.Writes, prev.NRpc = [3]bool{}, 0, 0
	staleRestart := false
	for _, a := range h.Actions {
		if a.Op == "begin" && a.C == "exp" && s.StaleCompletedExp() {
			staleRestart = true
		}
		if a.Op == "begin" && a.C == "exp" && !s.Pending("exp") && s.StaleRunningExp() {
			stats["experiment-reconcile-on-stale-running-cache-after-verdict"]++
		}
		if ((a.Op == "write" && a.Inj) || a.Op == "abort") && s.Pending(a.C) && expCompleted(prev) {
			stats["fault-after-verdict:"+a.C]++
		}
		s.Apply(a)
		p := s.Project()
		if expCompleted(prev) && prev.Exp != nil {
			running := false
			for _, t := range prev.Trials {
				running = running || !trialDone(t)
			}
			if running && a.Op == "begin" && a.C == "exp" {
				stats["experiment-reconcile-after-verdict-with-unfinished-trials"]++
			}
		}
		steps = append(steps, "("+a.Coq()+", "+p.CoqDelta(prev)+")")
		if os.Getenv("VERIF_TRACE") != "" {
			js, _ := json.Marshal(map[string]any{"exp": p.Exp, "sug": p.Sug, "infra": p.Infra, "pending": p.Pending, "ntrials": len(p.Trials)})
			fmt.Fprintf(os.Stderr, "%d %s => %s\n", len(steps)-1, a.Coq(), js)
		}
		prev = p
		stats[a.Op]++
		if a.Op == "write" && a.Inj {
			stats["fault"]++
		}
		if len(p.Trials) > maxTrials {
			maxTrials = len(p.Trials)
		}
		for _, t := range p.Trials {
			es, mu := false, false
			for _, c := range t.Conds {
				es = es || (c.T == 6 && c.S == "True")
				mu = mu || (c.T == 5 && c.S == "True")
			}
			if es && mu {
				stats["trial-early-stopped-and-metrics-unavailable"] = 1
			}
		}
		if p.Exp != nil {
			for _, c := range p.Exp.Conds {
				if (c.T == 3 || c.T == 4) && c.S == "True" {
					verdict = true
				}
			}
		}
	}
	s.Shutdown()
	var c kit.Case
	c.Input = h
	quiet := "None"
	if h.Quiet != nil {
		quiet = fmt.Sprintf("(Some %d%%nat)", *h.Quiet)
	}
	c.Coq = fmt.Sprintf("WorldC.Case %s %s %s %s %s %s %s %s false", h.Cfg.Coq(), kit.List(steps), sim.CoqRPCs(s.RPCs),
		sim.CoqNats(s.JobCreates), sim.CoqNats(s.JobDeletes), sim.CoqNats(s.DbDeletes), sim.CoqNats(s.FinReleased), quiet)
	var sig strings.Builder
	js, _ := json.Marshal(h)
	sig.Write(js)
	c.Sig = sig.String()
	final := s.Project()
	c.Observed = map[string]any{"final": final, "rpcs": len(s.RPCs), "conflicts": s.Conflicts, "fresh_reads_after_conflict": s.FreshReads, "already_exists": s.Exists, "panics": s.Panics}
	if len(s.Panics) > 0 {
		c.GoViol = strings.Join(s.Panics, "; ")
	}
	// known-finding domains, decided from the input alone
	c.Keys = map[string]string{}
	for _, a := range h.Actions {
		if a.Op == "begin" && a.C == "sug" && a.Resp != nil && (!a.Resp.Valid || (h.Cfg.ES && !a.Resp.ESValid)) {
			if k := kit.KeyIf("C16", "failed-suggestion-not-cleaned", h.Cfg.Resume != "LongRunning"); k != "" {
				c.Keys["C16"] = k
			}
		}
	}
	if staleRestart {
		c.Tags = append(c.Tags, "experiment-reconcile-on-stale-completed-cache-after-restart")
		// F18: an experiment reconcile ran on a cached completed experiment after the stored one had been restarted
		if k := kit.KeyIf("C16", "cleanup-on-stale-completed-experiment", h.Cfg.Resume == "FromVolume"); k != "" && c.Keys["C16"] == "" {
			c.Keys["C16"] = k
		}
	}
	c.Nontrivial = maxTrials >= 3 && (verdict || stats["fault"] > 0 || stats["abort"] > 0 || s.Conflicts > 0)
	if verdict {
		c.Tags = append(c.Tags, "verdict")
	}
	if final.Exp != nil {
		restarted, done := false, false
		for _, cd := range final.Exp.Conds {
			if cd.T == 2 && cd.S == "True" {
				restarted = true
			}
			if (cd.T == 3 || cd.T == 4) && cd.S == "True" {
				done = true
			}
		}
		if restarted {
			c.Tags = append(c.Tags, "restarted")
			if done {
				c.Tags = append(c.Tags, "restarted-and-completed-again:"+h.Cfg.Resume)
			}
		}
	}
	if h.Quiet != nil {
		c.Tags = append(c.Tags, "quiescent")
	}
	if h.Tear {
		c.Tags = append(c.Tags, "teardown")
	}
	if s.Conflicts > 0 {
		c.Tags = append(c.Tags, "conflict")
	}
	if s.Exists > 0 {
		c.Tags = append(c.Tags, "already-exists")
	}
	for _, k := range []string{"fault", "abort", "earlystop", "raisemax", "fault-after-verdict:exp", "fault-after-verdict:sug", "fault-after-verdict:trial",
		"experiment-reconcile-on-stale-running-cache-after-verdict", "experiment-reconcile-after-verdict-with-unfinished-trials", "trial-early-stopped-and-metrics-unavailable"} {
		if stats[k] > 0 {
			c.Tags = append(c.Tags, k)
		}
	}
	c.Tags = append(c.Tags, fmt.Sprintf("trials:%d", maxTrials))
	return c
}
