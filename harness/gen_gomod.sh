#!/bin/sh
# Generates harness/go.mod from /repo/go.mod so that the harness builds offline with the repo's pins.
set -e
REPO="${VERIF_REPO:-/repo}"
cd "$(dirname "$0")"
{
  echo "module verifharness"
  grep -m1 '^go ' "$REPO/go.mod"
  echo "require github.com/kubeflow/katib v0.0.0"
  echo "replace github.com/kubeflow/katib => $REPO"
  # every require(...) block, single-line require and replace of the repo
  awk '/^require \(/{p=1} p{print} /^\)/{p=0}' "$REPO/go.mod"
  grep -E '^(require|replace) [^(]' "$REPO/go.mod" || true
  awk '/^replace \(/{p=1} p{print} /^\)/{p=0}' "$REPO/go.mod"
} > go.mod.new
if ! cmp -s go.mod.new go.mod 2>/dev/null; then mv go.mod.new go.mod; else rm go.mod.new; fi
if ! cmp -s "$REPO/go.sum" go.sum 2>/dev/null; then cp "$REPO/go.sum" go.sum; fi
