package xlateui

import (
	"go/ast"
	"go/types"
	"strings"
)

// katibclient.Client methods: operation, kind, number of fixed leading arguments before the variadic namespace
// (-1: cluster scoped, -2: object argument).  Validated dynamically: the harness records kind/op/namespace of the
// real API calls and compares them with the skeleton.
var katibClientTable = map[string]struct {
	op, kind string
	fixed    int
}{
	"GetExperimentList":   {"OList", "KExperiment", 0},
	"GetExperiment":       {"OGet", "KExperiment", 1},
	"GetConfigMap":        {"OGet", "KConfigMap", 1},
	"GetTrial":            {"OGet", "KTrial", 1},
	"GetTrialList":        {"OList", "KTrial", 1},
	"GetTrialTemplates":   {"OList", "KConfigMap", 0},
	"GetSuggestion":       {"OGet", "KSuggestion", 1},
	"GetNamespaceList":    {"OList", "KNamespace", -1},
	"CreateRuntimeObject": {"OCreate", "", -2},
	"DeleteRuntimeObject": {"ODelete", "", -2},
	"UpdateRuntimeObject": {"OUpdate", "", -2},
}

func (c *ctx) recvType(call *ast.CallExpr) (ast.Expr, string) {
	sel, ok := call.Fun.(*ast.SelectorExpr)
	if !ok {
		return nil, ""
	}
	tv, ok := c.info.Types[sel.X]
	if !ok || tv.Type == nil {
		return sel.X, ""
	}
	return sel.X, tv.Type.String()
}

func (c *ctx) setLast(kind string) { c.last = kind }

// variadic namespace argument: args after the fixed ones; none = the default (katib) namespace
func (c *ctx) variadicNs(call *ast.CallExpr, fixed int) string {
	rest := call.Args[fixed:]
	if len(rest) == 0 {
		return c.defaultNs()
	}
	if call.Ellipsis.IsValid() { // f(xs...)
		return c.sliceNs(rest[0], 0)
	}
	return c.resolveNs(rest[0], 0)
}

func (c *ctx) sliceNs(e ast.Expr, depth int) string {
	if depth > 8 {
		return nsUnknown(exprText(e))
	}
	switch v := e.(type) {
	case *ast.CompositeLit:
		if len(v.Elts) == 0 {
			return c.defaultNs()
		}
		return c.resolveNs(v.Elts[0], 0)
	case *ast.Ident:
		if d, ok := c.defs[c.obj(v)]; ok {
			return c.sliceNs(d, depth+1)
		}
	case *ast.ParenExpr:
		return c.sliceNs(v.X, depth+1)
	}
	return nsUnknown(exprText(e))
}

func (c *ctx) access(op, kind, ns string, lhs []types.Object, resultIdx int) []instr {
	d := c.newDst(ns, kind)
	c.lastDst = d
	c.setLast("access")
	if resultIdx >= 0 && resultIdx < len(lhs) && lhs[resultIdx] != nil {
		o := lhs[resultIdx]
		c.srcs[o] = append(c.srcs[o], d)
		c.readDst[o] = d
		c.readNs[o] = ns
		delete(c.defs, o)
	}
	return []instr{mk("Access", op, kind, ns, nat(d))}
}

func (c *ctx) call(lhsE []ast.Expr, call *ast.CallExpr, next ast.Stmt) []instr {
	lhs := c.lhsObjs(lhsE)
	fn := calleeFunc(c.info, call)
	recv, rt := c.recvType(call)
	name := ""
	if fn != nil {
		name = fn.Name()
	}
	hasErr := false
	for _, o := range lhs {
		if o != nil && o.Type() != nil && o.Type().String() == "error" {
			hasErr = true
		}
	}

	// ---- IsAuthorized(verb, namespace, resource, subresource, name, gv, client, r)
	if fn != nil && fn.Pkg() != nil && fn.Pkg().Path() == uiPkg && name == "IsAuthorized" && len(call.Args) == 8 {
		verb, ok1 := c.strConst(call.Args[0])
		res, ok2 := c.strConst(call.Args[2])
		sub, ok3 := c.strConst(call.Args[3])
		if !ok1 || !ok2 || !ok3 {
			return []instr{unknown("IsAuthorized with a non-constant verb or resource")}
		}
		if sub != "" {
			res += "/" + sub
		}
		for i, a := range call.Args {
			if i != 6 && i != 7 {
				if w := c.reaches(a); w != "" {
					return []instr{unknown("IsAuthorized argument touching " + w)}
				}
			}
		}
		a := mk("Auth", q(verb), q(res), c.resolveNs(call.Args[1], 0))
		c.lastAuth = &a
		c.setLast("auth")
		if len(lhs) > 0 && lhs[0] != nil {
			c.userVars[lhs[0]] = true
		}
		return nil
	}

	// ---- k.katibClient.<Method>
	if strings.HasSuffix(rt, "katibclient.Client") {
		if w := c.argsReach(call.Args); w != "" {
			return []instr{unknown("katibclient argument touching " + w)}
		}
		if name == "GetClient" || name == "InjectClient" {
			return []instr{unknown("katibclient." + name + " outside a recognised pattern")}
		}
		t, ok := katibClientTable[name]
		if !ok {
			return []instr{unknown("katibclient." + name)}
		}
		switch t.fixed {
		case -1:
			return c.access(t.op, t.kind, `(NsConst "")`, lhs, 0)
		case -2:
			tv := c.info.Types[call.Args[0]]
			return c.access(t.op, kindOfType(tv.Type), c.objectNs(call.Args[0], 0), lhs, -1)
		default:
			ns := c.variadicNs(call, t.fixed)
			out := c.access(t.op, t.kind, ns, lhs, 0)
			if t.fixed == 1 {
				if id, ok := call.Args[0].(*ast.Ident); ok {
					c.nameNs[c.obj(id)] = ns
				}
			}
			return out
		}
	}

	// ---- k.katibClient.GetClient().<Get|List|Create|Update|Delete|Patch>(ctx, ...)
	if strings.Contains(rt, "controller-runtime/pkg/client.") {
		if rc, ok := recv.(*ast.CallExpr); !ok || calleeFunc(c.info, rc) == nil || calleeFunc(c.info, rc).Name() != "GetClient" {
			return []instr{unknown("controller-runtime client from " + exprText(recv))}
		}
		if w := c.argsReach(call.Args); w != "" {
			return []instr{unknown("client argument touching " + w)}
		}
		switch name {
		case "Get":
			if len(call.Args) >= 3 {
				ns := c.objectNs(call.Args[1], 0) // types.NamespacedName{Namespace: ...}
				out := c.access("OGet", kindOfType(c.info.Types[call.Args[2]].Type), ns, nil, -1)
				if id, ok := call.Args[2].(*ast.Ident); ok {
					o := c.obj(id)
					c.srcs[o] = append(c.srcs[o], c.lastDst)
					c.readDst[o], c.readNs[o] = c.lastDst, ns
					delete(c.defs, o)
				}
				return out
			}
		case "Create", "Update", "Delete", "Patch":
			if len(call.Args) >= 2 {
				op := map[string]string{"Create": "OCreate", "Update": "OUpdate", "Delete": "ODelete", "Patch": "OUpdate"}[name]
				return c.access(op, kindOfType(c.info.Types[call.Args[1]].Type), c.objectNs(call.Args[1], 0), nil, -1)
			}
		}
		return []instr{unknown("controller-runtime client." + name)}
	}

	// ---- DB manager
	if strings.HasSuffix(rt, "DBManagerClient") {
		op := map[string]string{"GetObservationLog": "OGet", "ReportObservationLog": "OCreate", "DeleteObservationLog": "ODelete"}[name]
		if op == "" || len(call.Args) < 2 {
			return []instr{unknown("DBManagerClient." + name)}
		}
		return c.access(op, "KObsLog", c.trialNsOfRequest(call.Args[1]), lhs, 0)
	}

	// ---- clientset.CoreV1().<Resource>(ns).<Verb>(...)
	if strings.Contains(rt, "k8s.io/client-go/kubernetes/typed/") {
		rc, ok := recv.(*ast.CallExpr)
		if !ok || len(rc.Args) != 1 {
			if name == "CoreV1" {
				return []instr{unknown("clientset group accessor outside a recognised chain")}
			}
			return []instr{unknown("clientset call " + exprText(call))}
		}
		rfn := calleeFunc(c.info, rc)
		kind := "(KOther " + q(rfn.Name()) + ")"
		if rfn.Name() == "Pods" {
			kind = "KPod"
		}
		ns := c.resolveNs(rc.Args[0], 0)
		switch name {
		case "List":
			return c.access("OList", kind, ns, lhs, 0)
		case "Get":
			return c.access("OGet", kind, ns, lhs, 0)
		case "Create":
			return c.access("OCreate", kind, ns, lhs, -1)
		case "Update":
			return c.access("OUpdate", kind, ns, lhs, -1)
		case "Delete":
			return c.access("ODelete", kind, ns, lhs, -1)
		case "GetLogs":
			if len(lhs) == 1 && lhs[0] != nil {
				c.logReq[lhs[0]] = ns
				return nil
			}
		}
		return []instr{unknown("clientset " + rfn.Name() + "." + name)}
	}
	if strings.Contains(rt, "k8s.io/client-go/rest.Request") {
		if id, ok := recv.(*ast.Ident); ok && name == "Stream" {
			if ns, ok := c.logReq[c.obj(id)]; ok {
				return c.access("OGet", "KPodLog", ns, lhs, 0)
			}
		}
		return []instr{unknown("rest.Request." + name)}
	}
	if strings.Contains(rt, "k8s.io/client-go/kubernetes") {
		return []instr{unknown("clientset call " + exprText(call))}
	}

	// ---- helpers of pkg/ui/v1beta1
	if strings.HasSuffix(rt, uiPkg+".KatibUIHandler") {
		if name == "connectManager" {
			// grpc.NewClient performs no I/O; the connection is used by the DBManagerClient calls only
			return nil
		}
		if fd, ok := c.x.methods[name]; ok {
			return c.inline(fd, call, lhs, next)
		}
		return []instr{unknown("method " + name + " of KatibUIHandler")}
	}
	if fn != nil && fn.Pkg() != nil && fn.Pkg().Path() == uiPkg {
		if fd, ok := c.x.funcs[name]; ok && (c.argsReach(call.Args) != "" || c.resultsClientish(fn)) {
			return c.inline(fd, call, lhs, next)
		}
	}

	// ---- the response
	if strings.Contains(rt, "net/http.ResponseWriter") {
		switch name {
		case "Write":
			c.respond = true
			c.setLast("lib")
			c.lastLib = "w.Write"
			return []instr{mk("Respond", natList(c.sources(call.Args[0])))}
		case "Header":
			return nil
		}
		return []instr{unknown("w." + name)}
	}
	if fn != nil && fn.Pkg() != nil && fn.Pkg().Path() == "net/http" {
		switch name {
		case "ServeFile":
			c.respond = true
			return []instr{mk("Respond", "[]")}
		case "Error":
			return []instr{unknown("http.Error outside an error guard")}
		}
	}

	// ---- constructors that perform no I/O
	full := ""
	if fn != nil {
		full = fn.FullName()
	}
	switch full {
	case "sigs.k8s.io/controller-runtime/pkg/client/config.GetConfig", "k8s.io/client-go/kubernetes.NewForConfig", "google.golang.org/grpc.NewClient":
		if hasErr {
			c.setLast("lib")
			c.lastLib = libName(fn)
		}
		return nil
	}
	if name == "Close" && len(call.Args) == 0 {
		return nil
	}

	// ---- anything else must not touch a client
	if w := c.reaches(call); w != "" {
		return []instr{unknown("call " + exprText(call.Fun) + " touching " + w)}
	}
	// pure library / data call: record the data flow
	for i, o := range lhs {
		if o == nil {
			continue
		}
		c.flow(o, call)
		if i < len(lhsE) {
			delete(c.defs, o)
		}
	}
	if len(lhs) == 0 {
		// calls with pointer results: json.Unmarshal(b, &x), Decode(&data)
		for _, a := range call.Args {
			if u, ok := a.(*ast.UnaryExpr); ok {
				if b := baseVar(c, u.X); b != nil {
					c.flow(b, call)
				}
			}
		}
	}
	c.jsonFlow(fn, call, lhs)
	if hasErr || (fn != nil && returnsOnlyError(fn)) {
		c.setLast("lib")
		c.lastLib = libName(fn)
	}
	return nil
}

func returnsOnlyError(fn *types.Func) bool {
	sig, ok := fn.Type().(*types.Signature)
	return ok && sig.Results().Len() == 1 && sig.Results().At(0).Type().String() == "error"
}

func libName(fn *types.Func) string {
	if fn == nil {
		return "?"
	}
	p := ""
	if fn.Pkg() != nil {
		p = fn.Pkg().Name() + "."
	}
	return p + fn.Name()
}

func (c *ctx) argsReach(args []ast.Expr) string {
	for _, a := range args {
		if w := c.reaches(a); w != "" {
			return w
		}
	}
	return ""
}

func (c *ctx) resultsClientish(fn *types.Func) bool {
	sig := fn.Type().(*types.Signature)
	for i := 0; i < sig.Results().Len(); i++ {
		if clientish(sig.Results().At(i).Type()) {
			return true
		}
	}
	return false
}

// jsonFlow tracks which part of the request body a variable was decoded from.
func (c *ctx) jsonFlow(fn *types.Func, call *ast.CallExpr, lhs []types.Object) {
	if fn == nil || fn.Pkg() == nil || fn.Pkg().Path() != "encoding/json" {
		return
	}
	target := func(e ast.Expr) types.Object {
		if u, ok := e.(*ast.UnaryExpr); ok {
			if id, ok := u.X.(*ast.Ident); ok {
				return c.obj(id)
			}
		}
		return nil
	}
	switch fn.Name() {
	case "Decode": // json.NewDecoder(r.Body).Decode(&data)
		if strings.Contains(exprText(call.Fun), "r.Body") && len(call.Args) == 1 {
			c.bodyVar = target(call.Args[0])
		}
	case "Marshal":
		if id, ok := call.Args[0].(*ast.Ident); ok && len(lhs) > 0 && lhs[0] != nil {
			if at, ok := c.jsonAt[c.obj(id)]; ok {
				c.jsonAt[lhs[0]] = at
			}
		}
	case "Unmarshal":
		if id, ok := call.Args[0].(*ast.Ident); ok && len(call.Args) == 2 {
			if at, ok := c.jsonAt[c.obj(id)]; ok {
				if t := target(call.Args[1]); t != nil {
					c.jsonAt[t] = at
				}
			}
		}
	}
}

// trialNsOfRequest: namespace of the trial named in &GetObservationLogRequest{TrialName: X}
func (c *ctx) trialNsOfRequest(e ast.Expr) string {
	if u, ok := e.(*ast.UnaryExpr); ok {
		e = u.X
	}
	cl, ok := e.(*ast.CompositeLit)
	if !ok {
		return nsUnknown("observation log request " + exprText(e))
	}
	for _, el := range cl.Elts {
		kv, ok := el.(*ast.KeyValueExpr)
		if !ok || exprText(kv.Key) != "TrialName" {
			continue
		}
		switch v := kv.Value.(type) {
		case *ast.SelectorExpr: // t.Name with t an object read from namespace ns
			if base, fields := selChain(v); base != nil && (len(fields) == 1 || fields[0] == "ObjectMeta") && fields[len(fields)-1] == "Name" {
				if ns, ok := c.readNs[c.obj(base)]; ok {
					return ns
				}
			}
		case *ast.Ident: // a name by which a trial was fetched from namespace ns before
			if ns, ok := c.nameNs[c.obj(v)]; ok {
				return ns
			}
		}
		return nsUnknown("trial " + exprText(kv.Value))
	}
	return nsUnknown("observation log request without TrialName")
}

// ------------------------------------------------------------------ inlining

func (c *ctx) inline(fd *ast.FuncDecl, call *ast.CallExpr, lhs []types.Object, next ast.Stmt) []instr {
	if len(c.frames) > 6 {
		return []instr{unknown("helper nesting too deep")}
	}
	for _, f := range c.frames {
		if f.fn == fd {
			return []instr{unknown("recursive helper " + fd.Name.Name)}
		}
	}
	// the status code of the caller's error guard
	code := -1
	if is, ok := next.(*ast.IfStmt); ok && is.Init == nil && c.isErrNotNil(is.Cond) {
		if k, kind := c.terminal(is.Body.List); kind == "stop" {
			code = k
		}
	}
	// bind parameters
	i := 0
	for _, f := range fd.Type.Params.List {
		for _, n := range f.Names {
			if i < len(call.Args) {
				o := c.info.Defs[n]
				c.defs[o] = call.Args[i]
				c.flow(o, call.Args[i])
				if id, ok := call.Args[i].(*ast.Ident); ok {
					ao := c.obj(id)
					if ns, ok := c.readNs[ao]; ok {
						c.readNs[o] = ns
					}
					if d, ok := c.readDst[ao]; ok {
						c.readDst[o] = d
					}
					if ns, ok := c.nameNs[ao]; ok {
						c.nameNs[o] = ns
					}
				}
			}
			i++
		}
	}
	fr := &frame{helper: true, code: code, results: lhs, fn: fd, depth0: c.depth}
	c.frames = append(c.frames, fr)
	out := c.block(fd.Body.List)
	c.frames = c.frames[:len(c.frames)-1]
	for _, o := range lhs {
		if o != nil {
			delete(c.defs, o)
		}
	}
	c.setLast("helper")
	return out
}
