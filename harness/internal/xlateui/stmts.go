package xlateui

import (
	"go/ast"
	"go/token"
	"go/types"
	"strings"
)

const constsPkg = "github.com/kubeflow/katib/pkg/controller.v1beta1/consts"

// the namespace katibclient's getNamespace() falls back to
func (c *ctx) defaultNs() string {
	if v, ok := c.x.cfgVars[constsPkg+".DefaultKatibNamespace"]; ok {
		return "(NsConst " + q(v) + ")"
	}
	return nsUnknown("consts.DefaultKatibNamespace")
}

// ------------------------------------------------------------------ blocks

func (c *ctx) block(stmts []ast.Stmt) []instr {
	fr := c.top()
	isTop := fr.fn != nil && len(stmts) > 0 && fr.fn.Body != nil && len(fr.fn.Body.List) > 0 && stmts[0] == fr.fn.Body.List[0]
	return c.blockT(stmts, isTop)
}

func hasAccess(l []instr) bool {
	for _, x := range l {
		if x.op == "Access" || x.op == "Auth" || x.op == "Unknown" {
			return true
		}
		for _, b := range x.lists {
			if hasAccess(b) {
				return true
			}
		}
	}
	return false
}

func (c *ctx) blockT(stmts []ast.Stmt, isTop bool) []instr {
	var out []instr
	fr := c.top()
	for i, s := range stmts {
		var next ast.Stmt
		if i+1 < len(stmts) {
			next = stmts[i+1]
		}
		if c.lastAuth != nil && !c.isGuardOfAuth(s) {
			out = append(out, c.flushAuth("GNone"))
		}
		// a helper whose caller does not answer the error itself: `if err != nil { return ..., err }` leaves err set and
		// skips the rest of the helper
		if is, ok := s.(*ast.IfStmt); ok && fr.helper && fr.code < 0 && is.Else == nil && c.isErrNotNil(is.Cond) {
			if _, kind := c.terminal(is.Body.List); kind == "stop" {
				if is.Init != nil {
					out = append(out, c.stmt(is.Init, &ast.IfStmt{Cond: is.Cond, Body: is.Body})...)
				}
				switch c.last {
				case "lib":
					out = append(out, mk("LibErr", q(c.lastLib)))
				case "auth":
					if c.lastAuth != nil {
						out = append(out, c.flushAuth("GNone"))
					}
				}
				fr.raises++
				if rest := c.blockT(stmts[i+1:], isTop); len(rest) > 0 {
					out = append(out, instr{op: "IfOk", lists: [][]instr{rest}})
				}
				return out
			}
		}
		was := fr.condReturn
		raises := fr.raises
		got := c.stmt(s, next)
		if isTop && fr.helper && was {
			// after a conditional success return only data-dependent failures may follow
			for j, g := range got {
				switch g.op {
				case "Fail":
					got[j] = instr{op: "Alt", lists: [][]instr{{g}, {}}}
				case "LibGuard":
				default:
					got[j] = unknown("effect after a conditional return in helper " + fr.fn.Name.Name)
				}
			}
		}
		if c.respond && len(got) > 0 && !respondOnly(got) {
			got = []instr{unknown("effect after the response was written")}
		}
		out = append(out, got...)
		if fr.raises != raises && c.top() == fr {
			// an error return happened inside s (a loop or branch of this helper): the rest runs only when err == nil
			switch s.(type) {
			case *ast.ForStmt, *ast.RangeStmt:
				if hasAccess(got) {
					out = append(out, unknown("error return inside a loop with accesses in a helper whose caller retries"))
				}
			}
			if rest := c.blockT(stmts[i+1:], isTop); len(rest) > 0 {
				out = append(out, instr{op: "IfOk", lists: [][]instr{rest}})
			}
			return out
		}
	}
	if c.lastAuth != nil {
		out = append(out, c.flushAuth("GNone"))
	}
	return out
}

func respondOnly(l []instr) bool {
	for _, x := range l {
		if x.op != "Respond" && x.op != "LibGuard" {
			return false
		}
	}
	return true
}

func (c *ctx) flushAuth(g string) instr {
	a := *c.lastAuth
	c.lastAuth = nil
	a.args = append(a.args, g)
	return a
}

func (c *ctx) isGuardOfAuth(s ast.Stmt) bool {
	is, ok := s.(*ast.IfStmt)
	if !ok || is.Init != nil {
		return false
	}
	return c.isErrNotNil(is.Cond) || c.isUserEmptyAndErr(is.Cond)
}

// ------------------------------------------------------------------ conditions

func (c *ctx) isErrIdent(e ast.Expr) bool {
	id, ok := e.(*ast.Ident)
	if !ok {
		return false
	}
	o := c.obj(id)
	return o != nil && o.Type() != nil && o.Type().String() == "error"
}

func isNil(e ast.Expr) bool { id, ok := e.(*ast.Ident); return ok && id.Name == "nil" }

func (c *ctx) isErrNotNil(e ast.Expr) bool {
	b, ok := e.(*ast.BinaryExpr)
	return ok && b.Op == token.NEQ && c.isErrIdent(b.X) && isNil(b.Y)
}

func (c *ctx) isUserEmptyAndErr(e ast.Expr) bool { // user == "" && err != nil
	b, ok := e.(*ast.BinaryExpr)
	if !ok || b.Op != token.LAND || !c.isErrNotNil(b.Y) {
		return false
	}
	l, ok := b.X.(*ast.BinaryExpr)
	if !ok || l.Op != token.EQL {
		return false
	}
	id, ok := l.X.(*ast.Ident)
	if !ok || !c.userVars[c.obj(id)] {
		return false
	}
	s, ok := c.strConst(l.Y)
	return ok && s == ""
}

// terminal: the statements only log, answer with http.Error(code) and return (handler), or `return ..., <err>` (helper).
// kind: "stop" | "success" (helper returns with a nil error) | ""
func (c *ctx) terminal(stmts []ast.Stmt) (code int, kind string) {
	code = -1
	if len(stmts) == 0 {
		return -1, ""
	}
	for i, s := range stmts {
		last := i == len(stmts)-1
		switch v := s.(type) {
		case *ast.ReturnStmt:
			if !last {
				return -1, ""
			}
			fr := c.top()
			if !fr.helper {
				if len(v.Results) != 0 || code < 0 {
					return -1, ""
				}
				return code, "stop"
			}
			if len(v.Results) == 0 {
				return -1, ""
			}
			if isNil(v.Results[len(v.Results)-1]) {
				return 0, "success"
			}
			if code >= 0 {
				return -1, "" // helper answering itself: not understood
			}
			return fr.code, "stop"
		case *ast.ExprStmt:
			call, ok := v.X.(*ast.CallExpr)
			if !ok {
				return -1, ""
			}
			if fn := calleeFunc(c.info, call); fn != nil && fn.Pkg() != nil && fn.Pkg().Path() == "net/http" && fn.Name() == "Error" && len(call.Args) == 3 {
				if k, ok := c.intConst(call.Args[2]); ok && code < 0 {
					code = k
					continue
				}
				return -1, ""
			}
			if c.reaches(call) != "" {
				return -1, ""
			}
		case *ast.AssignStmt, *ast.DeclStmt:
			if c.reaches(s) != "" {
				return -1, ""
			}
		default:
			return -1, ""
		}
	}
	return -1, ""
}

// ------------------------------------------------------------------ statements

func (c *ctx) stmt(s ast.Stmt, next ast.Stmt) []instr {
	switch v := s.(type) {
	case *ast.EmptyStmt, *ast.BranchStmt, *ast.IncDecStmt:
		return nil
	case *ast.DeclStmt:
		gd, ok := v.Decl.(*ast.GenDecl)
		if !ok {
			return []instr{unknown("declaration")}
		}
		for _, sp := range gd.Specs {
			vs, ok := sp.(*ast.ValueSpec)
			if !ok {
				continue
			}
			if len(vs.Values) > 0 {
				var lhs []ast.Expr
				for _, n := range vs.Names {
					lhs = append(lhs, n)
				}
				if r := c.assign(lhs, vs.Values, true, next); len(r) > 0 {
					return r
				}
			}
		}
		return nil
	case *ast.ExprStmt:
		if call, ok := v.X.(*ast.CallExpr); ok {
			return c.call(nil, call, next)
		}
		if w := c.reaches(v.X); w != "" {
			return []instr{unknown("expression statement touching " + w)}
		}
		return nil
	case *ast.AssignStmt:
		return c.assign(v.Lhs, v.Rhs, v.Tok == token.DEFINE, next)
	case *ast.DeferStmt:
		if fn := calleeFunc(c.info, v.Call); fn != nil && fn.Name() == "Close" {
			return nil
		}
		return []instr{unknown("defer " + exprText(v.Call))}
	case *ast.IfStmt:
		return c.ifStmt(v)
	case *ast.ForStmt:
		return c.forStmt(v)
	case *ast.RangeStmt:
		return c.rangeStmt(v)
	case *ast.BlockStmt:
		return c.block(v.List)
	case *ast.ReturnStmt:
		return c.returnStmt(v)
	case *ast.SwitchStmt:
		if w := c.reaches(v); w != "" {
			return []instr{unknown("switch touching " + w)}
		}
		return nil
	}
	return []instr{unknown("statement " + exprText(s))}
}

func (c *ctx) returnStmt(v *ast.ReturnStmt) []instr {
	fr := c.top()
	if !fr.helper {
		if len(c.frames) == 1 && len(v.Results) == 0 {
			return []instr{unknown("return outside an error guard")}
		}
		return []instr{unknown("return " + exprText(v))}
	}
	if len(v.Results) == 0 {
		return []instr{unknown("bare return in helper")}
	}
	lastR := v.Results[len(v.Results)-1]
	for _, r := range v.Results {
		if w := c.reaches(r); w != "" && !clientResult(c, r) {
			return []instr{unknown("return value touching " + w)}
		}
	}
	errTyped := false
	if tv, ok := c.info.Types[lastR]; ok && tv.Type != nil && (tv.Type.String() == "error" || isNil(lastR)) {
		sig := c.info.Defs[fr.fn.Name].Type().(*types.Signature)
		errTyped = sig.Results().Len() > 0 && sig.Results().At(sig.Results().Len()-1).Type().String() == "error"
	}
	if errTyped && !isNil(lastR) {
		if fr.code < 0 {
			return []instr{unknown("helper error not guarded by the caller")}
		}
		return []instr{{op: "Fail", args: []string{nat(fr.code)}}}
	}
	// success: bind results
	for i, r := range v.Results {
		if i < len(fr.results) && fr.results[i] != nil {
			c.bindResult(fr.results[i], r)
		}
	}
	if c.depth > fr.depth0 {
		fr.condReturn = true
	}
	return nil
}

func clientResult(c *ctx, r ast.Expr) bool { // returning a freshly built client (createKubernetesClientset) is fine
	_, ok := r.(*ast.Ident)
	return ok
}

func (c *ctx) bindResult(dst types.Object, r ast.Expr) {
	c.flow(dst, r)
	if id, ok := r.(*ast.Ident); ok {
		o := c.obj(id)
		if d, ok := c.namesOf[o]; ok {
			c.namesOf[dst] = d
		}
		if n, ok := c.readNs[o]; ok {
			c.readNs[dst] = n
		}
		if d, ok := c.readDst[o]; ok {
			c.readDst[dst] = d
		}
	}
	if ns := c.namesSources(r); len(ns) == 1 {
		c.namesOf[dst] = ns[0]
	}
}

func (c *ctx) namesSources(e ast.Node) []int {
	seen := map[types.Object]bool{}
	set := map[int]bool{}
	var visit func(o types.Object)
	visit = func(o types.Object) {
		if o == nil || seen[o] {
			return
		}
		seen[o] = true
		for _, d := range c.srcs[o] {
			if c.dstKind[d] == "KNamespace" {
				set[d] = true
			}
		}
		for _, p := range c.edges[o] {
			visit(p)
		}
	}
	for _, o := range c.varsIn(e) {
		visit(o)
	}
	var res []int
	for d := range set {
		res = append(res, d)
	}
	return res
}

// ------------------------------------------------------------------ assignments

func (c *ctx) lhsObjs(lhs []ast.Expr) []types.Object {
	res := make([]types.Object, len(lhs))
	for i, l := range lhs {
		if id, ok := l.(*ast.Ident); ok && id.Name != "_" {
			res[i] = c.obj(id)
		}
	}
	return res
}

func (c *ctx) assign(lhs, rhs []ast.Expr, define bool, next ast.Stmt) []instr {
	if len(rhs) == 1 {
		if call, ok := rhs[0].(*ast.CallExpr); ok {
			return c.call(lhs, call, next)
		}
	}
	var out []instr
	objs := c.lhsObjs(lhs)
	// v, ok := r.URL.Query()["p"]   /   v, ok := data["k"]
	if len(lhs) == 2 && len(rhs) == 1 {
		if p, ok := c.isQueryIndex(rhs[0]); ok {
			if objs[0] != nil {
				c.paramOf[objs[0]] = p
			}
			if objs[1] != nil {
				c.okOf[objs[1]] = okInfo{"param", p}
			}
			return nil
		}
		if k, ok := c.bodyKey(rhs[0]); ok {
			if objs[0] != nil {
				c.jsonAt[objs[0]] = k
			}
			if objs[1] != nil {
				c.okOf[objs[1]] = okInfo{"key", k}
			}
			return nil
		}
	}
	for i, r := range rhs {
		// r.URL.Query()["p"][0] without a presence check
		if ix, ok := r.(*ast.IndexExpr); ok {
			if p, ok := c.isQueryIndex(ix.X); ok {
				out = append(out, mk("IndexParam", q(p)))
			}
		}
		if ta, ok := r.(*ast.TypeAssertExpr); ok {
			if k, ok := c.bodyKey(ta.X); ok {
				out = append(out, mk("AssertStr", q(k)))
			}
		}
		if w := c.reaches(r); w != "" {
			out = append(out, unknown("assignment from "+w))
		}
		if i < len(objs) && len(lhs) == len(rhs) {
			if objs[i] != nil {
				if define {
					c.defs[objs[i]] = r
				} else if _, had := c.defs[objs[i]]; had {
					delete(c.defs, objs[i])
				}
				c.flow(objs[i], r)
			} else if b := baseVar(c, lhs[i]); b != nil {
				c.flow(b, r)
				c.flow(b, lhs[i])
			}
		}
	}
	for _, l := range lhs {
		if _, ok := l.(*ast.Ident); !ok {
			if w := c.reaches(l); w != "" {
				out = append(out, unknown("assignment to "+w))
			}
		}
	}
	return out
}

// ------------------------------------------------------------------ if

func (c *ctx) sub(stmts []ast.Stmt) []instr {
	c.depth++
	r := c.block(stmts)
	c.depth--
	return r
}

func (c *ctx) elseStmts(e ast.Stmt) []ast.Stmt {
	switch v := e.(type) {
	case nil:
		return nil
	case *ast.BlockStmt:
		return v.List
	default:
		return []ast.Stmt{v}
	}
}

func (c *ctx) guardInstr(code int) []instr {
	switch c.last {
	case "auth":
		if c.lastAuth != nil {
			return []instr{c.flushAuth("(GCode " + nat(code) + ")")}
		}
		return []instr{mk("Guard", nat(code))}
	case "lib":
		return []instr{mk("LibGuard", q(c.lastLib), nat(code))}
	case "access", "helper":
		return []instr{mk("Guard", nat(code))}
	}
	return []instr{unknown("error guard without a preceding call")}
}

func (c *ctx) ifStmt(s *ast.IfStmt) []instr {
	var out []instr
	if s.Init != nil {
		out = append(out, c.stmt(s.Init, &ast.IfStmt{Cond: s.Cond, Body: s.Body, Else: s.Else})...)
	}
	cond := s.Cond
	switch {
	case c.isUserEmptyAndErr(cond) && c.lastAuth != nil:
		// if user == "" && err != nil {401} else if err != nil {403}
		c1, k1 := c.terminal(s.Body.List)
		ei, ok := s.Else.(*ast.IfStmt)
		if k1 == "stop" && c1 == 401 && ok && ei.Init == nil && c.isErrNotNil(ei.Cond) {
			c2, k2 := c.terminal(ei.Body.List)
			if k2 == "stop" && c2 == 403 {
				out = append(out, c.flushAuth("GStd"))
				c.last = "auth"
				if ei.Else != nil {
					out = append(out, c.block(c.elseStmts(ei.Else))...)
				}
				return out
			}
		}
		out = append(out, c.flushAuth("GNone"), unknown("authorisation guard of unexpected shape"))
		return out
	case c.isErrNotNil(cond):
		code, kind := c.terminal(s.Body.List)
		switch kind {
		case "stop":
			if code < 0 {
				return append(out, unknown("helper error not guarded by the caller"))
			}
			out = append(out, c.guardInstr(code)...)
			if s.Else != nil {
				out = append(out, c.block(c.elseStmts(s.Else))...)
			}
			return out
		case "success":
			// names := [CONST...]; return names, nil   after a failed namespace list
			if c.last == "access" && c.dstKind[c.lastDst] == "KNamespace" && s.Else == nil {
				var names []string
				okp := true
				for _, st := range s.Body.List {
					ast.Inspect(st, func(n ast.Node) bool {
						if call, ok := n.(*ast.CallExpr); ok {
							if id, ok := call.Fun.(*ast.Ident); ok && id.Name == "append" {
								for _, a := range call.Args[1:] {
									if v, ok := c.strConst(a); ok {
										names = append(names, q(v))
									} else {
										okp = false
									}
								}
							}
						}
						return true
					})
				}
				ret := s.Body.List[len(s.Body.List)-1].(*ast.ReturnStmt)
				fr := c.top()
				if okp && len(fr.results) > 0 && fr.results[0] != nil {
					c.namesOf[fr.results[0]] = c.lastDst
					c.flow(fr.results[0], ret.Results[0])
					fr.condReturn = true
					// the rest of the helper only derives the names from the list: checked by the condReturn rule
					return append(out, mk("DefaultNames", nat(c.lastDst), "["+strings.Join(names, "; ")+"]"))
				}
			}
			return append(out, unknown("conditional success return after an error"))
		default:
			if c.lastAuth != nil {
				out = append(out, c.flushAuth("GNone"))
			}
			body := c.sub(s.Body.List)
			els := c.sub(c.elseStmts(s.Else))
			if len(els) > 0 {
				return append(out, unknown("else branch of an error test with effects"))
			}
			if len(body) == 0 {
				return out
			}
			return append(out, instr{op: "IfErr", lists: [][]instr{body}})
		}
	}
	// !ok
	if u, ok := cond.(*ast.UnaryExpr); ok && u.Op == token.NOT {
		if id, ok := u.X.(*ast.Ident); ok {
			if oi, ok := c.okOf[c.obj(id)]; ok {
				code, kind := c.terminal(s.Body.List)
				if kind == "stop" && code >= 0 && s.Else == nil {
					if oi.kind == "param" {
						return append(out, mk("RequireParam", q(oi.name), nat(code)))
					}
					return append(out, mk("RequireKey", q(oi.name), nat(code)))
				}
				return append(out, unknown("presence check of unexpected shape"))
			}
		}
	}
	// err != nil && !(errors.IsNotFound(err) && <const>)
	if b, ok := cond.(*ast.BinaryExpr); ok && b.Op == token.LAND && c.isErrNotNil(b.X) && c.last == "access" {
		if tol, ok := c.notFoundTolerated(b.Y); ok {
			code, kind := c.terminal(s.Body.List)
			if kind == "stop" && code >= 0 && s.Else == nil {
				if tol {
					return append(out, mk("GuardUnlessNotFound", nat(code)))
				}
				return append(out, mk("Guard", nat(code)))
			}
		}
		return append(out, unknown("error test "+exprText(cond)))
	}
	if w := c.reaches(cond); w != "" {
		return append(out, unknown("condition touching "+w))
	}
	// constant condition (after propagation of constant helper arguments)
	if v, ok := c.constBool(cond); ok {
		if v {
			return append(out, c.sub(s.Body.List)...)
		}
		return append(out, c.sub(c.elseStmts(s.Else))...)
	}
	// ns == CONST
	if b, ok := cond.(*ast.BinaryExpr); ok && b.Op == token.EQL {
		if k, ok := c.strConst(b.Y); ok {
			if e := c.resolveNs(b.X, 0); !strings.HasPrefix(e, "(NsUnknown") && !strings.HasPrefix(e, "(NsConst") {
				thn := c.sub(s.Body.List)
				els := c.sub(c.elseStmts(s.Else))
				if len(thn) == 0 && len(els) == 0 {
					return out
				}
				return append(out, instr{op: "IfNsEq", args: []string{e, q(k)}, lists: [][]instr{thn, els}})
			}
		}
	}
	// data-dependent
	thn := c.sub(s.Body.List)
	els := c.sub(c.elseStmts(s.Else))
	if len(thn) == 0 && len(els) == 0 {
		return out
	}
	return append(out, instr{op: "Alt", lists: [][]instr{thn, els}})
}

// notFoundTolerated: e is !(errors.IsNotFound(err) && K) with K constant -> (K, true)
func (c *ctx) notFoundTolerated(e ast.Expr) (bool, bool) {
	u, ok := e.(*ast.UnaryExpr)
	if !ok || u.Op != token.NOT {
		return false, false
	}
	in := u.X
	if p, ok := in.(*ast.ParenExpr); ok {
		in = p.X
	}
	isNF := func(x ast.Expr) bool {
		call, ok := x.(*ast.CallExpr)
		if !ok {
			return false
		}
		fn := calleeFunc(c.info, call)
		return fn != nil && fn.Name() == "IsNotFound" && len(call.Args) == 1 && c.isErrIdent(call.Args[0])
	}
	if isNF(in) {
		return true, true
	}
	if b, ok := in.(*ast.BinaryExpr); ok && b.Op == token.LAND && isNF(b.X) {
		if v, ok := c.constBool(b.Y); ok {
			return v, true
		}
	}
	return false, false
}

func (c *ctx) constBool(e ast.Expr) (bool, bool) {
	switch v := e.(type) {
	case *ast.ParenExpr:
		return c.constBool(v.X)
	case *ast.BinaryExpr:
		switch v.Op {
		case token.EQL, token.NEQ:
			a, ok1 := c.strConst(v.X)
			b, ok2 := c.strConst(v.Y)
			if ok1 && ok2 {
				return (a == b) == (v.Op == token.EQL), true
			}
		case token.LAND:
			a, ok1 := c.constBool(v.X)
			b, ok2 := c.constBool(v.Y)
			if (ok1 && !a) || (ok2 && !b) {
				return false, true
			}
			if ok1 && ok2 {
				return true, true
			}
		case token.LOR:
			a, ok1 := c.constBool(v.X)
			b, ok2 := c.constBool(v.Y)
			if (ok1 && a) || (ok2 && b) {
				return true, true
			}
			if ok1 && ok2 {
				return false, true
			}
		}
	}
	return false, false
}

// ------------------------------------------------------------------ loops

func (c *ctx) forStmt(s *ast.ForStmt) []instr {
	if w := c.reaches(s.Cond); s.Cond != nil && w != "" {
		return []instr{unknown("loop condition touching " + w)}
	}
	if s.Init != nil || s.Post != nil {
		for _, st := range []ast.Stmt{s.Init, s.Post} {
			if st != nil && c.reaches(st) != "" {
				return []instr{unknown("loop header with effects")}
			}
		}
	}
	body := c.sub(s.Body.List)
	if len(body) == 0 {
		return nil
	}
	if s.Init == nil && s.Post == nil && s.Cond != nil {
		return []instr{{op: "Repeat", lists: [][]instr{body}}} // wait loop
	}
	return []instr{unknown("counted loop with effects")}
}

func (c *ctx) rangeStmt(s *ast.RangeStmt) []instr {
	if w := c.reaches(s.X); w != "" {
		return []instr{unknown("range over " + w)}
	}
	var kobj, vobj types.Object
	if id, ok := s.Key.(*ast.Ident); ok && id.Name != "_" {
		kobj = c.obj(id)
	}
	if id, ok := s.Value.(*ast.Ident); ok && id.Name != "_" {
		vobj = c.obj(id)
	}
	for _, o := range []types.Object{kobj, vobj} {
		if o != nil {
			c.flow(o, s.X)
		}
	}
	// for _, ns := range <names derived from a namespace list>
	if tv, ok := c.info.Types[s.X]; ok && tv.Type.String() == "[]string" && vobj != nil {
		var d int
		found := false
		if id, ok := s.X.(*ast.Ident); ok {
			d, found = c.namesOf[c.obj(id)]
		}
		if !found {
			if ns := c.namesSources(s.X); len(ns) == 1 {
				d, found = ns[0], true
			}
		}
		if found {
			c.nVar++
			v := c.nVar
			c.ns[vobj] = "(NsVar " + nat(v) + ")"
			body := c.sub(s.Body.List)
			if len(body) == 0 {
				return nil
			}
			return []instr{{op: "ForEachName", args: []string{nat(v), nat(d)}, lists: [][]instr{body}}}
		}
	}
	// for _, o := range <read>.Items
	if sel, ok := s.X.(*ast.SelectorExpr); ok && sel.Sel.Name == "Items" {
		if id, ok := sel.X.(*ast.Ident); ok {
			if d, ok := c.readDst[c.obj(id)]; ok {
				c.nVar++
				v := c.nVar
				if vobj != nil {
					c.readNs[vobj] = "(NsVar " + nat(v) + ")" // the namespace of the object itself
				}
				body := c.sub(s.Body.List)
				if len(body) == 0 {
					return nil
				}
				if c.dstKind[d] == "KNamespace" {
					return []instr{unknown("effects in a loop over namespace objects")}
				}
				return []instr{{op: "ForEachObj", args: []string{nat(v), nat(d)}, lists: [][]instr{body}}}
			}
		}
	}
	body := c.sub(s.Body.List)
	if len(body) == 0 {
		return nil
	}
	if flat, ok := flattenLib(body); ok {
		return flat // library failures are per request: the loop is flattened
	}
	return []instr{unknown("loop over " + exprText(s.X) + " with effects")}
}

// flattenLib: the list consists of LibGuards (possibly under data-dependent branches) only
func flattenLib(l []instr) ([]instr, bool) {
	var res []instr
	seen := map[string]bool{}
	var walk func(l []instr) bool
	walk = func(l []instr) bool {
		for _, x := range l {
			switch x.op {
			case "LibGuard":
				k := strings.Join(x.args, " ")
				if !seen[k] {
					seen[k] = true
					res = append(res, x)
				}
			case "Alt":
				for _, b := range x.lists {
					if !walk(b) {
						return false
					}
				}
			default:
				return false
			}
		}
		return true
	}
	return res, walk(l)
}
