package xlateui

import (
	"bytes"
	"fmt"
	"go/ast"
	"go/constant"
	"go/printer"
	"go/token"
	"go/types"
	"reflect"
	"strings"

	"golang.org/x/tools/go/packages"
)

type X struct {
	pkg     *packages.Package
	info    *types.Info
	methods map[string]*ast.FuncDecl // methods of KatibUIHandler
	funcs   map[string]*ast.FuncDecl // package level functions of pkg/ui/v1beta1
	cfgVars map[string]string        // package variables initialised by env.GetEnvOrDefault(NAME, "default"): their default
}

// scanCfgVars records configuration variables `var V = env.GetEnvOrDefault(NAME, "default")`.  The skeletons are
// produced for the default configuration (the environment variable unset), which is what the harness runs.
func (x *X) scanCfgVars(p *packages.Package) {
	if x.cfgVars == nil {
		x.cfgVars = map[string]string{}
	}
	for _, f := range p.Syntax {
		for _, d := range f.Decls {
			gd, ok := d.(*ast.GenDecl)
			if !ok || gd.Tok != token.VAR {
				continue
			}
			for _, sp := range gd.Specs {
				vs, ok := sp.(*ast.ValueSpec)
				if !ok || len(vs.Names) != 1 || len(vs.Values) != 1 {
					continue
				}
				call, ok := vs.Values[0].(*ast.CallExpr)
				if !ok || len(call.Args) != 2 || !strings.HasSuffix(exprText(call.Fun), "GetEnvOrDefault") {
					continue
				}
				if tv, ok := p.TypesInfo.Types[call.Args[1]]; ok && tv.Value != nil && tv.Value.Kind() == constant.String {
					x.cfgVars[p.PkgPath+"."+vs.Names[0].Name] = constant.StringVal(tv.Value)
				} else if id, ok := call.Args[1].(*ast.Ident); ok {
					if v, ok := x.cfgVars[p.PkgPath+"."+id.Name]; ok {
						x.cfgVars[p.PkgPath+"."+vs.Names[0].Name] = v
					}
				}
			}
		}
	}
}

func newX(ui *packages.Package) *X {
	x := &X{pkg: ui, info: ui.TypesInfo, methods: map[string]*ast.FuncDecl{}, funcs: map[string]*ast.FuncDecl{}}
	for _, f := range ui.Syntax {
		for _, d := range f.Decls {
			fd, ok := d.(*ast.FuncDecl)
			if !ok || fd.Body == nil {
				continue
			}
			if fd.Recv == nil {
				x.funcs[fd.Name.Name] = fd
			} else if strings.Contains(exprText(fd.Recv.List[0].Type), "KatibUIHandler") {
				x.methods[fd.Name.Name] = fd
			}
		}
	}
	return x
}

func exprText(e ast.Node) string {
	var b bytes.Buffer
	_ = printer.Fprint(&b, token.NewFileSet(), e)
	s := b.String()
	if len(s) > 80 {
		s = s[:80]
	}
	return strings.Join(strings.Fields(s), " ")
}

func calleeFunc(info *types.Info, call *ast.CallExpr) *types.Func {
	var id *ast.Ident
	switch f := call.Fun.(type) {
	case *ast.Ident:
		id = f
	case *ast.SelectorExpr:
		id = f.Sel
	default:
		return nil
	}
	if fn, ok := info.Uses[id].(*types.Func); ok {
		return fn
	}
	return nil
}

// methodOf: sel is <var of type *ui.KatibUIHandler>.<Method>; returns the method name.
func (x *X) methodOf(p *packages.Package, sel *ast.SelectorExpr) string {
	tv, ok := p.TypesInfo.Types[sel.X]
	if !ok || !strings.HasSuffix(tv.Type.String(), uiPkg+".KatibUIHandler") {
		return ""
	}
	if _, ok := x.methods[sel.Sel.Name]; ok {
		return sel.Sel.Name
	}
	return ""
}

// ------------------------------------------------------------------ per-handler context

type okInfo struct{ kind, name string }

type frame struct {
	helper     bool
	code       int            // status code of `return ..., err` in a helper (-1: caller does not guard)
	results    []types.Object // caller variables receiving the helper's results
	condReturn bool           // a conditional success return was seen
	fn         *ast.FuncDecl
	depth0     int
	raises     int
}

type ctx struct {
	x       *X
	info    *types.Info
	defs    map[types.Object]ast.Expr
	ns      map[types.Object]string
	paramOf map[types.Object]string
	okOf    map[types.Object]okInfo
	readNs  map[types.Object]string
	readDst map[types.Object]int
	namesOf map[types.Object]int
	nameNs  map[types.Object]string // name variable -> namespace of the object fetched by that name
	edges   map[types.Object][]types.Object
	srcs    map[types.Object][]int
	jsonAt  map[types.Object]string
	logReq  map[types.Object]string
	bodyVar types.Object
	dstNs   map[int]string
	dstKind map[int]string
	nDst    int
	nVar    int
	frames  []*frame
	// what the next `if err != nil` refers to
	last     string // "", "auth", "access", "lib", "helper"
	lastLib  string
	lastAuth *instr
	lastDst  int
	userVars map[types.Object]bool
	respond  bool
	depth    int
}

func (x *X) newCtx() *ctx {
	return &ctx{x: x, info: x.info, defs: map[types.Object]ast.Expr{}, ns: map[types.Object]string{}, paramOf: map[types.Object]string{},
		okOf: map[types.Object]okInfo{}, readNs: map[types.Object]string{}, readDst: map[types.Object]int{}, namesOf: map[types.Object]int{},
		nameNs: map[types.Object]string{}, edges: map[types.Object][]types.Object{}, srcs: map[types.Object][]int{}, jsonAt: map[types.Object]string{},
		logReq: map[types.Object]string{}, dstNs: map[int]string{}, dstKind: map[int]string{}, userVars: map[types.Object]bool{}}
}

func (x *X) handler(name string) []instr {
	fd := x.methods[name]
	c := x.newCtx()
	c.frames = []*frame{{fn: fd, code: -1}}
	return c.block(fd.Body.List)
}

// closureHandler: method whose body ends in `return func(w, r) {...}`
func (x *X) closureHandler(name string) []instr {
	fd := x.methods[name]
	for _, s := range fd.Body.List {
		if r, ok := s.(*ast.ReturnStmt); ok && len(r.Results) == 1 {
			if fl, ok := r.Results[0].(*ast.FuncLit); ok {
				c := x.newCtx()
				c.frames = []*frame{{fn: fd, code: -1}}
				return c.block(fl.Body.List)
			}
		}
	}
	return []instr{unknown("method " + name + " does not return a function literal")}
}

func (c *ctx) top() *frame { return c.frames[len(c.frames)-1] }

func (c *ctx) obj(id *ast.Ident) types.Object {
	if o := c.info.Defs[id]; o != nil {
		return o
	}
	return c.info.Uses[id]
}

func (c *ctx) newDst(ns, kind string) int {
	c.nDst++
	c.dstNs[c.nDst] = ns
	c.dstKind[c.nDst] = kind
	return c.nDst
}

// ------------------------------------------------------------------ types that can reach the cluster

func clientish(t types.Type) bool {
	if t == nil {
		return false
	}
	s := t.String()
	for _, p := range []string{
		"github.com/kubeflow/katib/pkg/util/v1beta1/katibclient.",
		"sigs.k8s.io/controller-runtime/pkg/client.",
		"k8s.io/client-go/kubernetes",
		"k8s.io/client-go/rest.",
		"k8s.io/client-go/dynamic",
		"github.com/kubeflow/katib/pkg/apis/manager/v1beta1.DBManagerClient",
		"google.golang.org/grpc.ClientConn",
		uiPkg + ".KatibUIHandler",
		"net/http.Client",
	} {
		if strings.Contains(s, p) {
			// option / key types of controller-runtime carry no connection
			if strings.Contains(s, "pkg/client.ObjectKey") || strings.Contains(s, "pkg/client.InNamespace") || strings.Contains(s, "pkg/client.MatchingLabels") ||
				strings.Contains(s, "pkg/client.ListOption") || strings.Contains(s, "pkg/client.Object") || strings.Contains(s, "pkg/client.Options") {
				return false
			}
			return true
		}
	}
	return false
}

// reaches: does the expression mention a client-ish value or call (other than inside recognised patterns)?
func (c *ctx) reaches(n ast.Node) string {
	found := ""
	ast.Inspect(n, func(m ast.Node) bool {
		if found != "" {
			return false
		}
		switch e := m.(type) {
		case *ast.CallExpr:
			if fn := calleeFunc(c.info, e); fn != nil {
				if fn.Pkg() != nil && fn.Pkg().Path() == uiPkg && fn.Name() == "IsAuthorized" {
					found = "IsAuthorized"
				}
				if fn.Pkg() != nil && fn.Pkg().Path() == "net/http" && (fn.Name() == "Error" || fn.Name() == "ServeFile" || fn.Name() == "Redirect") {
					found = "http." + fn.Name()
				}
				if fn.Name() == "Write" || fn.Name() == "WriteHeader" {
					if sel, ok := e.Fun.(*ast.SelectorExpr); ok {
						if tv, ok := c.info.Types[sel.X]; ok && strings.Contains(tv.Type.String(), "net/http.ResponseWriter") {
							found = "w." + fn.Name()
						}
					}
				}
			}
		case ast.Expr:
			if tv, ok := c.info.Types[e]; ok && clientish(tv.Type) {
				found = exprText(e)
			}
		}
		return true
	})
	return found
}

// ------------------------------------------------------------------ constants

func (c *ctx) strConst(e ast.Expr) (string, bool) {
	if tv, ok := c.info.Types[e]; ok && tv.Value != nil && tv.Value.Kind() == constant.String {
		return constant.StringVal(tv.Value), true
	}
	// X.String() on a string-kinded constant (corev1.ResourceConfigMaps.String())
	if call, ok := e.(*ast.CallExpr); ok && len(call.Args) == 0 {
		if sel, ok := call.Fun.(*ast.SelectorExpr); ok && sel.Sel.Name == "String" {
			return c.strConst(sel.X)
		}
	}
	if p, ok := e.(*ast.ParenExpr); ok {
		return c.strConst(p.X)
	}
	// configuration variable with a default
	var cid *ast.Ident
	switch v := e.(type) {
	case *ast.Ident:
		cid = v
	case *ast.SelectorExpr:
		cid = v.Sel
	}
	if cid != nil {
		if o, ok := c.info.Uses[cid].(*types.Var); ok && o.Pkg() != nil && o.Parent() == o.Pkg().Scope() {
			if v, ok := c.x.cfgVars[o.Pkg().Path()+"."+o.Name()]; ok {
				return v, true
			}
		}
	}
	// a helper parameter bound to a constant argument
	if id, ok := e.(*ast.Ident); ok {
		if d, ok := c.defs[c.obj(id)]; ok && d != e {
			if _, isId := d.(*ast.Ident); isId || isConstExpr(c, d) {
				return c.strConst(d)
			}
		}
	}
	return "", false
}

func isConstExpr(c *ctx, e ast.Expr) bool {
	tv, ok := c.info.Types[e]
	return ok && tv.Value != nil
}

func (c *ctx) intConst(e ast.Expr) (int, bool) {
	if tv, ok := c.info.Types[e]; ok && tv.Value != nil && tv.Value.Kind() == constant.Int {
		v, ok := constant.Int64Val(tv.Value)
		return int(v), ok
	}
	return 0, false
}

// ------------------------------------------------------------------ namespace expressions

func nsUnknown(what string) string { return "(NsUnknown " + q(what) + ")" }

func (c *ctx) isQueryIndex(e ast.Expr) (string, bool) { // r.URL.Query()["p"]
	ix, ok := e.(*ast.IndexExpr)
	if !ok {
		return "", false
	}
	call, ok := ix.X.(*ast.CallExpr)
	if !ok {
		return "", false
	}
	fn := calleeFunc(c.info, call)
	if fn == nil || fn.FullName() != "(*net/url.URL).Query" {
		return "", false
	}
	return c.strConst(ix.Index)
}

// jsonPath of a field selection chain from type t
func jsonPath(t types.Type, fields []string) (string, bool) {
	var segs []string
	for _, f := range fields {
		obj, index, _ := types.LookupFieldOrMethod(t, true, nil, f)
		v, ok := obj.(*types.Var)
		if !ok || !v.IsField() {
			return "", false
		}
		cur := t
		for _, i := range index {
			if p, ok := cur.Underlying().(*types.Pointer); ok {
				cur = p.Elem()
			}
			st, ok := cur.Underlying().(*types.Struct)
			if !ok {
				return "", false
			}
			tag := reflect.StructTag(st.Tag(i)).Get("json")
			name := strings.Split(tag, ",")[0]
			if strings.Contains(tag, "inline") || (name == "" && st.Field(i).Embedded()) {
				// inlined: no segment
			} else {
				if name == "" {
					name = st.Field(i).Name()
				}
				segs = append(segs, name)
			}
			cur = st.Field(i).Type()
		}
		t = v.Type()
	}
	return strings.Join(segs, "."), true
}

func selChain(e ast.Expr) (*ast.Ident, []string) {
	var fields []string
	for {
		switch v := e.(type) {
		case *ast.SelectorExpr:
			fields = append([]string{v.Sel.Name}, fields...)
			e = v.X
		case *ast.ParenExpr:
			e = v.X
		case *ast.StarExpr:
			e = v.X
		case *ast.Ident:
			return v, fields
		default:
			return nil, nil
		}
	}
}

func (c *ctx) resolveNs(e ast.Expr, depth int) string {
	if depth > 12 {
		return nsUnknown(exprText(e))
	}
	if s, ok := c.strConst(e); ok {
		if _, isId := e.(*ast.Ident); !isId || isConstExpr(c, e) || c.isCfg(e) {
			return "(NsConst " + q(s) + ")"
		}
	}
	switch v := e.(type) {
	case *ast.ParenExpr:
		return c.resolveNs(v.X, depth+1)
	case *ast.Ident:
		o := c.obj(v)
		if s, ok := c.ns[o]; ok {
			return s
		}
		if d, ok := c.defs[o]; ok {
			return c.resolveNs(d, depth+1)
		}
	case *ast.IndexExpr:
		if i, ok := c.intConst(v.Index); ok && i == 0 {
			if id, ok := v.X.(*ast.Ident); ok {
				if p, ok := c.paramOf[c.obj(id)]; ok {
					return "(NsParam " + q(p) + ")"
				}
			}
			if p, ok := c.isQueryIndex(v.X); ok {
				return "(NsParam " + q(p) + ")"
			}
		}
	case *ast.TypeAssertExpr:
		if k, ok := c.bodyKey(v.X); ok && exprText(v.Type) == "string" {
			return "(NsBody " + q(k) + ")"
		}
	case *ast.SelectorExpr:
		base, fields := selChain(v)
		if base != nil && len(fields) > 0 {
			o := c.obj(base)
			if at, ok := c.jsonAt[o]; ok {
				if p, ok := jsonPath(o.Type(), fields); ok {
					return "(NsBody " + q(at+"."+p) + ")"
				}
			}
			if fields[len(fields)-1] == "Namespace" && (len(fields) == 1 || (len(fields) == 2 && fields[0] == "ObjectMeta")) {
				return c.objectNs(base, depth+1)
			}
		}
	}
	return nsUnknown(exprText(e))
}

// bodyKey: data["k"] on the decoded body map
func (c *ctx) bodyKey(e ast.Expr) (string, bool) {
	ix, ok := e.(*ast.IndexExpr)
	if !ok {
		return "", false
	}
	id, ok := ix.X.(*ast.Ident)
	if !ok || c.bodyVar == nil || c.obj(id) != c.bodyVar {
		return "", false
	}
	return c.strConst(ix.Index)
}

// objectNs: namespace of the API object denoted by e (a variable, &variable, or a composite literal)
func (c *ctx) objectNs(e ast.Expr, depth int) string {
	if depth > 12 {
		return nsUnknown(exprText(e))
	}
	switch v := e.(type) {
	case *ast.ParenExpr:
		return c.objectNs(v.X, depth+1)
	case *ast.UnaryExpr:
		if v.Op == token.AND {
			return c.objectNs(v.X, depth+1)
		}
	case *ast.Ident:
		o := c.obj(v)
		if s, ok := c.readNs[o]; ok {
			return s
		}
		if at, ok := c.jsonAt[o]; ok {
			if p, ok := jsonPath(o.Type(), []string{"ObjectMeta", "Namespace"}); ok {
				return "(NsBody " + q(at+"."+p) + ")"
			}
		}
		if d, ok := c.defs[o]; ok {
			return c.objectNs(d, depth+1)
		}
	case *ast.CompositeLit:
		for _, el := range v.Elts {
			kv, ok := el.(*ast.KeyValueExpr)
			if !ok {
				continue
			}
			switch exprText(kv.Key) {
			case "ObjectMeta":
				return c.objectNs(kv.Value, depth+1)
			case "Namespace":
				return c.resolveNs(kv.Value, depth+1)
			}
		}
		return "(NsConst \"\")" // zero value
	}
	return nsUnknown("namespace of " + exprText(e))
}

func kindOfType(t types.Type) string {
	s := t.String()
	s = strings.TrimPrefix(s, "*")
	i := strings.LastIndex(s, ".")
	name := s[i+1:]
	name = strings.TrimSuffix(name, "List")
	switch name {
	case "Experiment":
		return "KExperiment"
	case "Trial":
		return "KTrial"
	case "Suggestion":
		return "KSuggestion"
	case "ConfigMap":
		return "KConfigMap"
	case "Namespace":
		return "KNamespace"
	case "Pod":
		return "KPod"
	}
	return "(KOther " + q(name) + ")"
}

// ------------------------------------------------------------------ taint (which reads flow into the response)

func (c *ctx) varsIn(e ast.Node) []types.Object {
	var res []types.Object
	ast.Inspect(e, func(n ast.Node) bool {
		if id, ok := n.(*ast.Ident); ok {
			if v, ok := c.obj(id).(*types.Var); ok && !v.IsField() {
				res = append(res, v)
			}
		}
		return true
	})
	return res
}

func baseVar(c *ctx, e ast.Expr) types.Object {
	for {
		switch v := e.(type) {
		case *ast.Ident:
			return c.obj(v)
		case *ast.IndexExpr:
			e = v.X
		case *ast.SelectorExpr:
			e = v.X
		case *ast.StarExpr:
			e = v.X
		case *ast.ParenExpr:
			e = v.X
		default:
			return nil
		}
	}
}

func (c *ctx) flow(lhs types.Object, rhs ast.Node) {
	if lhs == nil || rhs == nil {
		return
	}
	c.edges[lhs] = append(c.edges[lhs], c.varsIn(rhs)...)
}

func (c *ctx) sources(e ast.Node) []int {
	seen := map[types.Object]bool{}
	set := map[int]bool{}
	var visit func(o types.Object)
	visit = func(o types.Object) {
		if o == nil || seen[o] {
			return
		}
		seen[o] = true
		for _, d := range c.srcs[o] {
			set[d] = true
		}
		for _, p := range c.edges[o] {
			visit(p)
		}
	}
	for _, o := range c.varsIn(e) {
		visit(o)
	}
	var res []int
	for d := 1; d <= c.nDst; d++ {
		if set[d] && c.dstKind[d] != "KNamespace" {
			res = append(res, d)
		}
	}
	return res
}

func fmtErr(f string, a ...any) string { return fmt.Sprintf(f, a...) }

func (c *ctx) isCfg(e ast.Expr) bool {
	if id, ok := e.(*ast.Ident); ok {
		if o, ok := c.info.Uses[id].(*types.Var); ok && o.Pkg() != nil && o.Parent() == o.Pkg().Scope() {
			_, ok := c.x.cfgVars[o.Pkg().Path()+"."+o.Name()]
			return ok
		}
	}
	return false
}
