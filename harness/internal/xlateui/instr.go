package xlateui

import (
	"fmt"
	"strings"
)

// instr mirrors Model/UiAuth.v's [instr].
type instr struct {
	op    string // constructor name
	args  []string
	lists [][]instr // nested bodies, printed after args
	// bookkeeping (not printed)
	isFail bool
}

func mk(op string, args ...string) instr { return instr{op: op, args: args} }
func unknown(what string) instr          { return mk("Unknown", q(what)) }

func nat(n int) string { return fmt.Sprintf("%d", n) }

func natList(xs []int) string {
	s := make([]string, len(xs))
	for i, x := range xs {
		s[i] = nat(x)
	}
	return "[" + strings.Join(s, "; ") + "]"
}

func printInstrs(l []instr, ind int) string {
	pad := strings.Repeat(" ", ind)
	if len(l) == 0 {
		return pad + "[]"
	}
	var b strings.Builder
	b.WriteString(pad + "[ ")
	for i, x := range l {
		if i > 0 {
			b.WriteString(";\n" + pad + "  ")
		}
		b.WriteString(printInstr(x, ind+2))
	}
	b.WriteString(" ]")
	return b.String()
}

func printInstr(x instr, ind int) string {
	s := x.op
	for _, a := range x.args {
		s += " " + a
	}
	for _, l := range x.lists {
		s += "\n" + printInstrs(l, ind+2)
	}
	return s
}

// hasEffect: does the list contain anything besides nothing at all
func effectful(l []instr) bool { return len(l) > 0 }
