// Package sim drives the three REAL katib reconcilers (experiment, suggestion, trial) against a simulated API
// server (controller-runtime's fake client) with lagging per-kind caches, a gate that stops a reconcile in front of
// each of its writes, fault injection, fake algorithm / early-stopping / DB-manager services and an environment
// (jobs, metrics, early stopping, deployment readiness, user edits).  It mirrors coq/theories/Model/World.v action
// by action; after every action the store is projected to the observables the model also has.
package sim

import (
	"context"
	"errors"
	"fmt"
	"sort"
	"strconv"
	"strings"
	"sync"

	"github.com/prometheus/client_golang/prometheus"
	"google.golang.org/grpc"
	appsv1 "k8s.io/api/apps/v1"
	batchv1 "k8s.io/api/batch/v1"
	corev1 "k8s.io/api/core/v1"
	rbacv1 "k8s.io/api/rbac/v1"
	apierrors "k8s.io/apimachinery/pkg/api/errors"
	metav1 "k8s.io/apimachinery/pkg/apis/meta/v1"
	"k8s.io/apimachinery/pkg/apis/meta/v1/unstructured"
	"k8s.io/apimachinery/pkg/labels"
	"k8s.io/apimachinery/pkg/runtime"
	"k8s.io/apimachinery/pkg/runtime/schema"
	"k8s.io/apimachinery/pkg/types"
	"sigs.k8s.io/controller-runtime/pkg/client"
	"sigs.k8s.io/controller-runtime/pkg/client/fake"
	"sigs.k8s.io/controller-runtime/pkg/reconcile"

	configv1beta1 "github.com/kubeflow/katib/pkg/apis/config/v1beta1"
	apis "github.com/kubeflow/katib/pkg/apis/controller"
	commonv1beta1 "github.com/kubeflow/katib/pkg/apis/controller/common/v1beta1"
	experimentsv1beta1 "github.com/kubeflow/katib/pkg/apis/controller/experiments/v1beta1"
	suggestionsv1beta1 "github.com/kubeflow/katib/pkg/apis/controller/suggestions/v1beta1"
	trialsv1beta1 "github.com/kubeflow/katib/pkg/apis/controller/trials/v1beta1"
	api_pb "github.com/kubeflow/katib/pkg/apis/manager/v1beta1"
	"github.com/kubeflow/katib/pkg/controller.v1beta1/experiment"
	"github.com/kubeflow/katib/pkg/controller.v1beta1/experiment/manifest"
	expsug "github.com/kubeflow/katib/pkg/controller.v1beta1/experiment/suggestion"
	exputil "github.com/kubeflow/katib/pkg/controller.v1beta1/experiment/util"
	"github.com/kubeflow/katib/pkg/controller.v1beta1/suggestion"
	"github.com/kubeflow/katib/pkg/controller.v1beta1/suggestion/composer"
	"github.com/kubeflow/katib/pkg/controller.v1beta1/suggestion/suggestionclient"
	"github.com/kubeflow/katib/pkg/controller.v1beta1/trial"
	trialutil "github.com/kubeflow/katib/pkg/controller.v1beta1/trial/util"
)

const (
	NS      = "ns1"
	ExpName = "e"
)

var ctx = context.TODO()

// Cfg mirrors World.cfg. Objective values and the goal are integers in units of 1/8.
type Cfg struct {
	Max       *int64 `json:"max"`
	Par       int64  `json:"par"`
	MaxFailed *int64 `json:"max_failed"`
	Goal      *int64 `json:"goal"`
	Minimize  bool   `json:"minimize"`
	Resume    string `json:"resume"` // Never | LongRunning | FromVolume
	ES        bool   `json:"es"`
	Retain    bool   `json:"retain"`
	Push      bool   `json:"push"`
}

// Resp are the answers of the fake services during one suggestion reconcile.
type Resp struct {
	Valid    bool  `json:"valid"`
	ESValid  bool  `json:"es_valid"`
	ReplyErr bool  `json:"reply_err"`
	Names    []int `json:"names"`
	Settings *int  `json:"settings"`
	ESRules  bool  `json:"es_rules"`
}

// Action mirrors World.action.
type Action struct {
	Op    string `json:"op"`
	C     string `json:"c,omitempty"`   // exp | sug | trial
	Key   int    `json:"key,omitempty"` // trial number
	Resp  *Resp  `json:"resp,omitempty"`
	DbErr bool   `json:"db_err,omitempty"`
	Inj   bool   `json:"inj,omitempty"`
	Ok    bool   `json:"ok,omitempty"`
	V     *int64 `json:"v,omitempty"`
	B     bool   `json:"b,omitempty"`
	N     int64  `json:"n,omitempty"`
}

type RPC struct {
	Kind    string `json:"kind"` // validate | validate_es | get_suggestions | get_es_rules
	Current int64  `json:"current,omitempty"`
	Total   int64  `json:"total,omitempty"`
	Sent    []int  `json:"sent,omitempty"`
}

type abortSignal struct{}
type decision struct{ inj, abort bool }
type writeReq struct {
	desc string
	resp chan decision
}

type ctlState struct {
	name    string
	reqCh   chan *writeReq
	doneCh  chan struct{}
	blocked *writeReq
	running bool
	view    *view
	cl      *simClient
	// a write of this reconcile was refused with a Conflict: the informer cache may have caught up by the time the
	// controller looks again, so later reads of cached kinds in the same reconcile are served from the store (the
	// freshest cache there can be). The unchanged controllers never read after a conflict; a retry-on-conflict does.
	conflicted bool
}

type view struct {
	exp    *experimentsv1beta1.Experiment
	sug    *suggestionsv1beta1.Suggestion
	trials []trialsv1beta1.Trial
	live   map[string]client.Object
	db     map[string]dbEntry
}

type dbEntry struct {
	val *int64 // nil = log without objective value ("unavailable")
}

// Sim is one simulated cluster with one experiment.
type Sim struct {
	Cfg    Cfg
	scheme *runtime.Scheme
	store  client.WithWatch

	cacheExp    *experimentsv1beta1.Experiment
	cacheSug    *suggestionsv1beta1.Suggestion
	cacheTrials []trialsv1beta1.Trial

	ctl map[string]*ctlState
	er  *experiment.ReconcileExperiment
	sr  *suggestion.ReconcileSuggestion
	tr  *trial.ReconcileTrial

	db      map[string]dbEntry
	dbOrder []string

	trialSeq map[string]int // creation order of trials
	nextSeq  int

	curResp  *Resp
	curDbErr bool
	// numbers of the proposals the last GetSuggestions reply left unnamed, in reply order (see learnNames)
	unnamedQueue []int

	RPCs        []RPC
	JobCreates  []int
	JobDeletes  []int
	DbDeletes   []int
	FinReleased []int
	Writes      int
	Panics      []string
	Conflicts   int
	Exists      int
	FreshReads  int // reads of cached kinds served from the store after a conflict in the same reconcile

	lastExpCT   string
	ExpCTChange bool // completion time of the experiment changed in the last action
}

const katibConfig = `
apiVersion: config.kubeflow.org/v1beta1
kind: KatibConfig
runtime:
  suggestions:
  - algorithmName: random
    image: img/random
  earlyStoppings:
  - algorithmName: medianstop
    image: img/ms
  metricsCollectors:
  - kind: StdOut
    image: img/file-mc
`

func i32(v int64) *int32 { x := int32(v); return &x }

// TrialName gives the object name of trial number k (zero padded so that name order = number order).
// Trial names.  The fake algorithm service names most of its proposals t<number>; every seventh one (number % 7 == 3) it
// leaves unnamed, and katib names it <suggestion>-<random suffix>.  Such a name is tied to the number of the proposal when
// it first appears in a Suggestion status write (in reply order), so that histories keep speaking of trial numbers.
var (
	foreignMu   sync.Mutex
	foreignNum  = map[string]int{}
	foreignName = map[int]string{}
)

// Unnamed reports whether the fake service leaves proposal k to be named by katib.
func Unnamed(k int) bool { return k%7 == 3 }

func resetForeign() {
	foreignMu.Lock()
	defer foreignMu.Unlock()
	foreignNum, foreignName = map[string]int{}, map[int]string{}
}

func TrialName(k int) string {
	foreignMu.Lock()
	defer foreignMu.Unlock()
	if n, ok := foreignName[k]; ok {
		return n
	}
	return fmt.Sprintf("t%04d", k)
}

func trialNum(name string) int {
	if strings.HasPrefix(name, "t") {
		if n, err := strconv.Atoi(strings.TrimPrefix(name, "t")); err == nil {
			return n
		}
	}
	foreignMu.Lock()
	defer foreignMu.Unlock()
	if n, ok := foreignNum[name]; ok {
		return n
	}
	return -1
}

// learnNames ties the katib-generated names among the assignments of a Suggestion status to the unnamed proposals of the
// reply they came from (in order).  A generated name that is already known keeps its number: two proposals that katib gave
// the same name then show up as the same number twice.
func (s *Sim) learnNames(sg *suggestionsv1beta1.Suggestion) {
	foreignMu.Lock()
	defer foreignMu.Unlock()
	for _, a := range sg.Status.Suggestions {
		if strings.HasPrefix(a.Name, "t") {
			if _, err := strconv.Atoi(strings.TrimPrefix(a.Name, "t")); err == nil {
				continue
			}
		}
		if _, ok := foreignNum[a.Name]; ok {
			continue
		}
		if len(s.unnamedQueue) == 0 {
			continue
		}
		k := s.unnamedQueue[0]
		s.unnamedQueue = s.unnamedQueue[1:]
		foreignNum[a.Name] = k
		foreignName[k] = a.Name
	}
}

func valStr(v int64) string { return strconv.FormatFloat(float64(v)/8, 'f', -1, 64) }

func mkExperiment(c Cfg) *experimentsv1beta1.Experiment {
	// the experiment carries labels of its own, and every third assignment of the fake algorithm service carries a label with
	// the same key and another value (services such as PBT label their proposals): which trials belong to the experiment must
	// not depend on either
	e := &experimentsv1beta1.Experiment{ObjectMeta: metav1.ObjectMeta{Name: ExpName, Namespace: NS, Labels: map[string]string{"team": "ml", "stage": "dev"}}}
	if c.Max != nil {
		e.Spec.MaxTrialCount = i32(*c.Max)
	}
	e.Spec.ParallelTrialCount = i32(c.Par)
	if c.MaxFailed != nil {
		e.Spec.MaxFailedTrialCount = i32(*c.MaxFailed)
	}
	ot := commonv1beta1.ObjectiveTypeMaximize
	st := commonv1beta1.ExtractByMax
	if c.Minimize {
		ot = commonv1beta1.ObjectiveTypeMinimize
		st = commonv1beta1.ExtractByMin
	}
	var goal *float64
	if c.Goal != nil {
		g := float64(*c.Goal) / 8
		goal = &g
	}
	e.Spec.Objective = &commonv1beta1.ObjectiveSpec{Type: ot, Goal: goal, ObjectiveMetricName: "acc",
		MetricStrategies: []commonv1beta1.MetricStrategy{{Name: "acc", Value: st}}}
	e.Spec.Algorithm = &commonv1beta1.AlgorithmSpec{AlgorithmName: "random"}
	if c.ES {
		e.Spec.EarlyStopping = &commonv1beta1.EarlyStoppingSpec{AlgorithmName: "medianstop"}
	}
	e.Spec.ResumePolicy = experimentsv1beta1.ResumePolicyType(c.Resume)
	e.Spec.Parameters = []experimentsv1beta1.ParameterSpec{{Name: "lr", ParameterType: experimentsv1beta1.ParameterTypeDouble,
		FeasibleSpace: experimentsv1beta1.FeasibleSpace{Min: "0", Max: "1"}}}
	job := &unstructured.Unstructured{Object: map[string]interface{}{
		"apiVersion": "batch/v1", "kind": "Job",
		"spec": map[string]interface{}{"template": map[string]interface{}{"spec": map[string]interface{}{
			"restartPolicy": "Never",
			"containers": []interface{}{map[string]interface{}{"name": "main", "image": "img",
				"command": []interface{}{"python", "--lr=${trialParameters.lr}"}}}}}}}}
	e.Spec.TrialTemplate = &experimentsv1beta1.TrialTemplate{Retain: c.Retain, PrimaryContainerName: "main",
		TrialSource:     experimentsv1beta1.TrialSource{TrialSpec: job},
		TrialParameters: []experimentsv1beta1.TrialParameterSpec{{Name: "lr", Reference: "lr"}}}
	kind := commonv1beta1.StdOutCollector
	if c.Push {
		kind = commonv1beta1.PushCollector
	}
	e.Spec.MetricsCollectorSpec = &commonv1beta1.MetricsCollectorSpec{Collector: &commonv1beta1.CollectorSpec{Kind: kind}}
	e.SetDefault()
	return e
}

type nopRecorder struct{}

func (nopRecorder) Event(runtime.Object, string, string, string)                  {}
func (nopRecorder) Eventf(runtime.Object, string, string, string, ...interface{}) {}
func (nopRecorder) AnnotatedEventf(runtime.Object, map[string]string, string, string, string, ...interface{}) {
}

// New builds the cluster, creates the experiment and syncs the experiment cache (as World.init does).
func New(c Cfg) *Sim {
	resetForeign()
	s := runtime.NewScheme()
	_ = apis.AddToScheme(s)
	_ = corev1.AddToScheme(s)
	_ = batchv1.AddToScheme(s)
	_ = appsv1.AddToScheme(s)
	_ = rbacv1.AddToScheme(s)
	_ = configv1beta1.AddToScheme(s)
	cm := &corev1.ConfigMap{ObjectMeta: metav1.ObjectMeta{Name: "katib-config", Namespace: "kubeflow"},
		Data: map[string]string{"katib-config.yaml": katibConfig}}
	store := fake.NewClientBuilder().WithScheme(s).
		WithStatusSubresource(&experimentsv1beta1.Experiment{}, &suggestionsv1beta1.Suggestion{}, &trialsv1beta1.Trial{}).
		WithObjects(cm).Build()
	sm := &Sim{Cfg: c, scheme: s, store: store, ctl: map[string]*ctlState{}, db: map[string]dbEntry{}, trialSeq: map[string]int{}}
	for _, n := range []string{"exp", "sug", "trial"} {
		st := &ctlState{name: n, reqCh: make(chan *writeReq), doneCh: make(chan struct{})}
		st.cl = &simClient{WithWatch: store, sim: sm, st: st}
		sm.ctl[n] = st
	}
	suggestionclient.SetRPCClientFactoriesForVerif(
		func(*grpc.ClientConn) api_pb.SuggestionClient { return &fakeAlgo{sm} },
		func(*grpc.ClientConn) api_pb.EarlyStoppingClient { return &fakeES{sm} })
	rec := nopRecorder{}
	ce, cs, ct := sm.ctl["exp"].cl, sm.ctl["sug"].cl, sm.ctl["trial"].cl
	sm.er = experiment.NewReconcilerForVerif(ce, s, rec, expsug.New(s, ce), manifest.New(ce), exputil.NewExpsCollector(nil, prometheus.NewRegistry()))
	sm.sr = suggestion.NewReconcilerForVerif(cs, s, rec, composer.NewGeneralForVerif(s, cs), suggestionclient.New())
	sm.tr = trial.NewReconcilerForVerif(ct, s, rec, &fakeDB{sm}, trialutil.NewTrialsCollector(nil, prometheus.NewRegistry()))
	if err := store.Create(ctx, mkExperiment(c)); err != nil {
		panic(err)
	}
	sm.syncExp()
	return sm
}

// ---------------------------------------------------------------- caches

func (s *Sim) syncExp() {
	e := &experimentsv1beta1.Experiment{}
	if err := s.store.Get(ctx, types.NamespacedName{Name: ExpName, Namespace: NS}, e); err != nil {
		s.cacheExp = nil
		return
	}
	s.cacheExp = e
}

func (s *Sim) syncSug() {
	g := &suggestionsv1beta1.Suggestion{}
	if err := s.store.Get(ctx, types.NamespacedName{Name: ExpName, Namespace: NS}, g); err != nil {
		s.cacheSug = nil
		return
	}
	s.cacheSug = g
}

func (s *Sim) storeTrials() []trialsv1beta1.Trial {
	tl := &trialsv1beta1.TrialList{}
	_ = s.store.List(ctx, tl)
	items := tl.Items
	sort.SliceStable(items, func(i, j int) bool { return s.trialSeq[items[i].Name] < s.trialSeq[items[j].Name] })
	return items
}

func (s *Sim) syncTrials() { s.cacheTrials = s.storeTrials() }

// ---------------------------------------------------------------- the gated client

type simClient struct {
	client.WithWatch
	sim *Sim
	st  *ctlState
}

var errInjected = errors.New("injected failure")

func (c *simClient) gate(desc string) error {
	c.sim.Writes++
	req := &writeReq{desc: desc, resp: make(chan decision)}
	c.st.reqCh <- req
	d := <-req.resp
	if d.abort {
		panic(abortSignal{})
	}
	if d.inj {
		return errInjected
	}
	return nil
}

func liveKey(obj client.Object, key types.NamespacedName) (string, bool) {
	switch o := obj.(type) {
	case *unstructured.Unstructured:
		return o.GetKind() + "/" + key.Namespace + "/" + key.Name, true
	case *appsv1.Deployment:
		return "Deployment/" + key.Namespace + "/" + key.Name, true
	case *corev1.Service:
		return "Service/" + key.Namespace + "/" + key.Name, true
	case *corev1.PersistentVolumeClaim:
		return "PersistentVolumeClaim/" + key.Namespace + "/" + key.Name, true
	case *corev1.PersistentVolume:
		return "PersistentVolume/" + key.Namespace + "/" + key.Name, true
	case *corev1.ServiceAccount:
		return "ServiceAccount/" + key.Namespace + "/" + key.Name, true
	case *rbacv1.Role:
		return "Role/" + key.Namespace + "/" + key.Name, true
	case *rbacv1.RoleBinding:
		return "RoleBinding/" + key.Namespace + "/" + key.Name, true
	}
	return "", false
}

func notFound(kind, name string) error {
	return apierrors.NewNotFound(schema.GroupResource{Resource: kind}, name)
}

func (c *simClient) Get(cx context.Context, key client.ObjectKey, obj client.Object, opts ...client.GetOption) error {
	v := c.st.view
	if v == nil {
		return c.WithWatch.Get(cx, key, obj, opts...)
	}
	if c.st.conflicted {
		switch obj.(type) {
		case *experimentsv1beta1.Experiment, *suggestionsv1beta1.Suggestion, *trialsv1beta1.Trial:
			c.sim.FreshReads++
			return c.WithWatch.Get(cx, key, obj, opts...)
		}
	}
	switch o := obj.(type) {
	case *experimentsv1beta1.Experiment:
		if v.exp == nil || v.exp.Name != key.Name || v.exp.Namespace != key.Namespace {
			return notFound("experiments", key.Name)
		}
		v.exp.DeepCopyInto(o)
		return nil
	case *suggestionsv1beta1.Suggestion:
		if v.sug == nil || v.sug.Name != key.Name || v.sug.Namespace != key.Namespace {
			return notFound("suggestions", key.Name)
		}
		v.sug.DeepCopyInto(o)
		return nil
	case *trialsv1beta1.Trial:
		for i := range v.trials {
			if v.trials[i].Name == key.Name && v.trials[i].Namespace == key.Namespace {
				v.trials[i].DeepCopyInto(o)
				return nil
			}
		}
		return notFound("trials", key.Name)
	}
	if k, ok := liveKey(obj, key); ok {
		src, found := v.live[k]
		if !found {
			return notFound(strings.Split(k, "/")[0], key.Name)
		}
		if u, isU := obj.(*unstructured.Unstructured); isU {
			su := src.(*unstructured.Unstructured)
			u.Object = runtime.DeepCopyJSON(su.Object)
			return nil
		}
		return c.sim.scheme.Convert(src.DeepCopyObject(), obj, nil)
	}
	return c.WithWatch.Get(cx, key, obj, opts...)
}

func (c *simClient) List(cx context.Context, list client.ObjectList, opts ...client.ListOption) error {
	v := c.st.view
	if tl, ok := list.(*trialsv1beta1.TrialList); ok && v != nil {
		lo := &client.ListOptions{}
		lo.ApplyOptions(opts)
		tl.Items = nil
		for i := range v.trials {
			t := &v.trials[i]
			if lo.Namespace != "" && t.Namespace != lo.Namespace {
				continue
			}
			if lo.LabelSelector != nil && !lo.LabelSelector.Matches(labels.Set(t.Labels)) {
				continue
			}
			tl.Items = append(tl.Items, *t.DeepCopy())
		}
		return nil
	}
	return c.WithWatch.List(cx, list, opts...)
}

func (c *simClient) note(err error) error {
	if err != nil {
		if apierrors.IsConflict(err) {
			c.sim.Conflicts++
			c.st.conflicted = true
		}
		if apierrors.IsAlreadyExists(err) {
			c.sim.Exists++
		}
	}
	return err
}

func (c *simClient) Create(cx context.Context, obj client.Object, opts ...client.CreateOption) error {
	if err := c.gate("create"); err != nil {
		return err
	}
	err := c.note(c.WithWatch.Create(cx, obj, opts...))
	if err == nil {
		switch o := obj.(type) {
		case *trialsv1beta1.Trial:
			c.sim.nextSeq++
			c.sim.trialSeq[o.Name] = c.sim.nextSeq
		case *unstructured.Unstructured:
			if o.GetKind() == "Job" {
				c.sim.JobCreates = append(c.sim.JobCreates, trialNum(o.GetName()))
			}
		}
	}
	return err
}

func (c *simClient) Update(cx context.Context, obj client.Object, opts ...client.UpdateOption) error {
	if err := c.gate("update"); err != nil {
		return err
	}
	var wasDeleting bool
	if t, ok := obj.(*trialsv1beta1.Trial); ok {
		wasDeleting = !t.DeletionTimestamp.IsZero() && len(t.Finalizers) == 0
	}
	err := c.note(c.WithWatch.Update(cx, obj, opts...))
	if err == nil && wasDeleting {
		c.sim.FinReleased = append(c.sim.FinReleased, trialNum(obj.GetName()))
	}
	return err
}

func (c *simClient) Delete(cx context.Context, obj client.Object, opts ...client.DeleteOption) error {
	if err := c.gate("delete"); err != nil {
		return err
	}
	if _, isTrial := obj.(*trialsv1beta1.Trial); isTrial {
		// deleteTrials: only reachable when more trials are active than parallelTrialCount allows. It is not simulated
		// (the real code then busy-waits a minute for the informer); the write is refused, as World.apply_write does.
		c.sim.Panics = append(c.sim.Panics, "deleteTrials path reached: more active trials than parallelTrialCount")
		return errors.New("deleteTrials is not simulated")
	}
	err := c.note(c.WithWatch.Delete(cx, obj, opts...))
	if u, ok := obj.(*unstructured.Unstructured); ok && err == nil && u.GetKind() == "Job" {
		c.sim.JobDeletes = append(c.sim.JobDeletes, trialNum(u.GetName()))
	}
	return err
}

func (c *simClient) Patch(cx context.Context, obj client.Object, p client.Patch, opts ...client.PatchOption) error {
	if err := c.gate("patch"); err != nil {
		return err
	}
	return c.note(c.WithWatch.Patch(cx, obj, p, opts...))
}

func (c *simClient) Status() client.SubResourceWriter { return &statusWriter{c} }

type statusWriter struct{ c *simClient }

func (w *statusWriter) Create(cx context.Context, obj client.Object, sub client.Object, opts ...client.SubResourceCreateOption) error {
	return errors.New("status create not supported")
}
func (w *statusWriter) Update(cx context.Context, obj client.Object, opts ...client.SubResourceUpdateOption) error {
	if sg, ok := obj.(*suggestionsv1beta1.Suggestion); ok {
		w.c.sim.learnNames(sg)
	}
	if err := w.c.gate("status"); err != nil {
		return err
	}
	return w.c.note(w.c.WithWatch.Status().Update(cx, obj, opts...))
}
func (w *statusWriter) Patch(cx context.Context, obj client.Object, p client.Patch, opts ...client.SubResourcePatchOption) error {
	if err := w.c.gate("status-patch"); err != nil {
		return err
	}
	return w.c.note(w.c.WithWatch.Status().Patch(cx, obj, p, opts...))
}

// ---------------------------------------------------------------- fake services

type fakeAlgo struct{ s *Sim }

func (f *fakeAlgo) sent(ts []*api_pb.Trial) []int {
	var r []int
	for _, t := range ts {
		r = append(r, trialNum(t.Name))
	}
	return r
}

func (f *fakeAlgo) GetSuggestions(cx context.Context, in *api_pb.GetSuggestionsRequest, opts ...grpc.CallOption) (*api_pb.GetSuggestionsReply, error) {
	f.s.RPCs = append(f.s.RPCs, RPC{Kind: "get_suggestions", Current: int64(in.CurrentRequestNumber), Total: int64(in.TotalRequestNumber), Sent: f.sent(in.Trials)})
	r := f.s.curResp
	if r == nil || r.ReplyErr {
		return nil, errors.New("algorithm service unavailable")
	}
	rep := &api_pb.GetSuggestionsReply{}
	f.s.unnamedQueue = nil
	for _, n := range r.Names {
		pa := &api_pb.GetSuggestionsReply_ParameterAssignments{
			TrialName: TrialName(n), Assignments: []*api_pb.ParameterAssignment{{Name: "lr", Value: "0.5"}}}
		if Unnamed(n) {
			pa.TrialName = "" // katib names it
			f.s.unnamedQueue = append(f.s.unnamedQueue, n)
		}
		if n%3 == 0 {
			pa.Labels = map[string]string{"team": "other", "generation": strconv.Itoa(n)}
		}
		rep.ParameterAssignments = append(rep.ParameterAssignments, pa)
	}
	if r.Settings != nil {
		rep.Algorithm = &api_pb.AlgorithmSpec{AlgorithmSettings: []*api_pb.AlgorithmSetting{{Name: "v", Value: strconv.Itoa(*r.Settings)}}}
	}
	return rep, nil
}

func (f *fakeAlgo) ValidateAlgorithmSettings(cx context.Context, in *api_pb.ValidateAlgorithmSettingsRequest, opts ...grpc.CallOption) (*api_pb.ValidateAlgorithmSettingsReply, error) {
	f.s.RPCs = append(f.s.RPCs, RPC{Kind: "validate"})
	if f.s.curResp != nil && !f.s.curResp.Valid {
		return nil, grpcInvalid("bad settings")
	}
	return &api_pb.ValidateAlgorithmSettingsReply{}, nil
}

type fakeES struct{ s *Sim }

func (f *fakeES) GetEarlyStoppingRules(cx context.Context, in *api_pb.GetEarlyStoppingRulesRequest, opts ...grpc.CallOption) (*api_pb.GetEarlyStoppingRulesReply, error) {
	f.s.RPCs = append(f.s.RPCs, RPC{Kind: "get_es_rules", Sent: (&fakeAlgo{f.s}).sent(in.Trials)})
	if f.s.curResp == nil || !f.s.curResp.ESRules {
		return nil, errors.New("early stopping service unavailable")
	}
	return &api_pb.GetEarlyStoppingRulesReply{EarlyStoppingRules: []*api_pb.EarlyStoppingRule{{Name: "acc", Value: "0.3", Comparison: api_pb.ComparisonType_LESS}}}, nil
}
func (f *fakeES) SetTrialStatus(cx context.Context, in *api_pb.SetTrialStatusRequest, opts ...grpc.CallOption) (*api_pb.SetTrialStatusReply, error) {
	return &api_pb.SetTrialStatusReply{}, nil
}
func (f *fakeES) ValidateEarlyStoppingSettings(cx context.Context, in *api_pb.ValidateEarlyStoppingSettingsRequest, opts ...grpc.CallOption) (*api_pb.ValidateEarlyStoppingSettingsReply, error) {
	f.s.RPCs = append(f.s.RPCs, RPC{Kind: "validate_es"})
	if f.s.curResp != nil && !f.s.curResp.ESValid {
		return nil, grpcInvalid("bad early stopping settings")
	}
	return &api_pb.ValidateEarlyStoppingSettingsReply{}, nil
}

type fakeDB struct{ s *Sim }

func (d *fakeDB) GetTrialObservationLog(t *trialsv1beta1.Trial) (*api_pb.GetObservationLogReply, error) {
	if d.s.curDbErr {
		return nil, errors.New("db manager unavailable")
	}
	v := d.s.ctl["trial"].view
	// like managerclient.DefaultClient: an empty log is an empty, non-nil list
	rep := &api_pb.GetObservationLogReply{ObservationLog: &api_pb.ObservationLog{MetricLogs: []*api_pb.MetricLog{}}}
	src := d.s.db
	if v != nil {
		src = v.db
	}
	if e, ok := src[t.Name]; ok {
		val := "unavailable"
		if e.val != nil {
			val = valStr(*e.val)
		}
		rep.ObservationLog.MetricLogs = []*api_pb.MetricLog{{TimeStamp: "2024-01-01T00:00:00Z", Metric: &api_pb.Metric{Name: "acc", Value: val}}}
	}
	return rep, nil
}
func (d *fakeDB) DeleteTrialObservationLog(t *trialsv1beta1.Trial) (*api_pb.DeleteObservationLogReply, error) {
	if err := d.s.ctl["trial"].cl.gate("db-delete"); err != nil {
		return nil, err
	}
	delete(d.s.db, t.Name)
	d.s.DbDeletes = append(d.s.DbDeletes, trialNum(t.Name))
	return &api_pb.DeleteObservationLogReply{}, nil
}
func (d *fakeDB) ReportTrialObservationLog(t *trialsv1beta1.Trial, l *api_pb.ObservationLog) (*api_pb.ReportObservationLogReply, error) {
	if err := d.s.ctl["trial"].cl.gate("db-report"); err != nil {
		return nil, err
	}
	if _, ok := d.s.db[t.Name]; !ok {
		d.s.setDB(t.Name, nil)
	}
	return &api_pb.ReportObservationLogReply{}, nil
}

func (s *Sim) setDB(name string, v *int64) {
	if _, ok := s.db[name]; !ok {
		s.dbOrder = append(s.dbOrder, name)
	}
	s.db[name] = dbEntry{val: v}
}

// ---------------------------------------------------------------- running reconciles

func (s *Sim) takeView(c string) *view {
	v := &view{live: map[string]client.Object{}, db: map[string]dbEntry{}}
	if s.cacheExp != nil {
		v.exp = s.cacheExp.DeepCopy()
	}
	if s.cacheSug != nil {
		v.sug = s.cacheSug.DeepCopy()
	}
	for i := range s.cacheTrials {
		v.trials = append(v.trials, *s.cacheTrials[i].DeepCopy())
	}
	for k, e := range s.db {
		v.db[k] = e
	}
	jl := &unstructured.UnstructuredList{}
	jl.SetAPIVersion("batch/v1")
	jl.SetKind("JobList")
	if err := s.store.List(ctx, jl); err == nil {
		for i := range jl.Items {
			j := jl.Items[i].DeepCopy()
			v.live["Job/"+j.GetNamespace()+"/"+j.GetName()] = j
		}
	}
	add := func(kind string, list client.ObjectList) {
		if err := s.store.List(ctx, list); err != nil {
			return
		}
		items, _ := apimetaExtract(list)
		for _, o := range items {
			v.live[kind+"/"+o.GetNamespace()+"/"+o.GetName()] = o
		}
	}
	add("Deployment", &appsv1.DeploymentList{})
	add("Service", &corev1.ServiceList{})
	add("PersistentVolumeClaim", &corev1.PersistentVolumeClaimList{})
	add("PersistentVolume", &corev1.PersistentVolumeList{})
	add("ServiceAccount", &corev1.ServiceAccountList{})
	add("Role", &rbacv1.RoleList{})
	add("RoleBinding", &rbacv1.RoleBindingList{})
	return v
}

func (s *Sim) wait(st *ctlState) {
	select {
	case r := <-st.reqCh:
		st.blocked = r
	case <-st.doneCh:
		st.running = false
		st.blocked = nil
		st.view = nil
	}
}

// Pending reports whether controller c has a reconcile blocked in front of a write.
func (s *Sim) Pending(c string) bool { return s.ctl[c].blocked != nil }

func (s *Sim) begin(a Action) {
	st := s.ctl[a.C]
	if st.running {
		return
	}
	st.view = s.takeView(a.C)
	st.conflicted = false
	st.running = true
	if a.C == "sug" {
		s.curResp = a.Resp
	}
	if a.C == "trial" {
		s.curDbErr = a.DbErr
	}
	go func() {
		defer func() {
			if r := recover(); r != nil {
				if _, ok := r.(abortSignal); !ok {
					s.Panics = append(s.Panics, fmt.Sprintf("%s reconcile panicked: %v", a.C, r))
				}
			}
			st.doneCh <- struct{}{}
		}()
		switch a.C {
		case "exp":
			_, _ = s.er.Reconcile(ctx, reconcile.Request{NamespacedName: types.NamespacedName{Name: ExpName, Namespace: NS}})
		case "sug":
			_, _ = s.sr.Reconcile(ctx, reconcile.Request{NamespacedName: types.NamespacedName{Name: ExpName, Namespace: NS}})
		case "trial":
			_, _ = s.tr.Reconcile(ctx, reconcile.Request{NamespacedName: types.NamespacedName{Name: TrialName(a.Key), Namespace: NS}})
		}
	}()
	s.wait(st)
}

func (s *Sim) write(a Action) {
	st := s.ctl[a.C]
	if st.blocked == nil {
		return
	}
	b := st.blocked
	st.blocked = nil
	b.resp <- decision{inj: a.Inj}
	s.wait(st)
}

func (s *Sim) abort(c string) {
	st := s.ctl[c]
	if st.blocked == nil {
		return
	}
	b := st.blocked
	st.blocked = nil
	s.Writes-- // the gate counted a write that is never issued
	b.resp <- decision{abort: true}
	s.wait(st)
}

// Shutdown aborts reconciles still blocked at the end of a history.
func (s *Sim) Shutdown() {
	for _, c := range []string{"exp", "sug", "trial"} {
		s.abort(c)
	}
}

// ---------------------------------------------------------------- environment

func (s *Sim) getJob(name string) *unstructured.Unstructured {
	j := &unstructured.Unstructured{}
	j.SetAPIVersion("batch/v1")
	j.SetKind("Job")
	if err := s.store.Get(ctx, types.NamespacedName{Name: name, Namespace: NS}, j); err != nil {
		return nil
	}
	return j
}

func jobPhase(j *unstructured.Unstructured) string {
	conds, _, _ := unstructured.NestedSlice(j.Object, "status", "conditions")
	for _, c := range conds {
		m, _ := c.(map[string]interface{})
		if m["status"] == "True" {
			if m["type"] == "Complete" {
				return "succ"
			}
			if m["type"] == "Failed" {
				return "fail"
			}
		}
	}
	return "active"
}

func (s *Sim) depName() string { return ExpName + "-random" }

// Apply executes one action exactly as World.step does.
func (s *Sim) Apply(a Action) {
	before := s.expCT()
	switch a.Op {
	case "begin":
		s.begin(a)
	case "write":
		s.write(a)
	case "abort":
		s.abort(a.C)
	case "jobdone":
		if j := s.getJob(TrialName(a.Key)); j != nil && jobPhase(j) == "active" {
			typ := "Complete"
			if !a.Ok {
				typ = "Failed"
			}
			_ = unstructured.SetNestedSlice(j.Object, []interface{}{map[string]interface{}{"type": typ, "status": "True"}}, "status", "conditions")
			if err := s.store.Status().Update(ctx, j); err != nil {
				panic(err)
			}
		}
	case "jobgone":
		if j := s.getJob(TrialName(a.Key)); j != nil {
			if err := s.store.Delete(ctx, j); err != nil {
				panic(err)
			}
		}
	case "metrics":
		name := TrialName(a.Key)
		if s.hasTrial(name) {
			// the first report creates the entry (with or without an objective value); a later report can only add the
			// objective value to an entry that has none yet (metrics arrive progressively)
			if e, ok := s.db[name]; !ok {
				s.setDB(name, a.V)
			} else if e.val == nil && a.V != nil {
				s.setDB(name, a.V)
			}
		}
	case "earlystop":
		name := TrialName(a.Key)
		t := &trialsv1beta1.Trial{}
		if err := s.store.Get(ctx, types.NamespacedName{Name: name, Namespace: NS}, t); err == nil {
			if s.Cfg.ES && t.IsCreated() && !t.IsCompleted() && t.DeletionTimestamp.IsZero() && s.getJob(name) != nil {
				if a.V != nil {
					if _, ok := s.db[name]; !ok {
						s.setDB(name, a.V)
					}
				}
				t.Status.Conditions = append(t.Status.Conditions, trialsv1beta1.TrialCondition{Type: trialsv1beta1.TrialEarlyStopped,
					Status: corev1.ConditionTrue, Reason: "TrialEarlyStopped", Message: "Trial is early stopped"})
				if err := s.store.Status().Update(ctx, t); err != nil {
					panic(err)
				}
			}
		}
	case "deployavail":
		d := &appsv1.Deployment{}
		if err := s.store.Get(ctx, types.NamespacedName{Name: s.depName(), Namespace: NS}, d); err == nil {
			st := corev1.ConditionFalse
			if a.B {
				st = corev1.ConditionTrue
			}
			d.Status.Conditions = []appsv1.DeploymentCondition{{Type: appsv1.DeploymentAvailable, Status: st}}
			if err := s.store.Status().Update(ctx, d); err != nil {
				panic(err)
			}
		}
	case "syncexp":
		s.syncExp()
	case "syncsug":
		s.syncSug()
	case "synctrials":
		s.syncTrials()
	case "raisemax":
		e := &experimentsv1beta1.Experiment{}
		if err := s.store.Get(ctx, types.NamespacedName{Name: ExpName, Namespace: NS}, e); err == nil {
			// the validating webhook (C15) admits the edit only for a non-completed or a restartable experiment
			if e.Spec.MaxTrialCount != nil && int64(*e.Spec.MaxTrialCount) < a.N && e.DeletionTimestamp.IsZero() &&
				(!e.IsCompleted() || exputil.IsCompletedExperimentRestartable(e)) {
				e.Spec.MaxTrialCount = i32(a.N)
				if err := s.store.Update(ctx, e); err != nil {
					panic(err)
				}
			}
		}
	case "delexp":
		e := &experimentsv1beta1.Experiment{}
		if err := s.store.Get(ctx, types.NamespacedName{Name: ExpName, Namespace: NS}, e); err == nil {
			_ = s.store.Delete(ctx, e)
		}
	case "gctrial":
		e := &experimentsv1beta1.Experiment{}
		if err := s.store.Get(ctx, types.NamespacedName{Name: ExpName, Namespace: NS}, e); err != nil {
			t := &trialsv1beta1.Trial{}
			if err := s.store.Get(ctx, types.NamespacedName{Name: TrialName(a.Key), Namespace: NS}, t); err == nil {
				_ = s.store.Delete(ctx, t)
			}
		}
	default:
		panic("unknown action " + a.Op)
	}
	after := s.expCT()
	s.ExpCTChange = before != "" && after != before
}

func (s *Sim) hasTrial(name string) bool {
	t := &trialsv1beta1.Trial{}
	return s.store.Get(ctx, types.NamespacedName{Name: name, Namespace: NS}, t) == nil
}

func (s *Sim) expCT() string {
	e := &experimentsv1beta1.Experiment{}
	if err := s.store.Get(ctx, types.NamespacedName{Name: ExpName, Namespace: NS}, e); err != nil || e.Status.CompletionTime == nil || e.Status.CompletionTime.IsZero() {
		return ""
	}
	return e.Status.CompletionTime.UTC().Format("2006-01-02T15:04:05.000000000")
}

// StaleCompletedExp reports whether the experiment cache still holds a completed experiment while the stored one has been
// restarted (is no longer completed).
func (s *Sim) StaleCompletedExp() bool {
	e := &experimentsv1beta1.Experiment{}
	if s.cacheExp == nil || s.store.Get(ctx, types.NamespacedName{Name: ExpName, Namespace: NS}, e) != nil {
		return false
	}
	return s.cacheExp.IsCompleted() && !e.IsCompleted()
}

// StaleSug: the suggestion cache is behind the stored suggestion.
func (s *Sim) StaleSug() bool {
	g := &suggestionsv1beta1.Suggestion{}
	if s.cacheSug == nil || s.store.Get(ctx, types.NamespacedName{Name: ExpName, Namespace: NS}, g) != nil {
		return false
	}
	return g.ResourceVersion != s.cacheSug.ResourceVersion
}

// StaleRunningExp: the stored experiment carries a verdict which the experiment cache has not seen yet.
func (s *Sim) StaleRunningExp() bool {
	e := &experimentsv1beta1.Experiment{}
	if s.cacheExp == nil || s.store.Get(ctx, types.NamespacedName{Name: ExpName, Namespace: NS}, e) != nil {
		return false
	}
	return !s.cacheExp.IsCompleted() && e.IsCompleted()
}

// CachedSuggestion returns (spec.requests, status.suggestionCount) of the cached suggestion, or nil.
func (s *Sim) CachedSuggestion() []int64 {
	if s.cacheSug == nil {
		return nil
	}
	return []int64{int64(s.cacheSug.Spec.Requests), int64(s.cacheSug.Status.SuggestionCount)}
}

// CachedTrials returns (number, completed) of the trials in the trial cache.
func (s *Sim) CachedTrials() [][2]any {
	var res [][2]any
	for i := range s.cacheTrials {
		t := &s.cacheTrials[i]
		res = append(res, [2]any{trialNum(t.Name), t.IsCompleted()})
	}
	return res
}
