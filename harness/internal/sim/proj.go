package sim

import (
	"encoding/json"
	"fmt"
	"sort"
	"strconv"
	"strings"

	"google.golang.org/grpc/codes"
	"google.golang.org/grpc/status"
	appsv1 "k8s.io/api/apps/v1"
	corev1 "k8s.io/api/core/v1"
	rbacv1 "k8s.io/api/rbac/v1"
	"k8s.io/apimachinery/pkg/api/meta"
	"k8s.io/apimachinery/pkg/apis/meta/v1/unstructured"
	"k8s.io/apimachinery/pkg/types"
	"sigs.k8s.io/controller-runtime/pkg/client"

	commonv1beta1 "github.com/kubeflow/katib/pkg/apis/controller/common/v1beta1"
	experimentsv1beta1 "github.com/kubeflow/katib/pkg/apis/controller/experiments/v1beta1"
	suggestionsv1beta1 "github.com/kubeflow/katib/pkg/apis/controller/suggestions/v1beta1"

	"verifharness/internal/kit"
)

func grpcInvalid(msg string) error { return status.Error(codes.InvalidArgument, msg) }

func apimetaExtract(list client.ObjectList) ([]client.Object, error) {
	objs, err := meta.ExtractList(list)
	if err != nil {
		return nil, err
	}
	var res []client.Object
	for _, o := range objs {
		if co, ok := o.(client.Object); ok {
			res = append(res, co)
		}
	}
	return res, nil
}

// Cond is a projected condition: type and reason are the enum numbers of Model/World.v.
type Cond struct {
	T int    `json:"t"`
	S string `json:"s"` // True | False | Unknown
	R int    `json:"r"`
}

type PExp struct {
	Max      *int64   `json:"max"`
	Fin      bool     `json:"fin"`
	Deleting bool     `json:"deleting"`
	Conds    []Cond   `json:"conds"`
	Counts   [8]int64 `json:"counts"` // pending running succeeded failed killed es mu trials
	Classes  [][2]int `json:"classes"`
	Opt      *POpt    `json:"opt"`
	CTime    bool     `json:"ctime"`
}
type POpt struct {
	Name int  `json:"name"`
	Obs  PObs `json:"obs"`
}

// PObs: Has=false no observation; Has && Val==nil objective unavailable; else the value in 1/8.
type PObs struct {
	Has bool   `json:"has"`
	Val *int64 `json:"val"`
}
type PSug struct {
	Requests int64  `json:"requests"`
	Names    []int  `json:"names"`
	Count    int64  `json:"count"`
	Conds    []Cond `json:"conds"`
	Settings int    `json:"settings"`
}
type PTrial struct {
	Name     int    `json:"name"`
	Conds    []Cond `json:"conds"`
	Obs      PObs   `json:"obs"`
	CTime    bool   `json:"ctime"`
	Fin      bool   `json:"fin"`
	Deleting bool   `json:"deleting"`
}
type PJob struct {
	Name  int    `json:"name"`
	Phase string `json:"phase"`
}
type PInfra struct {
	Dep  *bool `json:"dep"`
	Svc  bool  `json:"svc"`
	Pvc  bool  `json:"pvc"`
	Sa   bool  `json:"sa"`
	Role bool  `json:"role"`
	Rb   bool  `json:"rb"`
}
type PDb struct {
	Name int    `json:"name"`
	Val  *int64 `json:"val"`
}

// Proj is the canonical projection of the cluster after an action.
type Proj struct {
	Exp      *PExp    `json:"exp"`
	Sug      *PSug    `json:"sug"`
	Trials   []PTrial `json:"trials"`
	Jobs     []PJob   `json:"jobs"`
	Infra    PInfra   `json:"infra"`
	Db       []PDb    `json:"db"`
	Pending  [3]bool  `json:"pending"`
	Writes   int      `json:"writes"`
	NRpc     int      `json:"nrpc"`
	CTChange bool     `json:"ct_change"`
}

var expCondT = map[string]int{"Created": 0, "Running": 1, "Restarting": 2, "Succeeded": 3, "Failed": 4}
var sugCondT = map[string]int{"Created": 0, "DeploymentReady": 1, "Running": 2, "Succeeded": 3, "Failed": 4}
var trialCondT = map[string]int{"Created": 0, "Running": 1, "Succeeded": 2, "Killed": 3, "Failed": 4, "MetricsUnavailable": 5, "EarlyStopped": 6}

var reasonID = map[string]int{
	"ExperimentCreated": 0, "TrialCreated": 0, "SuggestionCreated": 0,
	"ExperimentRunning": 1, "TrialRunning": 1, "SuggestionRunning": 1,
	"ExperimentRestarting":       2,
	"ExperimentGoalReached":      3,
	"ExperimentMaxTrialsReached": 4,
	"ExperimentFailed":           5, "TrialFailed": 5, "SuggestionFailed": 5,
	"TrialSucceeded":           6,
	"MetricsUnavailable":       7,
	"TrialEarlyStopped":        8,
	"DeploymentReady":          9,
	"DeploymentNotReady":       10,
	"Experiment is restarting": 11,
	"Suggestion is succeeded":  12,
	"Experiment is succeeded":  13,
}

func reason(r string) int {
	if id, ok := reasonID[r]; ok {
		return id
	}
	return 1000 + len(r)
}

func condT(m map[string]int, t string) int {
	if id, ok := m[t]; ok {
		return id
	}
	return 100
}

func parseVal(s string) *int64 {
	if s == "unavailable" {
		return nil
	}
	f, err := strconv.ParseFloat(s, 64)
	if err != nil {
		return nil
	}
	v := int64(f * 8)
	return &v
}

func obsOf(o *commonv1beta1.Observation, minimize bool) PObs {
	if o == nil {
		return PObs{}
	}
	for _, m := range o.Metrics {
		if m.Name == "acc" {
			s := m.Max
			if minimize {
				s = m.Min
			}
			if s == "unavailable" {
				s = m.Latest
			}
			return PObs{Has: true, Val: parseVal(s)}
		}
	}
	return PObs{Has: true}
}

// Project reads the store.
func (s *Sim) Project() Proj {
	var p Proj
	e := &experimentsv1beta1.Experiment{}
	if err := s.store.Get(ctx, types.NamespacedName{Name: ExpName, Namespace: NS}, e); err == nil {
		pe := &PExp{Deleting: !e.DeletionTimestamp.IsZero()}
		if e.Spec.MaxTrialCount != nil {
			m := int64(*e.Spec.MaxTrialCount)
			pe.Max = &m
		}
		for _, f := range e.Finalizers {
			if f == "update-prometheus-metrics" {
				pe.Fin = true
			}
		}
		for _, c := range e.Status.Conditions {
			pe.Conds = append(pe.Conds, Cond{condT(expCondT, string(c.Type)), string(c.Status), reason(c.Reason)})
		}
		st := e.Status
		pe.Counts = [8]int64{int64(st.TrialsPending), int64(st.TrialsRunning), int64(st.TrialsSucceeded), int64(st.TrialsFailed),
			int64(st.TrialsKilled), int64(st.TrialsEarlyStopped), int64(st.TrialMetricsUnavailable), int64(st.Trials)}
		add := func(names []string, class int) {
			for _, n := range names {
				pe.Classes = append(pe.Classes, [2]int{trialNum(n), class})
			}
		}
		add(st.KilledTrialList, 0)
		add(st.FailedTrialList, 1)
		add(st.SucceededTrialList, 2)
		add(st.EarlyStoppedTrialList, 3)
		add(st.RunningTrialList, 4)
		add(st.MetricsUnavailableTrialList, 5)
		add(st.PendingTrialList, 6)
		sort.SliceStable(pe.Classes, func(i, j int) bool {
			return s.trialSeq[TrialName(pe.Classes[i][0])] < s.trialSeq[TrialName(pe.Classes[j][0])]
		})
		if st.CurrentOptimalTrial.BestTrialName != "" {
			o := st.CurrentOptimalTrial.Observation
			pe.Opt = &POpt{Name: trialNum(st.CurrentOptimalTrial.BestTrialName), Obs: obsOf(&o, s.Cfg.Minimize)}
		}
		pe.CTime = st.CompletionTime != nil && !st.CompletionTime.IsZero()
		p.Exp = pe
	}
	g := &suggestionsv1beta1.Suggestion{}
	if err := s.store.Get(ctx, types.NamespacedName{Name: ExpName, Namespace: NS}, g); err == nil {
		ps := &PSug{Requests: int64(g.Spec.Requests), Count: int64(g.Status.SuggestionCount)}
		for _, a := range g.Status.Suggestions {
			ps.Names = append(ps.Names, trialNum(a.Name))
		}
		for _, c := range g.Status.Conditions {
			ps.Conds = append(ps.Conds, Cond{condT(sugCondT, string(c.Type)), string(c.Status), reason(c.Reason)})
		}
		for _, a := range g.Status.AlgorithmSettings {
			if a.Name == "v" {
				ps.Settings, _ = strconv.Atoi(a.Value)
			}
		}
		p.Sug = ps
	}
	for _, t := range s.storeTrials() {
		pt := PTrial{Name: trialNum(t.Name), Deleting: !t.DeletionTimestamp.IsZero(), Obs: obsOf(t.Status.Observation, s.Cfg.Minimize)}
		for _, f := range t.Finalizers {
			if f == "clean-metrics-in-db" {
				pt.Fin = true
			}
		}
		for _, c := range t.Status.Conditions {
			pt.Conds = append(pt.Conds, Cond{condT(trialCondT, string(c.Type)), string(c.Status), reason(c.Reason)})
		}
		pt.CTime = t.Status.CompletionTime != nil && !t.Status.CompletionTime.IsZero()
		p.Trials = append(p.Trials, pt)
	}
	jl := &unstructured.UnstructuredList{}
	jl.SetAPIVersion("batch/v1")
	jl.SetKind("JobList")
	if err := s.store.List(ctx, jl); err == nil {
		for i := range jl.Items {
			p.Jobs = append(p.Jobs, PJob{Name: trialNum(jl.Items[i].GetName()), Phase: jobPhase(&jl.Items[i])})
		}
	}
	sort.Slice(p.Jobs, func(i, j int) bool { return p.Jobs[i].Name < p.Jobs[j].Name })
	d := &appsv1.Deployment{}
	if err := s.store.Get(ctx, types.NamespacedName{Name: s.depName(), Namespace: NS}, d); err == nil {
		av := false
		for _, c := range d.Status.Conditions {
			if c.Type == appsv1.DeploymentAvailable && c.Status == corev1.ConditionTrue {
				av = true
			}
		}
		p.Infra.Dep = &av
	}
	has := func(list client.ObjectList) bool {
		if err := s.store.List(ctx, list, client.InNamespace(NS)); err != nil {
			return false
		}
		items, _ := apimetaExtract(list)
		return len(items) > 0
	}
	p.Infra.Svc = has(&corev1.ServiceList{})
	p.Infra.Pvc = has(&corev1.PersistentVolumeClaimList{})
	p.Infra.Sa = has(&corev1.ServiceAccountList{})
	p.Infra.Role = has(&rbacv1.RoleList{})
	p.Infra.Rb = has(&rbacv1.RoleBindingList{})
	for _, n := range s.dbOrder {
		if e, ok := s.db[n]; ok {
			p.Db = append(p.Db, PDb{Name: trialNum(n), Val: e.val})
		}
	}
	p.Pending = [3]bool{s.Pending("exp"), s.Pending("sug"), s.Pending("trial")}
	p.Writes = s.Writes
	for _, c := range []string{"exp", "sug", "trial"} {
		if s.Pending(c) {
			p.Writes-- // a blocked write has been counted by the gate but not issued yet
		}
	}
	p.NRpc = len(s.RPCs)
	p.CTChange = s.ExpCTChange
	return p
}

// ---------------------------------------------------------------- Coq printing

func cstat(s string) string {
	switch s {
	case "True":
		return "CTrue"
	case "False":
		return "CFalse"
	}
	return "CUnknown"
}

func coqConds(cs []Cond) string {
	return kit.ListOf(cs, func(c Cond) string { return fmt.Sprintf("Build_cond %d %s %d", c.T, cstat(c.S), c.R) }) + "%nat"
}

func coqOptZ(v *int64) string {
	if v == nil {
		return "None"
	}
	return "(Some " + kit.Z(*v) + ")"
}

func coqObs(o PObs) string {
	if !o.Has {
		return "None"
	}
	return "(Some " + coqOptZ(o.Val) + ")"
}

var classNames = []string{"KKilled", "KFailed", "KSucceeded", "KEarlyStopped", "KRunning", "KMetricsUnavailable", "KPending"}

func coqNats(l []int) string {
	return kit.ListOf(l, func(i int) string { return strconv.Itoa(i) }) + "%nat"
}

// Coq prints the projection as a term of type WorldC.proj.
func (p Proj) Coq() string {
	var b strings.Builder
	b.WriteString("(Build_proj ")
	if p.Exp == nil {
		b.WriteString("None ")
	} else {
		e := p.Exp
		opt := "None"
		if e.Opt != nil {
			opt = fmt.Sprintf("(Some (%d%%nat, %s))", e.Opt.Name, coqObs(e.Opt.Obs))
		}
		cl := kit.ListOf(e.Classes, func(c [2]int) string { return fmt.Sprintf("(%d%%nat, %s)", c[0], classNames[c[1]]) })
		fmt.Fprintf(&b, "(Some (Build_pexp %s %s %s %s (Build_counts %s %s %s %s %s %s %s %s) %s %s %s)) ",
			coqOptZ(e.Max), kit.Bool(e.Fin), kit.Bool(e.Deleting), coqConds(e.Conds),
			kit.Z(e.Counts[0]), kit.Z(e.Counts[1]), kit.Z(e.Counts[2]), kit.Z(e.Counts[3]), kit.Z(e.Counts[4]), kit.Z(e.Counts[5]), kit.Z(e.Counts[6]), kit.Z(e.Counts[7]),
			cl, opt, kit.Bool(e.CTime))
	}
	if p.Sug == nil {
		b.WriteString("None ")
	} else {
		g := p.Sug
		fmt.Fprintf(&b, "(Some (Build_psug %s %s %s %s %d%%nat)) ", kit.Z(g.Requests), coqNats(g.Names), kit.Z(g.Count), coqConds(g.Conds), g.Settings)
	}
	b.WriteString(kit.ListOf(p.Trials, func(t PTrial) string {
		return fmt.Sprintf("Build_ptrial %d%%nat %s %s %s %s %s", t.Name, coqConds(t.Conds), coqObs(t.Obs), kit.Bool(t.CTime), kit.Bool(t.Fin), kit.Bool(t.Deleting))
	}))
	b.WriteString(" ")
	b.WriteString(kit.ListOf(p.Jobs, func(j PJob) string {
		ph := map[string]string{"active": "JActive", "succ": "JSucc", "fail": "JFail"}[j.Phase]
		return fmt.Sprintf("Build_job %d%%nat %s", j.Name, ph)
	}))
	dep := "None"
	if p.Infra.Dep != nil {
		dep = "(Some " + kit.Bool(*p.Infra.Dep) + ")"
	}
	fmt.Fprintf(&b, " (Build_infra %s %s %s %s %s %s) ", dep, kit.Bool(p.Infra.Svc), kit.Bool(p.Infra.Pvc), kit.Bool(p.Infra.Sa), kit.Bool(p.Infra.Role), kit.Bool(p.Infra.Rb))
	b.WriteString(kit.ListOf(p.Db, func(d PDb) string { return fmt.Sprintf("(%d%%nat, %s)", d.Name, coqOptZ(d.Val)) }))
	fmt.Fprintf(&b, " (%s, %s, %s) %d%%nat %d%%nat %s)", kit.Bool(p.Pending[0]), kit.Bool(p.Pending[1]), kit.Bool(p.Pending[2]), p.Writes, p.NRpc, kit.Bool(p.CTChange))
	return b.String()
}

func jsonEq(a, b any) bool {
	x, _ := json.Marshal(a)
	y, _ := json.Marshal(b)
	return string(x) == string(y)
}

func coqPExp(e *PExp) string {
	if e == nil {
		return "None"
	}
	opt := "None"
	if e.Opt != nil {
		opt = fmt.Sprintf("(Some (%d%%nat, %s))", e.Opt.Name, coqObs(e.Opt.Obs))
	}
	cl := kit.ListOf(e.Classes, func(c [2]int) string { return fmt.Sprintf("(%d%%nat, %s)", c[0], classNames[c[1]]) })
	return fmt.Sprintf("(Some (Build_pexp %s %s %s %s (Build_counts %s %s %s %s %s %s %s %s) %s %s %s))",
		coqOptZ(e.Max), kit.Bool(e.Fin), kit.Bool(e.Deleting), coqConds(e.Conds),
		kit.Z(e.Counts[0]), kit.Z(e.Counts[1]), kit.Z(e.Counts[2]), kit.Z(e.Counts[3]), kit.Z(e.Counts[4]), kit.Z(e.Counts[5]), kit.Z(e.Counts[6]), kit.Z(e.Counts[7]),
		cl, opt, kit.Bool(e.CTime))
}

func coqPSug(g *PSug) string {
	if g == nil {
		return "None"
	}
	return fmt.Sprintf("(Some (Build_psug %s %s %s %s %d%%nat))", kit.Z(g.Requests), coqNats(g.Names), kit.Z(g.Count), coqConds(g.Conds), g.Settings)
}

func coqPTrial(t PTrial) string {
	return fmt.Sprintf("Build_ptrial %d%%nat %s %s %s %s %s", t.Name, coqConds(t.Conds), coqObs(t.Obs), kit.Bool(t.CTime), kit.Bool(t.Fin), kit.Bool(t.Deleting))
}

func coqJobs(js []PJob) string {
	return kit.ListOf(js, func(j PJob) string {
		ph := map[string]string{"active": "JActive", "succ": "JSucc", "fail": "JFail"}[j.Phase]
		return fmt.Sprintf("Build_job %d%%nat %s", j.Name, ph)
	})
}

func coqInfra(i PInfra) string {
	dep := "None"
	if i.Dep != nil {
		dep = "(Some " + kit.Bool(*i.Dep) + ")"
	}
	return fmt.Sprintf("(Build_infra %s %s %s %s %s %s)", dep, kit.Bool(i.Svc), kit.Bool(i.Pvc), kit.Bool(i.Sa), kit.Bool(i.Role), kit.Bool(i.Rb))
}

func coqDb(db []PDb) string {
	return kit.ListOf(db, func(d PDb) string { return fmt.Sprintf("(%d%%nat, %s)", d.Name, coqOptZ(d.Val)) })
}

// CoqDelta prints p relative to prev as a term of type WorldC.dproj.
func (p Proj) CoqDelta(prev Proj) string {
	var b strings.Builder
	b.WriteString("(Build_dproj ")
	if jsonEq(p.Exp, prev.Exp) {
		b.WriteString("None ")
	} else {
		b.WriteString("(Some " + coqPExp(p.Exp) + ") ")
	}
	if jsonEq(p.Sug, prev.Sug) {
		b.WriteString("None ")
	} else {
		b.WriteString("(Some " + coqPSug(p.Sug) + ") ")
	}
	prevT := map[int]PTrial{}
	for _, t := range prev.Trials {
		prevT[t.Name] = t
	}
	var changed []PTrial
	curT := map[int]bool{}
	for _, t := range p.Trials {
		curT[t.Name] = true
		if o, ok := prevT[t.Name]; !ok || !jsonEq(o, t) {
			changed = append(changed, t)
		}
	}
	removed := false
	for _, t := range prev.Trials {
		if !curT[t.Name] {
			removed = true
		}
	}
	if removed {
		b.WriteString("[] (Some " + kit.ListOf(p.Trials, coqPTrial) + ") ")
	} else {
		b.WriteString(kit.ListOf(changed, coqPTrial) + " None ")
	}
	if jsonEq(p.Jobs, prev.Jobs) {
		b.WriteString("None ")
	} else {
		b.WriteString("(Some " + coqJobs(p.Jobs) + ") ")
	}
	if jsonEq(p.Infra, prev.Infra) {
		b.WriteString("None ")
	} else {
		b.WriteString("(Some " + coqInfra(p.Infra) + ") ")
	}
	if jsonEq(p.Db, prev.Db) {
		b.WriteString("None ")
	} else {
		b.WriteString("(Some " + coqDb(p.Db) + ") ")
	}
	fmt.Fprintf(&b, "(%s, %s, %s) %d%%nat %d%%nat %s)", kit.Bool(p.Pending[0]), kit.Bool(p.Pending[1]), kit.Bool(p.Pending[2]), p.Writes, p.NRpc, kit.Bool(p.CTChange))
	return b.String()
}

// CoqCfg prints the configuration as World.cfg.
func (c Cfg) Coq() string {
	res := map[string]string{"Never": "Never", "LongRunning": "LongRunning", "FromVolume": "FromVolume"}[c.Resume]
	return fmt.Sprintf("(Build_cfg %s %s %s %s %s %s %s %s %s)", coqOptZ(c.Max), kit.Z(c.Par), coqOptZ(c.MaxFailed), coqOptZ(c.Goal),
		kit.Bool(c.Minimize), res, kit.Bool(c.ES), kit.Bool(c.Retain), kit.Bool(c.Push))
}

func ctlCoq(c string) string {
	return map[string]string{"exp": "CExp", "sug": "CSug", "trial": "CTrial"}[c]
}

var defaultResp = "(Build_sresp true true ReplyErr true)"

// Coq prints an action as World.action.
func (a Action) Coq() string {
	switch a.Op {
	case "begin":
		resp := defaultResp
		if a.Resp != nil {
			rep := "ReplyErr"
			if !a.Resp.ReplyErr {
				st := "None"
				if a.Resp.Settings != nil {
					st = fmt.Sprintf("(Some %d%%nat)", *a.Resp.Settings)
				}
				rep = fmt.Sprintf("(ReplyOk %s %s)", coqNats(a.Resp.Names), st)
			}
			resp = fmt.Sprintf("(Build_sresp %s %s %s %s)", kit.Bool(a.Resp.Valid), kit.Bool(a.Resp.ESValid), rep, kit.Bool(a.Resp.ESRules))
		}
		return fmt.Sprintf("Begin %s %d%%nat %s %s", ctlCoq(a.C), a.Key, resp, kit.Bool(a.DbErr))
	case "write":
		return fmt.Sprintf("Write %s %s", ctlCoq(a.C), kit.Bool(a.Inj))
	case "abort":
		return "Abort " + ctlCoq(a.C)
	case "jobdone":
		return fmt.Sprintf("JobDone %d%%nat %s", a.Key, kit.Bool(a.Ok))
	case "jobgone":
		return fmt.Sprintf("JobGone %d%%nat", a.Key)
	case "metrics":
		return fmt.Sprintf("Metrics %d%%nat %s", a.Key, coqOptZ(a.V))
	case "earlystop":
		return fmt.Sprintf("EarlyStop %d%%nat %s", a.Key, coqOptZ(a.V))
	case "deployavail":
		return "DeployAvailable " + kit.Bool(a.B)
	case "syncexp":
		return "SyncExp"
	case "syncsug":
		return "SyncSug"
	case "synctrials":
		return "SyncTrials"
	case "raisemax":
		return "UserRaiseMax " + kit.Z(a.N)
	case "delexp":
		return "DeleteExperiment"
	case "gctrial":
		return fmt.Sprintf("GcTrial %d%%nat", a.Key)
	}
	panic("unknown action " + a.Op)
}

// CoqRPCs prints the captured RPCs as list World.rpc.
func CoqRPCs(rs []RPC) string {
	return kit.ListOf(rs, func(r RPC) string {
		switch r.Kind {
		case "validate":
			return "RpcValidate"
		case "validate_es":
			return "RpcValidateES"
		case "get_suggestions":
			return fmt.Sprintf("RpcGetSuggestions %s %s %s", kit.Z(r.Current), kit.Z(r.Total), coqNats(r.Sent))
		}
		return fmt.Sprintf("RpcGetESRules %s", coqNats(r.Sent))
	})
}

// CoqNats is exported for the driver.
func CoqNats(l []int) string { return coqNats(l) }
