// Package kit is the shared plumbing of the correspondence harness: deterministic PRNG,
// Coq term printing, case files and the JSON summary read by /verif/check.
package kit

import (
	"crypto/sha256"
	"encoding/hex"
	"encoding/json"
	"flag"
	"fmt"
	"math/rand"
	"os"
	"path/filepath"
	"sort"
	"strconv"
	"strings"
	"time"
)

// Case is one evaluated case: the replayable input, the Coq term carrying the input together with
// what the implementation did on it, and bookkeeping for the evidence file.
type Case struct {
	Input      any               `json:"input"`             // replayable (JSON) form of the input
	Observed   any               `json:"observed"`          // what the implementation returned, human readable
	Key        string            `json:"key,omitempty"`     // "" = D_ok; otherwise the known-finding domain the INPUT lies in
	Keys       map[string]string `json:"keys,omitempty"`    // per property (multi-monitor drivers): property id -> domain key
	Coq        string            `json:"-"`                 // Coq term of the property's `case` type
	Sig        string            `json:"-"`                 // canonical signature (distinctness)
	Nontrivial bool              `json:"nontrivial"`        // by the property's stated rule
	Tags       []string          `json:"tags,omitempty"`    // distribution buckets
	GoViol     string            `json:"go_viol,omitempty"` // violation observed on the Go side only (panic, ...)
}

// Prop is implemented by every function-level property driver.
type Prop interface {
	// Name is the property id in lower case, e.g. "c11".
	Name() string
	// CoqModule is the Corr module imported by the generated case file, e.g. "C11".
	CoqModule() string
	// Rule describes how cases are generated and what makes one non-trivial.
	Rule() string
	// Gen produces the i-th input from the PRNG (structured stream first, malformed stream after).
	Gen(r *rand.Rand, i, n int) any
	// Decode turns a replayed JSON input into the driver's input type.
	Decode(raw json.RawMessage) (any, error)
	// Run executes the implementation on the input.
	Run(input any) Case
}

// MultiMonitor is implemented by drivers whose cases are judged by several property monitors at once
// (the joint controller model): the case file then prints one list V_<name> per monitor.
type MultiMonitor interface {
	Monitors() []string
}

// Summary is written next to the case files.
type Summary struct {
	Prop       string         `json:"prop"`
	Seed       int64          `json:"seed"`
	N          int            `json:"n"`
	Shards     []string       `json:"shards"`
	ShardSizes []int          `json:"shard_sizes"`
	Rule       string         `json:"rule"`
	Distinct   int            `json:"distinct"`
	DistinctNT int            `json:"distinct_nontrivial"`
	Dist       map[string]int `json:"distribution"`
	Cases      []Case         `json:"cases"`
	Extra      map[string]any `json:"extra,omitempty"`
}

const shardSize = 400

// Main runs a property driver: purecases <prop> -seed S -n N -out DIR [-replay file]
func Main(p Prop, args []string) {
	fs := flag.NewFlagSet(p.Name(), flag.ExitOnError)
	seed := fs.Int64("seed", 1, "PRNG seed")
	n := fs.Int("n", 100, "number of cases")
	out := fs.String("out", "build", "output directory")
	replay := fs.String("replay", "", "JSON file holding a list of inputs (or a replay file with .case) to run instead of generating")
	corpus := fs.String("corpus", "", "directory of minimised failing inputs run first")
	_ = fs.Parse(args)

	var inputs []any
	if *replay != "" {
		inputs = loadInputs(p, *replay)
	} else {
		if *corpus != "" {
			files, _ := filepath.Glob(filepath.Join(*corpus, "*.json"))
			sort.Strings(files)
			for _, f := range files {
				inputs = append(inputs, loadInputs(p, f)...)
			}
		}
		r := rand.New(rand.NewSource(*seed))
		for i := 0; i < *n; i++ {
			inputs = append(inputs, p.Gen(r, i, *n))
		}
	}
	cases := make([]Case, len(inputs))
	// a time limit per case; a driver whose cases legitimately run long and share process-wide state (the joint-model
	// simulator: a history that is abandoned would go on running beside the next ones) opts out with CaseTimeout() = 0
	limit := 60 * time.Second
	if v, err := strconv.Atoi(os.Getenv("VERIF_CASE_TIMEOUT")); err == nil && v > 0 {
		limit = time.Duration(v) * time.Second
	}
	if ct, ok := p.(interface{ CaseTimeout() time.Duration }); ok {
		limit = ct.CaseTimeout()
	}
	var hung []int
	for i, in := range inputs {
		// a case that does not come back (an endless loop in the implementation) must not take the whole run with it: it is
		// reported as a violation with this input (its place in the case file is taken by a copy of a finished case)
		if limit <= 0 {
			cases[i] = p.Run(in)
			if cases[i].Input == nil {
				cases[i].Input = in
			}
			continue
		}
		done := make(chan Case, 1)
		go func(in any) { done <- p.Run(in) }(in)
		select {
		case cases[i] = <-done:
		case <-time.After(limit):
			cases[i] = Case{GoViol: fmt.Sprintf("the implementation did not return within %s on this input", limit)}
			hung = append(hung, i)
		}
		if cases[i].Input == nil {
			cases[i].Input = in
		}
	}
	for _, i := range hung {
		for j := range cases {
			if cases[j].Coq != "" {
				cases[i].Coq, cases[i].Sig = cases[j].Coq, fmt.Sprintf("hung-%d", i)
				break
			}
		}
		if cases[i].Coq == "" {
			fmt.Fprintln(os.Stderr, "every case hung")
			os.Exit(2)
		}
	}
	WriteCases(p, *seed, cases, *out, nil)
}

func loadInputs(p Prop, path string) []any {
	raw, err := os.ReadFile(path)
	if err != nil {
		fmt.Fprintln(os.Stderr, "replay:", err)
		os.Exit(2)
	}
	var lst []json.RawMessage
	if json.Unmarshal(raw, &lst) != nil {
		var obj struct {
			Case json.RawMessage `json:"case"`
		}
		if err := json.Unmarshal(raw, &obj); err != nil || obj.Case == nil {
			fmt.Fprintln(os.Stderr, "replay: neither a list of inputs nor a replay object with .case")
			os.Exit(2)
		}
		lst = []json.RawMessage{obj.Case}
	}
	var res []any
	for _, r := range lst {
		in, err := p.Decode(r)
		if err != nil {
			fmt.Fprintln(os.Stderr, "replay decode:", err)
			os.Exit(2)
		}
		res = append(res, in)
	}
	return res
}

// WriteCases writes the sharded Coq case files and the JSON summary.
func WriteCases(p Prop, seed int64, cases []Case, out string, extra map[string]any) {
	_ = os.MkdirAll(out, 0o755)
	up := strings.ToUpper(p.Name())
	old, _ := filepath.Glob(filepath.Join(out, "cases_"+up+"_*.v"))
	for _, f := range old {
		os.Remove(f)
		os.Remove(strings.TrimSuffix(f, ".v") + ".vo")
		os.Remove(strings.TrimSuffix(f, ".v") + ".glob")
	}
	sum := Summary{Prop: up, Seed: seed, N: len(cases), Rule: p.Rule(), Dist: map[string]int{}, Cases: cases, Extra: extra}
	seen := map[string]bool{}
	seenNT := map[string]bool{}
	for _, c := range cases {
		sig := c.Sig
		if sig == "" {
			sig = c.Coq
		}
		h := sha256.Sum256([]byte(sig))
		k := hex.EncodeToString(h[:8])
		seen[k] = true
		if c.Nontrivial {
			seenNT[k] = true
		}
		for _, t := range c.Tags {
			sum.Dist[t]++
		}
		if c.Key != "" {
			sum.Dist["domain:"+c.Key]++
		} else {
			sum.Dist["domain:ok"]++
		}
	}
	sum.Distinct, sum.DistinctNT = len(seen), len(seenNT)
	for s := 0; s*shardSize < len(cases) || (s == 0 && len(cases) == 0); s++ {
		lo, hi := s*shardSize, (s+1)*shardSize
		if hi > len(cases) {
			hi = len(cases)
		}
		name := fmt.Sprintf("cases_%s_%d", up, s)
		var b strings.Builder
		fmt.Fprintf(&b, "(* generated by harness/cmd/purecases %s, seed %d: cases %d..%d *)\n", p.Name(), seed, lo, hi-1)
		fmt.Fprintf(&b, "From KV Require Import Corr.%s.\nImport ListNotations.\nOpen Scope string_scope.\nOpen Scope Z_scope.\n", p.CoqModule())
		for i := lo; i < hi; i++ {
			fmt.Fprintf(&b, "Definition c%d : %s.case := %s.\n", i, p.CoqModule(), cases[i].Coq)
		}
		b.WriteString("Definition cases := [")
		for i := lo; i < hi; i++ {
			if i > lo {
				b.WriteString("; ")
			}
			fmt.Fprintf(&b, "(%d%%nat, c%d)", i, i)
		}
		b.WriteString("].\n")
		fmt.Fprintf(&b, "Definition M := Eval vm_compute in %s.mismatches cases.\nPrint M.\n", p.CoqModule())
		if mm, ok := p.(MultiMonitor); ok {
			for _, name := range mm.Monitors() {
				fmt.Fprintf(&b, "Definition V_%s := Eval vm_compute in %s.violations_%s cases.\nPrint V_%s.\n", name, p.CoqModule(), name, name)
			}
		} else {
			fmt.Fprintf(&b, "Definition V := Eval vm_compute in %s.violations cases.\nPrint V.\n", p.CoqModule())
		}
		path := filepath.Join(out, name+".v")
		if err := os.WriteFile(path, []byte(b.String()), 0o644); err != nil {
			fmt.Fprintln(os.Stderr, err)
			os.Exit(2)
		}
		sum.Shards = append(sum.Shards, path)
		sum.ShardSizes = append(sum.ShardSizes, hi-lo)
	}
	js, err := json.Marshal(sum)
	if err != nil {
		fmt.Fprintln(os.Stderr, "summary:", err)
		os.Exit(2)
	}
	if err := os.WriteFile(filepath.Join(out, "cases_"+up+".json"), js, 0o644); err != nil {
		fmt.Fprintln(os.Stderr, err)
		os.Exit(2)
	}
	fmt.Printf("%s: %d cases, %d distinct, %d distinct non-trivial, %d shard(s)\n", up, len(cases), sum.Distinct, sum.DistinctNT, len(sum.Shards))
}

// ---------------------------------------------------------------- Coq term printing

// Str prints a Go string as a Coq term of type string.
func Str(s string) string {
	plain := true
	for i := 0; i < len(s); i++ {
		if s[i] < 32 || s[i] > 126 {
			plain = false
			break
		}
	}
	if plain {
		return `"` + strings.ReplaceAll(s, `"`, `""`) + `"`
	}
	var b strings.Builder
	b.WriteString("(sb [")
	for i := 0; i < len(s); i++ {
		if i > 0 {
			b.WriteString(";")
		}
		b.WriteString(strconv.Itoa(int(s[i])))
	}
	b.WriteString("]%nat)")
	return b.String()
}

// Z prints an integer as a Coq Z term.
func Z(i int64) string {
	if i < 0 {
		return "(" + strconv.FormatInt(i, 10) + ")"
	}
	return strconv.FormatInt(i, 10)
}

// Nat prints a small natural number.
func Nat(i int) string { return strconv.Itoa(i) + "%nat" }

// Bool prints a boolean.
func Bool(b bool) string {
	if b {
		return "true"
	}
	return "false"
}

// List prints a Coq list from already printed elements.
func List(xs []string) string { return "[" + strings.Join(xs, "; ") + "]" }

// ListOf prints a list by mapping f.
func ListOf[T any](xs []T, f func(T) string) string {
	out := make([]string, len(xs))
	for i, x := range xs {
		out[i] = f(x)
	}
	return List(out)
}

// Opt prints an option.
func Opt(present bool, v string) string {
	if !present {
		return "None"
	}
	return "(Some " + v + ")"
}

// Pair prints a pair.
func Pair(a, b string) string { return "(" + a + ", " + b + ")" }

// Rec prints a record built by its constructor applied to arguments.
func Rec(ctor string, args ...string) string {
	return "(" + ctor + " " + strings.Join(args, " ") + ")"
}

// Intern maps strings to small naturals, stable within one case.
type Intern struct {
	m    map[string]int
	Keys []string
}

func NewIntern() *Intern { return &Intern{m: map[string]int{}} }

func (t *Intern) ID(s string) int {
	if v, ok := t.m[s]; ok {
		return v
	}
	t.m[s] = len(t.Keys)
	t.Keys = append(t.Keys, s)
	return len(t.Keys) - 1
}

// Pick returns a random element.
func Pick[T any](r *rand.Rand, xs []T) T { return xs[r.Intn(len(xs))] }

// Recover runs f and returns the panic text, if any.
func Recover(f func()) (p string) {
	defer func() {
		if r := recover(); r != nil {
			p = fmt.Sprint(r)
		}
	}()
	f()
	return ""
}

// ---------------------------------------------------------------- known findings

var openFindings map[string]bool

// OpenFinding reports whether (prop, key) is listed with status "open" in /verif/KNOWN_FINDINGS.json or
// /verif/findings.d/*.json. Drivers give an input the domain key of a known finding only while that finding
// is open: once the defect is repaired and the entry moved to "fixed", the same inputs fall back into D_ok,
// where the correspondence and the theorems must hold.
func OpenFinding(prop, key string) bool {
	if openFindings == nil {
		openFindings = map[string]bool{}
		dir := os.Getenv("VERIF_DIR")
		if dir == "" {
			dir = "/verif"
		}
		files, _ := filepath.Glob(filepath.Join(dir, "findings.d", "*.json"))
		files = append(files, filepath.Join(dir, "KNOWN_FINDINGS.json"))
		for _, f := range files {
			raw, err := os.ReadFile(f)
			if err != nil {
				continue
			}
			var doc struct {
				Findings []struct {
					Property string `json:"property"`
					Key      string `json:"key"`
					Status   string `json:"status"`
				} `json:"findings"`
			}
			if json.Unmarshal(raw, &doc) != nil {
				continue
			}
			for _, e := range doc.Findings {
				if e.Status == "open" {
					openFindings[strings.ToUpper(e.Property)+"/"+e.Key] = true
				}
			}
		}
	}
	return openFindings[strings.ToUpper(prop)+"/"+key]
}

// KeyIf returns key when the finding is open and cond holds, else "".
func KeyIf(prop, key string, cond bool) string {
	if cond && OpenFinding(prop, key) {
		return key
	}
	return ""
}
