// Package c10api enumerates, from the CURRENT katib tree, what property C10 quantifies over "by reflection":
// the fields of the API structs whose content has to reach the algorithm services, the fields of the proto
// messages that carry it, and the declared enum constants. It is shared by the translator cmd/gen-fields
// (which prints these tables as coq/theories/Gen/Fields.v) and by the correspondence driver cmd/c10 (whose
// reflective pass probes every field and every enum constant on the real conversion code).
package c10api

import (
	"fmt"
	"go/ast"
	"go/parser"
	"go/token"
	"os"
	"path/filepath"
	"reflect"
	"sort"
	"strconv"
	"strings"

	commonv1beta1 "github.com/kubeflow/katib/pkg/apis/controller/common/v1beta1"
	experimentsv1beta1 "github.com/kubeflow/katib/pkg/apis/controller/experiments/v1beta1"
	suggestionsv1beta1 "github.com/kubeflow/katib/pkg/apis/controller/suggestions/v1beta1"
	api "github.com/kubeflow/katib/pkg/apis/manager/v1beta1"
	"github.com/kubeflow/katib/pkg/controller.v1beta1/consts"
)

// Field is one exported field of a struct.
type Field struct {
	Struct string // Go type name, e.g. "ParameterSpec"
	Name   string // Go field name
	Kind   string // rendering of the Go type with package qualifiers dropped, e.g. "[]string", "*int32", "Distribution"
}

// Enum is one declared constant of a string enum type of the API.
type Enum struct {
	Type  string // e.g. "ParameterType"
	Const string // e.g. "ParameterTypeDouble"
	Value string // e.g. "double"
}

// PbEnum is one value of a proto enum.
type PbEnum struct {
	Type   string
	Name   string
	Number int32
}

// APIStructs are the API types named by the property (in the order of the generated table).
func APIStructs() []reflect.Type {
	return []reflect.Type{
		reflect.TypeOf(experimentsv1beta1.ParameterSpec{}),
		reflect.TypeOf(experimentsv1beta1.FeasibleSpace{}),
		reflect.TypeOf(commonv1beta1.ObjectiveSpec{}),
		reflect.TypeOf(commonv1beta1.MetricStrategy{}),
		reflect.TypeOf(commonv1beta1.AlgorithmSpec{}),
		reflect.TypeOf(commonv1beta1.AlgorithmSetting{}),
		reflect.TypeOf(commonv1beta1.EarlyStoppingSpec{}),
		reflect.TypeOf(commonv1beta1.EarlyStoppingSetting{}),
		reflect.TypeOf(experimentsv1beta1.NasConfig{}),
		reflect.TypeOf(experimentsv1beta1.GraphConfig{}),
		reflect.TypeOf(experimentsv1beta1.Operation{}),
		reflect.TypeOf(commonv1beta1.ParameterAssignment{}),
		reflect.TypeOf(suggestionsv1beta1.TrialAssignment{}),
		reflect.TypeOf(commonv1beta1.Observation{}),
		reflect.TypeOf(commonv1beta1.Metric{}),
	}
}

// PbStructs are the proto messages that carry experiments and trials to the services.
func PbStructs() []reflect.Type {
	return []reflect.Type{
		reflect.TypeOf(api.Experiment{}),
		reflect.TypeOf(api.ExperimentSpec{}),
		reflect.TypeOf(api.ExperimentSpec_ParameterSpecs{}),
		reflect.TypeOf(api.ParameterSpec{}),
		reflect.TypeOf(api.FeasibleSpace{}),
		reflect.TypeOf(api.ObjectiveSpec{}),
		reflect.TypeOf(api.AlgorithmSpec{}),
		reflect.TypeOf(api.AlgorithmSetting{}),
		reflect.TypeOf(api.EarlyStoppingSpec{}),
		reflect.TypeOf(api.EarlyStoppingSetting{}),
		reflect.TypeOf(api.NasConfig{}),
		reflect.TypeOf(api.NasConfig_Operations{}),
		reflect.TypeOf(api.GraphConfig{}),
		reflect.TypeOf(api.Operation{}),
		reflect.TypeOf(api.Operation_ParameterSpecs{}),
		reflect.TypeOf(api.Trial{}),
		reflect.TypeOf(api.TrialSpec{}),
		reflect.TypeOf(api.TrialSpec_ParameterAssignments{}),
		reflect.TypeOf(api.ParameterAssignment{}),
		reflect.TypeOf(api.TrialStatus{}),
		reflect.TypeOf(api.Observation{}),
		reflect.TypeOf(api.Metric{}),
	}
}

// KindOf renders a Go type without package qualifiers.
func KindOf(t reflect.Type) string {
	switch t.Kind() {
	case reflect.Ptr:
		return "*" + KindOf(t.Elem())
	case reflect.Slice:
		return "[]" + KindOf(t.Elem())
	case reflect.Map:
		return "map[" + KindOf(t.Key()) + "]" + KindOf(t.Elem())
	}
	if t.Name() != "" {
		return t.Name()
	}
	return t.String()
}

// FieldsOf lists the exported fields of the given struct types.
func FieldsOf(ts []reflect.Type) []Field {
	var res []Field
	for _, t := range ts {
		for i := 0; i < t.NumField(); i++ {
			f := t.Field(i)
			if !f.IsExported() {
				continue
			}
			res = append(res, Field{Struct: t.Name(), Name: f.Name, Kind: KindOf(f.Type)})
		}
	}
	return res
}

// EnumTypes are the string enum types of the API that the conversion inspects.
var EnumTypes = []string{"ParameterType", "Distribution", "ObjectiveType", "TrialConditionType", "MetricStrategyType"}

// apiDirs are the packages whose const declarations are scanned.
var apiDirs = []string{
	"pkg/apis/controller/common/v1beta1",
	"pkg/apis/controller/experiments/v1beta1",
	"pkg/apis/controller/trials/v1beta1",
}

// Repo is the katib tree under verification.
func Repo() string {
	if r := os.Getenv("VERIF_REPO"); r != "" {
		return r
	}
	return "/repo"
}

// Enums parses the API packages of the tree and returns the declared constants of EnumTypes, in source order.
func Enums(repo string) ([]Enum, error) {
	want := map[string]bool{}
	for _, t := range EnumTypes {
		want[t] = true
	}
	var res []Enum
	for _, d := range apiDirs {
		files, err := filepath.Glob(filepath.Join(repo, d, "*.go"))
		if err != nil {
			return nil, err
		}
		sort.Strings(files)
		for _, f := range files {
			if strings.HasSuffix(f, "_test.go") || strings.HasPrefix(filepath.Base(f), "zz_generated") {
				continue
			}
			fset := token.NewFileSet()
			af, err := parser.ParseFile(fset, f, nil, 0)
			if err != nil {
				return nil, err
			}
			for _, decl := range af.Decls {
				gd, ok := decl.(*ast.GenDecl)
				if !ok || gd.Tok != token.CONST {
					continue
				}
				for _, sp := range gd.Specs {
					vs := sp.(*ast.ValueSpec)
					id, ok := vs.Type.(*ast.Ident)
					if !ok || !want[id.Name] {
						continue
					}
					for i, n := range vs.Names {
						if i >= len(vs.Values) {
							return nil, fmt.Errorf("%s: constant %s of type %s has no explicit value", f, n.Name, id.Name)
						}
						lit, ok := vs.Values[i].(*ast.BasicLit)
						if !ok || lit.Kind != token.STRING {
							return nil, fmt.Errorf("%s: constant %s of type %s is not a string literal", f, n.Name, id.Name)
						}
						v, err := strconv.Unquote(lit.Value)
						if err != nil {
							return nil, err
						}
						res = append(res, Enum{Type: id.Name, Const: n.Name, Value: v})
					}
				}
			}
		}
	}
	for _, t := range EnumTypes {
		n := 0
		for _, e := range res {
			if e.Type == t {
				n++
			}
		}
		if n == 0 {
			return nil, fmt.Errorf("no constants of type %s found under %s", t, repo)
		}
	}
	return res, nil
}

// PbEnums lists the values of the four proto enums the conversion produces (from the generated *_name maps).
func PbEnums() []PbEnum {
	var res []PbEnum
	add := func(ty string, m map[int32]string) {
		var ks []int
		for k := range m {
			ks = append(ks, int(k))
		}
		sort.Ints(ks)
		for _, k := range ks {
			res = append(res, PbEnum{Type: ty, Name: m[int32(k)], Number: int32(k)})
		}
	}
	add("ParameterType", api.ParameterType_name)
	add("Distribution", api.Distribution_name)
	add("ObjectiveType", api.ObjectiveType_name)
	add("TrialConditionType", api.TrialStatus_TrialConditionType_name)
	return res
}

// UnavailableMetricValue is the constant compared against by convertTrialObservation and IsObservationAvailable.
func UnavailableMetricValue() string { return consts.UnavailableMetricValue }
