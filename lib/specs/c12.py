"""C12 spec."""
SPEC = dict(id="C12", kind="pure", binary="c12", gen="c12", corr="C12", n_quick=800, n_thorough=16000,
    level_text="the pod webhook (Handle = MutationRequired + Mutate with every helper, getKatibJob fuelled, katib-config lookup) is modelled in Gallina on real strings; "
               "C12_not_katib / C12_labels_only / C12_primary (+ containers_kept, wrapped, collector, metrics_mount_exact, primary_admitted, walk soundness/completeness/fuel) "
               "are Coq theorems for pods, ownership graphs, trials and configs of any size; the model is compared with the real SidecarInjector on generated cases each run "
               "and the boolean form of the theorems is evaluated on the implementation's verdicts; the model describes the repaired behaviour for F5/F5b (keys in findings.d/C12.json)",
    coq_targets=["theories/Props/C12.vo", "theories/Corr/C12.vo", "theories/Proofs/C12Monitor.vo", "theories/Proofs/InjectP.vo"],
    assumptions=[
        "library calls are evaluated by the harness and enter the model as data: schema.ParseGroupVersion per owner reference, the decoded+defaulted katib-config (same decoder call as katibconfig.fromConfigMap), "
        "strings.TrimSpace(image)=\"\", filepath.Dir/Join on the metrics path (finite table), filepath.Join(experiment, trial), strconv.Itoa(startStep), util.GetEarlyStoppingEndpoint, GetSuggestionPersistentVolumeClaimName, GetDBManagerAddr",
        "client.Get is a lookup in the objects the harness put into controller-runtime's fake client (exact group/version/kind/namespace/name); the kind of an object read through an owner reference is the reference's kind",
        "the ownership graph is acyclic (getKatibJob does not terminate on a cycle); theorems carry `walk <> OutOfFuel`, discharged from a rank function by C12_walk_fuel; cases use fuel = number of cluster objects + 1",
        "Trials have spec.metricsCollector.collector and spec.objective set (the Experiment defaulter/controller always sets them); a nil source for File/TensorFlowEvent and a nil custom container are modelled as Crash sites",
        "a non-nil empty earlyStoppingRules / primaryPodLabels cannot reach the webhook (omitempty + JSON decoding by client.Get), so nil and empty are identified",
        "fields of pods/containers/volumes/env vars that the webhook never reads are compared as opaque JSON blobs interned per case",
        "containers without an explicit command make the webhook fetch the image config from a registry: the model takes the fetch result as an input (w_img); the harness can only exercise the failing fetch (offline), the theorems demand an explicit command",
    ],
    trusted_base=["SidecarInjector is built with NewSidecarInjector(fake client, decoder); the verdict compared with the model is composed from MutationRequired and Mutate exactly as Handle composes them; "
                  "for the pods that carry their TypeMeta (about half) the real Handle is run too on the serialized pod and its response (allowed, HTTP code 500/400, JSON patch applied to the raw object) must agree with that composition, else the case is a violation",
                  "Base/Packed.v decodes the packed string literals of the case files with primitive 63-bit integers (Uint63); no theorem depends on it"])
