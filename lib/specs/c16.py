"""C16 spec: decided on the joint controller model (Model/World.v) and the simulator over the three real reconcilers."""
from .worldcommon import ASSUME, TRUSTED

SPEC = dict(id="C16", kind="world", monitor="resume_ok",
    modulo={"failed-suggestion-not-cleaned": "V_C16w", "cleanup-on-stale-completed-experiment": "V_C16x"},
    coq_targets=["theories/Props/C16.vo", "theories/Corr/WorldAll.vo"],
    level_text='State-level theorems over the joint controller model at quiescence: C16_cleanup (completed, Never/FromVolume, non-failed suggestion: Succeeded, no Deployment, no Service), C16_service_running (suggestion neither Succeeded nor Failed: Deployment available, Service present, Running, claim present under FromVolume), C16_pvc_kept (only Deployment and Service are ever deleted); per reconcile C16_no_rpc, C16_restart_only_when_allowed and C16_sug_restart_only_when_enabled; over all runs under Never/LongRunning C16_succeeded_only_after_completion; the monitor (cleanup per policy at quiescence, no RPC after a Succeeded snapshot, verdict withdrawn only when the restart is enabled, the Succeeded condition of the suggestion withdrawn only for an enabled restart) runs on histories including restart lives over the real experiment and suggestion reconcilers',
    level_note='restart progress (after a raise the experiment runs to a verdict again) is theorem C16_restart_progress over all runs (it needed the repair of F18, /repo 6ef4053) and the monitor clause restart_progress; known finding F14 (failed suggestion is never cleaned up)' + "; " + "; ".join(ASSUME),
    assumptions=ASSUME, trusted_base=TRUSTED)
