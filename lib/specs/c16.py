"""C16 spec: decided on the joint controller model (Model/World.v) and the simulator over the three real reconcilers."""
from .worldcommon import ASSUME, TRUSTED

SPEC = dict(id="C16", kind="world", monitor="resume_ok",
    coq_targets=["theories/Props/C16.vo", "theories/Corr/WorldAll.vo"],
    level_text='C16_no_rpc and C16_restart_only_when_allowed proved for every snapshot; cleanup at quiescence per resume policy, no RPC after a Succeeded snapshot and restart progress are monitored on histories drained to quiescence over the real experiment and suggestion reconcilers',
    level_note='PARTIAL: quiescence statements (C16_cleanup, C16_longrun, C16_restart_progress) are monitored, not yet theorems; known finding F14 (failed suggestion is never cleaned up)' + "; " + "; ".join(ASSUME),
    assumptions=ASSUME, trusted_base=TRUSTED)
