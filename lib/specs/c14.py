"""C14 spec."""
SPEC = dict(id="C14", kind="pure", binary="c14", gen="c14", corr="C14", n_quick=400, n_thorough=8000,
    level_text="SetDefault and ValidateExperiment (all 60 field.Error sites, nil dereferences as Crash) and the generator's applyParameters are modelled; "
               "no-crash, budget, dereference, derived-name and trial-buildability theorems are proved for all experiments and configurations; "
               "the model is compared with the real defaulter/validator/generator over a fake client on generated experiments and structural mutations each run, "
               "and the boolean form of the property is evaluated on the implementation's outputs (k8s name validation, real trial instantiation)",
    coq_targets=["theories/Props/C14.vo", "theories/Corr/C14.vo", "theories/Proofs/ValidatorP.vo", "theories/Proofs/C14Monitor.vo"],
    assumptions=[
        "library calls are evaluated by the harness and enter the model as data: regexps on trial-parameter references and metric filters, filepath.IsAbs, strconv.Atoi of the port, "
        "JSON rendering of an inline trialSpec, and the tail of the validator's dry run on the substituted template (placeholder regexp, YAML/JSON decoding, batch Job conversion + JSON patch)",
        "the substituted template text itself is modelled (strings.Contains / strings.Replace) and cross-checked against the harness' independent computation (rule 900)",
        "C14_template_runs is partial: it proves that applyParameters succeeds (all lookups and the count check) for admitted hyperparameter experiments whose trial-metadata references resolve "
        "(open finding unresolvable-trial-metadata) and whose ConfigMap template is YAML before substitution; distinct parameter names and 'every parameter is referenced' follow from admission "
        "(repaired rules 59/60); that the substituted text decodes into an object is observed on 3 real instantiations per admitted experiment, not proved",
        "NAS experiments (no spec.parameters) are outside C14_template_runs: their assignments come from the algorithm service",
        "C14_names assumes the configured algorithm name is a DNS-1123 label of at most 22 bytes and utilrand.String(8) suffixes (lower-case alphanumerics)",
        "spec.objective.metricStrategies / primaryPodLabels defaulting, algorithm settings and NAS operations are not modelled (no validation rule or dereference depends on them)",
    ],
    trusted_base=["controller-runtime fake client holding katib-config and trial-template ConfigMaps; k8s.io/apimachinery/pkg/util/validation as the judge of names",
                  "harness-side numbering of field.Errors by (type, path, message prefix): an unknown site is rule 999 and shows up as a mismatch",
                  "harness replica of validateTrialJob/validatePatchJob (unexported) used only to supply the dry-run fact cv_joberr; a divergence shows up as a mismatch"])
