"""C17 spec."""
SPEC = dict(id="C17", kind="pure", binary="c17", gen="c17", corr="C17", n_quick=800, n_thorough=16000,
    level_text="composer.General.DesiredDeployment/DesiredService/DesiredVolume/DesiredRBAC, util.GetSuggestion*Name, SuggestionLabels/"
               "Annotations, Get*Endpoint, the katibconfig entry lookup, the suggestion client's choice of dial targets and the creation "
               "order of ReconcileSuggestion are modelled in Gallina; selects/ports/dialled/volume/rbac/owned/reject_port (+ exclusivity of the "
               "selector, PV, last-entry-wins, generated-on-plain-inputs) are Coq theorems for all constants, configs and suggestions; the model is "
               "compared each run with the objects returned by the real composer, the targets the real suggestionclient dials and the objects "
               "the real ReconcileSuggestion creates on a fake cluster, and the boolean form of the property is evaluated on the implementation's objects",
    coq_targets=["theories/Props/C17.vo", "theories/Corr/C17.vo", "theories/Proofs/C17Monitor.vo"],
    assumptions=[
        "the katib-config ConfigMap is read, decoded and defaulted by the real code; the model receives the decoded entries (or None when unreadable); "
        "strings.TrimSpace(image)=='' and Semantic.DeepEqual(pvSpec,{}) are evaluated by the harness",
        "controllerutil.SetControllerReference is modelled by its effect for an owner type registered in the scheme (the harness registers it)",
        "Spec.Algorithm of the Suggestion is non-nil (the experiment controller always sets it); a nil Algorithm panics in the composer and is outside the model",
        "resources, command/args/env and all other container fields, PVC/PV specs are opaque tokens copied through; sub-fields of ports "
        "(protocol, hostPort), volume mounts (readOnly, subPath) and non-gRPC probe handlers are projected away",
        "C17_dialled assumes es_wf: Spec.EarlyStopping, when present, names an algorithm (enforced for Experiments by the validating webhook); "
        "the case earlyStopping:{algorithmName:''} is refuted explicitly (C17_dialled_empty_es_name_refuted) and the monitor skips the dial check there",
        "C17_monitor_sound assumes suggestion port != early-stopping port and unique label keys (a Go map)",
        "'runs under the generated ServiceAccount' is read as in DESIGN.md: with a custom serviceAccountName in katib-config the pod runs under that "
        "account and the controller generates no RBAC",
    ],
    trusted_base=[
        "composer.General is built by the verif hook NewGeneralForVerif on controller-runtime's fake client; dial targets are observed through "
        "suggestionclient.SetRPCClientFactoriesForVerif (grpc.ClientConn.Target of the connection handed to each client factory); "
        "created objects are listed from the fake client after suggestion.ReconcileSuggestion",
        "decimal printing of ports uses Coq's DecimalString (NilZero.string_of_int), compared with Go's %d on every case",
    ])
