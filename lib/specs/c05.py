"""C05 spec: experiment status summarises its trials; optimal trial."""
SPEC = dict(id="C05", kind="pure", binary="c05", gen="c05", corr="C05", n_quick=800, n_thorough=16000,
    level_text="updateTrialsSummary, getObjectiveMetricValue, UpdateExperimentStatusCondition, UpdateExperimentStatus and the trial/experiment "
               "condition helpers are modelled line by line (Model/StatusUtil.v); partition / exact list contents and order / counters / "
               "classification precedence / arg-optimum with first-wins / unchanged optimum without values are Coq theorems for trial lists of any "
               "length with arbitrary condition lists; the model is compared field by field with the real util.UpdateExperimentStatus on generated "
               "cases each run and the boolean form of the property is evaluated on the implementation's output",
    coq_targets=["theories/Props/C05.vo", "theories/Corr/C05.vo", "theories/Proofs/C05Monitor.vo"],
    assumptions=[
        "strconv.ParseFloat is evaluated by the harness: a metric value reaches the model as (interned text, exact number in units of 1/8 or None)",
        "objective values and goals are finite; generated numbers are k/8 with |k| <= 14, exactly representable and exactly compared in binary64",
        "C05_optimal needs: objective type minimize or maximize, every objective value 'unavailable' or numeric (non-numeric texts are outside the "
        "property's quantifier; the model still follows the code there and the correspondence covers it, the monitor demands nothing about the optimum)",
        "Experiment.Spec.Objective and Trial.Spec.Objective are non-nil (webhook / controller guarantee); a nil objective (a nil dereference) is not modelled",
        "int32 overflow of the counters is not modelled; condition messages and time stamps are not modelled",
        "reading where the statement is silent: when no trial has an available objective value, currentOptimalTrial is left unchanged (C05_no_value)",
        "the monitor shares with the model the reading of conditions (first condition of a type, status True) and objective_value (transcription of "
        "getObjectiveMetricValue); precedence, counting and extremum are restated independently (Model/StatusSpec.v)",
    ],
    trusted_base=["util.UpdateExperimentStatus is called directly with util.NewExpsCollector(<cache whose List fails>, prometheus.NewRegistry())"])
