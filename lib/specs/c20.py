"""C20 spec: UI backend authorisation (skeleton translator + checker soundness + dynamic validation)."""
SPEC = dict(id="C20", kind="pure", binary="c20", gen="c20", corr="C20", n_quick=480, n_thorough=9600,
    level_text="every handler of pkg/ui/v1beta1 registered in cmd/ui/v1beta1/main.go is translated (go/ast + go/types) into a skeleton of request checks, "
               "SubjectAccessReviews, guards, API/DB accesses and the response write; a static checker over skeletons is proved sound in Coq for all requests, "
               "RBAC oracles, API answers and data-dependent choices; the generated route table is checked by vm_compute on every run; the translation is "
               "validated by comparing, for every route, the effect traces recorded on the real handlers (httptest over an intercepting fake client and a "
               "loopback gRPC DB manager) with the skeleton's semantics, and the boolean form of the property is evaluated on the recorded traces",
    translators=[
        # the translator (harness/internal/xlateui, also cmd/xlate-ui) is linked into the c20 binary, which the driver builds under its lock
        "build/bin/c20 xlate -verif . -out coq/theories/Gen/Routes.v",
        "build/bin/c20 routes -out coq/theories/Gen/RoutesDyn.v",
    ],
    extra_obligations=0,
    coq_targets=["theories/Gen/Routes.vo", "theories/Gen/RoutesDyn.vo", "theories/Corr/C20.vo", "theories/Proofs/UiAuthP.vo",
                 "theories/Proofs/C20Routes.vo", "theories/Props/C20.vo"],
    assumptions=[
        "authorisation is enabled (APP_DISABLE_AUTH=false); USERID_HEADER/USERID_PREFIX/KATIB_CORE_NAMESPACE have their defaults (the translator reads the defaults of env.GetEnvOrDefault variables)",
        "API-server assumption built into the semantics: a namespaced read in namespace n != \"\" returns objects of n only; an allowing review for namespace \"\" covers every namespace (Kubernetes SAR semantics)",
        "the answers of the API server and DB manager, the outcome of data-dependent branches/loops, the failure of library calls (encoding/json, w.Write, config.GetConfig, strconv) and the result of strings.Replace on the header are universally quantified inputs of the model; the harness supplies the observed ones",
        "reads are checked per namespace (an allowing review covering the namespace, by the header's user, precedes every access; its verb/resource need not be that of the read: handlers read related objects after one review); "
        "WRITES (create/update/delete) additionally need an allowing review with exactly the verb and the plural resource of the write (safe clause 5, checker, monitor)",
        "RBAC oracles of the harness: deny all, every verb in namespace 'mine', allow all, read-only member of 'mine' (get/list/watch only); the theorems quantify over every oracle function",
        "cluster-scoped data (the Namespace list served by fetch_namespaces and used by the template views) is outside 'namespaced data' and is not subject to the check",
        "FetchTrialLogs beyond config.GetConfig (pod list, pod log stream through the clientset) is covered by the translated skeleton and the checker only; the harness has no kubeconfig, so that part is not validated dynamically",
        "routes with an OPEN known finding are excluded from the C20_routes obligation (list copied into Gen/Routes.v); they are still exercised and monitored",
    ],
    trusted_base=[
        "translator harness/cmd/xlate-ui (prints what the source says; unknown constructs become Unknown, which fails the obligation); validated on every run by the trace comparison Corr.C20.mismatches on all routes",
        "katibclient.Client method table (operation, kind, namespace argument) inside xlate-ui; validated dynamically against the API calls recorded by the intercepting client",
        "controller-runtime fake client + interceptor, net/http/httptest, in-process gRPC server on loopback as DB manager; object namespaces in response bodies are detected through per-namespace markers in all fixture names/data",
    ])
