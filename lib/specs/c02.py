"""C02 spec."""
SPEC = dict(id="C02", kind="pure", binary="c02", gen="c02", corr="C02", n_quick=700, n_thorough=14000,
    level_text="applyParameters / GetTrialTemplate / GetRunSpecWithHyperParameters and getTrialInstance are modelled in Gallina over real strings; "
               "Coq theorems for templates of any size: every order of the strings.Replace loop (Go iterates a map) yields the simultaneous substitution "
               "of every placeholder occurrence by its value (C02_substitution; C02_substitution_dollar also admits literals ending in '$'), nothing is left over, the placeholder map holds what each reference "
               "denotes (assignment or Name/Namespace/Kind/APIVersion/Labels[k]/Annotations[k], the two regexps modelled by a hand scanner), the count check "
               "and all error branches, getTrialInstance field by field, run-spec naming; the necessity of each hypothesis is an Example. "
               "Each run compares the model with the real generator (inline and ConfigMap templates through a fake client) and the real getTrialInstance on "
               "generated inputs, and evaluates a monitor written against the specification functions on the implementation's output",
    coq_targets=["theories/Props/C02.vo", "theories/Corr/C02.vo", "theories/Proofs/C02Monitor.vo"],
    assumptions=[
        "JSON/YAML encoding is outside the model: the theorems are about text (chunk lists); the harness decodes the real output, compares string leaves and "
        "map keys one by one with the model, and checks on the decoded objects that nesting, keys count and non-string scalars are those of the template. "
        "C02_substitution_local shows that the syntax between leaves is just more literal text for the substitution",
        "values are free of '$' (vals_ok) and, as the property says, of JSON/YAML metacharacters (generator: [A-Za-z0-9._/=+-]*); literals do not end in '$' and never run "
        "into '${trialParameters.' (lits_ok); names have no '{' '}' (the webhook's rule). Templates with a literal ending in '$' are generated too (covered by C02_substitution_dollar when nothing starting with '{' can follow; C02_monitor_sound is proved for the first form only)",
        "the placeholder format '${trialParameters.%v}' and the meta keys are fixed in the model (consts.go); the two meta regexps are modelled by a hand scanner "
        "validated by the correspondence on 18 odd reference shapes ('.' never meets a newline in generated references)",
        "Kind/APIVersion/Labels/Annotations of the template and 'does the ConfigMap text parse' are decoder results supplied by the harness (util.ConvertStringToUnstructured on the unsubstituted text)",
        "the model has the repaired metaRefIndex (reset per trial parameter); inputs of finding C02/meta-stale-index are excluded from the correspondence while the finding is open",
        "getTrialInstance: strings and opaque sub-objects are interned; spec.runSpec is compared (DeepEqual) with what the real generator returns when called directly with "
        "(assignment name, experiment namespace, assignment parameters); SetControllerReference cannot fail here (same namespace, fresh object)",
        "C02_one_assignment_per_trial (every trial of a reachable store has exactly one assignment) is invariant J1 of the joint controller model, not part of this plug-in",
    ],
    trusted_base=["controller-runtime fake client holding the trial-template ConfigMap; hook pkg/controller.v1beta1/experiment/zz_verif_c02.go (GetTrialInstanceForVerif, tag verif)"])
