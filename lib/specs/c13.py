"""C13 spec."""
SPEC = dict(id="C13", kind="pure", binary="c13", gen="c13", corr="C13", n_quick=400, n_thorough=16000,
    level_text="placeholder",
    coq_targets=["theories/Props/C13.vo", "theories/Corr/C13.vo"],
    assumptions=[],
    trusted_base=[])
