"""C13 spec: log parsing of the file metrics collector."""
SPEC = dict(id="C13", kind="pure", binary="c13", gen="c13", corr="C13", n_quick=800, n_thorough=16000,
    level_text="CollectObservationLog (TEXT and JSON parsers, newObservationLog, parseTimestamp, GetFilterRegexpList) is modelled on real byte strings; "
               "Coq theorems for files of any length: the result equals the comprehension over all lines (pre-filter soundness included), fallback record, "
               "line timestamps, integral epoch timestamps exact and order preserving, fractional ones refuted (F6), model-level totality with the two crash sites; "
               "the model is compared with the real CollectObservationLog on generated files each run and the boolean form of the property is evaluated on the implementation's output",
    coq_targets=["theories/Props/C13.vo", "theories/Corr/C13.vo", "theories/Proofs/C13Monitor.vo", "theories/Proofs/LogParseP.vo"],
    assumptions=[
        "regexp (Compile, FindAllStringSubmatch), time.Parse(RFC3339Nano) as a success flag, json.Unmarshal into map[string]interface{} and strconv.FormatFloat(f,'f',-1,64) "
        "are outside the model: universally quantified functions in the theorems; on every generated file the harness evaluates them with Go's own libraries "
        "(regexp results as byte offsets into the line, cut after the whole match and the first two groups because the code reads only len>=3, [1], [2]; "
        "decoded JSON objects restricted to the tracked keys and 'timestamp')",
        "the only hypothesis on the regexp engine used by the theorems: captured groups are pieces of the line (checked on every case: groups are cut out of the line by offsets)",
        "strings.Split/Contains/SplitN/TrimSpace (byte-exact incl. Unicode blanks) and strconv.ParseInt(_,10,64) are transcribed in Gallina and covered by the correspondence only, "
        "as is time.Unix(sec,nsec).UTC().Format(RFC3339Nano) (civil-from-days, years 1..9999): no theorem says that the printed text denotes the instant; "
        "each JSON case checks that Go's time.Parse reads the model's instant back from the implementation's text",
        "numeric JSON timestamps are generated inside years 1..9999 or outside int64 (where ParseInt fails); the range in between (year > 9999 formatting, time.Unix overflow) is not covered",
        "TOTALITY ON ARBITRARY BYTES IS TESTING, NOT PROOF: the RAW stream feeds random byte strings to the real parser and recovers panics; "
        "C13_total / C13_crash_sites are statements about the model, whose panics are the two sites it knows (metrics[0], nil *Regexp); panics inside Go libraries are only observed",
        "the default filter is a literal copy of common.DefaultFilter in the harness; a change of the constant in /repo is reported as a disagreement",
        "the monitor's reading of 'in log order' inside one line: filter by filter, then match by match (TEXT); tracked-name list order (JSON)",
        "known-finding domains (monitor only, no model comparison): JSON with some fractional numeric timestamp (F6, json-epoch-fraction, not to be fixed: the model is faithful to it and "
        "C13_epoch_refuted / C13_epoch_fraction_wrong state it); JSON with a tracked name listed twice (json-duplicate-metric: the model's loop over the tracked names is the REPAIRED one of "
        "docs/proposed_fixes/new-json-duplicate-metric.diff, equal to the pinned loop whenever no name is repeated (C13_json_pinned_agrees); the pinned loop is transcribed separately for C13_json_dup_refuted)",
        "not covered: os.Open/io.ReadAll failures, klog output, and cmd/.../main.go (package main: reportMetrics splits -m and -f at ';' and passes nil lists when the flags are empty; watchMetricsFile/early stopping is another property)",
    ],
    trusted_base=["harness/cmd/c13 calls the exported CollectObservationLog on a temporary file; no verif hook in /repo is needed",
                  "Go's regexp, time, encoding/json, strconv as oracles for the model's section variables"])
