"""C01 spec: decided on the joint controller model (Model/World.v) and the simulator over the three real reconcilers."""
from .worldcommon import ASSUME, TRUSTED

SPEC = dict(id="C01", kind="world", monitor="budget_ok",
    coq_targets=["theories/Props/C01.vo", "theories/Corr/WorldAll.vo"],
    level_text="Inductive invariant of the joint controller model (Proofs/WorldInv*.v: names unique, trials are assignments, suggestionCount = length <= largest requests ever <= completed + parallelTrialCount and <= maxTrialCount, caches and pending writes justified by resourceVersion) proved for EVERY action sequence (any interleaving, cache lag, write failure, conflict, abort, trial outcome, raise of maxTrialCount); C01_max_trials / C01_parallel / C01_ever_trials_remain follow; C01_no_create_after_verdict (no trial is created by any action once the stored experiment carries a verdict the user has not enabled to restart) rests on further invariants: observation/class stability of trials under cache lag, monotone recomputation of the verdict, permanence of a failed suggestion, justification of pending status writes. The model is compared step by step with the three real reconcilers on generated histories and the budget monitor is evaluated on the implementation's states",
    level_note='all three sentences of the property are theorems over every action sequence of the model without teardown (the third one: C01_no_create_after_verdict, for an arbitrary next action under arbitrary cache lag)' + "; " + "; ".join(ASSUME),
    assumptions=ASSUME, trusted_base=TRUSTED)
