"""C19 spec (observation-log storage treats all strings as data and never crashes)."""
import os
import re


def _n_sites():
    """number of SQL call sites in the generated table (one data_free obligation each)"""
    p = os.path.join(os.path.dirname(os.path.dirname(os.path.dirname(os.path.abspath(__file__)))), "coq", "theories", "Gen", "SqlSites.v")
    try:
        return len(re.findall(r"s_method\s*:=", open(p).read()))
    except OSError:
        return 0


SPEC = dict(id="C19", kind="pure", binary="c19", gen="c19", corr="C19", n_quick=700, n_thorough=14000,
    translators=["cd harness && go run -tags verif ./cmd/xlate-sql -repo \"${VERIF_REPO:-/repo}\" -out ../coq/theories/Gen/SqlSites.v"],
    extra_obligations=_n_sites(),
    level_text="RegisterObservationLog / GetObservationLog / DeleteObservationLog of both dialects and the three gRPC handlers are modelled with the SQL text as a real string; "
               "text-is-a-function-of-shape, one-row-per-timestamped-entry, placeholders = bound values, no-crash and error-on-malformed are Coq theorems for requests of any size; "
               "every Exec/Query/QueryRow/Prepare call site of pkg/db/v1beta1 is re-translated each run into an expression tree and proved free of string data (vm_compute + a soundness lemma); "
               "the model is compared on every run with the real dbConn of both dialects and with the real handlers of cmd/db-manager over a recording database/sql connection, "
               "and the boolean form of the property is evaluated on the implementation's statements and bound values",
    coq_targets=["theories/Props/C19.vo", "theories/Corr/C19.vo", "theories/Proofs/C19Monitor.vo", "theories/Proofs/C19Sites.vo"],
    assumptions=[
        "time.Parse(RFC3339Nano) and t.UTC().Format(layout) are evaluated by the harness: a time stamp reaches the model as empty / unparsable / the identifier of its formatted UTC text",
        "request strings are opaque identifiers in the model (equal identifiers <-> equal Go strings, by interning); only the SQL text is a string",
        "the model returns the calls made on *sql.DB / *sql.Stmt; the database itself, the real mysql/pq drivers and the rows scanned back by GetObservationLog are not modelled",
        "call-site theorem: integers and control flow (loop counts, which optional filters are present) are not treated as string data; fmt.Sprintf is accepted only with a constant format whose verbs are all %d applied to integer-typed arguments",
        "gRPC never hands a nil request message to a handler (only sub-messages can be nil)",
    ],
    trusted_base=[
        "harness/cmd/xlate-sql (go/ast + go/types walk printing the expression tree of every SQL argument); cross-checked each run: the tree of each of the six statement-building sites, evaluated along the path of a shape, must give the model's text (Proofs/C19Sites.v)",
        "recording database/sql driver of harness/cmd/c19/rec.go (records text and bound values of every Prepare/Exec/Query); handlers of package main reached by `go test -overlay` adding two test files, nothing is written into /repo",
    ])
