"""C09 spec: algorithm requests contain exactly the experiment's own trials."""
SPEC = dict(id="C09", kind="pure", binary="c09", gen="c09", corr="C09", n_quick=300, n_thorough=6000,
    coq_targets=["theories/Props/C09.vo", "theories/Corr/C09.vo"],
    level_text="Selection = ownership (C09_selection, C09_isolation, C09_filter) proved for every cluster in which trials are built by getTrialInstance and "
               "(namespace, name) identifies an experiment; request numbers proved for every snapshot of the joint controller model (C09_numbers); "
               "label-only selection refuted (the defect repaired by commit 5ae65c0), selection by all of the experiment's current labels refuted (F19, repaired by "
               "commit 88eea22: trials whose assignment label shadows an experiment label, trials of a relabelled experiment). The REAL suggestion reconciler is run in generated multi-experiment "
               "clusters and the requests captured by fake algorithm / early-stopping services are compared with the model and with the ownership-based statement",
    assumptions=[
        "labels the algorithm attaches to an assignment do not override the experiment-name label katib.kubeflow.org/experiment itself "
        "(any other label of a trial may differ from the experiment's current labels)",
        "trials are created only by getTrialInstance (no foreign object carries the experiment label in the experiment's namespace)",
        "the early-stopping service receives the same trial list (one ConvertTrials call per request in SyncAssignments)",
    ],
    trusted_base=["harness/cmd/c09: real ReconcileSuggestion over controller-runtime's fake client (live reads), real composer and suggestionclient.General, "
                  "in-process fake gRPC clients installed through SetRPCClientFactoriesForVerif"])
