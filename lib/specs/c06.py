"""C06 spec: decided on the joint controller model (Model/World.v) and the simulator over the three real reconcilers."""
from .worldcommon import ASSUME, TRUSTED

SPEC = dict(id="C06", kind="world", monitor="trial_ok", binary="c06",
    pure_part=dict(binary="c06", gen="c06", corr="C06J", n_quick=400, n_thorough=8000),
    coq_targets=["theories/Props/C06.vo", "theories/Corr/WorldAll.vo", "theories/Corr/C06J.vo"],
    level_text="C06_permanent proved over all runs from the inductive invariant (a status write lands only if computed from the current object, and every planned status keeps terminal conditions); C06_succeeded_needs_value / failed_from_failed_job / metrics_unavailable proved for UpdateTrialStatusCondition on every input; C06_metrics_unavailable_justified over all runs (a trial becomes MetricsUnavailable only through the trial reconcile in progress for it and only if the DB held no objective value for it when that reconcile began; invariant MuInv with a ghost snapshot, Proofs/WorldMu.v) which is also the soundness of the walk monitor mu_walk; exclusivity and the job/metrics-to-verdict relation monitored on the implementation's states",
    level_note="exclusivity and 'Succeeded needs a value' are theorems over runs (C06_exclusive, part of the inductive invariant) and monitored on the implementation; GetDeployedJobStatus' gjson evaluation is exercised through the simulator with default Job conditions only (its decision order is C06_failure_first / Model/JobStatus.v with cmd/c06)" + "; " + "; ".join(ASSUME),
    assumptions=ASSUME, trusted_base=TRUSTED)
