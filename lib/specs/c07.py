"""C07 spec: decided on the joint controller model (Model/World.v) and the simulator over the three real reconcilers."""
from .worldcommon import ASSUME, TRUSTED

SPEC = dict(id="C07", kind="world", monitor="job_ok",
    coq_targets=["theories/Props/C07.vo", "theories/Corr/WorldAll.vo"],
    level_text='Per-reconcile theorems for every snapshot: run object created only for a trial seen as not completed, deleted only for a completed one with retain=false, finalizer release planned only directly behind DeleteObservationLog with stop-on-failure; the run-level statements (at most one create per trial ever, create/delete only in the right trial state of the store, job exists iff retain at quiescence, DB delete before finalizer release) are monitored on the implementation with the model compared step by step',
    level_note='run-level lifting (store state at the time the write lands) is monitored, not yet a theorem' + "; " + "; ".join(ASSUME),
    assumptions=ASSUME, trusted_base=TRUSTED)
