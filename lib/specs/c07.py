"""C07 spec: decided on the joint controller model (Model/World.v) and the simulator over the three real reconcilers."""
from .worldcommon import ASSUME, TRUSTED

SPEC = dict(id="C07", kind="world", monitor="job_ok",
    coq_targets=["theories/Props/C07.vo", "theories/Corr/WorldAll.vo"],
    level_text='Theorems over all runs of the joint controller model (JobInv, inductive over every step given the store invariant): the log of successful run-object creations has no duplicates (C07_created_once), a creation lands only while the stored trial is unfinished and never for a completed one, a deletion lands only with retain=false for a trial completed in cache and store, with retain every created run object is still present, at rest with retain=false none is left; C07_finalizer_after_db_delete holds for every history including teardown with no assumption. Per-reconcile theorems for every snapshot underneath. The same statements are monitored on the real reconcilers with the model compared step by step (ghost logs of creates / deletes / DB deletes / finalizer releases are part of the comparison)',
    level_note='the run-level theorems about creation and deletion assume no teardown and no deletion of a run object by something other than katib (action JobGone): with such a deletion inside a trial-cache lag the unchanged controller re-creates the run object (DESIGN.md, remark on C07); equality of the created object with the run spec and its owner reference is C02' + "; " + "; ".join(ASSUME),
    assumptions=ASSUME, trusted_base=TRUSTED)
