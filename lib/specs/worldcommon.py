"""Shared texts for the properties decided on the joint controller model."""
ASSUME = [
    "Kubernetes API server and informers are modelled: optimistic concurrency per object (resourceVersion), status subresource, per-kind caches "
    "that are arbitrary earlier store states and only move forward; all reads of one reconcile see the state as of its Begin (the simulator "
    "serves them from a snapshot taken then; only a read of a cached kind that follows a Conflict on one of the reconcile's own writes is served from the store); deletion of a run object is immediate (no foreground-deletion interval)",
    "one experiment in one namespace (it carries labels of its own, and every third proposal of the fake algorithm service carries a label with the same key: "
    "labels are invisible to the model); trial names returned by the algorithm are fresh and distinct (the harness generates them so); every seventh proposal is "
    "left unnamed and named by katib (<suggestion>-<random suffix>; the simulator ties the generated name to the proposal's number when it first appears in a status write)",
    "the early-stopping service only stops trials that are created, running in the store's view and not completed, by appending the EarlyStopped "
    "condition (pkg/earlystopping medianstop SetTrialStatus); the metrics of a trial arrive progressively: the first report creates its DB entry (with or without an objective value), a later report can only add the objective value to an entry that has none (an objective value once stored is never changed)",
    "objective values and goal are multiples of 1/8 with small magnitude (exact in binary64); NaN/Inf excluded by the property",
    "the only spec edit is the user raising maxTrialCount; deleteTrials (needs parallelTrialCount to be lowered) is modelled as an unreachable marker",
    "theorems over runs carry no_teardown (no DeleteExperiment / garbage collection of trials) and valid_cfg (what the webhooks admit, C14)",
    "controller-runtime's work queue, rate limiting and requeue timing are not modelled: any reconcile may start at any time (a superset)",
]
TRUSTED = [
    "harness/internal/sim: the three REAL reconcilers constructed through verif-tagged constructors over controller-runtime's fake client "
    "(v0.19.1), gated one write at a time, fake algorithm / early-stopping / DB-manager services, real composer, real manifest generator, real suggestionclient",
    "projection of the store to the observables of Corr/WorldC.v (conditions as (type,status,reason) lists, counters, name lists, requests, "
    "assignment names, observations, jobs, infra, DB, ghost logs of RPCs / job creates / deletes / DB deletes / finalizer releases, write attempts)",
]
