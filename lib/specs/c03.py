"""C03 spec, decision part: which verdict UpdateExperimentStatus gives; exclusivity.  (Stability: joint controller model.)"""
from .worldcommon import ASSUME as _WA, TRUSTED as _WT

SPEC = dict(id="C03", kind="world", monitor="verdict_ok", binary="c05",
    pure_part=dict(binary="c05", gen="c03", corr="C03", n_quick=600, n_thorough=12000),
    level_text="STABILITY: proved per reconcile (C03_stable_plan, C03_restart_only_when_allowed) and monitored on the implementation over histories with the joint model compared step by step (verdict, reason, completion time unchanged unless a restart is enabled; verdict justified by the trials in the store). DECISION: UpdateExperimentStatus / UpdateExperimentStatusCondition / the experiment Mark* helpers are modelled line by line "
               "(Model/StatusUtil.v); goal flag = some value meets the goal, verdict and reason by the precedence goal > maxFailed > maxTrials, "
               "exclusivity, Running false once completed, completion time, untouched-when-completed are Coq theorems for every trial list, spec and "
               "non-completed prior condition list; the model is compared with the real functions on generated cases each run and the boolean form "
               "of the property is evaluated on the implementation's output.  Over runs of the joint model (every interleaving, cache lag, fault, abort): stability (C03_stable over runs), exclusivity (C03_exclusive_over_runs, invariant ExInv), justification of a settled verdict by the stored trials (C03_verdict_justified) and, reason by reason, at the step at which the verdict appears (C03_verdict_reason_justified, invariant RsInv); the whole step monitor holds on the model's runs (C03_run_monitor_sound)",
    coq_targets=["theories/Props/C03.vo", "theories/Corr/C03.vo", "theories/Proofs/C03Monitor.vo", "theories/Corr/WorldAll.vo"],
    assumptions=[
        "'reach maxFailedTrialCount' is read as failed + metrics-unavailable >= max(maxFailedTrialCount, 1): with 0 the code needs one failure (DESIGN.md C03)",
        "C03_goal_flag needs every objective value 'unavailable' or numeric (C03_goal_flag_text_refuted shows the hypothesis is necessary: a "
        "non-numeric text makes the loop compare the goal with an uninitialised best value); such inputs are outside the property's quantifier",
        "with an objective type other than minimize/maximize the goal is never reached (theorem covers it; the monitor demands only exclusivity there)",
        "strconv.ParseFloat is evaluated by the harness; numbers and goals are k/8 with small |k| (exact in binary64)",
        "Experiment.Spec.Objective and Trial.Spec.Objective non-nil; int32 overflow, messages and condition time stamps not modelled; "
        "CompletionTime is modelled as None / prior stamp / stamp written by this call",
        "getSuggestionDone=true (never passed by this tree) is modelled and compared, but is not part of the property: the monitor checks only exclusivity there",
        "direct calls of UpdateExperimentStatusCondition assume non-negative counters (C03_condition_decision hypothesis; the harness generates 0..3)",
    ],
    trusted_base=["util.UpdateExperimentStatus / util.UpdateExperimentStatusCondition / util.IsCompletedExperimentRestartable are called directly; "
                  "the collector's succeeded/failed counters are read back through registry.Gather and compared with the model's branch"])
