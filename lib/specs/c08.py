"""C08 spec: decided on the joint controller model (Model/World.v) and the simulator over the three real reconcilers."""
from .worldcommon import ASSUME, TRUSTED

SPEC = dict(id="C08", kind="world", monitor="suggestions_ok",
    coq_targets=["theories/Props/C08.vo", "theories/Corr/WorldAll.vo"],
    level_text='C08_append_only and C08_count proved over all runs from the inductive invariant; C08_atomic_sync proved for every snapshot and reply (a status write keeps names/count/settings or appends exactly requests-count names of the one reply); uniqueness of names relies on the fresh-names assumption and is monitored',
    level_note='uniqueness of assignment names is an assumption on the algorithm service (monitored on the implementation)' + "; " + "; ".join(ASSUME),
    assumptions=ASSUME, trusted_base=TRUSTED)
