"""C08 spec: decided on the joint controller model (Model/World.v) and the simulator over the three real reconcilers."""
from .worldcommon import ASSUME, TRUSTED

SPEC = dict(id="C08", kind="world", monitor="suggestions_ok",
    coq_targets=["theories/Props/C08.vo", "theories/Corr/WorldAll.vo"],
    level_text='C08_monitor_sound: the whole property as the walk monitor (distinct names, count = length <= largest requests, previous list a prefix, a longer list appends exactly requests-count names of the one reply of a sync all of whose calls succeeded) holds at every step of every fresh history of the model (invariant SgInv over a ghost reply); C08_append_only and C08_count proved over all runs from the inductive invariant; C08_atomic_sync proved for every snapshot and reply (a status write keeps names/count/settings or appends exactly requests-count names of the one reply); uniqueness of names (C08_names_unique) is proved for every history whose algorithm replies are fresh (an assumption on the action parameters: distinct names not yet in the suggestion, for every reply that is asked for) and monitored on the implementation',
    level_note='freshness of the names in the replies of the algorithm service is an assumption on that service (the fake service of the harness generates fresh names)' + "; " + "; ".join(ASSUME),
    assumptions=ASSUME, trusted_base=TRUSTED)
