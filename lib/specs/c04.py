"""C04 spec: decided on the joint controller model (Model/World.v) and the simulator over the three real reconcilers."""
from .worldcommon import ASSUME, TRUSTED

SPEC = dict(id="C04", kind="world", monitor="quiescent_ok",
    coq_targets=["theories/Props/C04.vo", "theories/Corr/WorldAll.vo"],
    level_text='Per-reconcile progress theorem for the trial controller (C04_trial_progress) and no-write-when-unchanged; the run-level statement (quiescent and environment done implies verdict; no write in a further round) is decided by the monitor on histories that the harness drains to quiescence over the real reconcilers, with the model compared step by step',
    level_note="PARTIAL: the state-level theorem 'quiescent -> completed' over the whole model is not yet proved; stated in DESIGN.md section 6 C04" + "; " + "; ".join(ASSUME),
    assumptions=ASSUME, trusted_base=TRUSTED)
