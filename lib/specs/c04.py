"""C04 spec: decided on the joint controller model (Model/World.v) and the simulator over the three real reconcilers."""
from .worldcommon import ASSUME, TRUSTED

SPEC = dict(id="C04", kind="world", monitor="quiescent_ok",
    coq_targets=["theories/Props/C04.vo", "theories/Corr/WorldAll.vo"],
    level_text='State-level theorem C04_no_wedge over the joint controller model: in every state satisfying the inductive invariant (all reachable states do) with synced caches, no write planned by any reconcile (every trial key, every correct service answer), jobs finished, metrics in the DB and deployment not pending, an experiment with maxTrialCount carries a verdict (two stated hypotheses: algorithm names unique; suggestion not Succeeded while the experiment has no verdict); C04_no_hot_loop: a further reconcile in such a state attempts no write; C04_trial_progress per reconcile. Histories drained to quiescence over the three real reconcilers are checked by the same monitor with the model compared step by step',
    level_note="PARTIAL: the state-level theorem 'quiescent -> completed' over the whole model is not yet proved; stated in DESIGN.md section 6 C04" + "; " + "; ".join(ASSUME),
    assumptions=ASSUME, trusted_base=TRUSTED)
