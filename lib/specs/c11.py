"""C11 spec."""
SPEC = dict(id="C11", kind="pure", gen="c11", corr="C11", n_quick=800, n_thorough=16000,
    level_text="getMetrics is modelled line by line; min/max/latest/one-per-strategy/interleaving/bad-timestamp are Coq theorems for logs of any length; "
               "the model is compared with the real UpdateTrialStatusObservation on generated logs each run and the boolean form of the theorems is evaluated on the implementation's output",
    coq_targets=["theories/Props/C11.vo", "theories/Corr/C11.vo", "theories/Proofs/C11Monitor.vo"],
    assumptions=[
        "strconv.ParseFloat and time.Parse(RFC3339Nano) are evaluated by the harness: the model receives the exact number (units of 1/1024) and the instant (ns) they return",
        "values are finite (NaN/Inf excluded by the property); generated numbers are k/1024 with |k| < 2^30, exactly representable in binary64",
        "equal texts denote equal numbers and the text 'unavailable' does not parse (texts_wf; holds by construction of the interning)",
    ],
    trusted_base=["getMetrics is reached through ReconcileTrial.UpdateTrialStatusObservation (verif constructor) with an in-process fake DB manager"])
