"""C18 spec."""
SPEC = dict(id="C18", kind="pure", binary="c18", gen="c18", corr="C18", n_quick=400, n_thorough=8000,
    level_text="toGoptunaSearchSpace, the settings checks, ValidateAlgorithmSettings, goptuna's ToExternalRepr of every distribution, sampleNextParam, "
               "toGoptunaTrials and the syncTrials/findGoptunaTrialIDByParam trial-mapping machine are modelled; shape, int/step-int/categorical/discrete "
               "feasibility and 'no history of own suggestions makes a request fail' are Coq theorems for all inputs and histories of any length (samplers not "
               "modelled: the raw draw is universally quantified inside the sampler's range); the binary64 step-double and the nearest-grid step-int defects are "
               "proved as _refuted theorems; each run replays the real SuggestionService (4 algorithms, multi-round histories) and compares every reply, "
               "recomputed by the model from the study's internal draws, plus the study's final trial states, and evaluates the monitor on the replies",
    coq_targets=["theories/Props/C18.vo", "theories/Corr/C18.vo", "theories/Proofs/C18Monitor.vo"],
    assumptions=[
        "the samplers (random, TPE, CMA-ES, Sobol) are not modelled: theorems quantify over every raw draw inside the stated range (int: [min,max]; step-int: up to the top grid point, "
        "or [min,max] when 2*((max-min) mod step) < step; categorical: index in [0,len)); sampler failures/panics are only observed by the harness",
        "strconv.Atoi/ParseInt/ParseFloat/FormatFloat/Itoa and time.Parse are evaluated by the harness; C18_history assumes the value round trip explicitly: "
        "the parameters re-derived from a fed-back trial (parse of the formatted text, then ToExternalRepr again) equal the parameters goptuna stored for the suggestion it came from",
        "StepIntUniformDistribution.ToExternalRepr is modelled in exact rational arithmetic ((ir-low)/step is binary64 in Go); |values| < 2^53; compared on integer and fractional draws each run",
        "binary64 arithmetic of the step-double post-processing is Coq's primitive float arithmetic (amd64, no fused multiply-add), compared bit for bit with goptuna on generated inputs each run",
        "double feasibility (v>=min, v<=max, on-grid within 1e-9 relative) is evaluated in Go on binary64 values and passed to the monitor as booleans",
        "trial names within one request are distinct and each names one earlier suggestion; CMA-ES sigma is generated in [0.01,10]",
        "the model of the settings check rejects tpe n_ei_candidates < 1 (proposed repair); the pinned tree accepts it: finding tpe-ei-candidates",
        "finding domains (decided from the input): double-step (a double parameter has a step), int-step / int-step-single (tpe or cmaes with a step-int "
        "parameter whose range remainder rounds up: 2*((max-min) mod step) >= step, with at least two / exactly one grid point), state-rejected (a trial is fed "
        "back as KILLED, METRICSUNAVAILABLE or UNKNOWN), tpe-ei-candidates; on them only the monitor's verdict is used",
        "not covered: sampleNextParam's own error paths (min>max, step<=0, empty list) are modelled but only reached by validation-only cases; requests with two "
        "trials of the same name; int values beyond 2^53; CMA-ES numerical breakdown for extreme sigma (1e300: 'symmetric eigendecomposition failed')",
    ],
    trusted_base=["verif accessor pkg/suggestion/v1beta1/goptuna/zz_verif.go (VerifTrials / VerifTrialMapping, read-only) exposes the goptuna study's trials",
                  "vendored github.com/c-bata/goptuna v0.8.0 samplers and in-memory storage; Coq primitive floats (PrimFloat/SpecFloat conversions Prim2SF, SF2Prim evaluated by vm_compute)"])
