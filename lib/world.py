"""Check pipeline for the properties decided on the joint controller model (C01 C03 C04 C06 C07 C08 C16).

One simulation (harness/cmd/simctl, sharded over processes) serves all of them: its results (M and every V_<id>) are
cached under build/worldcache keyed by the content of /repo's working tree, the seed and the tier, so that the checks of
one invocation of the harness share one simulation; any edit of the tree changes the key."""
import glob
import hashlib
import json
import os
import re
import shutil
import time
from concurrent.futures import ThreadPoolExecutor

from . import driver as D
from . import pure

MONITORS = ["C01", "C03", "C04", "C06", "C07", "C08", "C16", "C16w", "C16x"]
NSHARD = 16


def tree_key(seed, tier, replay):
    h = hashlib.sha256()
    h.update(D.tree_hash().encode())
    for f in sorted(glob.glob(os.path.join(D.HARNESS, "**", "*.go"), recursive=True)) + \
            sorted(glob.glob(os.path.join(D.COQ, "theories", "Corr", "World*.v"))) + \
            sorted(glob.glob(os.path.join(D.COQ, "theories", "Model", "World.v"))) + \
            [os.path.join(D.VERIF, "KNOWN_FINDINGS.json")] + sorted(glob.glob(os.path.join(D.VERIF, "findings.d", "*.json"))) + \
            sorted(glob.glob(os.path.join(D.VERIF, "corpus", "WORLD", "*.json"))):
        try:
            h.update(open(f, "rb").read())
        except OSError:
            pass
    h.update(("%s/%s/%s" % (seed, tier, replay or "")).encode())
    if replay:
        h.update(open(replay, "rb").read())
    return h.hexdigest()[:20]


LISTS_RE = re.compile(r"^(M|V_\w+)\s*=\s*(.*?)\n\s*:\s*list nat", re.M | re.S)


def parse_lists(out):
    res = {}
    for name, body in LISTS_RE.findall(out):
        body = re.sub(r"%nat", "", body).strip().strip("[]").strip()
        res[name] = [int(x) for x in re.split(r"[;\s]+", body) if x] if body else []
    return res


def run_shard(args):
    k, seed, n, outdir, tier, replay = args
    sdir = os.path.join(outdir, "s%d" % k)
    shutil.rmtree(sdir, ignore_errors=True)
    os.makedirs(sdir)
    cmd = [os.path.join(D.BIN, "simctl"), "world", "-seed", str(seed * 1000 + k), "-n", str(n), "-out", sdir]
    if replay:
        cmd += ["-replay", replay]
    else:
        corpus = os.path.join(D.VERIF, "corpus", "WORLD")
        if k == 0 and os.path.isdir(corpus):
            cmd += ["-corpus", corpus]
    rc, out, dt = D.run(cmd, cwd=D.VERIF, env=dict(D.GOENV, VERIF_REPO=D.REPO, VERIF_TIER=tier), timeout=3000)
    if rc != 0:
        return dict(ok=False, log=out[-3000:])
    summ = json.load(open(os.path.join(sdir, "cases_WORLD.json")))
    lists = {}
    for sh in summ["shards"]:
        rc, cout, _ = D.run(["coqc", "-Q", os.path.join(D.COQ, "theories"), "KV", "-w", "-notation-overridden", os.path.basename(sh)],
                            cwd=sdir, timeout=3000)
        got = parse_lists(cout)
        if rc != 0 or "M" not in got:
            return dict(ok=False, log=cout[-3000:])
        for name, idx in got.items():
            lists.setdefault(name, []).extend(idx)
        for ext in (".vo", ".glob", ".vok", ".vos"):
            try:
                os.remove(sh[:-2] + ext)
            except OSError:
                pass
        if not os.environ.get("VERIF_KEEP_CASES"):
            os.remove(sh)
    return dict(ok=True, summ=summ, lists=lists)


def simulate(seed, tier, replay=None, n_total=None):
    """Runs (or loads from cache) the shared simulation. Returns dict(ok, cases, lists, rule, dist, ...)."""
    key = tree_key(seed, tier, replay)
    cdir = os.path.join(D.BUILD, "worldcache")
    os.makedirs(cdir, exist_ok=True)
    cpath = os.path.join(cdir, key + ".json")
    with D.Lock("world"):
        if os.path.exists(cpath) and n_total is None:
            return json.load(open(cpath))
        # prune old cache entries
        old = sorted(glob.glob(os.path.join(cdir, "*.json")), key=os.path.getmtime)
        for f in old[:-6]:
            os.remove(f)
        if n_total is None:
            n_total = 1600 if tier == "thorough" else 384
        nsh = 1 if replay else NSHARD
        per = max(1, n_total // nsh)
        outdir = os.path.join(D.BUILD, "cases", "WORLD")
        t0 = time.time()
        with ThreadPoolExecutor(max_workers=nsh) as ex:
            res = list(ex.map(run_shard, [(k, seed, per, outdir, tier, replay) for k in range(nsh)]))
        bad = [r for r in res if not r["ok"]]
        if bad:
            return dict(ok=False, log=bad[0]["log"])
        cases, lists, dist = [], {m: [] for m in ["M"] + ["V_" + m for m in MONITORS]}, {}
        distinct, distinct_nt = 0, 0
        for r in res:
            off = len(cases)
            cases += r["summ"]["cases"]
            for name, idx in r["lists"].items():
                lists.setdefault(name, []).extend(i + off for i in idx)
            for k, v in r["summ"]["distribution"].items():
                dist[k] = dist.get(k, 0) + v
            distinct += r["summ"]["distinct"]
            distinct_nt += r["summ"]["distinct_nontrivial"]
        # keep the cache small: inputs of failing cases and three samples only
        keep = set(i for l in lists.values() for i in l) | {0, 1, 2}
        slim = []
        for i, c in enumerate(cases):
            d = dict(key=c.get("key") or "", keys=c.get("keys") or {}, go_viol=c.get("go_viol"), nontrivial=c.get("nontrivial"), tags=c.get("tags"))
            if i in keep:
                d["input"] = c["input"]
                d["observed"] = c.get("observed")
            slim.append(d)
        out = dict(ok=True, n=len(cases), cases=slim, lists=lists, rule=res[0]["summ"]["rule"], distribution=dist,
                   distinct=distinct, distinct_nontrivial=distinct_nt, sim_wall_s=round(time.time() - t0, 1))
        if not replay:
            json.dump(out, open(cpath, "w"))
        return out


def check(spec, tier, seed, replay=None):
    pid = spec["id"]
    t0 = time.time()
    proof_broken = []
    ok, out = D.build_harness(("simctl",) + ((spec["binary"],) if spec.get("binary") else ()))
    if not ok:
        D.log("harness build failed:\n" + out[-3000:])
        path = D.write_replay(pid, "obligation", seed, None, extra=dict(what="harness does not build against /repo", log=out[-3000:]))
        D.log("VIOLATION property=%s replay=%s no-failing-input-found" % (pid, path))
        pure.evidence(spec, tier, seed, None, None, t0, 1, dict(ok=False, printed=[], closed=0, axioms=[], blocks=0), ["harness build failed"])
        return 1
    ok, out = D.build_coq(spec.get("coq_targets"), clean=(tier == "thorough" and not os.environ.get("VERIF_NO_CLEAN")))
    if not ok:
        proof_broken.append("coq build failed:\n" + "\n".join(l for l in out.splitlines() if "rror" in l or "File " in l)[-3000:])
    bad = D.scan_forbidden([os.path.join(D.COQ, t[:-1]) for t in spec.get("coq_targets", [])] + [os.path.join(D.COQ, "theories", "Props", pid + ".v")])
    if bad:
        proof_broken.append("forbidden vernacular: " + "; ".join(bad))
    audit = D.audit_props(pid)
    if not audit["ok"]:
        proof_broken.append("Props/%s.v does not check or depends on unlisted axioms: %s\n%s" % (pid, audit.get("bad_axioms"), audit["log"][-2500:]))
    if tier == "thorough" and not proof_broken and not os.environ.get("VERIF_NO_CLEAN"):
        chk = D.coqchk(pid)
        audit["coqchk"] = dict(ok=chk["ok"], axioms=chk["axioms"], wall_s=chk["wall_s"])
        if not chk["ok"]:
            proof_broken.append("coqchk does not accept the compiled closure of Props/%s.vo:\n%s" % (pid, chk["log"]))

    sim = simulate(seed, tier, replay)
    if not sim.get("ok"):
        D.log("simulation failed:\n" + sim.get("log", "")[-3000:])
        path = D.write_replay(pid, "obligation", seed, None, extra=dict(what="simulator or case evaluation failed on the current tree", log=sim.get("log", "")[-3000:]))
        D.log("VIOLATION property=%s replay=%s no-failing-input-found" % (pid, path))
        pure.evidence(spec, tier, seed, None, None, t0, 1, audit, ["simulation failed"])
        return 1
    D.log("WORLD: %d histories (%d distinct non-trivial), simulation %.0fs%s" % (sim["n"], sim["distinct_nontrivial"], sim["sim_wall_s"], ""))

    extra_summ, extra_mv = None, None
    # optional function-level part of the same property (e.g. the decision part of C03)
    if spec.get("pure_part"):
        ps = spec["pure_part"]
        n = ps["n_thorough"] if tier == "thorough" else ps["n_quick"]
        outdir = os.path.join(D.BUILD, "cases", pid)
        os.makedirs(outdir, exist_ok=True)
        extra_summ, gout = pure.gen_cases(dict(ps, id=pid), seed, n, outdir, None)
        if extra_summ is None:
            proof_broken.append("function-level case generation failed: " + gout[-1500:])
        else:
            okc, M2, V2, clog = pure.evaluate(extra_summ)
            if not okc:
                proof_broken.append("function-level shards did not evaluate: " + clog[-1500:])
            extra_mv = (M2, V2)

    known = D.known_keys(pid)
    cases = sim["cases"]
    V = sorted(set(sim["lists"].get("V_" + pid, [])))
    # per known-finding key: the list of violations of "everything but the clause that finding violates"
    modulo = spec.get("modulo", {})
    Wk = {k: set(sim["lists"].get(v, [])) for k, v in modulo.items()}
    M = sorted(set(sim["lists"].get("M", [])))
    real, kf = [], {}
    for i in V:
        key = (cases[i].get("keys") or {}).get(pid, "")
        if key and key in known and i not in Wk.get(key, set()):
            kf.setdefault(key, []).append(i)
        else:
            real.append(i)
    for i, c in enumerate(cases):
        if c.get("go_viol") and i not in real:
            real.append(i)
    nviol = 0
    pure_real = []
    if extra_mv and extra_summ:
        pure_real, pkf, pM = pure.classify(pid, extra_summ, extra_mv[0], extra_mv[1])
        for key, idx in sorted(pkf.items()):
            kf.setdefault(key, []).extend(idx)
    for key, idx in sorted(kf.items()):
        D.log("KNOWN-FINDING: property=%s %s (%d case(s) of this run)" % (pid, known[key]["what"], len(idx)))
    if real:
        i = real[0]
        c = cases[i]
        path = D.write_replay(pid, "history", seed, c.get("input"), observed_impl=c.get("observed"),
                              extra=dict(index=i, go_viol=c.get("go_viol"), gen="world",
                                         what="property monitor %s fails on the implementation's projected states of this history" % spec.get("monitor", pid),
                                         other_failing_indices=real[1:20]))
        D.log("VIOLATION property=%s replay=%s" % (pid, path))
        nviol = len(real)
    elif pure_real:
        c = extra_summ["cases"][pure_real[0]]
        path = D.write_replay(pid, "input", seed, c["input"], observed_impl=c.get("observed"),
                              extra=dict(index=pure_real[0], gen=spec["pure_part"]["gen"], what="function-level monitor fails on the implementation's output"))
        D.log("VIOLATION property=%s replay=%s" % (pid, path))
        nviol = len(pure_real)
    elif M or proof_broken or (extra_mv and [i for i in extra_mv[0] if not (extra_summ["cases"][i].get("key") or "")]):
        found = None
        if not replay and M:
            # SEARCH: more histories with other seeds, monitor only
            for k in range(2):
                sim2 = simulate(seed * 7919 + k + 1, tier, None, n_total=(512 if tier == "quick" else 1600))
                if not sim2.get("ok"):
                    continue
                V2 = sorted(set(sim2["lists"].get("V_" + pid, [])))
                Wk2 = {k: set(sim2["lists"].get(v, [])) for k, v in modulo.items()}
                def _key2(i):
                    return (sim2["cases"][i].get("keys") or {}).get(pid, "")
                real2 = [i for i in V2 if not (_key2(i) in known and i not in Wk2.get(_key2(i), set()))]
                if real2:
                    found = (sim2, real2[0])
                    break
        if found:
            sim2, i = found
            c = sim2["cases"][i]
            path = D.write_replay(pid, "history", seed, c.get("input"), observed_impl=c.get("observed"),
                                  extra=dict(index=i, gen="world", what="found by directed search after a correspondence/proof break",
                                             mismatching_histories=M[:20]))
            D.log("VIOLATION property=%s replay=%s" % (pid, path))
        else:
            what = []
            if proof_broken:
                what.append("proof obligation no longer checks: " + proof_broken[0][:1500])
            c = dict(input=None)
            if M:
                c = cases[M[0]]
                what.append("correspondence Corr.WorldC.mismatches: World model and the real reconcilers disagree on %d of %d histories, first #%d" % (len(M), sim["n"], M[0]))
            path = D.write_replay(pid, "obligation", seed, c.get("input"), observed_impl=c.get("observed"),
                                  extra=dict(what=what, theorem_or_correspondence=("Props/%s.v" % pid if proof_broken else "Corr.WorldC.mismatches"),
                                             gen="world", mismatching_histories=M[:50]))
            D.log("VIOLATION property=%s replay=%s no-failing-input-found" % (pid, path))
        nviol = 1

    # evidence
    summ = dict(n=sim["n"], validated=sim["n"], distinct=sim["distinct"], distinct_nontrivial=sim["distinct_nontrivial"], rule=sim["rule"],
                distribution=sim["distribution"],
                cases=[dict(input=c.get("input"), observed=c.get("observed"), key=(c.get("keys") or {}).get(pid, "")) for c in cases[:3]])
    if extra_summ:
        summ["extra"] = dict(function_level_cases=extra_summ["n"], function_level_distinct_nontrivial=extra_summ["distinct_nontrivial"],
                             function_level_rule=extra_summ["rule"], function_level_distribution=extra_summ["distribution"])
    spec2 = dict(spec)
    spec2["corr"] = "WorldAll"
    pure.evidence(spec2, tier, seed, summ, dict(M=M, V=V, kf={k: len(v) for k, v in kf.items()}), t0, nviol, audit, proof_broken)
    if replay:
        D.log("replay: monitor %s on the replayed history" % ("FAILS" if (real or kf) else "passes"))
        return 1 if (real or kf) else 0
    return 1 if nviol else 0
