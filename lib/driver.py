"""Generic pipeline behind /verif/check (DESIGN.md section 2.2/2.3).

   build harness from /repo (tag verif) -> translators -> make coq -> recompile Props/Cxx.v (assumption audit)
   -> generate cases by running the implementation -> coqc the case shards (M = mismatches, V = violations)
   -> outcome logic -> evidence.
"""
import fcntl
import glob
import hashlib
import json
import os
import re
import shutil
import subprocess
import sys
import time
from concurrent.futures import ThreadPoolExecutor

VERIF = os.path.dirname(os.path.dirname(os.path.abspath(__file__)))
REPO = os.environ.get("VERIF_REPO", "/repo")
BUILD = os.path.join(VERIF, "build")
COQ = os.path.join(VERIF, "coq")
HARNESS = os.path.join(VERIF, "harness")
BIN = os.path.join(BUILD, "bin")

GOENV = dict(os.environ, GOFLAGS="-mod=mod", GOPROXY="off", GOSUMDB="off", GOTOOLCHAIN="local",
             CGO_ENABLED="0")

AXIOM_WHITELIST = [
    # standard-library axioms that may legitimately appear (each use is reported in the evidence)
    "functional_extensionality_dep", "proof_irrelevance", "classic", "JMeq_eq", "Eq_rect_eq.eq_rect_eq",
]

FORBIDDEN = re.compile(r"\b(Admitted|admit|Axiom|Parameter|Conjecture|Unset Guard Checking|bypass_check|"
                       r"Unset Positivity Checking|Unset Universe Checking|Admit Obligations)\b")


def log(*a):
    print(*a, flush=True)


def run(cmd, cwd=None, env=None, timeout=None, check=False, shell=False):
    t0 = time.time()
    try:
        p = subprocess.run(cmd, cwd=cwd, env=env, timeout=timeout, shell=shell,
                           stdout=subprocess.PIPE, stderr=subprocess.STDOUT, text=True, errors="replace")
        out, rc = p.stdout, p.returncode
    except subprocess.TimeoutExpired as e:
        out = (e.stdout or b"").decode("utf8", "replace") if isinstance(e.stdout, bytes) else (e.stdout or "")
        out += "\n*** TIMEOUT after %ss" % timeout
        rc = 124
    if check and rc != 0:
        raise RuntimeError("command failed (%s): %s\n%s" % (rc, cmd, out[-4000:]))
    return rc, out, time.time() - t0


class Lock:
    def __init__(self, name):
        os.makedirs(BUILD, exist_ok=True)
        self.path = os.path.join(BUILD, "." + name + ".lock")

    def __enter__(self):
        self.f = open(self.path, "w")
        fcntl.flock(self.f, fcntl.LOCK_EX)
        return self

    def __exit__(self, *a):
        fcntl.flock(self.f, fcntl.LOCK_UN)
        self.f.close()


# ------------------------------------------------------------------------------- builds

def build_harness(binaries=("purecases",)):
    """go build -tags verif of the harness against /repo's working tree (incremental)."""
    with Lock("go"):
        os.makedirs(BIN, exist_ok=True)
        run(["sh", os.path.join(HARNESS, "gen_gomod.sh")], env=dict(GOENV, VERIF_REPO=REPO), check=True)
        for b in binaries:
            rc, out, dt = run(["go", "build", "-tags", "verif", "-o", os.path.join(BIN, b), "./cmd/" + b],
                              cwd=HARNESS, env=GOENV, timeout=1500)
            if rc != 0:
                return False, out
    return True, ""


def coq_makefile():
    files = sorted(glob.glob(os.path.join(COQ, "theories", "**", "*.v"), recursive=True))
    rel = [os.path.relpath(f, COQ) for f in files]
    stamp = os.path.join(COQ, ".filelist")
    txt = "\n".join(rel)
    old = open(stamp).read() if os.path.exists(stamp) else None
    if old != txt or not os.path.exists(os.path.join(COQ, "Makefile")):
        run(["coq_makefile", "-f", "_CoqProject", "-o", "Makefile"] + rel, cwd=COQ, check=True)
        open(stamp, "w").write(txt)


def build_coq(targets=None, clean=False):
    """Full .vo build (never -vos).  Returns (ok, log)."""
    with Lock("coq"):
        coq_makefile()
        if clean:
            run(["make", "clean"], cwd=COQ)
        cmd = ["make", "-j16", "-k"]
        if targets:
            cmd += targets
        rc, out, dt = run(cmd, cwd=COQ, timeout=3000)
        return rc == 0, out


REQ_RE = re.compile(r"From\s+KV\s+Require\s+(?:Import|Export)\s+([^.]*(?:\.[A-Za-z_][\w]*)*[^.]*)\.\s", re.S)


def coq_closure(roots):
    """.v files of the development that the given theory files depend on (transitively)."""
    seen, todo = set(), list(roots)
    while todo:
        f = todo.pop()
        if f in seen or not os.path.exists(f):
            continue
        seen.add(f)
        txt = open(f, errors="replace").read()
        for m in re.finditer(r"From\s+KV\s+Require\s+(?:Import|Export)\s+(.*?)\.\s", txt, re.S):
            for mod in m.group(1).split():
                todo.append(os.path.join(COQ, "theories", *mod.split(".")) + ".v")
    return sorted(seen)


def scan_forbidden(roots=None):
    bad = []
    files = coq_closure(roots) if roots else glob.glob(os.path.join(COQ, "theories", "**", "*.v"), recursive=True)
    for f in files:
        txt = open(f, errors="replace").read()
        # strip comments (non nested is enough for our own files; nested handled by loop)
        prev = None
        while prev != txt:
            prev = txt
            txt = re.sub(r"\(\*[^*(]*(?:\*(?!\))[^*(]*|\((?!\*)[^*(]*)*\*\)", " ", txt)
        for m in FORBIDDEN.finditer(txt):
            bad.append("%s: %s" % (os.path.relpath(f, VERIF), m.group(0)))
    return bad


def audit_props(pid):
    """Recompile Props/<pid>.v on its own and parse the Print Assumptions blocks.
       Returns dict(ok, theorems=[...], axioms=[...], log)."""
    src = os.path.join(COQ, "theories", "Props", pid + ".v")
    if not os.path.exists(src):
        return dict(ok=False, theorems=[], axioms=[], log="missing " + src, closed=0)
    txt = open(src).read()
    theorems = re.findall(r"^\s*(?:Theorem|Example)\s+(\w+)", txt, re.M)
    printed = re.findall(r"^\s*Print Assumptions\s+(\w+)", txt, re.M)
    with Lock("coq"):
        rc, out, dt = run(["coqc", "-Q", "theories", "KV", "-w", "-notation-overridden",
                           os.path.join("theories", "Props", pid + ".v")], cwd=COQ, timeout=900)
    closed = len(re.findall(r"Closed under the global context", out))
    axioms = []
    for blk in re.findall(r"Axioms:\n((?:.+\n?)+?)(?=\n|$|Closed|Axioms:)", out):
        for line in blk.splitlines():
            m = re.match(r"^(\S+)\s*:", line)
            if m:
                axioms.append(m.group(1))
    axioms = sorted(set(axioms))
    bad_ax = [a for a in axioms if not any(a.endswith(w) or a == w for w in AXIOM_WHITELIST)
              and not a.startswith("PrimFloat.") and not a.startswith("Uint63.") and not a.startswith("PrimInt63.")
              and not a.startswith("FloatAxioms.") and not a.startswith("FloatOps.")]
    ok = rc == 0 and not bad_ax and (closed + (1 if axioms else 0) * 0 >= 0)
    n_blocks = closed + len(re.findall(r"^Axioms:", out, re.M))
    if rc == 0 and n_blocks != len(printed):
        ok = False
        out += "\n*** expected %d Print Assumptions blocks, saw %d" % (len(printed), n_blocks)
    return dict(ok=ok, theorems=theorems, printed=printed, axioms=axioms, bad_axioms=bad_ax, log=out, closed=closed,
                blocks=n_blocks)


def coqchk(pid):
    """Independent re-check of the compiled closure of Props/<pid>.vo (thorough tier). Returns dict(ok, axioms, log)."""
    with Lock("coq"):
        rc, out, dt = run(["coqchk", "-silent", "-o", "-Q", "theories", "KV", "KV.Props." + pid], cwd=COQ, timeout=3000)
    m = re.search(r"\* Axioms:\s*(.*?)\n\s*\n\* Constants/Inductives relying on type-in-type:\s*(.*?)\n\s*\n\* Constants/Inductives relying on unsafe \(co\)fixpoints:\s*(.*?)\n\s*\n\* Inductives whose positivity is assumed:\s*(.*?)\n", out, re.S)
    axioms = []
    clean = False
    if m:
        ax = m.group(1).strip()
        axioms = [] if ax == "<none>" else [l.strip() for l in ax.splitlines() if l.strip()]
        clean = all(m.group(i).strip() == "<none>" for i in (2, 3, 4))
    return dict(ok=(rc == 0 and m is not None and clean), axioms=axioms, wall_s=round(dt, 1), log=out[-2000:])


# ------------------------------------------------------------------------------- cases

LIST_RE = re.compile(r"^(M|V)\s*=\s*(.*?)\n\s*:\s*list nat", re.M | re.S)


def parse_MV(out):
    res = {}
    for name, body in LIST_RE.findall(out):
        body = body.strip()
        body = re.sub(r"%nat", "", body)
        body = body.strip("[]").strip()
        res[name] = [int(x) for x in re.split(r"[;\s]+", body) if x] if body else []
    return res


def coqc_shard(path):
    base = os.path.basename(path)
    rc, out, dt = run(["coqc", "-Q", os.path.join(COQ, "theories"), "KV", "-w", "-notation-overridden", base],
                      cwd=os.path.dirname(path), timeout=1800)
    mv = parse_MV(out)
    for ext in (".vo", ".glob", ".vok", ".vos"):
        try:
            os.remove(path[:-2] + ext)
        except OSError:
            pass
    try:
        os.remove(os.path.join(os.path.dirname(path), "." + base[:-2] + ".aux"))
    except OSError:
        pass
    if rc != 0 or "M" not in mv or "V" not in mv:
        return dict(ok=False, log=out[-3000:], M=[], V=[])
    return dict(ok=True, M=mv["M"], V=mv["V"], log="")


def eval_shards(shards):
    with ThreadPoolExecutor(max_workers=16) as ex:
        return list(ex.map(coqc_shard, shards))


def tree_hash():
    """Content hash of /repo's go sources (cache key for shared simulations)."""
    rc, out, _ = run("git -C %s rev-parse HEAD; git -C %s diff HEAD --stat -- . | tail -1; git -C %s diff HEAD -- . | sha256sum; "
                     "git -C %s ls-files --others --exclude-standard | xargs -r -I{} sha256sum %s/{} 2>/dev/null | sha256sum"
                     % (REPO, REPO, REPO, REPO, REPO), shell=True)
    return hashlib.sha256(out.encode()).hexdigest()[:16]


# ------------------------------------------------------------------------------- findings / evidence / replays

def load_findings():
    p = os.path.join(VERIF, "KNOWN_FINDINGS.json")
    res = {"findings": [], "fixed": []}
    if os.path.exists(p):
        res = json.load(open(p))
    # entries proposed by property plug-ins under development; consolidated into KNOWN_FINDINGS.json before release
    for f in sorted(glob.glob(os.path.join(VERIF, "findings.d", "*.json"))):
        try:
            extra = json.load(open(f))
            res["findings"] += extra.get("findings", [])
        except Exception:
            pass
    return res


def known_keys(pid):
    return {f["key"]: f for f in load_findings().get("findings", []) if f.get("property") == pid and f.get("status") == "open"}


def write_replay(pid, kind, seed, case, observed_impl=None, observed_model=None, expected=None, extra=None, minimised=False):
    os.makedirs(os.path.join(VERIF, "replays"), exist_ok=True)
    body = dict(property=pid, kind=kind, seed=seed, case=case, expected=expected, observed_impl=observed_impl,
                observed_model=observed_model, minimised=minimised)
    if extra:
        body.update(extra)
    h = hashlib.sha256(json.dumps(body, sort_keys=True, default=str).encode()).hexdigest()[:12]
    path = os.path.join("replays", "%s-%s.json" % (pid, h))
    json.dump(body, open(os.path.join(VERIF, path), "w"), indent=1, default=str)
    return path


def write_evidence(pid, tier, seed, coverage, assumptions, wall, violations):
    os.makedirs(os.path.join(VERIF, "evidence"), exist_ok=True)
    ev = dict(property_id=pid, tier=tier, seed=seed, level="proof", coverage=coverage, assumptions=assumptions,
              wall_s=round(wall, 2), violations=violations)
    tmp = os.path.join(VERIF, "evidence", pid + ".json.tmp")
    json.dump(ev, open(tmp, "w"), indent=1, default=str)
    os.replace(tmp, os.path.join(VERIF, "evidence", pid + ".json"))
