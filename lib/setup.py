"""setup_cmd: build everything from files on disk (offline).  The tables under coq/theories/Gen are regenerated from /repo's
working tree first (the committed copies may stem from another tree), exactly as the checks of C10, C15, C19, C20 do."""
import importlib
import sys
from . import driver as D


def main():
    ok, out = D.build_harness(("purecases",))
    if not ok:
        print(out[-4000:])
        return 1
    for sid in ("c10", "c15", "c19", "c20"):
        spec = importlib.import_module("lib.specs." + sid).SPEC
        trs = spec.get("translators", [])
        if not trs:
            continue
        ok, out = D.build_harness((spec.get("binary", "purecases"),))
        if not ok:
            print(out[-4000:])
            return 1
        for tr in trs:
            rc, out, _ = D.run(tr, cwd=D.VERIF, env=dict(D.GOENV, VERIF_REPO=D.REPO), timeout=900, shell=isinstance(tr, str))
            if rc != 0:
                print("translator failed: %s\n%s" % (tr, out[-3000:]))
                return 1
    ok, out = D.build_coq()
    print(out[-3000:])
    return 0 if ok else 1


if __name__ == "__main__":
    sys.exit(main())
