"""setup_cmd: build everything from files on disk (offline)."""
import sys
from . import driver as D


def main():
    ok, out = D.build_harness(("purecases",))
    if not ok:
        print(out[-4000:])
        return 1
    ok, out = D.build_coq()
    print(out[-3000:])
    return 0 if ok else 1


if __name__ == "__main__":
    sys.exit(main())
