"""Registry of the properties: which pipeline decides each and with what sizes.
Each property has a file lib/specs/cXX.py defining SPEC = dict(...)."""
import glob
import importlib
import os

PROPS = {}


def reg(**kw):
    PROPS[kw["id"]] = kw


for _f in sorted(glob.glob(os.path.join(os.path.dirname(os.path.abspath(__file__)), "specs", "c*.py"))):
    _m = importlib.import_module("lib.specs." + os.path.basename(_f)[:-3])
    reg(**_m.SPEC)
