"""Regenerates MANIFEST.json from the registry:  python3 -m lib.manifest"""
import json
import os

from .props import PROPS

VERIF = os.path.dirname(os.path.dirname(os.path.abspath(__file__)))
ALL = ["C%02d" % i for i in range(1, 21)]

HOOK_COMMITS = ["86325f1", "34d8889"]


def main():
    checks = []
    for pid in ALL:
        s = PROPS.get(pid)
        if not s or s.get("disabled"):
            continue
        checks.append(dict(
            property_id=pid,
            quick_cmd="./check %s --tier quick" % pid,
            thorough_cmd="./check %s --tier thorough" % pid,
            evidence_file="/verif/evidence/%s.json" % pid,
            replay_cmd_template="./check %s --replay {path}" % pid,
            engine="coq-proof+correspondence",
            level_claimed=dict(category="proof", text=s.get("level_text", ""), design_ref=s.get("design_ref", "DESIGN.md section 6, " + pid)),
            level_note=s.get("level_note", "; ".join(s.get("assumptions", []))),
            technique=s.get("technique", "machine-checked Coq theorems over a hand-written executable model; model tied to the code by differential execution (vm_compute on harness-generated cases); property monitor evaluated on implementation outputs"),
        ))
    na = [dict(property_id=pid, reason=(PROPS.get(pid) or {}).get("na_reason", "check not built yet in this revision of /verif (planned, see DESIGN.md section 6); not claimed until its proof and correspondence run"))
          for pid in ALL if pid not in [c["property_id"] for c in checks]]
    man = dict(
        version=1,
        setup_cmd="./check setup",
        hooks=dict(guard="verif", enable="go build -tags verif (harness module generated from /repo/go.mod with replace => /repo)",
                   baseline_off_cmd="cd /repo && go build ./... && go test -vet=off -count=1 ./...",
                   source_commits=HOOK_COMMITS, add_only=True),
        engines=[dict(name="coq-proof+correspondence", path="/verif/check", serves_properties=[c["property_id"] for c in checks],
                      kind_free_text="Coq 8.16.1 theorems over Gallina models (coq/theories), tied to /repo by a Go differential harness (harness/) and Go translators that regenerate coq/theories/Gen")],
        checks=checks,
        notes="All commands run from /verif. VERIF_SEED seeds every random choice. See DESIGN.md.",
        not_applicable=na,
    )
    json.dump(man, open(os.path.join(VERIF, "MANIFEST.json"), "w"), indent=1)
    print("MANIFEST.json: %d checks, %d not claimed" % (len(checks), len(na)))


if __name__ == "__main__":
    main()
