"""Check pipeline for function-level properties (one purecases driver, one Corr module)."""
import json
import os
import time

from . import driver as D


TRUSTED_COMMON = [
    "Coq 8.16.1 kernel (coqc); vm_compute used to evaluate models/monitors on cases and finite table obligations; no native_compute",
    "no axioms declared by the development; Print Assumptions output of every theorem in Props/<id>.v is parsed on each run",
    "Go correspondence harness (harness/cmd/*, built with -tags verif against /repo's working tree) and its projection code",
]


def gen_cases(spec, seed, n, outdir, replay=None):
    cmd = [os.path.join(D.BIN, spec.get("binary", "purecases")), spec["gen"], "-seed", str(seed), "-n", str(n), "-out", outdir]
    if replay:
        cmd += ["-replay", replay]
    else:
        corpus = os.path.join(D.VERIF, "corpus", spec["id"])
        if os.path.isdir(corpus):
            cmd += ["-corpus", corpus]
    env = dict(D.GOENV, VERIF_REPO=D.REPO)
    rc, out, dt = D.run(cmd, cwd=D.VERIF, env=env, timeout=spec.get("gen_timeout", 1500))
    if rc != 0:
        return None, out
    summ = json.load(open(os.path.join(outdir, "cases_%s.json" % spec["id"])))
    return summ, out


def evaluate(summ):
    """coqc all shards; returns (ok, M, V, W, log)."""
    res = D.eval_shards(summ["shards"])
    M, V, logs = [], [], []
    ok = True
    for r in res:
        if not r["ok"]:
            ok = False
            logs.append(r["log"])
        M += r["M"]
        V += r["V"]
    return ok, sorted(M), sorted(V), "\n".join(logs)


def classify(pid, summ, M, V):
    """Split monitor failures into known findings and real violations; drop mismatches inside finding domains."""
    known = D.known_keys(pid)
    cases = summ["cases"]
    real, kf = [], {}
    for i in V:
        key = cases[i].get("key") or ""
        if key and key in known:
            kf.setdefault(key, []).append(i)
        else:
            real.append(i)
    for i, c in enumerate(cases):
        if c.get("go_viol"):
            key = c.get("key") or ""
            if key and key in known:
                kf.setdefault(key, []).append(i)
            elif i not in real:
                real.append(i)
    Mok = [i for i in M if not (cases[i].get("key") or "")]
    return sorted(real), kf, Mok


def check(spec, tier, seed, replay=None):
    pid = spec["id"]
    t0 = time.time()
    outdir = os.path.join(D.BUILD, "cases", pid)
    os.makedirs(outdir, exist_ok=True)
    notes, proof_broken = [], []

    # 1. rebuild from the working tree
    ok, out = D.build_harness((spec.get("binary", "purecases"),))
    if not ok:
        D.log("harness build failed:\n" + out[-3000:])
        path = D.write_replay(pid, "obligation", seed, None, extra=dict(what="harness does not build against /repo", log=out[-3000:]))
        D.log("VIOLATION property=%s replay=%s no-failing-input-found" % (pid, path))
        evidence(spec, tier, seed, None, None, t0, 1, dict(ok=False, printed=[], closed=0, axioms=[], blocks=0), ["harness build failed"])
        return 1
    for tr in spec.get("translators", []):
        rc, out, _ = D.run(tr, cwd=D.VERIF, env=dict(D.GOENV, VERIF_REPO=D.REPO), timeout=600, shell=isinstance(tr, str))
        if rc != 0:
            proof_broken.append("translator failed: %s\n%s" % (tr, out[-2000:]))

    # 2. proofs
    ok, out = D.build_coq(spec.get("coq_targets"), clean=(tier == "thorough" and not os.environ.get("VERIF_NO_CLEAN")))
    if not ok:
        proof_broken.append("coq build failed:\n" + "\n".join(l for l in out.splitlines() if "Error" in l or "rror:" in l or "File " in l)[-3000:])
    bad = D.scan_forbidden([os.path.join(D.COQ, t[:-1]) for t in spec.get("coq_targets", [])] + [os.path.join(D.COQ, "theories", "Props", pid + ".v")])
    if bad:
        proof_broken.append("forbidden vernacular: " + "; ".join(bad))
    audit = D.audit_props(pid)
    if not audit["ok"]:
        proof_broken.append("Props/%s.v does not check or depends on unlisted axioms: %s\n%s" % (pid, audit.get("bad_axioms"), audit["log"][-2500:]))
    if tier == "thorough" and not proof_broken:
        chk = D.coqchk(pid)
        audit["coqchk"] = dict(ok=chk["ok"], axioms=chk["axioms"], wall_s=chk["wall_s"])
        if not chk["ok"]:
            proof_broken.append("coqchk does not accept the compiled closure of Props/%s.vo:\n%s" % (pid, chk["log"]))

    # 3./4. cases, correspondence, monitors
    n = spec["n_thorough"] if tier == "thorough" else spec["n_quick"]
    summ, out = gen_cases(spec, seed, n, outdir, replay)
    if summ is None:
        D.log("case generation failed:\n" + out[-3000:])
        path = D.write_replay(pid, "obligation", seed, None, extra=dict(what="case generator failed on the current tree", log=out[-3000:]))
        D.log("VIOLATION property=%s replay=%s no-failing-input-found" % (pid, path))
        evidence(spec, tier, seed, None, None, t0, 1, audit, ["case generation failed"])
        return 1
    D.log(out.strip().splitlines()[-1] if out.strip() else "")
    okc, M, V, clog = evaluate(summ)
    if not okc:
        proof_broken.append("case shards did not evaluate:\n" + clog[-2500:])
    real, kf, Mok = classify(pid, summ, M, V)

    nviol = 0
    for key, idx in sorted(kf.items()):
        D.log("KNOWN-FINDING: property=%s %s (%d case(s) of this run, e.g. #%d)" % (pid, D.known_keys(pid)[key]["what"], len(idx), idx[0]))
    if real:
        nviol = len(real)
        i = real[0]
        c = summ["cases"][i]
        path = D.write_replay(pid, "input", seed, c["input"], observed_impl=c.get("observed"),
                              extra=dict(index=i, key=c.get("key") or "", go_viol=c.get("go_viol"), gen=spec["gen"],
                                         what="property monitor fails on the implementation's output for this input",
                                         other_failing_indices=real[1:20]))
        D.log("VIOLATION property=%s replay=%s" % (pid, path))
    elif Mok or proof_broken:
        # SEARCH: more seeds, monitor only
        found = None
        if not replay:
            for k in range(spec.get("search_seeds", 4)):
                s2 = seed * 1000003 + 17 * (k + 1)
                sdir = os.path.join(outdir, "search%d" % k)
                os.makedirs(sdir, exist_ok=True)
                summ2, _ = gen_cases(spec, s2, n * 2, sdir)
                if summ2 is None:
                    continue
                ok2, M2, V2, _ = evaluate(summ2)
                real2, _, _ = classify(pid, summ2, M2, V2)
                if real2:
                    found = (s2, summ2["cases"][real2[0]], real2[0])
                    break
        if found:
            s2, c, i = found
            path = D.write_replay(pid, "input", s2, c["input"], observed_impl=c.get("observed"),
                                  extra=dict(index=i, gen=spec["gen"], what="found by directed search after a correspondence/proof break",
                                             broken=proof_broken[:3], mismatching_indices=Mok[:20]))
            D.log("VIOLATION property=%s replay=%s" % (pid, path))
            nviol = 1
        else:
            what = []
            if proof_broken:
                what.append("proof obligation no longer checks: " + proof_broken[0][:1500])
            if Mok:
                c = summ["cases"][Mok[0]]
                what.append("correspondence Corr.%s.mismatches: model and implementation disagree on %d case(s), first #%d" % (spec["corr"], len(Mok), Mok[0]))
            else:
                c = dict(input=None)
            path = D.write_replay(pid, "obligation", seed, c.get("input"), observed_impl=c.get("observed"),
                                  extra=dict(what=what, theorem_or_correspondence=("Props/%s.v" % pid if proof_broken else "Corr.%s.mismatches" % spec["corr"]),
                                             gen=spec["gen"], mismatching_indices=Mok[:50]))
            D.log("VIOLATION property=%s replay=%s no-failing-input-found" % (pid, path))
            nviol = 1
    evidence(spec, tier, seed, summ, dict(M=Mok, V=V, kf={k: len(v) for k, v in kf.items()}), t0, nviol, audit, proof_broken)
    if replay:
        D.log("replay: monitor %s on the replayed input" % ("FAILS" if (real or kf) else "passes"))
        return 1 if (real or kf) else 0
    return 1 if nviol else 0


def evidence(spec, tier, seed, summ, mv, t0, nviol, audit, broken):
    pid = spec["id"]
    cov = dict(
        obligations=len(audit.get("printed", [])) + spec.get("extra_obligations", 0),
        discharged=(audit.get("blocks", 0) if audit.get("ok") else 0) + (spec.get("extra_obligations", 0) if not broken else 0),
        checker_cmd="coq_makefile -f _CoqProject && make -j16 (full .vo build, Coq 8.16.1); coqc theories/Props/%s.v (Print Assumptions audit); "
                    "coqc build/cases/%s/cases_%s_*.v (vm_compute of Corr.%s.mismatches / violations)" % (pid, pid, pid, spec["corr"]),
        trusted_base=TRUSTED_COMMON + spec.get("trusted_base", []) + ["axioms reported by Print Assumptions this run: " + (", ".join(audit.get("axioms", [])) or "none (Closed under the global context)")],
        theorems=audit.get("printed", []),
    )
    if audit.get("coqchk"):
        cov["coqchk"] = audit["coqchk"]
        cov["trusted_base"].append("coqchk -o (independent checker) on the closure of Props/%s.vo: %s; axioms: %s" % (
            pid, "accepted" if audit["coqchk"]["ok"] else "REJECTED", ", ".join(audit["coqchk"]["axioms"]) or "<none>"))
    if summ is not None:
        cases = summ["cases"]
        nok = summ.get("validated", sum(1 for c in cases if not (c.get("key") or "")))
        cov.update(
            evaluations=summ["n"],
            distinct_nontrivial=summ["distinct_nontrivial"],
            distinct=summ["distinct"],
            rule=summ["rule"],
            traces_validated_against_impl=nok,
            distribution=summ["distribution"],
            samples=[dict(input=c["input"], observed_impl=c.get("observed"), domain=c.get("key") or "ok") for c in cases[:3]],
            mismatches=len(mv["M"]) if mv else None,
            monitor_failures=len(mv["V"]) if mv else None,
            known_finding_hits=mv["kf"] if mv else None,
        )
        if summ.get("extra"):
            cov["extra"] = summ["extra"]
    else:
        cov.update(evaluations=0, distinct_nontrivial=0, rule="no cases could be generated on this tree", samples=[])
    if broken:
        cov["broken"] = [b[:800] for b in broken]
    D.write_evidence(pid, tier, seed, cov, spec.get("assumptions", []), time.time() - t0, nviol)
