From Coq Require Import List Arith Lia Bool.
Import ListNotations.

Section Subst.
Variable A : Type.
Variable eqb : A -> A -> bool.
Hypothesis eqb_spec : forall a b, reflect (a = b) (eqb a b).
Variables d lb rb : A.           (* '$' '{' '}' *)
Variable pre : list A.           (* "trialParameters." *)
Hypothesis d_lb : d <> lb.
Hypothesis lb_rb : lb <> rb.
Hypothesis pre_no_d : ~ In d pre.

Definition str := list A.

Fixpoint prefixb (p s : str) : bool :=
  match p, s with
  | [], _ => true
  | a :: p', b :: s' => eqb a b && prefixb p' s'
  | _ :: _, [] => false
  end.

(* strings.Replace(s, p, v, -1) for non-empty p: leftmost, non-overlapping *)
Fixpoint repl (p v : str) (skip : nat) (s : str) : str :=
  match s with
  | [] => []
  | c :: s' =>
    match skip with
    | S k => repl p v k s'
    | O => if prefixb p s then v ++ repl p v (length p - 1) s' else c :: repl p v 0 s'
    end
  end.

Definition ph (n : str) : str := d :: lb :: pre ++ n ++ [rb].

Inductive chunk := Lit (l : str) | Val (v : str) | Ph (n : str).

Fixpoint render (cs : list chunk) : str :=
  match cs with
  | [] => []
  | Lit l :: cs' => l ++ render cs'
  | Val v :: cs' => v ++ render cs'
  | Ph n :: cs' => ph n ++ render cs'
  end.

Fixpoint subst (n v : str) (cs : list chunk) : list chunk :=
  match cs with
  | [] => []
  | Ph m :: cs' => (if prefixb (m ++ [rb]) (n ++ [rb]) && prefixb (n ++ [rb]) (m ++ [rb]) then Val v else Ph m) :: subst n v cs'
  | c :: cs' => c :: subst n v cs'
  end.

(* t diverges from pre before t ends *)
Fixpoint diverges (t p : str) : bool :=
  match t, p with
  | a :: t', b :: p' => negb (eqb a b) || diverges t' p'
  | _, _ => false
  end.

(* literal text: never ends with d; every d followed by lb is followed by text diverging from pre *)
Fixpoint lit_ok (l : str) : bool :=
  match l with
  | [] => true
  | a :: l' =>
    (if eqb a d then
       match l' with
       | [] => false
       | b :: t => if eqb b lb then diverges t pre else true
       end
     else true) && lit_ok l'
  end.

Definition name_ok (n : str) : Prop := ~ In lb n /\ ~ In rb n.
Definition val_ok (v : str) : Prop := ~ In d v.

Definition chunk_ok (c : chunk) : Prop :=
  match c with
  | Lit l => lit_ok l = true
  | Val v => val_ok v
  | Ph n => name_ok n
  end.

Lemma eqb_refl a : eqb a a = true.
Proof. destruct (eqb_spec a a); congruence. Qed.
Lemma eqb_neq a b : a <> b -> eqb a b = false.
Proof. intro H; destruct (eqb_spec a b); congruence. Qed.

Lemma prefixb_app p r : prefixb p (p ++ r) = true.
Proof. induction p as [|a p IH]; simpl; [reflexivity|]. now rewrite eqb_refl, IH. Qed.

Lemma prefixb_app_l p q s : prefixb (p ++ q) (p ++ s) = prefixb q s.
Proof. induction p as [|a p IH]; simpl; [reflexivity|]. now rewrite eqb_refl, IH. Qed.

Lemma repl_skip p v s1 s2 : repl p v (length s1) (s1 ++ s2) = repl p v 0 s2.
Proof. induction s1 as [|a s1 IH]; simpl; [reflexivity|exact IH]. Qed.

(* names: equal iff mutually prefix with terminator *)
Lemma name_prefix_eq n m r : name_ok n -> name_ok m ->
  prefixb (n ++ [rb]) (m ++ rb :: r) = true -> n = m.
Proof.
  revert m; induction n as [|a n IH]; intros m [Hn1 Hn2] [Hm1 Hm2] H.
  - destruct m as [|b m]; [reflexivity|]. simpl in H.
    destruct (eqb_spec rb b) as [->|]; [|discriminate]. exfalso; apply Hm2; now left.
  - destruct m as [|b m]; simpl in H.
    + destruct (eqb_spec a rb) as [->|]; [|discriminate]. exfalso; apply Hn2; now left.
    + destruct (eqb_spec a b) as [->|]; [|discriminate]. simpl in H. f_equal.
      apply IH; try split; try assumption; intro X; [apply Hn1|apply Hn2|apply Hm1|apply Hm2]; now right.
Qed.

Lemma ph_prefix_ph n m r : name_ok n -> name_ok m ->
  prefixb (ph n) (ph m ++ r) = true -> n = m.
Proof.
  intros Hn Hm. unfold ph. simpl. rewrite !eqb_refl. simpl.
  rewrite <- !app_assoc. rewrite prefixb_app_l. simpl. apply name_prefix_eq; assumption.
Qed.

Lemma subst_test n m : name_ok n -> name_ok m ->
  (prefixb (m ++ [rb]) (n ++ [rb]) && prefixb (n ++ [rb]) (m ++ [rb])) = true <-> n = m.
Proof.
  intros Hn Hm; split.
  - intro H. apply andb_prop in H as [_ H]. apply (name_prefix_eq n m []); assumption.
  - intros ->. change (m ++ [rb]) with (m ++ [rb]). 
    assert (E: prefixb (m ++ [rb]) (m ++ [rb]) = true).
    { rewrite <- (app_nil_r (m ++ [rb])) at 2. apply prefixb_app. }
    now rewrite E.
Qed.

(* no occurrence of a placeholder starts at a non-d character *)
Lemma prefixb_ph_head n c s : c <> d -> prefixb (ph n) (c :: s) = false.
Proof. intro H. simpl. rewrite (eqb_neq d c); [reflexivity|congruence]. Qed.

Lemma diverges_no_prefix (p0 : str) t r q : diverges t p0 = true -> prefixb (p0 ++ q) (t ++ r) = false.
Proof.
  revert t; induction p0 as [|b p IH]; intros t H.
  - destruct t; discriminate.
  - destruct t as [|a t]; [discriminate|]. simpl in *.
    destruct (eqb_spec a b) as [->|Hab].
    + rewrite eqb_refl. simpl in *. apply IH. exact H.
    + rewrite (eqb_neq b a); [reflexivity|congruence].
Qed.

(* scanning through literal text never finds a placeholder, whatever follows *)
Lemma repl_lit n v l r : lit_ok l = true ->
  repl (ph n) v 0 (l ++ r) = l ++ repl (ph n) v 0 r.
Proof.
  induction l as [|a l IH]; intro H; [reflexivity|].
  simpl in H. apply andb_prop in H as [H1 H2].
  change ((a :: l) ++ r) with (a :: (l ++ r)).
  cbn [repl].
  assert (E : prefixb (ph n) (a :: l ++ r) = false).
  { destruct (eqb_spec a d) as [->|Had]; [|apply prefixb_ph_head; assumption].
    destruct l as [|b t]; [discriminate|].
    unfold ph. simpl. rewrite eqb_refl. simpl.
    destruct (eqb_spec b lb) as [->|Hb].
    - rewrite eqb_refl. simpl. apply diverges_no_prefix. exact H1.
    - rewrite (eqb_neq lb b); [reflexivity|congruence]. }
  rewrite E. simpl. f_equal. apply IH. exact H2.
Qed.

Lemma repl_val n v w r : val_ok w ->
  repl (ph n) v 0 (w ++ r) = w ++ repl (ph n) v 0 r.
Proof.
  induction w as [|a w IH]; intro H; [reflexivity|].
  change ((a :: w) ++ r) with (a :: (w ++ r)). cbn [repl].
  rewrite prefixb_ph_head; [|intro E; apply H; left; congruence].
  simpl. f_equal. apply IH. intro X; apply H; now right.
Qed.

Hypothesis d_rb : d <> rb.

Lemma lit_ok_nod s t : ~ In d s -> lit_ok t = true -> lit_ok (s ++ t) = true.
Proof.
  induction s as [|a s IH]; intros Hs Ht; [exact Ht|]. simpl.
  rewrite (eqb_neq a d); [|intro E; apply Hs; now left]. simpl.
  apply IH; [intro X; apply Hs; now right|exact Ht].
Qed.

Lemma lit_ok_name m : name_ok m -> lit_ok (m ++ [rb]) = true.
Proof.
  intros [H1 H2]. induction m as [|a m IH]; simpl.
  - rewrite (eqb_neq rb d); [reflexivity|congruence].
  - rewrite IH; [|intro X; apply H1; now right|intro X; apply H2; now right].
    rewrite andb_true_r. destruct (eqb_spec a d) as [->|]; [|reflexivity].
    destruct m as [|b m]; simpl.
    + rewrite (eqb_neq rb lb); [reflexivity|congruence].
    + rewrite (eqb_neq b lb); [reflexivity|]. intro E; apply H1; right; left; congruence.
Qed.

Lemma repl_step_false p v c s : prefixb p (c :: s) = false -> repl p v 0 (c :: s) = c :: repl p v 0 s.
Proof. intro H. cbn [repl]. now rewrite H. Qed.
Lemma repl_step_true p v c s : prefixb p (c :: s) = true -> repl p v 0 (c :: s) = v ++ repl p v (length p - 1) s.
Proof. intro H. cbn [repl]. now rewrite H. Qed.
Lemma ph_cons m r : ph m ++ r = d :: ((lb :: pre ++ m ++ [rb]) ++ r).
Proof. reflexivity. Qed.

Lemma repl_other_ph n v m r : name_ok n -> name_ok m -> n <> m ->
  repl (ph n) v 0 (ph m ++ r) = ph m ++ repl (ph n) v 0 r.
Proof.
  intros Hn Hm Hne.
  assert (P : prefixb (ph n) (ph m ++ r) = false).
  { destruct (prefixb (ph n) (ph m ++ r)) eqn:P; [|reflexivity].
    exfalso. apply Hne. eapply ph_prefix_ph; eassumption. }
  rewrite ph_cons in *. rewrite repl_step_false by exact P. f_equal.
  rewrite repl_lit; [reflexivity|].
  change (lb :: pre ++ m ++ [rb]) with ((lb :: pre) ++ m ++ [rb]).
  apply lit_ok_nod; [|apply lit_ok_name; exact Hm].
  intros [X|X]; [congruence|exact (pre_no_d X)].
Qed.

Lemma repl_same_ph n v r :
  repl (ph n) v 0 (ph n ++ r) = v ++ repl (ph n) v 0 r.
Proof.
  assert (P := prefixb_app (ph n) r). rewrite ph_cons in *.
  rewrite repl_step_true by exact P. f_equal.
  assert (L: length (ph n) - 1 = length (lb :: pre ++ n ++ [rb])) by (unfold ph; simpl; lia).
  rewrite L. apply repl_skip.
Qed.

Definition all_ok (cs : list chunk) := Forall chunk_ok cs.

Theorem subst_one n v cs : name_ok n -> all_ok cs ->
  repl (ph n) v 0 (render cs) = render (subst n v cs).
Proof.
  intros Hn H. induction H as [|c cs Hc Hcs IH]; [reflexivity|].
  destruct c as [l|w|m]; cbn [render subst]; cbn [chunk_ok] in Hc.
  - rewrite repl_lit by exact Hc. now rewrite IH.
  - rewrite repl_val by exact Hc. now rewrite IH.
  - destruct (prefixb (m ++ [rb]) (n ++ [rb]) && prefixb (n ++ [rb]) (m ++ [rb])) eqn:T.
    + apply (proj1 (subst_test n m Hn Hc)) in T. subst m. cbn [render]. rewrite repl_same_ph. now rewrite IH.
    + assert (n <> m). { intro E. apply (proj2 (subst_test n m Hn Hc)) in E. congruence. }
      cbn [render]. rewrite repl_other_ph by assumption. now rewrite IH.
Qed.

End Subst.
Print Assumptions subst_one.
