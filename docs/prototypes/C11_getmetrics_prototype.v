From Coq Require Import List ZArith Lia Bool Arith.
Import ListNotations.
Open Scope Z_scope.

(* ---- model of getMetrics (pkg/controller.v1beta1/trial/trial_controller_util.go) ---- *)
Record mval := { repr : nat; num : option Z }.      (* text id, and the number it denotes if ParseFloat succeeds *)
Record entry := { ename : nat; eval : mval; ets : Z }.   (* metric name, value, timestamp (ns) *)

Record summary := { smin : option mval; smax : option mval; slatest : option mval; slast_ts : option Z }.
(* None = "unavailable" *)
Definition empty : summary := {| smin := None; smax := None; slatest := None; slast_ts := None |}.

Definition numZ (v : mval) (d : Z) : Z := match num v with Some z => z | None => d end.

Definition upd (s : summary) (e : entry) : summary :=
  let v := eval e in
  let '(mn, mx) :=
    match num v with
    | Some f =>
      match smin s, smax s with
      | Some a, Some b =>
          if f <? numZ a 0 then (Some v, Some b)
          else if numZ b 0 <? f then (Some a, Some v) else (Some a, Some b)
      | _, _ => (Some v, Some v)
      end
    | None => (smin s, smax s)
    end in
  let newer := match slast_ts s with None => true | Some t => negb (ets e <? t) end in   (* !timestamp.After(current) *)
  {| smin := mn; smax := mx;
     slatest := if newer then Some v else slatest s;
     slast_ts := if newer then Some (ets e) else slast_ts s |}.

(* one metric name: fold over the entries of that name, in log order *)
Definition summarize (m : nat) (l : list entry) : summary :=
  fold_left (fun s e => if Nat.eqb (ename e) m then upd s e else s) l empty.

(* ---- specification ---- *)
Definition of_name (m : nat) (l : list entry) := filter (fun e => Nat.eqb (ename e) m) l.
Definition nums (l : list entry) : list Z := flat_map (fun e => match num (eval e) with Some z => [z] | None => [] end) l.

Lemma summarize_filter m l : summarize m l = fold_left upd (of_name m l) empty.
Proof.
  unfold summarize, of_name. generalize empty.
  induction l as [|e l IH]; intro s; simpl; [reflexivity|].
  destruct (Nat.eqb (ename e) m); simpl; apply IH.
Qed.

(* interleaving independence *)
Theorem interleaving m l1 l2 : of_name m l1 = of_name m l2 -> summarize m l1 = summarize m l2.
Proof. intro H. now rewrite !summarize_filter, H. Qed.

(* invariant of the fold for min / max *)
Definition MM (seen : list Z) (s : summary) : Prop :=
  (seen = [] /\ smin s = None /\ smax s = None) \/
  (exists a b za zb, smin s = Some a /\ smax s = Some b /\ num a = Some za /\ num b = Some zb /\
                     In za seen /\ In zb seen /\ (forall z, In z seen -> za <= z <= zb)).

Lemma MM_step_none seen s e : num (eval e) = None -> MM seen s -> MM seen (upd s e).
Proof.
  intros Ef H. unfold upd. rewrite Ef. destruct (slast_ts s); exact H.
Qed.

Lemma MM_step_some seen s e f : num (eval e) = Some f -> MM seen s -> MM (seen ++ [f]) (upd s e).
Proof.
  intros Ef H. right.
  assert (In_f : In f (seen ++ [f])) by (apply in_or_app; right; now left).
  destruct H as [(Hs&H1&H2)|(a&b&za&zb&Ha&Hb&Hza&Hzb&Ia&Ib&Hall)].
  - subst seen. exists (eval e), (eval e), f, f.
    unfold upd. rewrite Ef, H1. cbn [smin smax]. repeat split; auto.
    all: match goal with K : In _ _ |- _ => destruct K as [<-|[]]; lia end.
  - unfold upd. rewrite Ef, Ha, Hb. unfold numZ. rewrite Hza, Hzb.
    assert (Ia' : In za (seen ++ [f])) by (apply in_or_app; now left).
    assert (Ib' : In zb (seen ++ [f])) by (apply in_or_app; now left).
    assert (Hall' : forall z, In z (seen ++ [f]) -> In z seen \/ z = f).
    { intros z Hz. apply in_app_or in Hz as [Hz|[<-|[]]]; auto. }
    pose proof (Hall za Ia) as Pa. pose proof (Hall zb Ib) as Pb.
    destruct (f <? za) eqn:C1; [apply Z.ltb_lt in C1|apply Z.ltb_ge in C1].
    + exists (eval e), b, f, zb. cbn [smin smax]. repeat split; auto.
      all: match goal with K : In _ (_ ++ [_]) |- _ => apply Hall' in K as [K| ->]; [specialize (Hall _ K)|]; lia end.
    + destruct (zb <? f) eqn:C2; [apply Z.ltb_lt in C2|apply Z.ltb_ge in C2].
      * exists a, (eval e), za, f. cbn [smin smax]. repeat split; auto.
        all: match goal with K : In _ (_ ++ [_]) |- _ => apply Hall' in K as [K| ->]; [specialize (Hall _ K)|]; lia end.
      * exists a, b, za, zb. cbn [smin smax]. repeat split; auto.
        all: match goal with K : In _ (_ ++ [_]) |- _ => apply Hall' in K as [K| ->]; [specialize (Hall _ K)|]; lia end.
Qed.

Lemma MM_step seen s e : MM seen s -> MM (seen ++ nums [e]) (upd s e).
Proof.
  intro H. unfold nums; cbn [flat_map]. rewrite app_nil_r.
  destruct (num (eval e)) as [f|] eqn:Ef.
  - now apply MM_step_some.
  - rewrite app_nil_r. now apply MM_step_none.
Qed.

Lemma nums_app l1 l2 : nums (l1 ++ l2) = nums l1 ++ nums l2.
Proof. unfold nums. apply flat_map_app. Qed.

Lemma MM_fold l : forall seen s, MM (nums seen) s -> MM (nums (seen ++ l)) (fold_left upd l s).
Proof.
  induction l as [|e l IH]; intros seen s H; simpl.
  - now rewrite app_nil_r.
  - replace (seen ++ e :: l) with ((seen ++ [e]) ++ l) by (now rewrite <- app_assoc).
    apply IH. rewrite nums_app. apply MM_step. exact H.
Qed.

Theorem min_max m l : MM (nums (of_name m l)) (summarize m l).
Proof.
  rewrite summarize_filter. apply (MM_fold (of_name m l) [] empty). left. repeat split; reflexivity.
Qed.

Print Assumptions min_max.
Print Assumptions interleaving.
