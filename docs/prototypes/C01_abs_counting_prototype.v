From Coq Require Import Arith Lia.
From RecordUpdate Require Import RecordUpdate.

(* Abstract counting system behind C01 (post-F1 semantics): store counters, lagging caches,
   pending writes with optimistic concurrency on the suggestion object. *)
Section Abs.
Variables par mx : nat.
Hypothesis par_pos : 1 <= par.
Hypothesis par_le_mx : par <= mx.

Record st := mkSt {
  N : nat; C : nat;                (* trials in store, completed among them *)
  S_ : nat; Rq : nat; RV : nat;    (* suggestion: count, spec.requests, resourceVersion *)
  M : nat;                         (* ghost: max requests ever written *)
  nt : nat; ct : nat;              (* trial cache *)
  sc : nat; rqc : nat; rvc : nat;  (* suggestion cache *)
  pe : option (nat * nat);         (* pending UpdateSuggestion (requests, rv) *)
  pc : nat;                        (* pending trial creates (how many) *)
  ps : option (nat * nat)          (* pending suggestion status write (new count, rv) *)
}.
#[export] Instance eta : Settable _ := settable! mkSt <N; C; S_; Rq; RV; M; nt; ct; sc; rqc; rvc; pe; pc; ps>.

Inductive step : st -> st -> Prop :=
| Complete s : C s < N s -> step s (s <| C := S (C s) |>)
| SyncT s : step s (s <| nt := N s |> <| ct := C s |>)
| SyncS s : step s (s <| sc := S_ s |> <| rqc := Rq s |> <| rvc := RV s |>)
(* experiment reconcile: plan from caches. ies = early-stopped-without-observation trials in the snapshot *)
| ExpBegin s ies k :
    pe s = None -> pc s = 0 ->
    ies <= ct s ->
    nt s - ct s < par ->
    let required := Nat.min (mx - ct s) par in
    let add := required - (nt s - ct s) in
    0 < add ->
    let r := nt s + add - ies in
    k <= sc s ->                                    (* creates target cached assignments *)
    step s (s <| pe := if Nat.eqb r (rqc s) then None else Some (r, rvc s) |> <| pc := k |>)
| ExpWriteReq s r rv : pe s = Some (r, rv) ->
    step s (if Nat.eqb rv (RV s)
            then s <| Rq := r |> <| RV := S (RV s) |> <| M := Nat.max (M s) r |> <| pe := None |>
            else s <| pe := None |> <| pc := 0 |>)     (* conflict: reconcile aborts, no creates *)
| ExpWriteCreate s fresh : pe s = None -> 0 < pc s ->
    (fresh = true -> N s < S_ s) ->                 (* J1: a new trial is a not-yet-materialised assignment *)
    step s (s <| N := if fresh then S (N s) else N s |> <| pc := pc s - 1 |>)
| ExpAbort s : step s (s <| pe := None |> <| pc := 0 |>)
(* suggestion reconcile *)
| SugBegin s : ps s = None -> sc s < rqc s ->
    step s (s <| ps := Some (rqc s, rvc s) |>)
| SugWrite s n rv : ps s = Some (n, rv) ->
    step s (if Nat.eqb rv (RV s)
            then s <| S_ := n |> <| RV := S (RV s) |> <| ps := None |>
            else s <| ps := None |>)
| SugAbort s : step s (s <| ps := None |>).

Definition Inv (s : st) : Prop :=
  C s <= N s /\ N s <= S_ s /\ S_ s <= M s /\ Rq s <= M s /\
  M s <= mx /\ M s <= C s + par /\
  nt s <= N s /\ ct s <= C s /\ ct s <= nt s /\ sc s <= S_ s /\ rvc s <= RV s /\
  (rvc s = RV s -> sc s = S_ s /\ rqc s = Rq s) /\
  (forall r rv, pe s = Some (r, rv) -> r <= mx /\ r <= C s + par /\ rv <= RV s) /\
  (forall n rv, ps s = Some (n, rv) -> rv <= RV s /\ (rv = RV s -> n = Rq s /\ S_ s <= n)).

Definition init : st := mkSt 0 0 0 0 0 0 0 0 0 0 0 None 0 None.

Lemma inv_init : Inv init.
Proof. unfold Inv, init; simpl. repeat split; try lia; try discriminate. Qed.

Lemma inv_step s s' : Inv s -> step s s' -> Inv s'.
Proof.
  intros (H1&H2&H3&H4&H5&H6&H7&H8&H9&H10&H11&H12&H13&H14) St.
  assert (P13 : forall r0 rv0, pe s = Some (r0, rv0) -> r0 <= mx /\ r0 <= C s + par /\ rv0 <= RV s) by exact H13.
  assert (P14 : forall n0 rv0, ps s = Some (n0, rv0) -> rv0 <= RV s /\ (rv0 = RV s -> n0 = Rq s /\ S_ s <= n0)) by exact H14.
  clear H13 H14.
  Ltac fin P13 P14 H12 :=
    try discriminate;
    repeat match goal with
    | E : pe _ = Some _ |- _ => apply P13 in E
    | E : ps _ = Some _ |- _ => apply P14 in E
    | E : Some _ = Some _ |- _ => injection E as ? ?; subst
    | E : None = Some _ |- _ => discriminate E
    | E : rvc _ = RV _ |- _ => apply H12 in E
    end;
    try lia.
  destruct St; unfold Inv; cbn -[Nat.min Nat.max] in *.
  - repeat split; fin P13 P14 H12.
  - repeat split; fin P13 P14 H12.
  - repeat split; fin P13 P14 H12.
  - (* ExpBegin *) subst r add required.
    destruct (Nat.eqb _ (rqc s)); repeat split; fin P13 P14 H12.
  - (* ExpWriteReq *)
    pose proof (P13 _ _ H) as Q.
    destruct (Nat.eqb_spec rv (RV s)) as [->|Hne]; cbn -[Nat.min Nat.max]; repeat split; fin P13 P14 H12.
  - (* ExpWriteCreate *)
    destruct fresh; cbn -[Nat.min Nat.max]; try (specialize (H1 eq_refl)); repeat split; fin P13 P14 H12.
    all: rewrite H in *; discriminate.
  - repeat split; fin P13 P14 H12.
  - (* SugBegin *) repeat split; fin P13 P14 H12.
  - (* SugWrite *)
    pose proof (P14 _ _ H) as Q.
    destruct (Nat.eqb_spec rv (RV s)) as [->|Hne]; cbn -[Nat.min Nat.max]; repeat split; fin P13 P14 H12.
  - repeat split; fin P13 P14 H12.
Qed.

Theorem budget s : Inv s -> N s <= mx /\ N s - C s <= par.
Proof. unfold Inv; intros (H1&H2&H3&H4&H5&H6&_). lia. Qed.

End Abs.
Print Assumptions inv_step.
