(* C06 — Trial verdicts: Succeeded needs an objective value; terminal states permanent. *)
From KV Require Import Base.Prelude Base.Cond Model.World Proofs.WorldPlan Proofs.WorldInv Proofs.WorldInv2 Proofs.WorldInv5 Proofs.WorldThm Proofs.WorldStab.
Open Scope Z_scope.

(* UpdateTrialStatusCondition sets Succeeded only from a successful job with an available objective value, on a trial
   that is not early stopped. *)
Theorem C06_succeeded_needs_value : forall cf now t o js dbw cs ct,
  update_trial_condition cf now t o js = (dbw, cs, ct) ->
  has_cond (t_conds t) TSucceeded = false -> has_cond cs TSucceeded = true ->
  js = JSSucceeded /\ obs_available o = true /\ has_cond (t_conds t) TEarlyStopped = false.
Proof. exact update_condition_succeeded. Qed.
Print Assumptions C06_succeeded_needs_value.

(* Failed is only ever set from a job that satisfied the failure condition. *)
Theorem C06_failed_from_failed_job : forall cf now t o js dbw cs ct,
  update_trial_condition cf now t o js = (dbw, cs, ct) ->
  has_cond (t_conds t) TFailed = false -> has_cond cs TFailed = true -> js = JSFailed.
Proof. exact update_condition_failed. Qed.
Print Assumptions C06_failed_from_failed_job.

(* MetricsUnavailable is only set from a successful job whose fetched observation has no objective value
   (or, outside the reachable states, on an already Succeeded trial). *)
Theorem C06_metrics_unavailable : forall cf now t o js dbw cs ct,
  update_trial_condition cf now t o js = (dbw, cs, ct) ->
  has_cond (t_conds t) TMetricsUnavailable = false -> has_cond cs TMetricsUnavailable = true ->
  js = JSSucceeded /\ (obs_available o = false \/ has_cond (t_conds t) TSucceeded = true).
Proof. exact update_condition_mu. Qed.
Print Assumptions C06_metrics_unavailable.

(* No status write the trial controller can plan, from whatever snapshot, withdraws a terminal condition of the
   trial it was computed from. *)
Theorem C06_plan_keeps_terminal : forall w key dberr n cs o ct rv onf,
  In (WTrialStatus n cs o ct rv, onf) (plan_trial w key dberr) ->
  exists t, find_trial key (c_trials w) = Some t /\ n = key /\ rv = t_rv t /\
            forall k, In k terminal_types -> has_cond (t_conds t) k = true -> has_cond cs k = true.
Proof.
  intros w key dberr n cs o ct rv onf H.
  destruct (plan_trial_shape _ _ _ _ H) as (t&F&N&[(X&_)|[(P&_)|[(X&_)|[(X&_)|[(X&_)|(cs'&o'&ct'&X&K)]]]]]); try (inversion X; fail).
  - rewrite P in H. destruct H as [X|[X|[]]]; inversion X.
  - inversion X; subst. exists t. auto.
Qed.
Print Assumptions C06_plan_keeps_terminal.

(* Permanence over runs: a terminal condition that is true on a trial in some reachable state is true on that trial
   in every later state — whatever reconciles (with stale caches), write failures, conflicts, aborts, early stops and
   job / metrics events happen in between. *)
Theorem C06_permanent : forall c acts1 acts2 n t k,
  valid_cfg c -> no_teardown (acts1 ++ acts2) ->
  find_trial n (w_trials (run c acts1)) = Some t -> In k terminal_types -> t_is t k = true ->
  exists t', find_trial n (w_trials (run c (acts1 ++ acts2))) = Some t' /\ t_is t' k = true.
Proof. exact terminal_permanent. Qed.
Print Assumptions C06_permanent.

(* Exclusivity and "Succeeded needs a value" over runs: in every reachable state, a Succeeded trial is not Failed,
   not MetricsUnavailable, not EarlyStopped, and its stored observation has an objective value. *)
Theorem C06_exclusive : forall c acts t,
  valid_cfg c -> no_teardown acts -> In t (w_trials (run c acts)) ->
  (has_cond (t_conds t) TSucceeded = true ->
   has_cond (t_conds t) TFailed = false /\ has_cond (t_conds t) TMetricsUnavailable = false /\
   has_cond (t_conds t) TEarlyStopped = false /\ obs_available (t_obs t) = true)
  /\ (has_cond (t_conds t) TMetricsUnavailable = true -> has_cond (t_conds t) TRunning = false).
Proof. exact trials_good. Qed.
Print Assumptions C06_exclusive.

(* A job satisfying the failure condition is reported Failed whatever the success condition says (failure is checked
   first); Succeeded is reported only when the success condition holds and the failure condition does not. *)
From KV Require Model.JobStatus.
Theorem C06_failure_first : forall succ running named,
  JobStatus.job_status true succ running named = JobStatus.JVFailed.
Proof. reflexivity. Qed.
Print Assumptions C06_failure_first.

Theorem C06_succeeded_only_if_success : forall fail succ running named,
  JobStatus.job_status fail succ running named = JobStatus.JVSucceeded -> succ = true /\ fail = false.
Proof. intros [|] [|] r n; cbn; try discriminate; auto. destruct (negb r && n); discriminate. Qed.
Print Assumptions C06_succeeded_only_if_success.

(* Over runs, position by position: every later version of the stored trial list continues every earlier one -- same name,
   an objective value once present stays the same value, a completed trial stays completed and keeps the class under which
   the experiment status counts it. *)
Theorem C06_trials_stable : forall c acts1 acts2,
  valid_cfg c -> no_teardown (acts1 ++ acts2) ->
  plag tst (w_trials (run c acts1)) (w_trials (run c (acts1 ++ acts2))).
Proof. exact trials_stable. Qed.
Print Assumptions C06_trials_stable.

(* The objective value a stored trial carries is the one held by the metrics DB (whose entries are never changed). *)
Theorem C06_objective_is_db_value : forall c acts t z,
  valid_cfg c -> no_teardown acts -> In t (w_trials (run c acts)) -> objective t = Some z ->
  db_get (t_name t) (w_db (run c acts)) = Some (Some z).
Proof. exact objective_is_db_value. Qed.
Print Assumptions C06_objective_is_db_value.

(* The step monitor evaluated on the implementation's projected states (Succeeded exclusive and with a value, terminal
   conditions permanent) holds on the model's own projected states for every history. *)
From KV Require Proofs.MonSound Corr.WorldMon.
Theorem C06_monitor_sound : forall w acts,
  Inv w -> no_teardown acts -> WorldMon.all_steps WorldMon.trial_step (WorldC.project w) (MonSound.msteps w acts) = true.
Proof. exact MonSound.trial_steps_model. Qed.
Print Assumptions C06_monitor_sound.

(* MetricsUnavailable is justified when it is reported: over every history, a stored trial becomes MetricsUnavailable only by
   the trial reconcile in progress for that very trial, and only if the metrics DB held no objective value for it when that
   reconcile began (metrics arrive progressively: the value may well arrive later; the verdict then stays, C06_permanent).
   [mu_walk] is the monitor evaluated on the implementation's projected states; here it is shown for the model's own. *)
Theorem C06_metrics_unavailable_justified : forall c acts,
  valid_cfg c -> no_teardown acts ->
  WorldMon.mu_walk None (WorldC.project (init c)) (MonSound.msteps (init c) acts) = true.
Proof. exact MonSound.mu_monitor_sound. Qed.
Print Assumptions C06_metrics_unavailable_justified.

(* the same from any state that satisfies the invariants, with the ghost snapshot of the trial reconcile in progress *)
Theorem C06_monitor_mu_sound : forall snap w acts,
  Inv w -> WorldMu.MuInv snap w -> no_teardown acts -> WorldMon.mu_walk snap (WorldC.project w) (MonSound.msteps w acts) = true.
Proof. exact MonSound.mu_walk_model. Qed.
Print Assumptions C06_monitor_mu_sound.

(* Non-vacuity: a history of the model in which the report without objective value, the MetricsUnavailable verdict and the late
   objective value all occur: the premises of the theorem hold and its monitor clause is exercised (the trial ends
   MetricsUnavailable, not Succeeded, although the job succeeded and the DB holds the objective value 5 at the end). *)
From KV Require Proofs.WorldMuEx.
Example C06_metrics_unavailable_justified_nonvacuous :
  valid_cfg WorldMuEx.mu_cfg /\ no_teardown WorldMuEx.mu_acts /\
  (let w := run WorldMuEx.mu_cfg WorldMuEx.mu_acts in
   exists t, find_trial 7%nat (w_trials w) = Some t /\ t_is t TMetricsUnavailable = true /\ t_is t TSucceeded = false /\
             db_get 7%nat (w_db w) = Some (Some 5%Z) /\ find_job 7%nat (w_jobs w) = Some {| j_name := 7%nat; j_phase := JSucc |}).
Proof. exact (conj WorldMuEx.mu_valid (conj WorldMuEx.mu_no_teardown WorldMuEx.mu_outcome)). Qed.
Print Assumptions C06_metrics_unavailable_justified_nonvacuous.

(* Pull collectors (StdOut, File, ...): "a successful job whose reported metrics contain no objective value" presupposes a
   report.  Over every history without teardown of a configuration with a pull collector, a stored trial becomes
   MetricsUnavailable only if the metrics DB held an entry WITHOUT objective value for it when the reporting reconcile began;
   while nothing has been reported the controller waits.  (Invariants DbInv: an observation in a trial status has a DB entry,
   entries are permanent without teardown; MuPInv over the ghost snapshot.)  [mu_pull_walk] is the monitor clause evaluated on
   the implementation's projected states. *)
From KV Require Proofs.WorldMuPull.
Theorem C06_metrics_unavailable_needs_report : forall c acts,
  valid_cfg c -> c_push c = false -> no_teardown acts ->
  WorldMon.mu_pull_walk None (WorldC.project (init c)) (MonSound.msteps (init c) acts) = true.
Proof. exact WorldMuPull.mu_pull_monitor_sound. Qed.
Print Assumptions C06_metrics_unavailable_needs_report.
