(* C03 (decision part) — which verdict util.UpdateExperimentStatus gives, and exclusivity.
   Only the property theorems (closed by [exact]) and their assumption audit.  The stability part of C03 (verdict
   untouched by later reconciles) is a theorem of the joint controller model and is not in this file, except for the
   function-level fact C03_completed_untouched.

   goal_rule spec ts    := isObjectiveGoalReached as computed by the loop (goal_reached spec ts = true);
                           C03_goal_flag says what that means
   fail_rule_P spec ts  := exists f, maxFailedTrialCount = Some f /\ max f 1 <= #failed + #metrics-unavailable
                           ("reach" read as: at least one failure, DESIGN.md C03)
   max_rule_P spec ts   := exists m, maxTrialCount = Some m /\ m <= #succeeded + #failed + #killed + #early-stopped
                           + #metrics-unavailable
   where #class counts the trials of the list by the precedence formula in_class (C05_classes). *)
From KV Require Import Base.Prelude Base.Cond Model.StatusUtil Model.StatusSpec Proofs.StatusUtilP Proofs.StatusUtilT
  Corr.C03 Proofs.C03Monitor.
Open Scope Z_scope.

(* With every objective value "unavailable" or numeric: the goal flag is true exactly when some trial's objective
   value meets the goal (<= for minimize, >= for maximize; never without a goal or with another objective type). *)
Theorem C03_goal_flag : forall spec ts,
  numeric_domain ts = true ->
  (goal_reached spec ts = true <->
   exists t v g, In t ts /\ numeric_value t = Some v /\ obj_goal spec = Some g /\
                 ((obj_type spec = Minimize /\ v <= g) \/ (obj_type spec = Maximize /\ g <= v))).
Proof. exact T_goal_flag. Qed.
Print Assumptions C03_goal_flag.

(* the same as a boolean equation *)
Theorem C03_goal_flag_bool : forall spec ts,
  numeric_domain ts = true -> goal_reached spec ts = existsb (meets spec) (numeric_values ts).
Proof. exact goal_flag. Qed.
Print Assumptions C03_goal_flag_bool.

(* The hypothesis is needed: a non-numeric objective text (outside the property's quantifier) makes the loop compare
   the goal with a best value it never initialised.  Witness: minimize, goal 1.0, a trial with a text value followed
   by a trial with value 5.0: flag true although no value meets the goal. *)
Definition rx_trial (n text : nat) (num : option Z) : trial :=
  {| t_name := n; t_conds := []; t_objective_metric := 0%nat; t_strategies := [(0%nat, SLatest)];
     t_observation := Some [{| m_name := 0%nat; m_min := mval_unavailable; m_max := mval_unavailable;
                               m_latest := {| mv_text := text; mv_num := num |} |}];
     t_assignments := [] |}.
Theorem C03_goal_flag_text_refuted : exists spec ts,
  numeric_domain ts = false /\ goal_reached spec ts = true /\ existsb (meets spec) (numeric_values ts) = false.
Proof.
  exists {| obj_type := Minimize; obj_goal := Some 8; max_trials := None; max_failed := None; resume_policy := NeverResume |},
         [rx_trial 1%nat 1%nat None; rx_trial 2%nat 2%nat (Some 40)].
  vm_compute. auto.
Qed.
Print Assumptions C03_goal_flag_text_refuted.

(* The verdict, for every trial list (any conditions, any values), every spec (maxTrialCount / maxFailedTrialCount /
   goal unset or set, any numbers) and every prior status that is not completed (any condition list). *)
Theorem C03_decision : forall now spec st ts,
  exp_is_completed st = false ->
  let st' := update_experiment_status now spec st ts in
  (exp_is_succeeded st' = true <-> goal_rule spec ts \/ (~ fail_rule_P spec ts /\ max_rule_P spec ts)) /\
  (exp_is_failed st' = true <-> ~ goal_rule spec ts /\ fail_rule_P spec ts) /\
  (goal_rule spec ts -> reason_of (e_conds st') ESucceeded = Some RGoalReached) /\
  (~ goal_rule spec ts -> fail_rule_P spec ts -> reason_of (e_conds st') EFailed = Some RExperimentFailed) /\
  (~ goal_rule spec ts -> ~ fail_rule_P spec ts -> max_rule_P spec ts ->
     reason_of (e_conds st') ESucceeded = Some RMaxTrialsReached) /\
  exp_is_running st' = negb (exp_is_completed st') /\
  e_completion st' = (if exp_is_completed st' then Some now else e_completion st).
Proof. exact T_decision. Qed.
Print Assumptions C03_decision.

(* The same with the goal rule spelled out over the trials' objective values (every value "unavailable" or numeric):
   goal_met_P spec ts := some trial's numeric objective value v satisfies v <= goal (minimize) / goal <= v (maximize). *)
Theorem C03_decision_values : forall now spec st ts,
  exp_is_completed st = false -> numeric_domain ts = true ->
  let st' := update_experiment_status now spec st ts in
  (exp_is_succeeded st' = true <-> goal_met_P spec ts \/ (~ fail_rule_P spec ts /\ max_rule_P spec ts)) /\
  (exp_is_failed st' = true <-> ~ goal_met_P spec ts /\ fail_rule_P spec ts) /\
  (goal_met_P spec ts -> reason_of (e_conds st') ESucceeded = Some RGoalReached) /\
  (~ goal_met_P spec ts -> fail_rule_P spec ts -> reason_of (e_conds st') EFailed = Some RExperimentFailed) /\
  (~ goal_met_P spec ts -> ~ fail_rule_P spec ts -> max_rule_P spec ts ->
     reason_of (e_conds st') ESucceeded = Some RMaxTrialsReached) /\
  exp_is_running st' = negb (exp_is_completed st') /\
  e_completion st' = (if exp_is_completed st' then Some now else e_completion st).
Proof. exact T_decision_values. Qed.
Print Assumptions C03_decision_values.

(* Succeeded and Failed never both true; Running false once a verdict exists. *)
Theorem C03_exclusive : forall now spec st ts,
  exp_is_completed st = false ->
  let st' := update_experiment_status now spec st ts in
  ~ (exp_is_succeeded st' = true /\ exp_is_failed st' = true) /\
  (exp_is_completed st' = true -> exp_is_running st' = false).
Proof. exact T_exclusive. Qed.
Print Assumptions C03_exclusive.

(* A completed experiment: conditions (verdict, reason) and completion time are not touched, only the summary. *)
Theorem C03_completed_untouched : forall now spec st ts,
  exp_is_completed st = true ->
  update_experiment_status now spec st ts = summary spec st ts /\
  e_conds (update_experiment_status now spec st ts) = e_conds st /\
  e_completion (update_experiment_status now spec st ts) = e_completion st.
Proof. exact completed_untouched. Qed.
Print Assumptions C03_completed_untouched.

(* UpdateExperimentStatusCondition on its own (as the joint model uses it): decision from the counters of the status
   for getSuggestionDone = false, exclusivity for every goal flag and getSuggestionDone. *)
Theorem C03_condition_decision : forall now spec st g,
  exp_is_completed st = false -> 0 <= failed_trials_count st ->
  let st' := update_experiment_status_condition now spec st g false in
  let FR := exists f, max_failed spec = Some f /\ Z.max f 1 <= failed_trials_count st in
  let MR := exists m, max_trials spec = Some m /\ m <= completed_trials_count st in
  (exp_is_succeeded st' = true <-> g = true \/ (~ FR /\ MR)) /\
  (exp_is_failed st' = true <-> g <> true /\ FR) /\
  (g = true -> reason_of (e_conds st') ESucceeded = Some RGoalReached) /\
  (g <> true -> FR -> reason_of (e_conds st') EFailed = Some RExperimentFailed) /\
  (g <> true -> ~ FR -> MR -> reason_of (e_conds st') ESucceeded = Some RMaxTrialsReached) /\
  exp_is_running st' = negb (exp_is_completed st') /\
  e_completion st' = (if exp_is_completed st' then Some now else e_completion st).
Proof. exact T_condition_decision. Qed.
Print Assumptions C03_condition_decision.

Theorem C03_condition_exclusive : forall now spec st g d,
  exp_is_completed st = false ->
  let st' := update_experiment_status_condition now spec st g d in
  ~ (exp_is_succeeded st' = true /\ exp_is_failed st' = true) /\
  (exp_is_completed st' = true -> exp_is_running st' = false).
Proof. exact T_condition_exclusive. Qed.
Print Assumptions C03_condition_exclusive.

(* IsCompletedExperimentRestartable: Succeeded with reason MaxTrialsReached and resume policy LongRunning / FromVolume *)
Theorem C03_restartable : forall spec st,
  is_completed_experiment_restartable spec st = true <->
  reason_of (e_conds st) ESucceeded = Some RMaxTrialsReached /\
  (resume_policy spec = LongRunning \/ resume_policy spec = FromVolume).
Proof. exact T_restartable. Qed.
Print Assumptions C03_restartable.

(* The executable monitors that run on implementation outputs are implied by the theorems. *)
Theorem C03_monitor_sound : forall now spec st ts,
  monitor_status spec st ts (update_experiment_status now spec st ts) = true.
Proof. exact monitor_status_model. Qed.
Print Assumptions C03_monitor_sound.

Theorem C03_monitor_condition_sound : forall now spec st g d, 0 <= failed_trials_count st ->
  monitor_condition spec st g d (update_experiment_status_condition now spec st g d) = true.
Proof. exact monitor_condition_model. Qed.
Print Assumptions C03_monitor_condition_sound.

(* Non-vacuity: a running experiment, maxFailedTrialCount = 0, maxTrialCount = 2, goal 1.0 (minimize), three trials:
   one Failed, one MetricsUnavailable-only, one Succeeded with value 2.0 (goal not met).  The failure rule wins over
   the max-trials rule; with maxFailedTrialCount unset the max-trials rule applies; with goal 2.0 the goal rule wins. *)
Definition nv_cond (t : nat) (s : cstatus) : cond := {| ctype := t; cstat := s; creason := 0%nat |}.
Definition nv_trial (n : nat) (cs : conds) (num : option Z) : trial :=
  {| t_name := n; t_conds := cs; t_objective_metric := 0%nat; t_strategies := [(0%nat, SLatest)];
     t_observation := match num with
                      | Some z => Some [{| m_name := 0%nat; m_min := mval_unavailable; m_max := mval_unavailable;
                                           m_latest := {| mv_text := n; mv_num := Some z |} |}]
                      | None => None
                      end;
     t_assignments := [] |}.
Definition nv_trials : list trial :=
  [nv_trial 1%nat [nv_cond TFailed CTrue] None; nv_trial 2%nat [nv_cond TMetricsUnavailable CTrue] None;
   nv_trial 3%nat [nv_cond TRunning CFalse; nv_cond TSucceeded CTrue] (Some 16)].
Definition nv_spec (goal : Z) (mf : option Z) : espec :=
  {| obj_type := Minimize; obj_goal := Some goal; max_trials := Some 2; max_failed := mf; resume_policy := NeverResume |}.
Definition nv_prior : estatus :=
  {| e_conds := [nv_cond ECreated CTrue; {| ctype := ERunning; cstat := CTrue; creason := RExperimentRunning |}];
     e_completion := None; e_optimal := {| best_name := 0; best_assignments := []; best_observation := [] |};
     e_running_list := []; e_pending_list := []; e_failed_list := []; e_succeeded_list := []; e_killed_list := [];
     e_early_stopped_list := []; e_metrics_unavailable_list := []; e_trials := 0; e_trials_succeeded := 0;
     e_trials_failed := 0; e_trials_killed := 0; e_trials_pending := 0; e_trials_running := 0;
     e_trials_early_stopped := 0; e_trials_metrics_unavailable := 0 |}.

Example C03_nonvacuous :
  exp_is_completed nv_prior = false /\ numeric_domain nv_trials = true /\
  (let st' := update_experiment_status 1 (nv_spec 8 (Some 0)) nv_prior nv_trials in
   exp_is_failed st' = true /\ exp_is_succeeded st' = false /\ exp_is_running st' = false /\
   reason_of (e_conds st') EFailed = Some RExperimentFailed /\ e_completion st' = Some 1%nat) /\
  (let st' := update_experiment_status 1 (nv_spec 8 None) nv_prior nv_trials in
   exp_is_succeeded st' = true /\ exp_is_failed st' = false /\
   reason_of (e_conds st') ESucceeded = Some RMaxTrialsReached) /\
  (let st' := update_experiment_status 1 (nv_spec 16 (Some 0)) nv_prior nv_trials in
   exp_is_succeeded st' = true /\ exp_is_failed st' = false /\
   reason_of (e_conds st') ESucceeded = Some RGoalReached).
Proof. vm_compute. repeat split; reflexivity. Qed.

(* ------------------------------------------------------------------ stability (joint controller model, Model/World.v) *)
From KV Require Model.World Proofs.WorldPlan.

(* A reconcile that sees a verdict which the user has not enabled to restart leaves the status in memory exactly as
   it is: verdict, reason and completion time are not recomputed (UpdateExperimentStatus skips a completed experiment,
   C03_completed_untouched), nothing is requested and no trial is created. *)
Theorem C03_stable_plan : forall cf e sug ws st1 stop,
  World.plan_exp_completed cf e sug = (ws, st1, stop) ->
  World.e_completed (World.e_st e) = true -> WorldPlan.restart_enabled_e cf e = false -> st1 = World.e_st e.
Proof. exact WorldPlan.plan_completed_stable. Qed.
Print Assumptions C03_stable_plan.

(* The verdict is withdrawn only by the restart the user enables by raising maxTrialCount on an experiment that
   succeeded by reaching max trials under LongRunning / FromVolume. *)
Theorem C03_restart_only_when_allowed : forall cf e sug ws st1 stop,
  World.plan_exp_completed cf e sug = (ws, st1, stop) ->
  st1 <> World.e_st e ->
  World.e_completed (World.e_st e) = true /\ WorldPlan.restart_enabled_e cf e = true /\ st1 = World.mark_restarting (World.e_st e).
Proof. exact WorldPlan.plan_restart_only_when_allowed. Qed.
Print Assumptions C03_restart_only_when_allowed.

From KV Require Proofs.WorldInv2 Proofs.WorldInv5 Proofs.WorldThm.

(* Stability over the joint model, one step: in any state reachable... (more precisely: in any state satisfying the
   inductive invariant) whose experiment carries a verdict with no restart enabled, EVERY action — a reconcile of any
   controller starting from any stale cache, any pending write landing or failing, aborts, job / metrics / early-stop
   events, cache syncs, the user raising maxTrialCount — leaves Succeeded/Failed (status and reason), Running and the
   completion time exactly as they are. *)
Theorem C03_stable_step : forall w a e,
  WorldInv2.Inv w -> World.is_teardown a = false -> World.w_exp w = Some e ->
  World.e_completed (World.e_st e) = true -> WorldPlan.restart_enabled_e (World.w_cfg w) e = false ->
  exists e', World.w_exp (World.step w a) = Some e' /\ WorldPlan.verdict_same (World.e_st e) (World.e_st e').
Proof. exact WorldThm.verdict_stable_step. Qed.
Print Assumptions C03_stable_step.

(* Over runs: from any reachable state with a verdict, for as long as no restart is enabled in the states passed
   through, the verdict, its reason, Running = false and the completion time are those of the first state. *)
Theorem C03_stable : forall c acts1 acts2 e,
  World.valid_cfg c -> WorldInv5.no_teardown (acts1 ++ acts2) ->
  World.w_exp (World.run c acts1) = Some e -> World.e_completed (World.e_st e) = true ->
  (forall pre post e1, acts2 = pre ++ post -> World.w_exp (World.run c (acts1 ++ pre)) = Some e1 ->
                       WorldPlan.restart_enabled_e c e1 = false) ->
  exists e', World.w_exp (World.run c (acts1 ++ acts2)) = Some e' /\ WorldPlan.verdict_same (World.e_st e) (World.e_st e').
Proof. exact WorldThm.verdict_stable_run. Qed.
Print Assumptions C03_stable.

(* ------------------------------------------------------------------ "justified" over runs (joint controller model) *)
From KV Require Import Proofs.WorldInv5 Proofs.WorldDecide Proofs.WorldSugFail Proofs.WorldNoCreate.

(* what "the trials decide" means: the goal is met by the objective value of some trial, or maxFailedTrialCount is reached
   by failed + metrics-unavailable trials (at least one), or maxTrialCount trials are completed *)
Theorem C03_tdec_spec : forall cf mx ts,
  tdec cf mx ts =
  (goal_hit (World.c_minimize cf) (World.c_goal cf) ts
   || match World.c_maxfailed cf with
      | Some f => negb (World.n_failed (World.counts_of (cls ts)) + World.n_mu (World.counts_of (cls ts)) =? 0)%Z
                  && (f <=? World.n_failed (World.counts_of (cls ts)) + World.n_mu (World.counts_of (cls ts)))%Z
      | None => false end
   || match mx with Some m => (m <=? World.completed_count (World.counts_of (cls ts)))%Z | None => false end).
Proof. reflexivity. Qed.
Print Assumptions C03_tdec_spec.

(* the status recomputed from a trial list (by a reconcile whose status in memory has no verdict) has a verdict exactly
   when the trials decide *)
Theorem C03_recompute : forall cf mx now st ts,
  World.e_completed st = false -> World.e_completed (World.update_status cf mx now st ts) = tdec cf mx ts.
Proof. exact update_status_completed. Qed.
Print Assumptions C03_recompute.

(* and that is monotone: a later version of the trial list (same trials with conditions / observations that only
   progressed, possibly more trials) decides whenever an earlier one did *)
Theorem C03_decision_monotone : forall cf mx ts ts',
  WorldStab.plag WorldStab.tst ts ts' -> tdec cf mx ts = true -> tdec cf mx ts' = true.
Proof. exact tdec_mono. Qed.
Print Assumptions C03_decision_monotone.

(* Over runs: a verdict of the stored experiment that the user has not enabled to restart is backed by the STORED trials
   (they decide, with the experiment's current maxTrialCount) or by a failed stored suggestion. *)
Theorem C03_verdict_justified : forall c acts e,
  World.valid_cfg c -> no_teardown acts ->
  World.w_exp (World.run c acts) = Some e -> World.e_completed (World.e_st e) = true -> WorldPlan.restart_enabled_e c e = false ->
  (World.w_trials (World.run c acts) <> [] /\ tdec c (World.e_max e) (World.w_trials (World.run c acts)) = true) \/
  (exists s, World.w_sug (World.run c acts) = Some s /\ sfailed (World.s_st s) = true).
Proof. exact verdict_justified. Qed.
Print Assumptions C03_verdict_justified.

(* Over runs, exclusivity: in every state reached by a history without teardown the stored experiment never carries both
   verdicts, and is not Running once it carries one (invariant ExInv over store, cache and pending status writes). *)
From KV Require Proofs.WorldVerdict Proofs.MonSound Corr.WorldMon Corr.WorldC.
Theorem C03_exclusive_over_runs : forall c acts e,
  World.valid_cfg c -> no_teardown acts -> World.w_exp (World.run c acts) = Some e ->
  (World.e_is (World.e_st e) World.ESucceeded && World.e_is (World.e_st e) World.EFailed = false) /\
  (World.e_completed (World.e_st e) = true -> World.e_is (World.e_st e) World.ERunning = false).
Proof. exact WorldVerdict.verdict_exclusive_run. Qed.
Print Assumptions C03_exclusive_over_runs.

(* Over runs, reason by reason: at the step at which a verdict appears on the stored experiment (it carried none before), the
   trials STORED after that step back it in the way its reason says -- GoalReached: some stored trial's objective value meets
   the goal; MaxTrialsReached: maxTrialCount (the stored experiment's) stored trials are completed; Failed: at least
   maxFailedTrialCount (and at least one) stored trials are failed or metrics-unavailable, or the stored suggestion has
   failed -- whatever the cache lag under which the verdict was computed.  [justified_step] is that statement as the boolean
   monitor clause which is evaluated on the implementation's projected states. *)
Theorem C03_verdict_reason_justified : forall w a,
  WorldVerdict.FullInv w -> World.is_teardown a = false ->
  WorldMon.justified_step (World.w_cfg w) (WorldC.project w) (WorldC.project (World.step w a)) = true.
Proof. exact WorldVerdict.justified_step_model. Qed.
Print Assumptions C03_verdict_reason_justified.

(* The whole step monitor of C03 (exclusive, stable while no restart is enabled, justified by reason) holds on the model's own
   projected states for every history without teardown. *)
Theorem C03_run_monitor_sound : forall c acts,
  World.valid_cfg c -> no_teardown acts ->
  WorldMon.all_steps (WorldMon.verdict_step c) (WorldC.project (World.init c)) (MonSound.msteps (World.init c) acts) = true.
Proof. exact WorldVerdict.verdict_monitor_sound. Qed.
Print Assumptions C03_run_monitor_sound.

(* the invariants used above hold in every reachable state *)
Theorem C03_invariants_reachable : forall c, World.valid_cfg c -> WorldVerdict.FullInv (World.init c).
Proof. exact WorldVerdict.FullInv_init. Qed.
Print Assumptions C03_invariants_reachable.
