(* C09 — Algorithm requests contain exactly the experiment's own trials. *)
From KV Require Import Base.Prelude Base.Cond Model.Select Proofs.SelectP Model.World Proofs.WorldPlan Proofs.WorldInv.
Open Scope Z_scope.

(* In a cluster where every trial was built by getTrialInstance of its owner (it lives in the owner's namespace and carries the
   owner's name under the experiment-name label; its other labels are arbitrary), and (namespace, name) identifies an
   experiment, the label-and-namespace selection of ReconcileSuggestion is exactly ownership. *)
Theorem C09_selection : forall exps cl eid e,
  cluster_wf exps cl -> nth_error exps eid = Some e -> select e cl = own eid cl.
Proof. exact selection. Qed.
Print Assumptions C09_selection.

Theorem C09_isolation : forall exps cl eid e t,
  cluster_wf exps cl -> nth_error exps eid = Some e -> In t (select e cl) -> st_owner t = eid /\ st_ns t = se_ns e.
Proof. exact isolation. Qed.
Print Assumptions C09_isolation.

(* what is sent: the own trials except metrics-unavailable ones and early-stopped ones without observation, order kept *)
Theorem C09_filter : forall exps cl eid e,
  cluster_wf exps cl -> nth_error exps eid = Some e ->
  sent e cl = map st_name (filter (fun t => negb (st_mu t) && negb (st_es t && negb (st_obs t))) (own eid cl)).
Proof. exact sent_spec. Qed.
Print Assumptions C09_filter.

(* selecting by labels alone (the tree before the repair of the namespace restriction) is NOT ownership *)
Theorem C09_selection_without_namespace_refuted :
  exists exps cl eid e, cluster_wf exps cl /\ nth_error exps eid = Some e /\ select_no_ns e cl <> own eid cl.
Proof. exact selection_without_namespace_refuted. Qed.
Print Assumptions C09_selection_without_namespace_refuted.

(* F19 (repaired, katib 88eea22): the selector of the pinned tree -- every label the experiment carries now -- is NOT ownership
   even in one namespace: an own trial whose assignment label shadows an experiment label (or that was created before the
   experiment was relabelled) is left out; the name-label selector takes it. *)
Theorem C09_selection_all_labels_refuted :
  exists exps cl eid e, cluster_wf exps cl /\ nth_error exps eid = Some e /\ select_all_labels e cl <> own eid cl /\ select e cl = own eid cl.
Proof. exact selection_all_labels_refuted. Qed.
Print Assumptions C09_selection_all_labels_refuted.

(* the numbers (joint controller model): every GetSuggestions request carries current = requests - suggestionCount > 0,
   total = requests and the filtered trials of the reconcile's snapshot; the early-stopping request carries the same trials *)
Theorem C09_numbers : forall w resp r,
  In r (snd (plan_sug w resp)) ->
  r = RpcValidate \/ r = RpcValidateES \/
  exists s, c_sug w = Some s /\ 0 < s_requests s - ss_count (s_st s) /\
    (r = RpcGetSuggestions (s_requests s - ss_count (s_st s)) (s_requests s) (convert_filter (c_trials w))
     \/ (r = RpcGetESRules (convert_filter (c_trials w)) /\ c_es (w_cfg w) = true)).
Proof. exact plan_sug_rpcs. Qed.
Print Assumptions C09_numbers.
