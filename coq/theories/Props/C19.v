(* C19 — Observation-log storage treats all strings as data and never crashes.
   This file contains only the property theorems (closed by [exact]) and their assumption audit.

   Vocabulary (Model/Sql.v): a request is a report / get / delete; [run_op lv d q] is what the DB layer (lv = LDb) or the
   gRPC handler (lv = LHandler) of dialect d does with it: Ok calls | Err code | Crash site, where a call is
   (entry point, SQL text, bound values). Trial names, metric names, values and formatted UTC times are opaque
   identifiers; the SQL text is a real string. [shape_of q] = number of timestamped entries / which filters are present.
   The handler of a report is modelled as REPAIRED (finding F10, key nil-submessage): see C19_unrepaired_handler_refuted. *)
From KV Require Import Base.Prelude Model.Sql Model.SqlExpr Proofs.SqlP Proofs.SqlExprP Corr.C19 Proofs.C19Monitor
                       Gen.SqlSites Proofs.C19Sites.

(* The SQL text (and the entry points used) is a function of the dialect and the shape of the request alone. *)
Theorem C19_text_is_function_of_shape : forall lv d q s,
  run_op lv d q = Ok s -> map call_text s = shape_stmts d (shape_of q).
Proof. exact text_of_shape. Qed.
Print Assumptions C19_text_is_function_of_shape.

(* Two requests of the same shape — whatever their trial names, metric names, values, times, and whether they arrive at
   the DB layer or through the handler — issue the same texts. *)
Theorem C19_text_depends_on_shape : forall lv1 lv2 d q1 q2 s1 s2,
  shape_of q1 = shape_of q2 -> run_op lv1 d q1 = Ok s1 -> run_op lv2 d q2 = Ok s2 ->
  map call_text s1 = map call_text s2.
Proof. exact text_depends_on_shape. Qed.
Print Assumptions C19_text_depends_on_shape.

(* A served report prepares and executes ONE insert whose bound values are, in order, one row
   (trial, utc time, metric name, value) per timestamped entry; every timestamped entry has its row at its position. *)
Theorem C19_rows : forall d trial (l : obslog) s,
  register d trial (Some l) = Ok s ->
  s = insert_stmts d (length (rows trial l)) (flat_map flatten_row (rows trial l)) /\
  length (rows trial l) = good_count l /\
  (forall l1 e l2, l = l1 ++ Some e :: l2 -> e_ts e <> TsEmpty ->
     exists t m, e_ts e = TsGood t /\ e_metric e = Some m /\
                 rows trial l = rows trial l1 ++ (trial, t, m_name m, m_value m) :: rows trial l2).
Proof. exact register_rows. Qed.
Print Assumptions C19_rows.

(* Zero timestamped entries: the statement without VALUES list is prepared and executed with no bound value (a real
   database answers a syntax error; see the comment at SqlP.empty_report: an observation, not part of finding F10). *)
Theorem C19_empty_report_statement : forall d trial (l : obslog) s,
  register d trial (Some l) = Ok s -> good_count l = 0 ->
  s = [(CPrepare, values_less_insert, []); (CStmtExec, values_less_insert, [])].
Proof. exact empty_report. Qed.
Print Assumptions C19_empty_report_statement.

(* Every served request binds exactly the values the request carries ([expected_args], a function of the request alone),
   in one executing call, optionally preceded by the Prepare of the same text. *)
Theorem C19_values_are_bound : forall lv d q s,
  run_op lv d q = Ok s ->
  exists c t, c <> CPrepare /\ (s = [(c, t, expected_args q)] \/ s = [(CPrepare, t, []); (c, t, expected_args q)]).
Proof. exact args_of_request. Qed.
Print Assumptions C19_values_are_bound.

(* The text of every executing call has exactly as many placeholders ("?" / "$n") as bound values. *)
Theorem C19_placeholders_match_values : forall lv d q s c t a,
  run_op lv d q = Ok s -> In (c, t, a) s -> c <> CPrepare -> count_char (ph_char d) t = length a.
Proof. exact placeholders_match. Qed.
Print Assumptions C19_placeholders_match_values.

(* No request crashes the (repaired) DB manager … *)
Theorem C19_no_crash : forall d q, is_crash (run_op LHandler d q) = false.
Proof. exact handler_no_crash. Qed.
Print Assumptions C19_no_crash.

(* … nor does a failure of the database at any of the calls it makes: the answer becomes an error. *)
Theorem C19_no_crash_under_db_failure : forall f d q,
  is_crash (fst (with_fault f (run_op LHandler d q))) = false /\
  (forall s, run_op LHandler d q = Ok s -> 0 < f <= length s -> exists c, fst (with_fault f (run_op LHandler d q)) = Err c).
Proof. exact no_crash_under_db_failure. Qed.
Print Assumptions C19_no_crash_under_db_failure.

(* … it answers an error exactly when the request cannot be served (unparsable time, timestamped entry without
   metric, nil entry, missing observation_log) or lacks a sub-message, and serves every other request. *)
Theorem C19_error_iff_malformed : forall d q,
  (exists c, run_op LHandler d q = Err c) <-> (must_err q = true \/ has_nil q = true).
Proof. exact handler_err_iff. Qed.
Print Assumptions C19_error_iff_malformed.

Theorem C19_served_iff_wellformed : forall d q,
  (exists s, run_op LHandler d q = Ok s) <-> (must_err q = false /\ has_nil q = false).
Proof. exact handler_ok_iff. Qed.
Print Assumptions C19_served_iff_wellformed.

(* The DB layer itself does not crash unless it is handed a missing sub-message, and only then. *)
Theorem C19_db_layer_no_crash : forall d q, has_nil q = false -> is_crash (run_op LDb d q) = false.
Proof. exact db_no_crash. Qed.
Print Assumptions C19_db_layer_no_crash.

(* Finding F10 (key nil-submessage): the handler of the unchanged tree passes the sub-messages on unchecked, and crashes. *)
Theorem C19_unrepaired_handler_refuted : exists d r, is_crash (report_unrepaired d r) = true.
Proof. exact unrepaired_handler_crashes. Qed.
Print Assumptions C19_unrepaired_handler_refuted.

(* Call sites, enumerated statically: no Exec / Query / QueryRow / Prepare of pkg/db/v1beta1 builds its text from string data … *)
Theorem C19_sites_data_free : forallb site_ok sites = true.
Proof. exact sites_data_free. Qed.
Print Assumptions C19_sites_data_free.

(* … where the syntactic check means: along every run (control path + integers) the text is the same for all string data. *)
Theorem C19_data_free_sound : forall e, data_free e = true ->
  forall r d1 d2 self, eval d1 self r e = eval d2 self r e.
Proof. exact data_free_text_independent_of_data. Qed.
Print Assumptions C19_data_free_sound.

Theorem C19_sites_text_independent_of_data : forall s, In s sites ->
  forall r d1 d2 self, eval d1 self r (s_expr s) = eval d2 self r (s_expr s).
Proof. exact sites_text_independent_of_data. Qed.
Print Assumptions C19_sites_text_independent_of_data.

(* The translated trees of the six statement-building sites, run along the path of a shape, give the model's texts. *)
Theorem C19_sites_match_model :
  forallb (fun d =>
    forallb (fun k => opt_str_eqb (site_text d "RegisterObservationLog" "Prepare" (reg_run d k)) (Some (insert_text d k)))
            [0; 1; 2; 3; 5; 12] &&
    forallb (fun m => forallb (fun s => forallb (fun e =>
               opt_str_eqb (site_text d "GetObservationLog" "Query" (get_run d m s e)) (Some (select_text d m s e)))
            bools) bools) bools &&
    opt_str_eqb (site_text d "DeleteObservationLog" "Exec" RUnit) (Some (delete_text d)))
  [Mysql; Postgres] = true.
Proof. exact sites_match_model. Qed.
Print Assumptions C19_sites_match_model.

(* The executable monitor that runs on implementation outputs is implied by the theorems above: a case made of the
   model's own output passes it (for any twin request of the same shape that can be served), a whole run of such cases
   passes the cross-case comparison, and the correspondence function accepts it. *)
Theorem C19_monitor_sound : forall lv d f q tw,
  shape_of tw = shape_of q -> must_err tw = false -> has_nil tw = false ->
  holds (model_case lv d f q tw) = true.
Proof. exact monitor_model. Qed.
Print Assumptions C19_monitor_sound.

Theorem C19_run_monitor_sound : forall cs,
  (forall i c, In (i, c) cs -> exists lv d f q tw, c = model_case lv d f q tw /\
      shape_of tw = shape_of q /\ must_err tw = false /\ has_nil tw = false) ->
  violations cs = [].
Proof. exact violations_model. Qed.
Print Assumptions C19_run_monitor_sound.

(* Non-vacuity: a report with a hostile mix — an entry without time stamp, two timestamped entries — is served at the
   handler, postgres numbers its placeholders 1..8, and the bound values are the identifiers of the request. *)
Example C19_nonvacuous :
  let e1 := Some {| e_ts := TsGood 5; e_metric := Some {| m_name := 1; m_value := 2 |} |} in
  let e0 := Some {| e_ts := TsEmpty; e_metric := Some {| m_name := 9; m_value := 9 |} |} in
  let e2 := Some {| e_ts := TsGood 6; e_metric := Some {| m_name := 3; m_value := 4 |} |} in
  run_op LHandler Postgres (RReport {| r_trial := 7; r_log := Some [e1; e0; e2] |}) =
  Ok [(CPrepare, "INSERT INTO observation_logs (trial_name, time, metric_name, value) VALUES ($1, $2, $3, $4),($5, $6, $7, $8)"%string, []);
      (CStmtExec, "INSERT INTO observation_logs (trial_name, time, metric_name, value) VALUES ($1, $2, $3, $4),($5, $6, $7, $8)"%string,
       [7; 5; 1; 2; 7; 6; 3; 4])] /\
  shape_of (RReport {| r_trial := 7; r_log := Some [e1; e0; e2] |}) = ShReport 2 /\
  (exists c, run_op LHandler Mysql (RReport {| r_trial := 7; r_log := Some [e1; None] |}) = Err c) /\
  (0 <? length sites) = true.
Proof. repeat split; try (vm_compute; reflexivity). eexists. vm_compute. reflexivity. Qed.
