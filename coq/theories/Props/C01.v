(* C01 — Trial budget: at most maxTrialCount trials ever, at most parallelTrialCount non-completed at any instant.
   Theorems over the joint controller model (Model/World.v): every interleaving of the three reconcilers with lagging
   caches, gated writes, injected write failures, aborts, job/metrics/early-stop events and the user raising maxTrialCount. *)
From KV Require Import Base.Prelude Base.Cond Model.World Proofs.WorldPlan Proofs.WorldInv Proofs.WorldInv2 Proofs.WorldInv5 Proofs.WorldThm Proofs.WorldNoCreate.
Open Scope Z_scope.

(* In every state reachable without teardown the number of trials in the store never exceeds the CURRENT
   spec.maxTrialCount (the only spec edit of the model is the user raising it) ... *)
Theorem C01_max_trials : forall c acts, valid_cfg c -> no_teardown acts ->
  forall e m, w_exp (run c acts) = Some e -> e_max e = Some m -> Z.of_nat (length (w_trials (run c acts))) <= m.
Proof. exact max_trials. Qed.
Print Assumptions C01_max_trials.

(* ... and trials are never removed, so "exist now" is "ever existed": every trial name of an earlier state is still there *)
Theorem C01_ever_trials_remain : forall c acts1 acts2, valid_cfg c -> no_teardown (acts1 ++ acts2) ->
  incl (names (w_trials (run c acts1))) (names (w_trials (run c (acts1 ++ acts2)))).
Proof. exact ever_trials_remain. Qed.
Print Assumptions C01_ever_trials_remain.

(* At every instant at most parallelTrialCount trials are non-completed. *)
Theorem C01_parallel : forall c acts, valid_cfg c -> no_teardown acts ->
  Z.of_nat (length (filter (fun t => negb (t_completed t)) (w_trials (run c acts)))) <= c_par c.
Proof. exact parallel_trials. Qed.
Print Assumptions C01_parallel.

(* The arithmetic heart: whatever snapshot a reconcile looks at, the number of suggestions it requests is bounded by
   the completed trials it has seen plus parallelTrialCount, and by maxTrialCount. *)
Theorem C01_requests_bound : forall w e st1 x, counts_nonneg (es_counts st1) -> In x (plan_exp_reconcile w e st1) ->
     (exists st, x = (WExpStatus st (e_rv e), Stop) /\ counts_nonneg (es_counts st))
  \/ x = (WDeleteTrials, Stop)
  \/ (exists r, req_bound (c_trials w) (w_cfg w) (e_max e) r /\
        ((c_sug w = None /\ x = (WSugCreate r, Stop)) \/
         (exists s, c_sug w = Some s /\ (x = (WSugSpec r (s_rv s), Stop) \/
                                        exists n, x = (WTrialCreate n, Cont) /\ In n (ss_names (s_st s))))))
  \/ (exists s, c_sug w = Some s /\ x = restart_write s /\ s_is (s_st s) SSucceeded = true /\ c_resume (w_cfg w) = FromVolume).
Proof. exact plan_exp_reconcile_shape. Qed.
Print Assumptions C01_requests_bound.

(* The inductive invariant itself holds in every reachable state. *)
Theorem C01_invariant : forall c acts, valid_cfg c -> no_teardown acts -> Inv (run c acts).
Proof. exact Inv_reachable. Qed.
Print Assumptions C01_invariant.

(* Once a reconcile sees a verdict that the user has not enabled to restart, its status in memory is left as it is
   (so ReconcileTrials is not entered and nothing is requested or created by that reconcile). *)
Theorem C01_no_create_after_verdict_plan : forall cf e sug ws st1 stop,
  plan_exp_completed cf e sug = (ws, st1, stop) ->
  e_completed (e_st e) = true -> restart_enabled_e cf e = false -> st1 = e_st e.
Proof. exact plan_completed_stable. Qed.
Print Assumptions C01_no_create_after_verdict_plan.

(* THE third sentence of the property, over runs: in a state reached by any history without teardown whose stored experiment
   carries a Succeeded or Failed verdict that the user has not enabled to restart, the next action -- a reconcile of any
   controller reading arbitrarily stale caches, a pending write landing or failing, an abort, a job or metrics event, an
   early stop, a cache sync, an edit of maxTrialCount -- creates no trial.  Behind it: the caches always justify a settled
   verdict (recomputing the status from them gives a verdict again: the trial list only moves forward, an objective value
   once reported stays, a completed trial keeps its class, a failed suggestion stays failed), a completed status pending in
   the experiment controller's write list is justified for the experiment version it was planned from, and a status
   write is the last write of its reconcile. *)
Theorem C01_no_create_after_verdict : forall c acts a e,
  valid_cfg c -> no_teardown (acts ++ [a]) ->
  w_exp (run c acts) = Some e -> e_completed (e_st e) = true -> restart_enabled_e c e = false ->
  names (w_trials (run c (acts ++ [a]))) = names (w_trials (run c acts)).
Proof. exact no_create_after_verdict. Qed.
Print Assumptions C01_no_create_after_verdict.

(* ... so for as long as the verdict stands and no restart is enabled the set of trials stays exactly what it was. *)
Theorem C01_no_create_while_settled : forall c acts1 acts2,
  valid_cfg c -> no_teardown (acts1 ++ acts2) ->
  (forall pre post, acts2 = pre ++ post -> post <> [] ->
     exists e, w_exp (run c (acts1 ++ pre)) = Some e /\ e_completed (e_st e) = true /\ restart_enabled_e c e = false) ->
  names (w_trials (run c (acts1 ++ acts2))) = names (w_trials (run c acts1)).
Proof. exact no_create_while_settled. Qed.
Print Assumptions C01_no_create_while_settled.

(* Non-vacuity: a concrete run (finalizer, creation, suggestion, deployment, reply, trial creation) that reaches the
   budget of two trials with both of them non-completed. *)
Definition nv_cfg := {| c_max := Some 2; c_par := 2; c_maxfailed := None; c_goal := None; c_minimize := false;
                        c_resume := Never; c_es := false; c_retain := true; c_push := false |}.
Definition nv_ok := {| r_valid := true; r_esvalid := true; r_reply := ReplyOk [1;2]%nat None; r_esrules := true |}.
Definition nv_B c := Begin c 0 nv_ok false.
Definition nv_W c := Write c false.
Definition nv_S := [SyncExp; SyncSug; SyncTrials].
Definition nv_acts : list action :=
  [nv_B CExp; nv_W CExp] ++ nv_S ++ [nv_B CExp; nv_W CExp] ++ nv_S ++ [nv_B CExp; nv_W CExp; nv_W CExp] ++ nv_S ++
  [nv_B CSug; nv_W CSug] ++ nv_S ++ [nv_B CSug; nv_W CSug; nv_W CSug; nv_W CSug] ++ [DeployAvailable true] ++ nv_S ++
  [nv_B CSug; nv_W CSug] ++ nv_S ++ [nv_B CExp; nv_W CExp; nv_W CExp; nv_W CExp] ++ nv_S.
Example C01_nonvacuous :
  valid_cfg nv_cfg /\ no_teardown nv_acts /\ names (w_trials (run nv_cfg nv_acts)) = [1; 2]%nat /\ g_maxreq (run nv_cfg nv_acts) = 2.
Proof. split; [unfold valid_cfg; cbn; lia|]. split; [reflexivity|]. split; vm_compute; reflexivity. Qed.

(* The executable monitor that is evaluated on the IMPLEMENTATION's projected states (Corr/WorldMon.budget_walk: at most
   maxTrialCount trials ever, at most parallelTrialCount non-completed, no new trial once a verdict stands) holds on the
   model's own projected states for every history: it demands nothing beyond the theorems above, so it cannot alarm on an
   implementation that agrees with the model. *)
From KV Require Proofs.MonSound Corr.WorldMon.
Theorem C01_monitor_sound : forall c acts,
  valid_cfg c -> no_teardown acts ->
  WorldMon.budget_walk c [] (WorldC.project (init c)) (MonSound.msteps (init c) acts) = true.
Proof. exact MonSound.budget_monitor_sound. Qed.
Print Assumptions C01_monitor_sound.
