(* C07 — Trial run object: created only for a trial seen as not completed, deleted only for a completed one with
   retain = false, observation logs removed before the finalizer is released.  Per-reconcile theorems: they hold for
   EVERY snapshot a reconcile can be looking at.  Further down: the same over runs of the joint model. *)
From KV Require Import Base.Prelude Base.Cond Model.World Proofs.WorldPlan Proofs.WorldInv2 Proofs.WorldInv5 Proofs.WorldQuiet
  Proofs.WorldJob Proofs.WorldFin.
Open Scope Z_scope.

Theorem C07_no_create_completed : forall w key dberr n,
  In (WJobCreate n) (writes (plan_trial w key dberr)) ->
  n = key /\ exists t, find_trial key (c_trials w) = Some t /\ t_completed t = false /\ find_job key (w_jobs w) = None.
Proof. exact plan_job_create_not_completed. Qed.
Print Assumptions C07_no_create_completed.

Theorem C07_no_delete_unfinished : forall w key dberr n,
  In (WJobDelete n) (writes (plan_trial w key dberr)) ->
  n = key /\ c_retain (w_cfg w) = false /\ exists t, find_trial key (c_trials w) = Some t /\ t_completed t = true.
Proof. exact plan_job_delete_completed. Qed.
Print Assumptions C07_no_delete_unfinished.

(* The release of the finalizer is planned only directly behind the deletion of the observation log, and with
   on-failure = Stop: a DB error leaves the finalizer in place. *)
Theorem C07_db_before_finalizer : forall w key dberr n rv onf,
  In (WTrialFin n false rv, onf) (plan_trial w key dberr) ->
  plan_trial w key dberr = [(WDbDelete key, Stop); (WTrialFin key false rv, Stop)].
Proof. exact plan_db_delete_before_finalizer. Qed.
Print Assumptions C07_db_before_finalizer.

(* The API server side: a second create of the same run object is refused (the name is the trial's), so at most one
   exists per trial at any time. *)
Theorem C07_create_refused_when_present : forall w n, find_job n (w_jobs w) <> None -> apply_write w (WJobCreate n) = None.
Proof. intros w n H. cbn. destruct (find_job n (w_jobs w)); [reflexivity|congruence]. Qed.
Print Assumptions C07_create_refused_when_present.

(* ------------------------------------------------------------------ over runs of the joint model *)

(* [job_safe_acts]: the history contains no teardown and no deletion of a run object by something other than katib
   (action JobGone).  With such an external deletion inside the window in which the trial cache lags behind the trial's own
   completion the unchanged controller does create the run object again (DESIGN.md, remark on C07). *)

(* At most one run object is ever created per trial: the log of successful creations has no duplicates. *)
Theorem C07_created_once : forall c acts, valid_cfg c -> job_safe_acts acts -> NoDup (g_jobcreates (run c acts)).
Proof. exact job_created_once. Qed.
Print Assumptions C07_created_once.

(* Never for a completed trial: a trial that is completed in the store has had its run object created before, so
   (created once) none is created for it later; put as a step, the creation of the run object of trial n happens in a
   state where the stored trial n is not completed. *)
Theorem C07_not_created_for_completed : forall c acts t,
  valid_cfg c -> job_safe_acts acts -> In t (w_trials (run c acts)) -> t_completed t = true ->
  In (t_name t) (g_jobcreates (run c acts)).
Proof. exact job_not_created_for_completed. Qed.
Print Assumptions C07_not_created_for_completed.

Theorem C07_create_means_unfinished : forall c acts a n t,
  valid_cfg c -> job_safe_acts (acts ++ [a]) ->
  ~ In n (g_jobcreates (run c acts)) -> In n (g_jobcreates (run c (acts ++ [a]))) ->
  find_trial n (w_trials (run c acts)) = Some t -> t_completed t = false.
Proof. exact job_create_means_unfinished. Qed.
Print Assumptions C07_create_means_unfinished.

(* The run object of an unfinished trial is never deleted; deletion needs retain = false. *)
Theorem C07_deleted_only_finished : forall c acts n,
  valid_cfg c -> job_safe_acts acts -> In n (g_jobdeletes (run c acts)) ->
  c_retain c = false /\ exists t, find_trial n (w_trials (run c acts)) = Some t /\ t_completed t = true.
Proof. exact job_deleted_only_finished. Qed.
Print Assumptions C07_deleted_only_finished.

(* retain = true: every run object that was created is still there ... *)
Theorem C07_kept_with_retain : forall c acts n,
  valid_cfg c -> job_safe_acts acts -> c_retain c = true -> In n (g_jobcreates (run c acts)) ->
  find_job n (w_jobs (run c acts)) <> None.
Proof. exact job_kept_with_retain. Qed.
Print Assumptions C07_kept_with_retain.

(* ... retain = false: at rest (nothing left to do for any controller, jobs finished, metrics reported) no trial has a
   run object any more. *)
Theorem C07_removed_at_rest : forall w t,
  InvS w -> quiescent w -> env_done w -> In t (w_trials w) -> c_retain (w_cfg w) = false ->
  find_job (t_name t) (w_jobs w) = None.
Proof. exact quiescent_job_removed. Qed.
Print Assumptions C07_removed_at_rest.

(* Every run object in the store stems from the single creation for the trial of its name. *)
Theorem C07_job_is_created : forall c acts j,
  valid_cfg c -> job_safe_acts acts -> In j (w_jobs (run c acts)) -> In (j_name j) (g_jobcreates (run c acts)).
Proof. exact job_is_created. Qed.
Print Assumptions C07_job_is_created.

(* For EVERY history of the model, teardown and garbage collection included, without any assumption: a trial's finalizer
   is released only after its observation log has been deleted from the metrics DB. *)
Theorem C07_finalizer_after_db_delete : forall c acts n,
  In n (g_finreleased (run c acts)) -> In n (g_dbdeletes (run c acts)).
Proof. exact finalizer_after_db_delete. Qed.
Print Assumptions C07_finalizer_after_db_delete.

(* The step monitor evaluated on the implementation's projected states (a run object appears only while its trial is not
   completed, disappears only when it is) holds on the model's own projected states for every history without teardown and
   without external deletion of run objects; the other clauses of the C07 monitor (no duplicate creation, DB deletion before
   the finalizer release) are the theorems C07_created_once and C07_finalizer_after_db_delete themselves, read on the logs. *)
From KV Require Proofs.MonSound Corr.WorldMon.
Theorem C07_monitor_sound : forall c acts,
  valid_cfg c -> job_safe_acts acts ->
  WorldMon.all_steps WorldMon.job_step (WorldC.project (init c)) (MonSound.msteps (init c) acts) = true.
Proof. exact MonSound.job_monitor_sound. Qed.
Print Assumptions C07_monitor_sound.

(* The at-rest clause of the monitor (job_final, evaluated on the IMPLEMENTATION's final state: for a completed trial, with retain
   the run object is still there if it was ever created, without retain it is gone) holds on the model's own projections for
   every history without teardown and external deletion that ends quiescent with the environment done. *)
From KV Require Proofs.WorldRest4.
Theorem C07_monitor_at_rest_sound : forall c acts,
  valid_cfg c -> job_safe_acts acts -> quiescent (run c acts) ->
  WorldMon.env_done (WorldC.project (run c acts)) = true ->
  forall k, WorldC.k_cfg k = c -> WorldC.k_jobcreates k = g_jobcreates (run c acts) ->
  WorldMon.job_final k (WorldC.project (run c acts)) = true.
Proof. exact WorldRest4.job_final_model. Qed.
Print Assumptions C07_monitor_at_rest_sound.

Theorem C07_monitor_at_rest_premises_satisfiable :
  valid_cfg F18.f18_cfg /\ job_safe_acts F18.f18_acts /\ quiescent (run F18.f18_cfg F18.f18_acts) /\
  WorldMon.env_done (WorldC.project (run F18.f18_cfg F18.f18_acts)) = true /\ c_retain F18.f18_cfg = true /\
  g_jobcreates (run F18.f18_cfg F18.f18_acts) = [1%nat; 2%nat] /\
  map t_completed (w_trials (run F18.f18_cfg F18.f18_acts)) = [true; true].
Proof. exact WorldRest4.job_final_premises_hold. Qed.
Print Assumptions C07_monitor_at_rest_premises_satisfiable.
