(* C07 — Trial run object: created only for a trial seen as not completed, deleted only for a completed one with
   retain = false, observation logs removed before the finalizer is released.  Per-reconcile theorems: they hold for
   EVERY snapshot a reconcile can be looking at. *)
From KV Require Import Base.Prelude Base.Cond Model.World Proofs.WorldPlan.
Open Scope Z_scope.

Theorem C07_no_create_completed : forall w key dberr n,
  In (WJobCreate n) (writes (plan_trial w key dberr)) ->
  n = key /\ exists t, find_trial key (c_trials w) = Some t /\ t_completed t = false /\ find_job key (w_jobs w) = None.
Proof. exact plan_job_create_not_completed. Qed.
Print Assumptions C07_no_create_completed.

Theorem C07_no_delete_unfinished : forall w key dberr n,
  In (WJobDelete n) (writes (plan_trial w key dberr)) ->
  n = key /\ c_retain (w_cfg w) = false /\ exists t, find_trial key (c_trials w) = Some t /\ t_completed t = true.
Proof. exact plan_job_delete_completed. Qed.
Print Assumptions C07_no_delete_unfinished.

(* The release of the finalizer is planned only directly behind the deletion of the observation log, and with
   on-failure = Stop: a DB error leaves the finalizer in place. *)
Theorem C07_db_before_finalizer : forall w key dberr n rv onf,
  In (WTrialFin n false rv, onf) (plan_trial w key dberr) ->
  plan_trial w key dberr = [(WDbDelete key, Stop); (WTrialFin key false rv, Stop)].
Proof. exact plan_db_delete_before_finalizer. Qed.
Print Assumptions C07_db_before_finalizer.

(* The API server side: a second create of the same run object is refused (the name is the trial's), so at most one
   exists per trial at any time. *)
Theorem C07_create_refused_when_present : forall w n, find_job n (w_jobs w) <> None -> apply_write w (WJobCreate n) = None.
Proof. intros w n H. cbn. destruct (find_job n (w_jobs w)); [reflexivity|congruence]. Qed.
Print Assumptions C07_create_refused_when_present.
