(* C08 — Suggestions are append-only, exactly counted and synced atomically. *)
From KV Require Import Base.Prelude Base.Cond Model.World Proofs.WorldPlan Proofs.WorldInv Proofs.WorldInv2 Proofs.WorldInv5 Proofs.WorldThm Proofs.WorldNames Proofs.F18.
Open Scope Z_scope.

(* Append-only over runs: the assignment list of any reachable state is a prefix of the list in every later state. *)
Theorem C08_append_only : forall c acts1 acts2 s,
  valid_cfg c -> no_teardown (acts1 ++ acts2) -> w_sug (run c acts1) = Some s ->
  exists s' l, w_sug (run c (acts1 ++ acts2)) = Some s' /\ ss_names (s_st s') = ss_names (s_st s) ++ l.
Proof. exact suggestions_append_only. Qed.
Print Assumptions C08_append_only.

(* suggestionCount equals the list length and never exceeds the largest number of suggestions ever requested. *)
Theorem C08_count : forall c acts s,
  valid_cfg c -> no_teardown acts -> w_sug (run c acts) = Some s ->
  ss_count (s_st s) = Z.of_nat (length (ss_names (s_st s))) /\ ss_count (s_st s) <= g_maxreq (run c acts).
Proof. exact suggestions_counted. Qed.
Print Assumptions C08_count.

(* One sync is atomic: every status write a suggestion reconcile can plan either keeps assignments, count and settings
   (only conditions differ), or appends exactly requests - count names, all of them from the one successful reply. *)
Theorem C08_atomic_sync : forall w resp x,
  In x (fst (plan_sug w resp)) ->
  exists s, c_sug w = Some s /\
    ((exists k, x = (WInfraCreate k, Stop) \/ x = (WInfraDelete k, Stop))
     \/ exists st, x = (WSugStatus st (s_rv s), Stop) /\ sug_status_shape s resp st).
Proof. exact plan_sug_shape. Qed.
Print Assumptions C08_atomic_sync.

(* Every trial in the store is one assignment of the store's suggestion, and trial names are unique. *)
Theorem C08_trials_are_assignments : forall c acts n,
  valid_cfg c -> no_teardown acts -> In n (names (w_trials (run c acts))) ->
  exists s, w_sug (run c acts) = Some s /\ In n (ss_names (s_st s)) /\ NoDup (names (w_trials (run c acts))).
Proof. exact trial_is_assignment. Qed.
Print Assumptions C08_trials_are_assignments.

(* "Entry names are unique", from an assumption on the ANSWERS of the algorithm service rather than on the state reached:
   if every successful reply that is asked for (requests exceed suggestionCount) consists of distinct names none of which
   is already in the suggestion the reconcile is looking at -- katib's services name trials with fresh random suffixes --
   then in every reachable state the assignment names of the stored suggestion are pairwise distinct. *)
Theorem C08_names_unique : forall c acts s,
  valid_cfg c -> no_teardown acts -> fresh_run c acts -> w_sug (run c acts) = Some s -> NoDup (ss_names (s_st s)).
Proof. exact names_unique. Qed.
Print Assumptions C08_names_unique.

(* Non-vacuity: the 751-action history of Proofs/F18.v (RPC error, stale caches, a raise of maxTrialCount) has fresh replies. *)
Theorem C08_fresh_history_exists : fresh_run f18_cfg f18_acts.
Proof. exact f18_fresh. Qed.
Print Assumptions C08_fresh_history_exists.

(* The whole property over runs, in the form of the walk monitor that is evaluated on the implementation's projected states:
   at every step of every history without teardown whose algorithm replies are fresh, the stored assignment list has distinct
   names, suggestionCount equals its length and is at most the largest requests ever stored, the previous list is a prefix of
   it, an unchanged length leaves count and settings alone, and a longer list appends exactly requests - suggestionCount
   names, which are the names of the reply handed to the suggestion reconcile in progress -- a reply of a sync all of whose
   calls succeeded (with early stopping the rules call too): on an RPC error or a wrong-sized reply nothing is appended.
   (Invariant SgInv over a ghost that remembers that reply, Proofs/WorldSugMon.v.) *)
From KV Require Proofs.WorldSugMon Proofs.MonSound Corr.WorldMon.
Theorem C08_monitor_sound : forall c acts,
  valid_cfg c -> no_teardown acts -> fresh_run c acts ->
  WorldMon.sug_walk c 0 None (WorldC.project (init c)) (MonSound.msteps (init c) acts) = true.
Proof. exact WorldSugMon.sug_monitor_sound. Qed.
Print Assumptions C08_monitor_sound.

(* from any state that satisfies the invariants *)
Theorem C08_sync_atomic_over_runs : forall maxreq lr w acts,
  Inv w -> NDInv w -> WorldSugMon.SgInv lr w -> g_maxreq w <= maxreq -> no_teardown acts -> fresh_from w acts ->
  WorldMon.sug_walk (w_cfg w) maxreq lr (WorldC.project w) (MonSound.msteps w acts) = true.
Proof. exact WorldSugMon.sug_walk_model. Qed.
Print Assumptions C08_sync_atomic_over_runs.

(* Non-vacuity: the premises hold for the 751-action history of Proofs/F18.v (which contains RPC errors and appended replies). *)
Example C08_monitor_sound_nonvacuous : valid_cfg f18_cfg /\ no_teardown f18_acts /\ fresh_run f18_cfg f18_acts.
Proof. exact (conj (proj1 f18_premises_hold) (conj f18_no_teardown f18_fresh)). Qed.
Print Assumptions C08_monitor_sound_nonvacuous.
