(* C04 — Experiments cannot wedge: quiescence implies a verdict; no hot loop. *)
From KV Require Import Base.Prelude Base.Cond Model.World Proofs.WorldPlan Proofs.EqbRefl Proofs.WorldInv2 Proofs.WorldInv5 Proofs.WorldQuiet Proofs.F18 Proofs.WorldSucc Proofs.WorldCalm Proofs.WorldRestart Proofs.WorldNames.
Open Scope Z_scope.

(* The trial controller is never what wedges an experiment: a created, non-completed trial whose job is absent, or
   has failed, or has succeeded with its metrics in the DB, or is active but not yet reported Running, always gives
   its reconcile a write to issue (job creation or a status change) — for every snapshot. *)
Theorem C04_trial_progress : forall w t,
  t_is t TCreated = true -> t_completed t = false ->
  match find_job (t_name t) (w_jobs w) with
  | None => True
  | Some j => match j_phase j with
              | JActive => t_is t TRunning = false
              | JFail => True
              | JSucc => db_get (t_name t) (w_db w) <> None
              end
  end ->
  plan_trial_main w t false <> [].
Proof. exact trial_progress. Qed.
Print Assumptions C04_trial_progress.

(* No hot loop at the level of one reconcile: the final status update is only issued when the status differs. *)
Theorem C04_no_write_when_unchanged : forall e, status_write e (e_st e) = [].
Proof. intro e. unfold status_write. now rewrite estatus_eqb_refl. Qed.
Print Assumptions C04_no_write_when_unchanged.

(* THE state-level theorem.  In any state of the joint model that satisfies the inductive invariant (every state reachable
   without teardown does, C01_invariant), if the caches are synced, no reconcile of any controller (for every trial key, for
   every correct answer of the services) plans a single write, the jobs have finished, the metrics of every trial are in
   the DB (with a value for early-stopped trials) and the deployment is not pending, then an experiment with maxTrialCount
   set carries a Succeeded or Failed verdict.
   Two hypotheses are assumptions rather than consequences of the model: the algorithm service never returned the same
   trial name twice (with duplicate names katib does wedge: the second assignment can never be materialised), and the
   suggestion is not marked Succeeded while the experiment has no verdict.  The second one is NOT an invariant: it fails
   after a restart when an experiment reconcile still reads the completed experiment from its cache
   (C04_no_wedge_needs_hypothesis below, known finding F18). *)
Theorem C04_no_wedge : forall w e m,
  Inv w -> 1 <= c_par (w_cfg w) -> quiescent w -> env_done w ->
  w_exp w = Some e -> e_max e = Some m -> c_par (w_cfg w) <= m ->
  (forall s, w_sug w = Some s -> NoDup (ss_names (s_st s)) /\
             (s_is (s_st s) SSucceeded = true -> c_resume (w_cfg w) = FromVolume /\ s_restarting (s_st s) = false)) ->
  e_completed (e_st e) = true.
Proof. exact quiescent_completed. Qed.
Print Assumptions C04_no_wedge.

(* The history of the (repaired) finding F18 -- an experiment reconcile on a stale completed experiment marks the restarted
   suggestion Succeeded -- no longer ends in a wedge: the suggestion is restarted, trial 2 runs and the experiment completes again. *)
Theorem C04_f18_history_repaired :
  exists e s, w_exp f18_w = Some e /\ e_max e = Some 2 /\ e_completed (e_st e) = true /\ n_trials (es_counts (e_st e)) = 2 /\
              w_sug f18_w = Some s /\ ss_names (s_st s) = [1%nat; 2%nat] /\ s_is (s_st s) SSucceeded = true /\
              map t_name (w_trials f18_w) = [1%nat; 2%nat].
Proof. exact f18_repaired. Qed.
Print Assumptions C04_f18_history_repaired.

(* Under resumePolicy Never and LongRunning the hypothesis IS an invariant of every reachable state: a Succeeded
   suggestion means the experiment carries its verdict (and the policy is Never; under LongRunning the suggestion is
   never marked Succeeded). *)
Theorem C04_succeeded_means_verdict : forall c acts s,
  valid_cfg c -> no_teardown acts -> c_resume c <> FromVolume ->
  w_sug (run c acts) = Some s -> s_is (s_st s) SSucceeded = true ->
  c_resume c = Never /\ exists e, w_exp (run c acts) = Some e /\ e_completed (e_st e) = true.
Proof. exact succeeded_implies_verdict. Qed.
Print Assumptions C04_succeeded_means_verdict.

(* ... so that for these two policies the no-wedge theorem holds for every reachable state with only the fresh-names
   assumption left: every history of the model (any interleaving of reconciles, writes, conflicts, injected failures,
   cache syncs, job and metrics events, early stops, maxTrialCount raises) that ends quiescent with a finished
   environment ends with a verdict. *)
Theorem C04_no_wedge_never_longrunning : forall c acts e m,
  valid_cfg c -> no_teardown acts -> c_resume c <> FromVolume ->
  quiescent (run c acts) -> env_done (run c acts) ->
  w_exp (run c acts) = Some e -> e_max e = Some m -> c_par c <= m ->
  (forall s, w_sug (run c acts) = Some s -> NoDup (ss_names (s_st s))) ->
  e_completed (e_st e) = true.
Proof. exact no_wedge_reachable. Qed.
Print Assumptions C04_no_wedge_never_longrunning.

(* Non-vacuity: a concrete history (resumePolicy Never, one trial) meets every premise of the theorem above, with a
   Succeeded suggestion. *)
Theorem C04_no_wedge_premises_satisfiable :
  valid_cfg never_cfg /\ no_teardown never_acts /\ c_resume never_cfg <> FromVolume /\
  quiescent (run never_cfg never_acts) /\ env_done (run never_cfg never_acts) /\
  exists e s, w_exp (run never_cfg never_acts) = Some e /\ e_max e = Some 1 /\ c_par never_cfg <= 1 /\
              w_sug (run never_cfg never_acts) = Some s /\ NoDup (ss_names (s_st s)) /\ s_is (s_st s) SSucceeded = true /\
              e_completed (e_st e) = true.
Proof. exact no_wedge_premises_hold. Qed.
Print Assumptions C04_no_wedge_premises_satisfiable.

(* THE theorem within the quantifier of the property (environment events, faults, aborts, cache lag — but nobody edits the
   spec): for EVERY resume policy and every history of the model without a raise of maxTrialCount and without teardown
   that ends quiescent with a finished environment, the experiment carries its verdict.  The only assumption left is that
   the algorithm service never returned the same trial name twice.  Behind it: without an edit a restart is never enabled
   (a MaxTrialsReached verdict is only given when maxTrialCount <= the trials counted, CalmInv), hence a settled verdict
   stays, hence a Succeeded suggestion always goes with a completed experiment (SuccInv2). *)
Theorem C04_no_wedge_no_edit : forall c acts e m,
  valid_cfg c -> calm_acts acts ->
  quiescent (run c acts) -> env_done (run c acts) ->
  w_exp (run c acts) = Some e -> e_max e = Some m ->
  (forall s, w_sug (run c acts) = Some s -> NoDup (ss_names (s_st s))) ->
  e_completed (e_st e) = true.
Proof. exact no_wedge_no_edit. Qed.
Print Assumptions C04_no_wedge_no_edit.

Theorem C04_no_restart_without_edit : forall c acts e,
  valid_cfg c -> calm_acts acts -> w_exp (run c acts) = Some e -> restart_enabled_e c e = false.
Proof. exact no_restart_without_edit. Qed.
Print Assumptions C04_no_restart_without_edit.

Theorem C04_succeeded_means_verdict_no_edit : forall c acts s,
  valid_cfg c -> calm_acts acts -> w_sug (run c acts) = Some s -> s_is (s_st s) SSucceeded = true ->
  exists e, w_exp (run c acts) = Some e /\ e_completed (e_st e) = true.
Proof. exact succeeded_implies_verdict_no_edit. Qed.
Print Assumptions C04_succeeded_means_verdict_no_edit.

(* Non-vacuity (resumePolicy FromVolume): a history without edits meeting every premise, with a Succeeded suggestion. *)
Theorem C04_no_wedge_no_edit_premises_satisfiable :
  valid_cfg f18_cfg /\ calm_acts fv_acts /\ quiescent (run f18_cfg fv_acts) /\ env_done (run f18_cfg fv_acts) /\
  exists e s, w_exp (run f18_cfg fv_acts) = Some e /\ e_max e = Some 1 /\
              w_sug (run f18_cfg fv_acts) = Some s /\ NoDup (ss_names (s_st s)) /\ s_is (s_st s) SSucceeded = true /\
              e_completed (e_st e) = true.
Proof. exact no_wedge_no_edit_premises_hold. Qed.
Print Assumptions C04_no_wedge_no_edit_premises_satisfiable.

(* With spec edits allowed as well (after the repair of F18): every resume policy, every history without teardown --
   environment events, faults, aborts, cache lag AND raises of maxTrialCount --: at rest with a finished environment the
   experiment carries a verdict.  Only assumption: the algorithm never returned the same trial name twice.  Never: a
   Succeeded suggestion implies a verdict (SuccInv); LongRunning: the suggestion is never Succeeded; FromVolume: a
   Succeeded suggestion next to a running experiment is not marked restarting (SrInv), so the experiment reconcile plans its
   restart and the state is not quiescent. *)
Theorem C04_no_wedge_all : forall c acts e m,
  valid_cfg c -> no_teardown acts ->
  quiescent (run c acts) -> env_done (run c acts) ->
  w_exp (run c acts) = Some e -> e_max e = Some m ->
  (forall s, w_sug (run c acts) = Some s -> NoDup (ss_names (s_st s))) ->
  e_completed (e_st e) = true.
Proof. exact no_wedge_reachable_all. Qed.
Print Assumptions C04_no_wedge_all.

(* Non-vacuity with an edit: the history of the repaired finding F18 (751 actions, one raise of maxTrialCount) meets every
   premise of C04_no_wedge_all. *)
Theorem C04_no_wedge_all_premises_satisfiable :
  valid_cfg f18_cfg /\ no_teardown f18_acts /\ existsb (fun a => match a with UserRaiseMax _ => true | _ => false end) f18_acts = true /\
  quiescent (run f18_cfg f18_acts) /\ env_done (run f18_cfg f18_acts) /\
  exists e s, w_exp (run f18_cfg f18_acts) = Some e /\ e_max e = Some 2 /\
              w_sug (run f18_cfg f18_acts) = Some s /\ NoDup (ss_names (s_st s)) /\ e_completed (e_st e) = true.
Proof. exact f18_premises_hold. Qed.
Print Assumptions C04_no_wedge_all_premises_satisfiable.

(* The same with the remaining assumption put where it belongs -- on the answers of the algorithm service (fresh_run: every
   successful reply that is asked for has distinct names not yet in the suggestion) instead of on the state reached. *)
Theorem C04_no_wedge_fresh : forall c acts e m,
  valid_cfg c -> no_teardown acts -> fresh_run c acts ->
  quiescent (run c acts) -> env_done (run c acts) ->
  w_exp (run c acts) = Some e -> e_max e = Some m ->
  e_completed (e_st e) = true.
Proof. exact no_wedge_fresh. Qed.
Print Assumptions C04_no_wedge_fresh.

(* No hot loop: in a quiescent state a further reconcile of any controller attempts no write and changes nothing in the store. *)
Theorem C04_no_hot_loop : forall w c key resp,
  quiescent w -> good_resp w resp -> pending_of w c = [] ->
  pending_of (step w (Begin c key resp false)) c = [] /\
  w_exp (step w (Begin c key resp false)) = w_exp w /\ w_sug (step w (Begin c key resp false)) = w_sug w /\
  w_trials (step w (Begin c key resp false)) = w_trials w /\ w_jobs (step w (Begin c key resp false)) = w_jobs w /\
  w_infra (step w (Begin c key resp false)) = w_infra w /\ w_db (step w (Begin c key resp false)) = w_db w /\
  g_writes (step w (Begin c key resp false)) = g_writes w.
Proof. exact quiescent_no_write. Qed.
Print Assumptions C04_no_hot_loop.

(* The at-rest clause of the quiescence monitor (Corr/WorldMon.verdict_at_rest: "environment done and a budget => verdict", the
   clause the check evaluates on the IMPLEMENTATION's final state) holds on the model's own projections: for every history of the
   model without teardown and with fresh algorithm replies that ends quiescent, any case whose final state is the projection of
   that world passes the clause.  The environment-done test is the monitor's boolean on the projection, not the model's Prop. *)
From KV Require Proofs.WorldRest Corr.WorldC Corr.WorldMon.
Theorem C04_monitor_at_rest_sound : forall c acts,
  valid_cfg c -> no_teardown acts -> fresh_run c acts -> quiescent (run c acts) ->
  forall k, WorldMon.last_state k = WorldC.project (run c acts) -> WorldMon.verdict_at_rest k = true.
Proof. exact WorldRest.verdict_at_rest_model. Qed.
Print Assumptions C04_monitor_at_rest_sound.

(* Non-vacuity: the final state of the repaired F18 history meets the premises, its environment is done in the monitor's sense
   and its experiment has a budget -- there the clause demands the verdict, and the verdict is there. *)
Theorem C04_monitor_at_rest_premises_satisfiable :
  valid_cfg f18_cfg /\ no_teardown f18_acts /\ fresh_run f18_cfg f18_acts /\ quiescent (run f18_cfg f18_acts) /\
  WorldMon.env_done (WorldC.project (run f18_cfg f18_acts)) = true /\
  exists e, WorldC.pj_exp (WorldC.project (run f18_cfg f18_acts)) = Some e /\ WorldC.pe_max e = Some 2 /\ WorldMon.pe_completed e = true.
Proof. exact WorldRest.at_rest_premises_hold. Qed.
Print Assumptions C04_monitor_at_rest_premises_satisfiable.
