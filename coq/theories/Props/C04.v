(* C04 — Experiments cannot wedge: quiescence implies a verdict; no hot loop. *)
From KV Require Import Base.Prelude Base.Cond Model.World Proofs.WorldPlan Proofs.EqbRefl.
Open Scope Z_scope.

(* The trial controller is never what wedges an experiment: a created, non-completed trial whose job is absent, or
   has failed, or has succeeded with its metrics in the DB, or is active but not yet reported Running, always gives
   its reconcile a write to issue (job creation or a status change) — for every snapshot. *)
Theorem C04_trial_progress : forall w t,
  t_is t TCreated = true -> t_completed t = false ->
  match find_job (t_name t) (w_jobs w) with
  | None => True
  | Some j => match j_phase j with
              | JActive => t_is t TRunning = false
              | JFail => True
              | JSucc => db_get (t_name t) (w_db w) <> None
              end
  end ->
  plan_trial_main w t false <> [].
Proof. exact trial_progress. Qed.
Print Assumptions C04_trial_progress.

(* No hot loop at the level of one reconcile: the final status update is only issued when the status differs. *)
Theorem C04_no_write_when_unchanged : forall e, status_write e (e_st e) = [].
Proof. intro e. unfold status_write. now rewrite estatus_eqb_refl. Qed.
Print Assumptions C04_no_write_when_unchanged.
