(* C17 — Generated algorithm-service resources are mutually consistent and reachable.
   This file contains only the property theorems (closed by [exact]) and their assumption audit.
   All theorems are about Model/Composer.v and quantify over ALL constants K (port numbers, names, label keys), ALL
   katib-config contents, ALL suggestions (names, namespaces, labels, algorithms, resume policies, early stopping) and
   both settings of the gRPC-probe switch. *)
From KV Require Import Base.Prelude Model.Composer Proofs.ComposerP Corr.C17 Proofs.C17Monitor.
Open Scope Z_scope.

(* The Service selects the Deployment's pods: its selector IS the pod template's label set and the Deployment's selector,
   in the same namespace; it carries the suggestion name and the deployment name; every label of the Suggestion other than
   the three katib keys is inherited. *)
Theorem C17_selects : forall K probe cfg s d,
  desired_deployment K probe cfg s = Ok d ->
  let sv := desired_service K s in
  sv_selector sv = d_tpl_labels d /\ d_selector d = d_tpl_labels d /\ sv_ns sv = d_ns d /\
  mget (k_l_suggestion K) (sv_selector sv) = Some (s_name s) /\
  (k_l_deployment K <> k_l_suggestion K -> k_l_deployment K <> k_l_experiment K ->
     mget (k_l_deployment K) (sv_selector sv) = Some (d_name d)) /\
  (forall k v, mget k (s_labels s) = Some v -> k <> k_l_suggestion K -> k <> k_l_experiment K -> k <> k_l_deployment K ->
     mget k (d_tpl_labels d) = Some v).
Proof. exact selects_thm. Qed.
Print Assumptions C17_selects.

(* ... and only those: a selector generated for s1 matches the pod labels generated for s2 (arbitrary user labels on both)
   only if both suggestions have the same name and the same algorithm. *)
Theorem C17_selects_exclusive : forall K s1 s2,
  k_l_deployment K <> k_l_suggestion K -> k_l_deployment K <> k_l_experiment K ->
  (forall k v, mget k (sv_selector (desired_service K s1)) = Some v -> mget k (suggestion_labels K s2) = Some v) ->
  s_name s1 = s_name s2 /\ s_algorithm s1 = s_algorithm s2.
Proof. exact selects_exclusive. Qed.
Print Assumptions C17_selects_exclusive.

(* The Service exposes exactly the suggestion port, followed by the early-stopping port iff early stopping is configured;
   the first container declares the suggestion port under its name and no other port of it carries that name or number;
   with early stopping a container named early-stopping declares the early-stopping port; every service port (no
   targetPort) is declared, by number and name, by some container; the endpoints returned by util.Get*Endpoint are
   <service name>.<service namespace>:<port>; the Service is of type ClusterIP. *)
Theorem C17_ports : forall K probe cfg s d,
  desired_deployment K probe cfg s = Ok d ->
  let sv := desired_service K s in
  sv_ports sv = SPort (k_port_name K) (k_port K) TDefault ::
                (if es_on s then [SPort (k_es_port_name K) (k_es_port K) TDefault] else []) /\
  (exists c rest, d_containers d = c :: rest /\ In (Port (k_port_name K) (k_port K)) (ct_ports c) /\
     forall p, In p (ct_ports c) -> p_name p = k_port_name K \/ p_num p = k_port K -> p = Port (k_port_name K) (k_port K)) /\
  (es_on s = true -> exists c, In c (d_containers d) /\ ct_name c = k_ctr_es K /\ ct_ports c = [Port (k_es_port_name K) (k_es_port K)]) /\
  (forall sp, In sp (sv_ports sv) -> sp_target sp = TDefault /\
     exists c p, In c (d_containers d) /\ In p (ct_ports c) /\ p_num p = sp_port sp /\ p_name p = sp_name sp) /\
  algorithm_endpoint K s = endpoint (sv_name sv) (sv_ns sv) (k_port K) /\
  early_stopping_endpoint K s = endpoint (sv_name sv) (sv_ns sv) (k_es_port K) /\
  sv_type sv = k_cluster_ip K.
Proof. exact ports_thm. Qed.
Print Assumptions C17_ports.

(* "iff early stopping is configured": the Service exposes the early-stopping port exactly when Spec.EarlyStopping names an
   algorithm, and exactly then the pod has the second (early-stopping) container. *)
Theorem C17_es_iff : forall K probe cfg s d,
  k_port K <> k_es_port K -> desired_deployment K probe cfg s = Ok d ->
  exposes (desired_service K s) (k_es_port K) = es_on s /\ length (d_containers d) = (if es_on s then 2%nat else 1%nat).
Proof. exact es_iff. Qed.
Print Assumptions C17_es_iff.

(* The dialling side: every target the suggestion client opens (Suggestion client: b = false, EarlyStopping client: b = true)
   is <service>.<namespace>:<port> for a port the Service exposes, and it is the port of that client's kind — for every
   suggestion whose Spec.EarlyStopping, when present, names an algorithm (es_wf: what the experiment webhook admits). *)
Theorem C17_dialled : forall K s b t,
  es_wf s = true -> In (b, t) (dialled K s) ->
  let sv := desired_service K s in
  exists sp, In sp (sv_ports sv) /\ t = endpoint (sv_name sv) (sv_ns sv) (sp_port sp) /\
             sp_port sp = (if b then k_es_port K else k_port K).
Proof. exact dialled_exposed. Qed.
Print Assumptions C17_dialled.

(* Without es_wf the statement fails: a Suggestion with earlyStopping: {algorithmName: ""} (not creatable through an admitted
   Experiment) makes the controller dial the early-stopping endpoint while neither the Service nor the pod has that port,
   because the composer tests "!= nil && AlgorithmName != ''" and the suggestion client / controller test "!= nil". *)
Definition K_pinned : consts :=
  Consts "suggestion-api" 6789 "earlystop-api" 6788 "suggestion" "early-stopping" "suggestion-volume"
         "katib.kubeflow.org/deployment" "katib.kubeflow.org/experiment" "katib.kubeflow.org/suggestion"
         "sidecar.istio.io/inject" "false" "FromVolume" "manager.v1beta1.Suggestion" "ClusterIP"
         "kubeflow.org/v1beta1" "Suggestion" "kubeflow.org" "trials" "*" "ServiceAccount" "rbac.authorization.k8s.io".

Theorem C17_dialled_empty_es_name_refuted : exists K s t,
  In (true, t) (dialled K s) /\ exposes (desired_service K s) (k_es_port K) = false.
Proof.
  exists K_pinned, (Suggestion "e" "ns" "u" [] [] "random" (Some ""%string) ""), "e-random.ns:6788"%string.
  vm_compute. split; [right; left; reflexivity|reflexivity].
Qed.
Print Assumptions C17_dialled_empty_es_name_refuted.

(* FromVolume: the pod's only volume is backed by the generated claim (same namespace) and the first (suggestion) container
   mounts it; DesiredVolume succeeds whenever DesiredDeployment does; without FromVolume the pod has no volume. *)
Theorem C17_volume : forall K probe cfg s d,
  desired_deployment K probe cfg s = Ok d ->
  (exists c pvo, desired_volume K cfg s = Ok (c, pvo)) /\
  forall c pvo, desired_volume K cfg s = Ok (c, pvo) ->
    (from_volume K s = true ->
       d_volumes d = [Volume (k_volume K) (pvc_name c)] /\ pvc_ns c = d_ns d /\
       exists ct rest, d_containers d = ct :: rest /\ exists m, In m (ct_mounts ct) /\ vm_name m = k_volume K) /\
    (from_volume K s = false -> d_volumes d = []).
Proof. exact volume_full. Qed.
Print Assumptions C17_volume.

(* The PV is generated iff the config entry has a PV spec; it is cluster scoped and carries no owner reference. *)
Theorem C17_volume_pv : forall K cfg s c pvo,
  desired_volume K cfg s = Ok (c, pvo) ->
  exists sc, get_suggestion_config cfg (s_algorithm s) = Ok sc /\ pvc_name c = pvc_name_of s /\ pvc_spec c = sc_pvc_spec sc /\
    match pvo with
    | Some v => sc_pv_spec sc = Some (pv_spec v) /\ pv_name v = pv_name_of s /\ pv_ns v = ""%string /\ pv_owners v = [] /\ pv_labels v = sc_pv_labels sc
    | None => sc_pv_spec sc = None
    end.
Proof. exact volume_pv. Qed.
Print Assumptions C17_volume_pv.

(* Early stopping and no custom service account: the pod runs under the generated ServiceAccount, the RoleBinding's only
   subject is that account, its roleRef is the generated Role (same namespace), the Role has all verbs on trials and
   trials/status, and the controller's guard holds so that the first reconcile creates all three without error.
   Custom service account: the pod runs under it (the controller generates no RBAC — the documented case).
   No early stopping: the pod runs under the configured account (possibly none). *)
Theorem C17_rbac : forall K probe cfg s d sc,
  desired_deployment K probe cfg s = Ok d -> get_suggestion_config cfg (s_algorithm s) = Ok sc ->
  forall a r b, desired_rbac K s = (a, r, b) ->
  (es_on s = true -> sc_sa sc = ""%string ->
     d_sa d = sa_name a /\ sa_ns a = d_ns d /\
     rb_subjects b = [Subject (k_sa_kind K) (sa_name a) (sa_ns a)] /\
     rb_ref_kind b = "Role"%string /\ rb_ref_name b = ro_name r /\ rb_ref_group b = k_rbac_group K /\
     rb_ns b = ro_ns r /\ ro_ns r = sa_ns a /\
     ro_rules r = [Rule [k_trial_group K] [k_plural_trial K; cat (k_plural_trial K) "/status"%string] [k_verb_all K]] /\
     rbac_guard s d = true /\
     (let fr := first_reconcile K probe cfg s in
      snd fr = false /\ In (ObjRef (kind_id KServiceAccount) (sa_ns a) (sa_name a)) (fst fr) /\
      In (ObjRef (kind_id KRole) (ro_ns r) (ro_name r)) (fst fr) /\ In (ObjRef (kind_id KRoleBinding) (rb_ns b) (rb_name b)) (fst fr))) /\
  (sc_sa sc <> ""%string -> d_sa d = sc_sa sc) /\
  (es_on s = false -> d_sa d = sc_sa sc).
Proof. exact rbac_thm. Qed.
Print Assumptions C17_rbac.

(* Every namespaced object is in the Suggestion's namespace and has exactly one owner reference: the controller reference
   to the Suggestion (name, uid, controller = blockOwnerDeletion = true).  The PV is cluster scoped and unowned. *)
Theorem C17_owned : forall K probe cfg s,
  let ref := OwnerRef (k_owner_api K) (k_owner_kind K) (s_name s) (s_uid s) true true in
  (forall d, desired_deployment K probe cfg s = Ok d -> d_ns d = s_ns s /\ d_owners d = [ref]) /\
  (sv_ns (desired_service K s) = s_ns s /\ sv_owners (desired_service K s) = [ref]) /\
  (forall c pvo, desired_volume K cfg s = Ok (c, pvo) ->
     pvc_ns c = s_ns s /\ pvc_owners c = [ref] /\ forall v, pvo = Some v -> pv_ns v = ""%string /\ pv_owners v = []) /\
  (forall a r b, desired_rbac K s = (a, r, b) ->
     sa_ns a = s_ns s /\ sa_owners a = [ref] /\ ro_ns r = s_ns s /\ ro_owners r = [ref] /\ rb_ns b = s_ns s /\ rb_owners b = [ref]).
Proof. exact owned_thm. Qed.
Print Assumptions C17_owned.

(* ... and everything the first reconcile creates is in the Suggestion's namespace, except the cluster-scoped PV. *)
Theorem C17_created_namespaced : forall K probe cfg s o,
  In o (fst (first_reconcile K probe cfg s)) -> or_ns o = s_ns s \/ (or_kind o = kind_id KPV /\ or_ns o = ""%string).
Proof. exact first_reconcile_namespaced. Qed.
Print Assumptions C17_created_namespaced.

(* Remark (outside the per-Suggestion statement of C17): object names are not injective in (name, algorithm) when names or
   algorithm names contain dashes — two different Suggestions of one namespace can map to the same Service/Deployment name.
   By C17_selects_exclusive the Service of the first still never selects the pods of the second. *)
Theorem C17_name_collision_refuted : exists s1 s2,
  s_name s1 <> s_name s2 /\ s_ns s1 = s_ns s2 /\ service_name s1 = service_name s2 /\ deployment_name s1 = deployment_name s2.
Proof.
  exists (Suggestion "a-b" "ns" "u1" [] [] "c" None ""), (Suggestion "a" "ns" "u2" [] [] "b-c" None "").
  vm_compute. repeat split. discriminate.
Qed.
Print Assumptions C17_name_collision_refuted.

(* A usable config entry is rejected (error class 3) exactly when one of its ports has the suggestion port's name or number. *)
Theorem C17_reject_port : forall K probe cfg s sc,
  get_suggestion_config cfg (s_algorithm s) = Ok sc ->
  ((exists p, In p (ct_ports (sc_container sc)) /\ (p_name p = k_port_name K \/ p_num p = k_port K)) <->
   desired_deployment K probe cfg s = Err 3).
Proof. exact reject_port_thm. Qed.
Print Assumptions C17_reject_port.

(* The entry that applies is the LAST one of the list with the algorithm's name. *)
Theorem C17_config_last_wins : forall c alg sc,
  get_suggestion_config (Some c) alg = Ok sc ->
  exists l1 l2, kc_suggestions c = l1 ++ sc :: l2 /\ sc_algorithm sc = alg /\ forall x, In x l2 -> sc_algorithm x <> alg.
Proof. exact config_last_wins. Qed.
Print Assumptions C17_config_last_wins.

(* On plain valid inputs (usable entry touching no reserved port/volume name, usable early-stopping entry when one is named)
   all objects are generated and the first reconcile creates them without error. *)
Theorem C17_generated : forall K probe cfg s,
  plain_input K cfg s = true ->
  (exists d, desired_deployment K probe cfg s = Ok d) /\ (exists c pvo, desired_volume K cfg s = Ok (c, pvo)) /\
  snd (first_reconcile K probe cfg s) = false.
Proof. exact plain_generated. Qed.
Print Assumptions C17_generated.

(* The executable monitor that runs on implementation objects is implied by the theorems above: what the model generates
   always passes it (distinct port numbers; label keys of the Suggestion unique, as in a Go map). *)
Theorem C17_monitor_sound : forall K probe cfg s obs,
  k_port K <> k_es_port K -> k_cluster_ip K <> "ExternalName"%string -> NoDup (map fst (s_labels s)) ->
  monitor K cfg s (model_impl K probe cfg s obs) = true.
Proof. exact monitor_model. Qed.
Print Assumptions C17_monitor_sound.

(* Non-vacuity: a FromVolume suggestion with early stopping, user labels colliding with a katib key, a config with two entries
   for the algorithm (the last wins), an extra port and a PV: everything is generated and the hypotheses of the theorems hold. *)
Local Open Scope string_scope.
Example C17_nonvacuous :
  let K := K_pinned in
  let c0 := Container "" "img" "IfNotPresent" [Port "metrics" 9090] [] None None 0 0 in
  let cfg := Some (KatibConfig [SConfig "tpe" c0 false "custom-sa" "/data" 0 None [];
                                SConfig "tpe" c0 false "" "/opt/katib/data" 1 (Some 2%nat) [("type", "local")]]
                               [ESConfig "medianstop" "es-img" false "Always" 0]) in
  let s := Suggestion "exp" "ns1" "uid-1" [("katib.kubeflow.org/experiment", "other"); ("team", "ml")] [] "tpe" (Some "medianstop") "FromVolume" in
  plain_input K cfg s = true /\ es_on s = true /\ from_volume K s = true /\ es_wf s = true /\
  k_port K <> k_es_port K /\ k_cluster_ip K <> "ExternalName" /\ NoDup (map fst (s_labels s)) /\
  (exists d, desired_deployment K true cfg s = Ok d /\ d_sa d = "exp-tpe" /\ length (d_containers d) = 2%nat /\
             mget "katib.kubeflow.org/experiment" (d_tpl_labels d) = Some "exp") /\
  fst (first_reconcile K true cfg s) =
    [ObjRef 0 "" "exp-tpe-ns1"; ObjRef 1 "ns1" "exp-tpe"; ObjRef 2 "ns1" "exp-tpe"; ObjRef 3 "ns1" "exp-tpe";
     ObjRef 4 "ns1" "exp-tpe"; ObjRef 5 "ns1" "exp-tpe"; ObjRef 6 "ns1" "exp-tpe"] /\
  dialled K s = [(false, "exp-tpe.ns1:6789"); (true, "exp-tpe.ns1:6788")] /\
  (exists sc, get_suggestion_config cfg "tpe" = Ok sc /\ sc_sa sc = "") /\
  desired_deployment K true (Some (KatibConfig [SConfig "tpe" (Container "" "img" "" [Port "grpc" 6789] [] None None 0 0) false "" "/d" 0 None []] [])) s = Err 3.
Proof.
  cbv zeta. repeat split; try (vm_compute; reflexivity); try (vm_compute; discriminate).
  - repeat constructor; cbn; intuition discriminate.
  - eexists. repeat split; vm_compute; reflexivity.
  - eexists. split; vm_compute; reflexivity.
Qed.
