(* C02 — Trials run exactly what the algorithm suggested (assignment -> trial -> run spec).
   Only property theorems (closed by [exact]), their assumption audit, and Examples (non-vacuity, necessity of the
   hypotheses, the refutation witness of the pinned tree's stale metadata index).

   Strings are [list ascii] ([str]); a template is a list of chunks: [Lit text], [Ph name] = one occurrence of
   "${trialParameters.<name>}" ([Val] chunks only arise during the proofs).  [a_replace_seq ord s] is the Go loop
   `for ph, v := range placeHolderToValueMap { s = strings.Replace(s, ph, v, -1) }` run in the order [ord];
   [a_render_subst env chunks] is the specification: every placeholder occurrence replaced by its value, all other
   text unchanged.

   NOT covered here: C02_one_assignment_per_trial (invariant J1 of the joint controller model, DESIGN.md section 5);
   the JSON / YAML encoding around the string leaves (the harness decodes the real output and compares leaf by leaf,
   and checks that keys/nesting/non-string scalars are those of the template). *)
From KV Require Import Base.Prelude Model.Template Model.TrialInstance Proofs.TemplateP Proofs.TemplateA
  Proofs.TrialInstanceP Corr.C02 Proofs.C02Monitor.
From Coq Require Import Permutation.
Open Scope string_scope.
Open Scope list_scope.

(* Every replacement order (Go iterates a map) yields the simultaneous substitution.
   names_ok: placeholder names in the template and in the map contain no '{' and no '}' (the validating webhook's rule);
   lits_ok : no literal chunk ends in '$', and after every "${" inside a literal the text leaves "trialParameters." before
             that literal ends ("${HOME}", "${trialSpec.Name}" are fine; a literal ending in "${tri" is not);
   vals_ok : substituted values contain no '$'  (weaker than DESIGN.md's "no '$' and no '{'"; the '{' case is covered by
             forbidding literals that end in '$');
   the map has distinct keys (it is a Go map). *)
Theorem C02_substitution : forall (chunks : list achunk) (env ord : amap),
  names_ok chunks env -> lits_ok chunks -> vals_ok chunks env ->
  NoDup (map fst env) -> Permutation ord env ->
  a_replace_seq ord (a_render chunks) = a_render_subst env chunks.
Proof. exact a_substitution. Qed.
Print Assumptions C02_substitution.

(* ... and when every placeholder of the template is a key of the map, the text "${trialParameters." occurs nowhere in the result. *)
Theorem C02_no_leftover : forall (chunks : list achunk) (env : amap),
  names_ok chunks env -> lits_ok chunks -> vals_ok chunks env -> a_declared chunks env ->
  a_occursb c_open (a_render_subst env chunks) = false.
Proof. exact a_no_leftover. Qed.
Print Assumptions C02_no_leftover.

(* Second form: a literal MAY end in '$' (e.g. "cost$${trialParameters.x}") provided that, up to the next non-empty
   literal, no literal or value chunk after it starts with '{' and no substituted value starts with '{'
   ([a_wf2]: literals as in lits_ok except for the trailing '$', names without braces, [safe_after] behind every
   literal ending in '$'; [a_env_ok2]: names without braces, values without '$' and not starting with '{').
   Every template inside the hypotheses of C02_substitution satisfies [a_wf2]. *)
Theorem C02_substitution_dollar : forall (chunks : list achunk) (env ord : amap),
  a_wf2 chunks -> a_env_ok2 env -> NoDup (map fst env) -> Permutation ord env ->
  a_replace_seq ord (a_render chunks) = a_render_subst env chunks.
Proof. exact a_substitution2. Qed.
Print Assumptions C02_substitution_dollar.

Theorem C02_no_leftover_dollar : forall (chunks : list achunk) (env : amap),
  a_wf2 chunks -> a_env_ok2 env -> a_declared chunks env ->
  a_occursb c_open (a_render_subst env chunks) = false.
Proof. exact a_no_leftover2. Qed.
Print Assumptions C02_no_leftover_dollar.

(* The same at the level of applyParameters: for the placeholder map built from the trial parameters, the assignments
   and the trial metadata, iterated in any order. *)
Theorem C02_apply_parameters : forall gi chunks env (reorder : amap -> amap),
  (forall e, Permutation (reorder e) e) ->
  tpl_names_ok gi chunks -> lits_ok chunks -> tpl_vals_ok chunks -> gi_vals_ok gi ->
  build_env gi = Ok env ->
  apply_parameters reorder gi (a_render chunks) = Ok (a_render_subst env chunks).
Proof. exact apply_parameters_ok. Qed.
Print Assumptions C02_apply_parameters.

Theorem C02_apply_parameters_no_leftover : forall gi chunks env,
  tpl_names_ok gi chunks -> lits_ok chunks -> tpl_vals_ok chunks -> gi_vals_ok gi ->
  build_env gi = Ok env ->
  (forall n, In (Ph n) chunks -> In n (map fst (gi_tps gi))) ->
  a_occursb c_open (a_render_subst env chunks) = false.
Proof. exact apply_parameters_no_leftover. Qed.
Print Assumptions C02_apply_parameters_no_leftover.

(* What the map is: its keys are the trial-parameter names and (names being distinct) each name is mapped to what its
   reference denotes — the assigned value or the referenced trial metadata ([meaning]); the references all resolve and
   the number of assignments equals the number of non-meta parameters. *)
Theorem C02_env_values : forall gi e, build_env gi = Ok e ->
  refs_resolve gi
  /\ length (gi_assign gi) = length (plain_refs (gi_tps gi))
  /\ NoDup (map fst e)
  /\ (forall k, In k (map fst e) <-> In k (map fst (gi_tps gi)))
  /\ (NoDup (map fst (gi_tps gi)) -> forall n r, In (n, r) (gi_tps gi) ->
        exists v, meaning gi r = Ok v /\ a_lookup n e = Some v)
  /\ (forall P : str -> Prop, (forall r v, In r (map snd (gi_tps gi)) -> meaning gi r = Ok v -> P v) ->
        forall v, In v (map snd e) -> P v).
Proof. exact build_env_ok. Qed.
Print Assumptions C02_env_values.

(* [meaning] on the four index-free metadata references, for every input *)
Theorem C02_meta_simple : forall gi,
  meaning gi (s2l "${trialSpec.Name}") = Ok (gi_tname gi) /\
  meaning gi (s2l "${trialSpec.Namespace}") = Ok (gi_tns gi) /\
  meaning gi (s2l "${trialSpec.Kind}") = Ok (gi_kind gi) /\
  meaning gi (s2l "${trialSpec.APIVersion}") = Ok (gi_apiv gi).
Proof. exact meaning_simple. Qed.
Print Assumptions C02_meta_simple.

(* ... and on indexed references, for every index free of '[' ']' '}' and newline *)
Theorem C02_meta_indexed : forall gi k, index_ok k ->
  meaning gi (s2l "${trialSpec.Labels[" ++ k ++ s2l "]}")%list =
    match a_lookup k (gi_labels gi) with Some v => Ok v | None => Err E_bad_meta end /\
  meaning gi (s2l "${trialSpec.Annotations[" ++ k ++ s2l "]}")%list =
    match a_lookup k (gi_annots gi) with Some v => Ok v | None => Err E_bad_meta end.
Proof. exact meaning_indexed. Qed.
Print Assumptions C02_meta_indexed.

(* a reference that is no metadata reference denotes the value of the assignment of that name (names distinct) *)
Theorem C02_plain_reference : forall gi r v, is_plain r = true ->
  (meaning gi r = Ok v -> In (r, v) (gi_assign gi)) /\
  (NoDup (map fst (gi_assign gi)) -> In (r, v) (gi_assign gi) -> meaning gi r = Ok v).
Proof. exact meaning_plain. Qed.
Print Assumptions C02_plain_reference.

(* Count check and error branches. *)
(* (a) the first trial parameter whose reference denotes nothing decides the error *)
Theorem C02_count_check_first_error : forall gi ps1 n r ps2 c,
  gi_tps gi = ps1 ++ (n, r) :: ps2 ->
  Forall (fun p => is_ok (meaning gi (snd p)) = true) ps1 -> meaning gi r = Err c ->
  build_env gi = Err c.
Proof. exact build_env_first_error. Qed.
Print Assumptions C02_count_check_first_error.

(* (b) a non-meta reference without assignment: never a map *)
Theorem C02_count_check_missing : forall gi n r,
  In (n, r) (gi_tps gi) -> is_plain r = true -> ~ In r (map fst (gi_assign gi)) ->
  exists c, build_env gi = Err c /\ (c = E_no_assignment \/ c = E_bad_meta).
Proof. exact count_check_missing. Qed.
Print Assumptions C02_count_check_missing.

(* (c) an assignment consumed by no non-meta trial parameter: never a map; errParamNotFoundInTrialParameters when all references resolve *)
Theorem C02_count_check_extra : forall gi a,
  NoDup (map fst (gi_assign gi)) -> NoDup (plain_refs (gi_tps gi)) ->
  In a (map fst (gi_assign gi)) -> ~ In a (plain_refs (gi_tps gi)) ->
  exists c, build_env gi = Err c /\ (refs_resolve gi -> c = E_count).
Proof. exact count_check_extra. Qed.
Print Assumptions C02_count_check_extra.

(* (d) conversely a map is built exactly when every reference resolves and the counts agree; then assignments and
       non-meta parameters correspond one to one *)
Theorem C02_count_check_total : forall gi, refs_resolve gi ->
  length (gi_assign gi) = length (plain_refs (gi_tps gi)) -> exists e, build_env gi = Ok e.
Proof. exact build_env_total. Qed.
Print Assumptions C02_count_check_total.

Theorem C02_count_check_ok : forall gi e, build_env gi = Ok e ->
  (forall r, In r (plain_refs (gi_tps gi)) -> In r (map fst (gi_assign gi)))
  /\ (NoDup (map fst (gi_assign gi)) -> NoDup (plain_refs (gi_tps gi)) ->
      forall a, In a (map fst (gi_assign gi)) -> In a (plain_refs (gi_tps gi))).
Proof. exact count_check_ok. Qed.
Print Assumptions C02_count_check_ok.

(* getTrialInstance, field by field.  In the labels the assignment's labels take precedence over the forced
   experiment-name label, which takes precedence over the experiment's labels ([rev]: the last binding of a key wins;
   immaterial for Go maps, whose keys are distinct). *)
Theorem C02_trial_fields : forall gen e a t, get_trial_instance gen e a = Ok t ->
  exists tpl, e_tt e = Some tpl
  /\ t_name t = a_name a
  /\ t_ns t = e_ns e
  /\ (forall k, nlookup k (t_labels t) =
        match match a_labels a with Some al => nlookup k (rev al) | None => None end with
        | Some v => Some v
        | None => if Nat.eqb k label_experiment then Some (e_name e) else nlookup k (rev (e_labels e))
        end)
  /\ t_owners t = [controller_ref e]
  /\ t_objective t = e_objective e
  /\ t_params t = a_params a
  /\ t_rules t = (if e_es e then a_rules a else [])
  /\ gen (a_name a) (e_ns e) (a_params a) = Ok (t_runspec t)
  /\ t_retain t = tt_retain tpl
  /\ t_collector t = e_collector e
  /\ t_ppl t = tt_ppl tpl
  /\ t_pcn t = tt_pcn tpl
  /\ (tt_succ tpl <> 0 -> tt_fail tpl <> 0 -> t_succ t = tt_succ tpl /\ t_fail t = tt_fail tpl)
  /\ t_status_empty t = true.
Proof. exact trial_fields. Qed.
Print Assumptions C02_trial_fields.

Theorem C02_trial_generator_error : forall gen e a tpl c, e_tt e = Some tpl ->
  gen (a_name a) (e_ns e) (a_params a) = Err c -> get_trial_instance gen e a = Err c.
Proof. exact trial_gen_error. Qed.
Print Assumptions C02_trial_generator_error.

(* The run spec is named and namespaced as the trial; its string leaves (map keys included) are the template's leaves
   after the replacement loop.  (That no key/nesting/non-string scalar changes is checked on the decoded objects by the harness.) *)
Theorem C02_run_spec_named : forall reorder src gi leaves rs,
  get_run_spec reorder src gi leaves = Ok rs ->
  rs_name rs = gi_tname gi /\ rs_ns rs = gi_tns gi /\ get_template_check src = Ok tt /\
  exists env, build_env gi = Ok env /\ rs_leaves rs = map (a_replace_seq (reorder env)) leaves.
Proof. exact run_spec_named. Qed.
Print Assumptions C02_run_spec_named.

Theorem C02_run_spec : forall (reorder : amap -> amap) src gi (tpl : list (list achunk)) env,
  (forall e, Permutation (reorder e) e) ->
  Forall (fun cs => tpl_names_ok gi cs /\ lits_ok cs /\ tpl_vals_ok cs) tpl -> gi_vals_ok gi ->
  get_template_check src = Ok tt -> build_env gi = Ok env ->
  get_run_spec reorder src gi (map a_render tpl) =
  Ok {| rs_leaves := map (a_render_subst env) tpl; rs_name := gi_tname gi; rs_ns := gi_tns gi |}.
Proof. exact run_spec_ok. Qed.
Print Assumptions C02_run_spec.

(* End to end, with hypotheses on the inputs only: well-formed document, safe values, distinct trial-parameter names, the
   template is available, every reference denotes something and the counts agree.  Then for EVERY iteration order of the
   placeholder map the run spec is the template with each placeholder occurrence replaced by what the reference of its
   trial parameter denotes, named and namespaced as the trial. *)
Theorem C02_end_to_end : forall (reorder : amap -> amap) src gi (tpl : list (list achunk)),
  (forall e, Permutation (reorder e) e) ->
  Forall (fun cs => tpl_names_ok gi cs /\ lits_ok cs /\ tpl_vals_ok cs) tpl -> gi_vals_ok gi ->
  NoDup (map fst (gi_tps gi)) ->
  get_template_check src = Ok tt -> refs_resolve gi -> length (gi_assign gi) = length (plain_refs (gi_tps gi)) ->
  exists env,
    get_run_spec reorder src gi (map a_render tpl) =
      Ok {| rs_leaves := map (a_render_subst env) tpl; rs_name := gi_tname gi; rs_ns := gi_tns gi |}
    /\ (forall n r, In (n, r) (gi_tps gi) -> exists v, meaning gi r = Ok v /\ a_lookup n env = Some v)
    /\ (forall n, a_lookup n env <> None <-> In n (map fst (gi_tps gi))).
Proof. exact run_spec_end_to_end. Qed.
Print Assumptions C02_end_to_end.

(* Errors: a missing ConfigMap / template path / unparsable template first, then the error of the placeholder map; these are the only ones. *)
Theorem C02_run_spec_source_error : forall reorder src gi leaves c,
  get_template_check src = Err c -> get_run_spec reorder src gi leaves = Err c.
Proof. exact run_spec_source_error. Qed.
Print Assumptions C02_run_spec_source_error.

Theorem C02_run_spec_error : forall reorder src gi leaves c,
  get_template_check src = Ok tt -> build_env gi = Err c -> get_run_spec reorder src gi leaves = Err c.
Proof. exact run_spec_error. Qed.
Print Assumptions C02_run_spec_error.

Theorem C02_apply_parameters_error : forall reorder gi tpl c, build_env gi = Err c -> apply_parameters reorder gi tpl = Err c.
Proof. exact apply_parameters_error. Qed.
Print Assumptions C02_apply_parameters_error.

Theorem C02_error_codes : forall gi c, build_env gi = Err c -> c = E_no_assignment \/ c = E_bad_meta \/ c = E_count.
Proof. exact build_env_error_codes. Qed.
Print Assumptions C02_error_codes.

(* Substitution is local: the text between string leaves (JSON / YAML syntax) is just more literal text. *)
Theorem C02_substitution_local : forall (e : amap) (cs1 cs2 : list achunk),
  a_render_subst e (cs1 ++ cs2) = a_render_subst e cs1 ++ a_render_subst e cs2.
Proof. exact (render_subst_app ascii Ascii.eqb c_d c_lb c_rb c_pre). Qed.
Print Assumptions C02_substitution_local.

(* The executable monitors that run on implementation outputs are implied by the theorems. *)
Theorem C02_monitor_sound : forall (reorder : amap -> amap) src gi tpl,
  (forall e, Permutation (reorder e) e) -> doc_ok gi tpl -> gi_vals_ok gi ->
  g_monitor src gi tpl (obs_of_run (get_run_spec reorder src gi (map a_render tpl))) = true.
Proof. exact g_monitor_model. Qed.
Print Assumptions C02_monitor_sound.

Theorem C02_trial_monitor_sound : forall gen e a, labels_wf e a ->
  t_monitor e a (gen (a_name a) (e_ns e) (a_params a)) (get_trial_instance gen e a) = true.
Proof. exact t_monitor_model. Qed.
Print Assumptions C02_trial_monitor_sound.

(* ------------------------------------------------------------------ Examples *)

Definition L (s : string) : achunk := Lit (s2l s).
Definition P (s : string) : achunk := Ph (s2l s).
Definition E (l : list (string * string)) : amap := map (fun p => (s2l (fst p), s2l (snd p))) l.

(* Non-vacuity: a template with shell-style text, a placeholder whose name is a prefix of another's, repeated and
   adjacent occurrences, satisfies all hypotheses; both orders give the expected text. *)
Example C02_nonvacuous :
  let chunks := [L "python --lr="; P "lr"; L " --lr2="; P "lr2"; P "lr"; L " ${HOME} $(X) ${trialSpec.Name} {}"] in
  let env := E [("lr", "0.01"); ("lr2", "trialParameters.lr")] in
  (names_ok chunks env /\ lits_ok chunks /\ vals_ok chunks env /\ NoDup (map fst env)) /\ a_declared chunks env /\
  a_replace_seq env (a_render chunks) = s2l "python --lr=0.01 --lr2=trialParameters.lr0.01 ${HOME} $(X) ${trialSpec.Name} {}" /\
  a_replace_seq (rev env) (a_render chunks) = s2l "python --lr=0.01 --lr2=trialParameters.lr0.01 ${HOME} $(X) ${trialSpec.Name} {}".
Proof.
  cbv zeta. split; [apply hyps_b; reflexivity|]. split; [apply (declaredb_spec ascii Ascii.eqb); reflexivity|].
  split; reflexivity.
Qed.

(* Necessity of lits_ok: a literal that ends inside "${trialPar…": all other hypotheses hold, two orders give two texts. *)
Example C02_lits_ok_necessary :
  let chunks := [L "${trialPar"; P "a"; L "}"] in
  let env := E [("a", "ameters.b"); ("b", "X")] in
  names_ok chunks env /\ vals_ok chunks env /\ NoDup (map fst env) /\
  a_replace_seq env (a_render chunks) = s2l "X" /\
  a_replace_seq (rev env) (a_render chunks) = s2l "${trialParameters.b}".
Proof.
  cbv zeta.
  split; [split; [intros n [H|[H|[H|[]]]]; try discriminate H; injection H as <-;
                    apply (name_okb_spec ascii Ascii.eqb Ascii.eqb_spec); reflexivity|apply keys_okb_intro; reflexivity]|].
  split; [split; [intros v [H|[H|[H|[]]]]; discriminate H|apply vals_okb_intro; reflexivity]|].
  split; [apply nodupb_spec; reflexivity|]. split; reflexivity.
Qed.

(* ... and a literal ending in '$' next to a value starting with '{' (values may contain '{'). *)
Example C02_lits_ok_necessary_dollar :
  let chunks := [L "$"; P "a"; L "}"] in
  let env := E [("a", "{trialParameters.b"); ("b", "X")] in
  a_replace_seq env (a_render chunks) = s2l "X" /\
  a_render_subst env chunks = s2l "${trialParameters.b}" /\
  forallb a_val_okb (map snd env) = true /\ forallb a_name_okb (map fst env) = true.
Proof. cbv zeta. split; [|split; [|split]]; reflexivity. Qed.

(* Necessity of vals_ok: a value containing '$' completes a placeholder with the literal that follows. *)
Example C02_vals_ok_necessary :
  let chunks := [P "a"; L "{trialParameters.b}"] in
  let env := E [("a", "$"); ("b", "X")] in
  forallb a_chunk_okb chunks = true /\ forallb a_name_okb (map fst env) = true /\
  a_replace_seq env (a_render chunks) = s2l "X" /\
  a_render_subst env chunks = s2l "${trialParameters.b}".
Proof. cbv zeta. split; [|split; [|split]]; reflexivity. Qed.

(* Necessity of names_ok: with '}' in a name one placeholder is a prefix of another. *)
Example C02_names_ok_necessary :
  let chunks := [P "a}"] in
  let env := E [("a", "2"); ("a}", "1")] in
  nodupb (map fst env) = true /\ forallb a_val_okb (map snd env) = true /\
  a_replace_seq env (a_render chunks) = s2l "2}" /\
  a_render_subst env chunks = s2l "1".
Proof. cbv zeta. split; [|split; [|split]]; reflexivity. Qed.

(* Non-vacuity of the second form: literals ending in '$' followed by a placeholder, by the end of the text and by an
   empty value. *)
Example C02_dollar_nonvacuous :
  let chunks := [L "cost$"; P "x"; L " a$"; P "y"; L " {}$"] in
  let env := E [("x", "12"); ("y", "")] in
  a_wf2 chunks /\ a_env_ok2 env /\ NoDup (map fst env) /\
  a_lit_ok (s2l "cost$") = false /\
  a_replace_seq (rev env) (a_render chunks) = s2l "cost$12 a$ {}$".
Proof.
  cbv zeta. split; [apply a_wf2b_spec; reflexivity|]. split; [apply a_env_ok2b_spec; reflexivity|].
  split; [apply nodupb_spec; reflexivity|]. split; reflexivity.
Qed.

(* A value taken from trial metadata may itself contain a placeholder (an annotation "${trialParameters.x}" read through
   ${trialSpec.Annotations[k]}): outside vals_ok, and indeed order dependent. *)
Example C02_meta_value_with_placeholder :
  let chunks := [P "m"] in
  let env := E [("m", "${trialParameters.x}"); ("x", "1")] in
  a_replace_seq env (a_render chunks) = s2l "1" /\ a_replace_seq (rev env) (a_render chunks) = s2l "${trialParameters.x}".
Proof. split; reflexivity. Qed.

(* The pinned tree (finding C02/meta-stale-index): `metaRefIndex` is declared outside the loop, so after
   ${trialSpec.Labels[app]} the index-less reference ${trialSpec.Annotations} silently reads annotation "app".
   The repaired loop ([build_env], what the theorems above are about) rejects it. *)
Definition stale_input : gen_input :=
  {| gi_tps := E [("a", "${trialSpec.Labels[app]}"); ("b", "${trialSpec.Annotations}")]; gi_assign := [];
     gi_tname := s2l "t1"; gi_tns := s2l "ns"; gi_kind := s2l "Job"; gi_apiv := s2l "batch/v1";
     gi_annots := E [("app", "secret-note")]; gi_labels := E [("app", "mnist")] |}.

Example C02_meta_stale_index_refuted :
  exists gi, build_env_stale gi = Ok (E [("a", "mnist"); ("b", "secret-note")])
             /\ meaning gi (s2l "${trialSpec.Annotations}") = Err E_bad_meta
             /\ build_env gi = Err E_bad_meta.
Proof. exists stale_input. split; [|split]; reflexivity. Qed.

(* the metadata-reference scanner on the reference shapes of the documentation and some odd ones *)
Example C02_meta_scanner :
  find_meta (s2l "${trialSpec.Labels[katib.kubeflow.org/x]}") = Some (s2l "Labels[katib.kubeflow.org/x]") /\
  parse_index (s2l "Labels[katib.kubeflow.org/x]") = Some (s2l "Labels", s2l "katib.kubeflow.org/x") /\
  parse_index (s2l "Labels[a][b]") = Some (s2l "Labels[a]", s2l "b") /\
  parse_index (s2l "Labels[a]]") = Some (s2l "Labels", s2l "a]") /\
  parse_index (s2l "[a]") = None /\ parse_index (s2l "Labels[]") = None /\
  find_meta (s2l "x${trialSpec.Kind}y") = Some (s2l "Kind") /\
  find_meta (s2l "${trialSpec.}}") = Some (s2l "}") /\
  find_meta (s2l "${trialSpec.}") = None /\ find_meta (s2l "lr") = None.
Proof. repeat split; reflexivity. Qed.
