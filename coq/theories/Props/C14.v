(* C14 — Admission soundness: an Experiment admitted by the defaulting + validating webhooks can actually run.
   Only theorem statements (closed by [exact]) and their assumption audit.  The model is Model/Validator.v;
   [admitted en e0] := validate en (set_default e0) = Ok []  (no field.Error after defaulting).
   The name rule in the model is the ANCHORED regexp (fix F7); the unanchored rule of the pinned tree is refuted below.
   The model contains the repaired rules 59 (duplicate parameter name, F8b) and 60 (unreferenced parameter, F8). *)
From KV Require Import Base.Prelude Base.StrFind Base.DnsName Model.Validator Proofs.ValidatorP Proofs.C14Examples Corr.C14 Proofs.C14Monitor.
Open Scope string_scope.
Open Scope list_scope.
Open Scope Z_scope.

(* Validation of a defaulted Experiment never panics, whatever its content, the configuration, the ConfigMaps, the library
   answers, and (update path, C15) whatever the update branch contributes. *)
Theorem C14_no_crash : forall en e mid s, validate_gen en (set_default e) mid <> Crash s.
Proof. exact validate_gen_no_crash. Qed.
Print Assumptions C14_no_crash.

(* Accepted by the webhooks => parallelTrialCount >= 1; maxTrialCount absent or >= 1 and >= parallel; maxFailedTrialCount absent or in 0..max. *)
Theorem C14_budget : forall en e0, admitted en e0 ->
  let e := set_default e0 in
  exists p, e_par e = Some p /\ 1 <= p /\
            (e_max e = None \/ exists m, e_max e = Some m /\ 1 <= m /\ p <= m) /\
            (e_mf e = None \/ exists f, e_mf e = Some f /\ 0 <= f /\ (forall m, e_max e = Some m -> f <= m)).
Proof. exact admitted_budget_spec. Qed.
Print Assumptions C14_budget.

(* Accepted by the webhooks => every pointer the controllers, the generator and the pod webhook dereference is present
   (the list is [derefs_ok] in Model/Validator.v, with the Go sites it was collected from). *)
Theorem C14_derefs : forall en e0, admitted en e0 -> derefs_ok (set_default e0) = true.
Proof. exact admitted_derefs. Qed.
Print Assumptions C14_derefs.

(* Repaired defects duplicate-parameter-name (F8b, rule 59) and unreferenced-parameter (F8, rule 60): an admitted experiment has
   distinct parameter names, and every parameter is the reference of a trial parameter that consumes an assignment (one whose
   reference is not of the trial-metadata form).  Before the repairs both statements were refuted by admitted experiments. *)
Theorem C14_parameters_distinct : forall en e0, admitted en e0 -> NoDup (map p_name (e_params e0)).
Proof. exact admitted_params_distinct. Qed.
Print Assumptions C14_parameters_distinct.

Theorem C14_parameters_referenced : forall en e0, admitted en e0 ->
  forall t ps, e_template (set_default e0) = Some t -> t_params t = Some ps ->
  forall n, In n (map p_name (e_params e0)) -> exists p, In p ps /\ non_meta p = true /\ tp_ref p = n.
Proof. exact admitted_params_referenced. Qed.
Print Assumptions C14_parameters_referenced.

(* FULL statement (not proved): admitted -> for every assignment of feasible values, GetRunSpecWithHyperParameters returns a well-formed
   run object.  PROVED PART: on [runnable] experiments (hyperparameter experiment; trial-metadata references resolvable; a ConfigMap
   template is YAML before substitution) and for every assignment giving one value to each parameter, applyParameters succeeds:
   template fetched, every reference resolved, count check passed.  Distinct parameter names and "every parameter referenced" are
   no longer hypotheses: they follow from admission (rules 59 and 60).
   NOT proved: that the substituted text decodes (YAML/JSON) - observed by the harness on real instantiations. *)
Theorem C14_template_runs_partial : forall en e0 asg,
  admitted en e0 -> runnable en (set_default e0) -> assignment_for (set_default e0) asg ->
  exists m, apply_parameters en (set_default e0) asg = Ok m.
Proof. exact template_runs. Qed.
Print Assumptions C14_template_runs_partial.

(* The former counterexamples (corpus of KNOWN_FINDINGS F8 / F8b) are rejected by the repaired validator - and would indeed fail
   the generator's count check; so is a parameter whose name has the form of a trial-metadata reference. *)
Example C14_unreferenced_rejected :
  validate ex_env (set_default f8_exp) = Ok [(60%nat, 2%nat)] /\
  apply_parameters ex_env (set_default f8_exp) [("lr", "3"); ("mom", "0.9"); ("extra", "1")] = Err 5%nat.
Proof. exact (conj f8_rejected f8_would_fail). Qed.

Example C14_duplicate_rejected :
  validate ex_env (set_default f8b_exp) = Ok [(59%nat, 2%nat)] /\
  apply_parameters ex_env (set_default f8b_exp) [("lr", "3"); ("mom", "0.9"); ("lr", "1")] = Err 5%nat.
Proof. exact (conj f8b_rejected f8b_would_fail). Qed.

Example C14_metadata_named_parameter_rejected : validate ex_env (set_default f8c_key_exp) = Ok [(60%nat, 1%nat)].
Proof. exact f8c_key_rejected. Qed.

(* Outside [runnable] the full statement is still false for the faithful model (and for the code: KNOWN-FINDING key
   unresolvable-trial-metadata: a reference to a label/annotation the template does not carry is admitted; the repair would change
   the results of the existing TestValidateTrialTemplate, which pins that acceptance). *)
Theorem C14_template_runs_refuted_metadata : exists en e0 asg,
  admitted en e0 /\ assignment_for (set_default e0) asg /\ apply_parameters en (set_default e0) asg = Err 4%nat.
Proof. exact f8c_refuted. Qed.
Print Assumptions C14_template_runs_refuted_metadata.

(* Accepted by the webhooks (anchored name rule, <= 40 bytes) and an algorithm name that is a DNS-1123 label of <= 22 bytes =>
   <name>-<algorithm> is a DNS-1035 label (Service) and a DNS subdomain (Deployment); <name>-<8 alphanumerics> is a DNS-1123
   label and subdomain (Trial and the Job named after it). *)
Theorem C14_names : forall en e0 algo suffix,
  admitted en e0 ->
  dns1123_label algo = true -> (String.length algo <= 22)%nat ->
  forallb is_alnum (chars suffix) = true -> String.length suffix = 8%nat ->
  dns1035_label (suggestion_resource_name (e_name e0) algo) = true /\
  dns_subdomain (suggestion_resource_name (e_name e0) algo) = true /\
  dns1123_label (trial_name (e_name e0) suffix) = true /\
  dns_subdomain (trial_name (e_name e0) suffix) = true.
Proof. exact admitted_names. Qed.
Print Assumptions C14_names.

(* With the unanchored rule of the pinned tree (F7) the name statement is false: "a.b" passes it and yields an illegal Service
   name; "aB_c" yields illegal Deployment and Trial names. *)
Theorem C14_names_refuted :
  (exists n, name_rule_unanchored n = true /\ (String.length n <= 40)%nat /\
             dns1035_label (suggestion_resource_name n "random") = false) /\
  (exists n, name_rule_unanchored n = true /\ (String.length n <= 40)%nat /\
             dns_subdomain (suggestion_resource_name n "random") = false /\ dns_subdomain (trial_name n "bcdf2456") = false).
Proof. exact names_refuted. Qed.
Print Assumptions C14_names_refuted.

(* The executable monitor run on implementation outputs is implied by the theorems: on the model's own outputs it passes. *)
Theorem C14_monitor_sound : forall en e0 algo suffix incfg asgs,
  suffix <> "" -> forallb is_alnum (chars suffix) = true -> (String.length suffix <= 22)%nat ->
  (dns1123_label algo && (String.length algo <=? 22)%nat)%bool = true \/ incfg = true ->
  (admitted en e0 -> runnable en (set_default e0) /\ Forall (assignment_for (set_default e0)) asgs) ->
  monitor true (set_default e0) (validate en (set_default e0)) (Some (model_names (set_default e0) algo suffix incfg))
          (map (model_run en (set_default e0)) asgs) = true.
Proof. exact monitor_model. Qed.
Print Assumptions C14_monitor_sound.

(* Non-vacuity: a concrete experiment (shape of validator_test.go: two parameters, inline template, everything else defaulted) is
   admitted, is runnable, and a trial is built from an assignment given in another order. *)
Example C14_nonvacuous :
  admitted ex_env ex_exp /\ runnable ex_env (set_default ex_exp) /\
  apply_parameters ex_env (set_default ex_exp) [("mom", "0.9"); ("lr", "3")] = Ok [("learningRate", VAssign "3"); ("momentum", VAssign "0.9")].
Proof. exact (conj ex_admitted (conj ex_runnable ex_runs)). Qed.
