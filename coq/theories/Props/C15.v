(* C15 — After creation only parallelTrialCount, maxTrialCount and maxFailedTrialCount of an Experiment can change.
   Only theorem statements (closed by [exact]) and their assumption audit.  Model: Model/UpdateRule.v on top of Model/Validator.v.
   R is ANY type with decidable equality standing for "the rest of the spec, compared by DeepEqual". *)
From KV Require Import Base.Prelude Base.StrFind Model.Validator Model.UpdateRule Proofs.ValidatorP Proofs.UpdateRuleP Proofs.C14Examples
     Corr.C15 Proofs.C15Monitor.
Open Scope string_scope.
Open Scope list_scope.
Open Scope Z_scope.

(* An update is admitted iff the new object passes the creation rules, nothing but the three budget fields differs, and - when
   they do differ - the new maxTrialCount (if set) exceeds status.trials and a completed experiment is restartable. *)
Theorem C15_update : forall (R : Type) (dec : forall a b : R, {a = b} + {a <> b}) en e rest (o : stored R),
  validate_update dec en e rest o = Ok [] <->
  validate en e = Ok [] /\ rest = o_rest o /\
  (budget_of e <> stored_budget o ->
   (forall m, e_max e = Some m -> o_trials o < m) /\ (is_completed (o_conds o) = true -> restartable o = true)).
Proof. exact update_iff. Qed.
Print Assumptions C15_update.

(* restartable = succeeded (first Succeeded condition is True) with reason ExperimentMaxTrialsReached and resumePolicy LongRunning or FromVolume *)
Theorem C15_restartable : forall (R : Type) (o : stored R),
  restartable o = true <->
  (exists c, get_ocond (o_conds o) 3 = Some c /\ oc_true c = true /\ oc_maxreached c = true) /\ (o_resume o = RLong \/ o_resume o = RVolume).
Proof. exact restartable_spec. Qed.
Print Assumptions C15_restartable.

(* Updates that leave the spec untouched (status, metadata, finalizers) are admitted whenever the spec itself passes the creation
   rules under the current configuration - whatever the completion state and status.trials. *)
Theorem C15_noop : forall (R : Type) (dec : forall a b : R, {a = b} + {a <> b}) en e rest (o : stored R),
  validate en e = Ok [] -> budget_of e = stored_budget o -> rest = o_rest o -> validate_update dec en e rest o = Ok [].
Proof. exact update_noop. Qed.
Print Assumptions C15_noop.

(* Table obligation over coq/theories/Gen/SpecFields.v (regenerated from reflect.TypeOf(ExperimentSpec{}) on every run): every leaf
   and every pointer/slice/map node of the Go type is a budget field or is in the list the C15 driver mutates one at a time; and the
   three budget fields exist under these names.  A field added to ExperimentSpec that the driver cannot mutate breaks this. *)
Theorem C15_fields_swept :
  fields_covered = true /\ forallb (fun p => str_mem p (SpecFields.spec_leaves ++ SpecFields.spec_nodes)) budget_paths = true.
Proof. exact fields_swept. Qed.
Print Assumptions C15_fields_swept.

(* The executable monitor run on implementation outputs is implied by the theorems: on the model's own outputs it passes. *)
Theorem C15_monitor_sound : forall en e0 rest (o : stored string) oa,
  let e := set_default e0 in
  (oa = true -> budget_of e = stored_budget o -> rest = o_rest o -> validate en e = Ok []) ->
  monitor (budget_of e) rest o oa (validate_update string_dec en e rest o) = true.
Proof. exact monitor_model. Qed.
Print Assumptions C15_monitor_sound.

(* Non-vacuity: for the admitted example of C14, raising maxTrialCount of a run that succeeded by reaching max trials under
   LongRunning is admitted; the same edit under Never, or not above status.trials, or together with any other change, is rejected. *)
Example C15_nonvacuous :
  let e := set_default ex_exp in
  let done := [ {| oc_type := 3; oc_true := true; oc_maxreached := true |} ] in
  let o r := Build_stored (Some 3) (Some 4) (Some 3) "d1" 4 done r in
  validate_update string_dec ex_env e "d1" (o RLong) = Ok [] /\
  validate_update string_dec ex_env e "d1" (o RNever) = Ok [(7, 0)]%nat /\
  validate_update string_dec ex_env e "d1" (Build_stored (Some 3) (Some 4) (Some 3) "d1" 6 done RLong) = Ok [(8, 0)]%nat /\
  validate_update string_dec ex_env e "d2" (o RLong) = Ok [(9, 0)]%nat.
Proof. vm_compute. repeat split. Qed.
