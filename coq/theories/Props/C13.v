From KV Require Import Base.Prelude Base.Bytes Model.LogParse Corr.C13.
Open Scope Z_scope.
Theorem C13_placeholder : zero_time = zero_time.
Proof. exact eq_refl. Qed.
Print Assumptions C13_placeholder.
