(* C13 — log parsing reports exactly the tracked metrics, in order, never crashing.
   Only the property theorems (closed by [exact]) and their assumption audit.

   Reading guide.  [collect fmt ms fs content] is the model of CollectObservationLog on a file with bytes [content];
   the regexp engine ([compiles], [matches]), time.Parse ([rfc3339], success flag) and json.Unmarshal ([decode]) are
   universally quantified functions.  [spec_text] / [spec_json] are comprehensions over ALL lines of the file:
   line by line, filter by filter, match by match (JSON: tracked name by tracked name), keeping the matches whose
   trimmed first group is a tracked name, each with the trimmed second group and the line's timestamp, followed
   by the objective-missing fallback. *)
From KV Require Import Base.Prelude Base.Bytes Model.LogParse Proofs.LogParseP Corr.C13 Proofs.C13Monitor.
Open Scope Z_scope.

(* The file is cut at every newline byte and nowhere else; this determines the list of lines. *)
Theorem C13_lines : forall content,
  join newline (split_lines content) = content /\ Forall (fun l => ~ In newline l) (split_lines content) /\
  (forall ls, ls <> [] -> Forall (fun l => ~ In newline l) ls -> join newline ls = content -> ls = split_lines content).
Proof. exact split_lines_spec. Qed.
Print Assumptions C13_lines.

(* TEXT: with at least the objective tracked and filters that are regular expressions, the collector returns exactly
   the comprehension (so: every occurrence, nothing else, in order), for every file.  The only assumption on the
   regexp engine is that captured groups are pieces of the line. *)
Theorem C13_text_spec : forall filt df compiles matches rfc3339 decode ms fs content,
  groups_substr filt matches -> ms <> [] -> forallb compiles (effective filt df fs) = true ->
  collect filt df compiles matches rfc3339 decode TEXT ms fs content =
  Ok (spec_text filt df matches rfc3339 ms fs (split_lines content)).
Proof. exact collect_text_ok. Qed.
Print Assumptions C13_text_spec.

(* Membership reading of the comprehension: a record is among the found ones iff it is an occurrence of a tracked
   name: some line, some filter, some match with at least two groups whose trimmed first group is tracked. *)
Theorem C13_text_exact : forall filt matches rfc3339 ms fs lines x,
  In x (flat_map (spec_line filt matches rfc3339 ms fs) lines) <->
  exists l f w n v r, In l lines /\ In f fs /\ In (w :: n :: v :: r) (matches f l) /\ In (trim_space n) ms /\
                      x = MLog (TsText (line_timestamp rfc3339 l)) (trim_space n) (trim_space v).
Proof. exact text_found_exact. Qed.
Print Assumptions C13_text_exact.

(* The pre-filter ("skip lines that contain no tracked name") never drops a line that has a match for a tracked name. *)
Theorem C13_prefilter_sound : forall filt matches rfc3339 ms fs l x,
  groups_substr filt matches -> In x (spec_line filt matches rfc3339 ms fs l) -> is_metric_line ms l = true.
Proof. exact prefilter_keeps. Qed.
Print Assumptions C13_prefilter_sound.

(* JSON: if every non-empty line decodes, exactly the comprehension; if some non-empty line does not, the error
   and no partial result.  (Per line the records follow the tracked-name list, each name once: the REPAIRED loop, see C13_json_pinned_agrees.) *)
Theorem C13_json_spec : forall filt df compiles matches rfc3339 decode ms fs content,
  ms <> [] ->
  (existsb (malformed decode) (split_lines content) = false /\
   collect filt df compiles matches rfc3339 decode JSON ms fs content = Ok (spec_json rfc3339 decode ms (split_lines content))) \/
  (existsb (malformed decode) (split_lines content) = true /\
   collect filt df compiles matches rfc3339 decode JSON ms fs content = Err 1%nat).
Proof. exact collect_json_total. Qed.
Print Assumptions C13_json_spec.

(* Membership reading for JSON: a record is found iff some non-empty line decodes to an object in which a tracked
   name has a string value; its timestamp is the line's.  A line never yields the same record twice. *)
Theorem C13_json_exact : forall rfc3339 decode ms lines x,
  In x (flat_map (spec_json_line rfc3339 decode ms) (filter nonempty lines)) <->
  exists l kvs m v, In l lines /\ l <> [] /\ decode l = JObj kvs /\ In m ms /\ jlookup m kvs = Some (JString v) /\
                    x = MLog (json_timestamp rfc3339 kvs) m v.
Proof. exact json_found_exact. Qed.
Print Assumptions C13_json_exact.

Theorem C13_json_once : forall rfc3339 ms kvs, NoDup (json_records rfc3339 ms kvs).
Proof. exact json_records_nodup. Qed.
Print Assumptions C13_json_once.

(* Timestamp of a JSON line: the "timestamp" string if time.Parse accepts it; for a number the instant computed by
   [epoch_instant] (see the epoch theorems); the zero time otherwise (absent, empty, invalid, bool/null/array/object,
   number that ParseInt rejects). *)
Theorem C13_timestamp_json : forall rfc3339 kvs,
  match jlookup timestamp_key kvs with
  | Some (JString s) => json_timestamp rfc3339 kvs = if nonempty s && rfc3339 s then TsText s else TsText zero_time
  | Some (JNumber repr) => json_timestamp rfc3339 kvs = match epoch_instant repr with Some z => TsUnix z | None => TsText zero_time end
  | _ => json_timestamp rfc3339 kvs = TsText zero_time
  end.
Proof. exact json_timestamp_cases. Qed.
Print Assumptions C13_timestamp_json.

(* Known finding json-duplicate-metric.  [json_records] above is the loop over the tracked names in its repaired
   form (each name once); [json_records_pinned] is the loop as the pinned tree has it.  They agree whenever no
   tracked name is listed twice; with a repeated name the pinned loop reports one occurrence twice. *)
Theorem C13_json_pinned_agrees : forall rfc3339 ms kvs,
  NoDup ms -> json_records_pinned rfc3339 ms kvs = json_records rfc3339 ms kvs.
Proof. exact json_records_pinned_nodup. Qed.
Print Assumptions C13_json_pinned_agrees.

Theorem C13_json_dup_refuted :
  exists ms kvs, ~ NoDup (json_records_pinned (fun _ => false) ms kvs) /\
                 json_records_pinned (fun _ => false) ms kvs <> json_records (fun _ => false) ms kvs.
Proof. exact json_dup_refuted. Qed.
Print Assumptions C13_json_dup_refuted.

(* The fallback: objective (head of the list) never reported -> exactly one record (zero time, objective,
   "unavailable"); reported at least once -> the found records unchanged. *)
Theorem C13_fallback : forall obj rest found,
  ((forall x, In x found -> mname x <> obj) -> fallback (obj :: rest) found = [MLog (TsText zero_time) obj unavailable]) /\
  ((exists x, In x found /\ mname x = obj) -> fallback (obj :: rest) found = found).
Proof. exact fallback_both. Qed.
Print Assumptions C13_fallback.

(* Timestamp of a TEXT line: the text before the first blank if time.Parse accepts it, the zero time otherwise
   (no blank, or a first field that is not RFC3339); and every record of the line carries it. *)
Theorem C13_timestamp_text : forall filt matches rfc3339 ms fs l,
  ((exists a b, l = a ++ space :: b /\ ~ In space a /\ rfc3339 a = true /\ line_timestamp rfc3339 l = a) \/
   ((forall a b, l = a ++ space :: b -> ~ In space a -> rfc3339 a = false) /\ line_timestamp rfc3339 l = zero_time)) /\
  (forall x, In x (spec_line filt matches rfc3339 ms fs l) -> ts x = TsText (line_timestamp rfc3339 l) /\ In (mname x) ms).
Proof. exact timestamp_text_both. Qed.
Print Assumptions C13_timestamp_text.

(* Integral epoch timestamps: the instant handed to time.Unix is the numeral's value (in ns), hence order is preserved. *)
Theorem C13_epoch_integral : forall rfc3339 repr n,
  read_numeral repr = Some n -> scale n = 0%nat -> in_int64 (num n) = true ->
  epoch_instant repr = Some (num n * 10 ^ 9) /\
  parse_timestamp rfc3339 (JNumber repr) = Some (TsUnix (num n * 10 ^ 9)) /\
  same_instant n (num n * 10 ^ 9) = true.
Proof. exact epoch_integral_numeral. Qed.
Print Assumptions C13_epoch_integral.

Theorem C13_epoch_integral_order : forall r1 r2 n1 n2 z1 z2,
  read_numeral r1 = Some n1 -> read_numeral r2 = Some n2 -> scale n1 = 0%nat -> scale n2 = 0%nat ->
  epoch_instant r1 = Some z1 -> epoch_instant r2 = Some z2 -> value_lt n1 n2 -> z1 < z2.
Proof. exact epoch_integral_order. Qed.
Print Assumptions C13_epoch_integral_order.

(* What happens to a fractional numeral  ip.fp : the digits after the point are added as NANOSECONDS. *)
Theorem C13_epoch_fraction : forall ip fp sec nsec,
  ~ In dot ip -> ~ In dot fp -> parse_int64 ip = Some sec -> parse_int64 fp = Some nsec ->
  epoch_instant (ip ++ dot :: fp) = Some (sec * 10 ^ 9 + nsec).
Proof. exact epoch_fraction. Qed.
Print Assumptions C13_epoch_fraction.

(* Known finding json-epoch-fraction (F6).  The property's clause "numeric epoch timestamps denote the same instant
   after conversion, so their order is preserved" fails:  1638422847.25 < 1638422847.5  but the instants are
   ...847s + 25ns  >  ...847s + 5ns, and neither is the logged instant. *)
Theorem C13_epoch_refuted :
  exists r1 r2 n1 n2 z1 z2,
    read_numeral r1 = Some n1 /\ read_numeral r2 = Some n2 /\ value_lt n1 n2 /\
    epoch_instant r1 = Some z1 /\ epoch_instant r2 = Some z2 /\ z2 < z1 /\
    same_instant n1 z1 = false /\ same_instant n2 z2 = false.
Proof. exact epoch_refuted. Qed.
Print Assumptions C13_epoch_refuted.

(* F6 is not an accident of the witness: EVERY non-negative numeral with 1..8 fractional digits and a non-zero
   fraction (what FormatFloat prints for a float64 epoch time with sub-second part) gets an instant that is not
   its value, not even within one nanosecond. *)
Theorem C13_epoch_fraction_wrong : forall ip fp i f,
  ip <> [] -> fp <> [] -> parse_digits 0 ip = Some i -> parse_digits 0 fp = Some f ->
  in_int64 i = true -> in_int64 f = true ->
  let k := length fp in
  let n := Numeral (i * 10 ^ Z.of_nat k + f) k i in
  read_numeral (ip ++ dot :: fp) = Some n /\
  epoch_instant (ip ++ dot :: fp) = Some (i * 10 ^ 9 + f) /\
  (0 < f -> (k < 9)%nat -> same_instant n (i * 10 ^ 9 + f) = false).
Proof. exact epoch_fraction_wrong. Qed.
Print Assumptions C13_epoch_fraction_wrong.

(* Totality of the model (the run-time panics it knows about are explicit outcomes): with a non-empty tracked list
   and filters that compile there is no Crash, for every format and every file. *)
Theorem C13_total : forall filt df compiles matches rfc3339 decode fmt ms fs content,
  ms <> [] -> forallb compiles (effective filt df fs) = true ->
  is_crash (collect filt df compiles matches rfc3339 decode fmt ms fs content) = false.
Proof. exact collect_total. Qed.
Print Assumptions C13_total.

(* The two crash sites, exactly: metrics[0] with an empty tracked list; a nil *Regexp (filter that does not compile)
   used on the first TEXT line that passes the pre-filter. *)
Theorem C13_crash_sites : forall filt df compiles matches rfc3339 decode fmt ms fs content s,
  collect filt df compiles matches rfc3339 decode fmt ms fs content = Crash s ->
  (s = 1%nat /\ ms = []) \/
  (s = 2%nat /\ fmt = TEXT /\ forallb compiles (effective filt df fs) = false /\
   existsb (is_metric_line ms) (split_lines content) = true).
Proof. exact collect_crash_sites. Qed.
Print Assumptions C13_crash_sites.

Theorem C13_no_metrics_crash : forall filt df compiles matches rfc3339 decode fs content,
  collect filt df compiles matches rfc3339 decode TEXT [] fs content = Crash 1%nat.
Proof. exact collect_no_metrics_text. Qed.
Print Assumptions C13_no_metrics_crash.

(* The executable monitor that runs on implementation outputs accepts the model's output on D_ok:
   regexp groups are pieces of the line; for JSON every numeric timestamp is an integral numeral
   (the complement of the known-finding domain). *)
Theorem C13_monitor_sound : forall filt df compiles matches rfc3339 decode fmt ms fs content,
  groups_substr filt matches ->
  (fmt = JSON -> integral_timestamps decode (split_lines content)) ->
  monitor filt df compiles matches rfc3339 decode fmt ms fs content
          (attach_result (collect filt df compiles matches rfc3339 decode fmt ms fs content)) = true.
Proof. exact monitor_model. Qed.
Print Assumptions C13_monitor_sound.

(* Non-vacuity: a concrete regexp oracle satisfying [groups_substr], a log with a timestamped line holding two
   statements, a noise line that passes the pre-filter and a line without timestamp; names acc / accuracy overlap. *)
Definition ex_line1 : str := B "2024-03-04T17:55:08Z loss=0.3 accuracy = .98".
Definition ex_line3 : str := B "acc=1".
Definition ex_matches (_ : unit) (l : str) : list (list str) :=
  if str_eqb l ex_line1 then [[B "loss=0.3"; B "loss"; B "0.3"; B ".3"; []]; [B "accuracy = .98"; B "accuracy"; B ".98"; B ".98"; []]]
  else if str_eqb l ex_line3 then [[B "acc=1"; B "acc"; B "1"; []; []]]
  else [].

Example C13_nonvacuous :
  groups_substr unit ex_matches /\
  collect unit tt (fun _ => true) ex_matches (fun s => str_eqb s (B "2024-03-04T17:55:08Z")) (fun _ => JBad) TEXT
          [B "loss"; B "acc"] []
          (B "2024-03-04T17:55:08Z loss=0.3 accuracy = .98" ++ [newline] ++ B "the loss is improving" ++ [newline] ++ B "acc=1")
  = Ok [MLog (TsText (B "2024-03-04T17:55:08Z")) (B "loss") (B "0.3"); MLog (TsText zero_time) (B "acc") (B "1")].
Proof.
  split; [|vm_compute; reflexivity].
  intros [] l kev g Hk Hg. unfold ex_matches in Hk.
  destruct (str_eqb l ex_line1) eqn:E1.
  - apply str_eqb_eq in E1. subst l. apply containsb_spec.
    repeat (destruct Hk as [<-|Hk]; [repeat (destruct Hg as [<-|Hg]; [vm_compute; reflexivity|]); destruct Hg|]). destruct Hk.
  - destruct (str_eqb l ex_line3) eqn:E3; [|destruct Hk].
    apply str_eqb_eq in E3. subst l. apply containsb_spec.
    repeat (destruct Hk as [<-|Hk]; [repeat (destruct Hg as [<-|Hg]; [vm_compute; reflexivity|]); destruct Hg|]). destruct Hk.
Qed.

(* The transcription of time.Unix(sec, nsec).UTC().Format(RFC3339Nano) reproduces the values pinned by the repo's
   unit test (file-metricscollector_test.go) and the zero time; beyond such samples it is covered by the correspondence only. *)
Example C13_format_samples :
  format_instant (1638422847 * 10 ^ 9 + 28721) = B "2021-12-02T05:27:27.000028721Z" /\
  format_instant (1638422847 * 10 ^ 9 + 287801) = B "2021-12-02T05:27:27.000287801Z" /\
  format_instant (1638422847 * 10 ^ 9) = B "2021-12-02T05:27:27Z" /\
  format_instant (-62135596800 * 10 ^ 9) = zero_time /\
  epoch_instant (B "1638422847.28721") = Some (1638422847 * 10 ^ 9 + 28721).
Proof. repeat split; vm_compute; reflexivity. Qed.
Print Assumptions C13_format_samples.
