(* C11 — Trial observation = per-metric min / max / latest of the reported log.
   This file contains only the property theorems (closed by [exact]) and their assumption audit. *)
From KV Require Import Base.Prelude Model.GetMetrics Proofs.GetMetricsP Corr.C11 Proofs.C11Monitor.
Open Scope Z_scope.

(* Exactly one summary for every distinct strategy name, none for any other name. *)
Theorem C11_one_per_strategy : forall strategies l r m,
  get_metrics strategies l = Ok r ->
  (In m strategies -> exists s, summarize m l = Some s /\ lookup m r = [(smin s, smax s, slatest s)])
  /\ (~ In m strategies -> lookup m r = []).
Proof. exact one_per_strategy. Qed.
Print Assumptions C11_one_per_strategy.

(* min (max) is the text of a reported entry of that metric whose number is the least (greatest) of all
   numeric values reported for it; "unavailable" iff it has no numeric value. *)
Theorem C11_min_max : forall m l s, texts_wf l -> summarize m l = Some s ->
  (nums (of_name m l) = [] /\ smin s = unavailable /\ smax s = unavailable) \/
  (exists a b, In a (of_name m l) /\ In b (of_name m l) /\ smin s = vtext a /\ smax s = vtext b /\
               vnum a = Some (nmin s) /\ vnum b = Some (nmax s) /\ smin s <> unavailable /\
               (forall z, In z (nums (of_name m l)) -> nmin s <= z <= nmax s)).
Proof. exact min_max. Qed.
Print Assumptions C11_min_max.

(* latest is the value of the last entry among those with the greatest timestamp; "unavailable" iff never reported. *)
Theorem C11_latest : forall m l s, summarize m l = Some s ->
  (of_name m l = [] /\ slatest s = unavailable /\ sts s = None) \/
  (exists l1 e l2, of_name m l = l1 ++ e :: l2 /\ slatest s = vtext e /\ sts s = Some (ts_of e) /\
     (forall x, In x l1 -> ts_of x <= ts_of e) /\ (forall x, In x l2 -> ts_of x < ts_of e)).
Proof. exact latest. Qed.
Print Assumptions C11_latest.

(* The result does not depend on how entries of different metrics are interleaved. *)
Theorem C11_interleaving : forall strategies l1 l2 r,
  (forall m, of_name m l1 = of_name m l2) ->
  get_metrics strategies l1 = Ok r -> get_metrics strategies l2 = Ok r.
Proof. exact interleaving. Qed.
Print Assumptions C11_interleaving.

(* An unparsable timestamp on a tracked metric yields an error, never a partial observation; and only that does. *)
Theorem C11_bad_timestamp : forall strategies l,
  (exists e, In e l /\ In (ename e) strategies /\ ets e = None) <-> get_metrics strategies l = Err 1%nat.
Proof. exact bad_timestamp. Qed.
Print Assumptions C11_bad_timestamp.

(* The executable monitor that runs on implementation outputs is implied by the theorems above. *)
Theorem C11_monitor_sound : forall strategies l, texts_wf l -> monitor strategies l (get_metrics strategies l) = true.
Proof. exact monitor_model. Qed.
Print Assumptions C11_monitor_sound.

(* Non-vacuity: a concrete log with out-of-order timestamps, a tie, a non-numeric text and an untracked metric. *)
Example C11_nonvacuous :
  let l := [ {| ename := 1%nat; vtext := 5%nat; vnum := Some 1536; ets := Some 20 |};
             {| ename := 2%nat; vtext := 6%nat; vnum := None;      ets := None |};
             {| ename := 1%nat; vtext := 7%nat; vnum := Some 512;  ets := Some 10 |};
             {| ename := 1%nat; vtext := 8%nat; vnum := None;      ets := Some 20 |} ] in
  texts_wf l /\ get_metrics [1; 1; 3]%nat l = Ok [(1, (7, 5, 8)); (3, (0, 0, 0))]%nat.
Proof.
  split; [|vm_compute; reflexivity].
  intros e I. repeat (destruct I as [<-|I]; [cbn; try discriminate; auto|]); destruct I.
Qed.
