(* C16 — Resume policy governs the algorithm service's lifetime; restart only when allowed.  Per-reconcile theorems. *)
From KV Require Import Base.Prelude Base.Cond Model.World Proofs.WorldPlan.
Open Scope Z_scope.

(* A suggestion reconcile that sees the Suggestion Succeeded performs no algorithm call and nothing but the deletion
   of the Deployment and the Service (the volume claim is never touched). *)
Theorem C16_no_rpc : forall w resp s,
  c_sug w = Some s -> s_is (s_st s) SSucceeded = true ->
  snd (plan_sug w resp) = [] /\
  forall x, In x (fst (plan_sug w resp)) -> x = (WInfraDelete IDep, Stop) \/ x = (WInfraDelete ISvc, Stop).
Proof. exact plan_sug_succeeded. Qed.
Print Assumptions C16_no_rpc.

(* The experiment controller withdraws a verdict only when the experiment succeeded by reaching max trials under
   LongRunning / FromVolume and maxTrialCount exceeds the number of trials in its status. *)
Theorem C16_restart_only_when_allowed : forall cf e sug ws st1 stop,
  plan_exp_completed cf e sug = (ws, st1, stop) ->
  st1 <> e_st e -> e_completed (e_st e) = true /\ restart_enabled_e cf e = true /\ st1 = mark_restarting (e_st e).
Proof. exact plan_restart_only_when_allowed. Qed.
Print Assumptions C16_restart_only_when_allowed.
