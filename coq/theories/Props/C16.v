(* C16 — Resume policy governs the algorithm service's lifetime; restart only when allowed.  Per-reconcile theorems. *)
From KV Require Import Base.Prelude Base.Cond Model.World Proofs.WorldPlan Proofs.WorldInv2 Proofs.WorldInv5 Proofs.WorldQuiet Proofs.WorldSucc Proofs.WorldRestart Proofs.WorldRpc.
Open Scope Z_scope.

(* A suggestion reconcile that sees the Suggestion Succeeded performs no algorithm call and nothing but the deletion
   of the Deployment and the Service (the volume claim is never touched). *)
Theorem C16_no_rpc : forall w resp s,
  c_sug w = Some s -> s_is (s_st s) SSucceeded = true ->
  snd (plan_sug w resp) = [] /\
  forall x, In x (fst (plan_sug w resp)) -> x = (WInfraDelete IDep, Stop) \/ x = (WInfraDelete ISvc, Stop).
Proof. exact plan_sug_succeeded. Qed.
Print Assumptions C16_no_rpc.

(* The experiment controller withdraws a verdict only when the experiment succeeded by reaching max trials under
   LongRunning / FromVolume and maxTrialCount exceeds the number of trials in its status. *)
Theorem C16_restart_only_when_allowed : forall cf e sug ws st1 stop,
  plan_exp_completed cf e sug = (ws, st1, stop) ->
  st1 <> e_st e -> e_completed (e_st e) = true /\ restart_enabled_e cf e = true /\ st1 = mark_restarting (e_st e).
Proof. exact plan_restart_only_when_allowed. Qed.
Print Assumptions C16_restart_only_when_allowed.

(* Cleanup at quiescence (state-level, joint model): in any state satisfying the inductive invariant where nothing is left
   to do and the environment is done, a completed experiment with resumePolicy Never or FromVolume has its (non-failed)
   suggestion marked Succeeded and neither Deployment nor Service exists.  (The failed-suggestion case is known finding F14.) *)
Theorem C16_cleanup : forall w e s,
  InvS w -> quiescent w -> env_done w -> w_exp w = Some e -> e_completed (e_st e) = true ->
  c_resume (w_cfg w) <> LongRunning -> w_sug w = Some s -> s_is (s_st s) SFailed = false ->
  s_is (s_st s) SSucceeded = true /\ i_dep (w_infra w) = None /\ i_svc (w_infra w) = false.
Proof. exact quiescent_cleanup. Qed.
Print Assumptions C16_cleanup.

(* Whenever the suggestion is neither Succeeded nor Failed at quiescence -- LongRunning after completion, or any policy
   after a restart -- the algorithm service is running: Deployment available, Service present, suggestion Running, and
   under FromVolume the volume claim exists. *)
Theorem C16_service_running : forall w s,
  InvS w -> quiescent w -> env_done w -> w_sug w = Some s -> s_completed (s_st s) = false ->
  i_dep (w_infra w) = Some true /\ i_svc (w_infra w) = true /\ s_is (s_st s) SRunning = true /\
  (c_resume (w_cfg w) = FromVolume -> i_pvc (w_infra w) = true).
Proof. exact quiet_service_up. Qed.
Print Assumptions C16_service_running.

(* The volume claim is kept: the suggestion controller never plans to delete anything but the Deployment and the Service
   (the experiment and trial controllers plan no infrastructure write at all, C01_requests_bound / plan shapes). *)
Theorem C16_pvc_kept : forall w resp k onf,
  In (WInfraDelete k, onf) (fst (plan_sug w resp)) -> k = IDep \/ k = ISvc.
Proof. exact plan_sug_deletes. Qed.
Print Assumptions C16_pvc_kept.

(* The experiment controller withdraws the Succeeded condition of the suggestion (restartSuggestion) only on behalf of an
   enabled restart of the experiment it is looking at, and only under FromVolume: every planned suggestion-status write
   that is not Succeeded comes from the restart branch. *)
Theorem C16_sug_restart_only_when_enabled : forall cf e sug ws st1 stop st rv onf,
  plan_exp_completed cf e sug = (ws, st1, stop) -> In (WSugStatus st rv, onf) ws -> s_is st SSucceeded = false ->
  restart_enabled_e cf e = true /\ c_resume cf = FromVolume.
Proof. exact sug_restart_only_when_enabled. Qed.
Print Assumptions C16_sug_restart_only_when_enabled.

(* Never and LongRunning, every reachable state: a Succeeded suggestion goes with a completed experiment under Never, and
   under LongRunning the suggestion is never Succeeded (the algorithm service is not cleaned up). *)
Theorem C16_succeeded_only_after_completion : forall c acts s,
  valid_cfg c -> no_teardown acts -> c_resume c <> FromVolume ->
  w_sug (run c acts) = Some s -> s_is (s_st s) SSucceeded = true ->
  c_resume c = Never /\ exists e, w_exp (run c acts) = Some e /\ e_completed (e_st e) = true.
Proof. exact succeeded_implies_verdict. Qed.
Print Assumptions C16_succeeded_only_after_completion.

(* Restart progress (after the repair of F18): whatever edits of maxTrialCount a history contains, and for every resume
   policy, when the controllers come to rest with a finished environment the experiment carries a verdict again -- a
   restarted experiment cannot stay without algorithm service and without new trials.  (Assumption: distinct assignment
   names.)  Together with C01_max_trials (at most the CURRENT maxTrialCount trials) this is "new trials are created up to the
   new budget". *)
Theorem C16_restart_progress : forall c acts e m,
  valid_cfg c -> no_teardown acts ->
  quiescent (run c acts) -> env_done (run c acts) ->
  w_exp (run c acts) = Some e -> e_max e = Some m ->
  (forall s, w_sug (run c acts) = Some s -> NoDup (ss_names (s_st s))) ->
  e_completed (e_st e) = true.
Proof. exact no_wedge_reachable_all. Qed.
Print Assumptions C16_restart_progress.

(* "A Succeeded Suggestion causes no further algorithm calls", as a statement about every step of the joint model: while the
   suggestion controller sees the suggestion Succeeded, no action whatsoever extends the log of algorithm calls ... *)
Theorem C16_no_rpc_while_succeeded : forall w a s,
  c_sug w = Some s -> s_is (s_st s) SSucceeded = true -> g_rpcs (step w a) = g_rpcs w.
Proof. exact no_rpc_while_succeeded. Qed.
Print Assumptions C16_no_rpc_while_succeeded.

(* ... and conversely every call in the log was issued by a suggestion reconcile that saw a suggestion not Succeeded. *)
Theorem C16_rpc_needs_unsucceeded : forall w a,
  g_rpcs (step w a) <> g_rpcs w ->
  exists key resp dberr s, a = Begin CSug key resp dberr /\ c_sug w = Some s /\ s_is (s_st s) SSucceeded = false.
Proof. exact rpc_needs_unsucceeded. Qed.
Print Assumptions C16_rpc_needs_unsucceeded.

(* Two step clauses of the C16 monitor (a verdict is withdrawn only when the restart is enabled; no algorithm call by a
   suggestion reconcile whose cached suggestion is Succeeded) hold on the model's own projected states for every history. *)
From KV Require Proofs.MonSound Corr.WorldMon.
Theorem C16_monitor_restart_sound : forall w acts,
  Inv w -> no_teardown acts ->
  WorldMon.all_steps (WorldMon.restart_step (w_cfg w)) (WorldC.project w) (MonSound.msteps w acts) = true.
Proof. exact MonSound.restart_steps_model. Qed.
Print Assumptions C16_monitor_restart_sound.

Theorem C16_monitor_rpc_sound : forall w acts,
  WorldMon.rpc_walk (option_map MonSound.psug_of (c_sug w)) (WorldC.project w) (MonSound.msteps w acts) = true.
Proof. exact MonSound.rpc_walk_model. Qed.
Print Assumptions C16_monitor_rpc_sound.

(* The repair of F18 does not resurrect the algorithm service of a completed experiment: in any reachable state whose stored
   experiment carries a verdict that is not enabled to restart, an experiment reconcile -- whatever stale copies it reads --
   plans no suggestion-status write from ReconcileExperiment (the repair branch is not taken): the caches always justify the
   verdict again, so ReconcileTrials is not entered. *)
From KV Require Proofs.WorldNoCreate.
Theorem C16_repair_not_for_settled : forall c acts ce st1 e,
  valid_cfg c -> no_teardown acts ->
  w_exp (run c acts) = Some e -> e_completed (e_st e) = true -> restart_enabled_e c e = false ->
  c_exp (run c acts) = Some ce ->
  existsb WorldNoCreate.is_sug_status (plan_exp_reconcile (run c acts) ce st1) = false.
Proof. exact WorldNoCreate.repair_branch_not_for_settled. Qed.
Print Assumptions C16_repair_not_for_settled.

Theorem C16_monitor_longrunning_sound : forall w acts,
  Inv w -> WorldSucc.SuccInv w -> c_resume (w_cfg w) = LongRunning -> no_teardown acts ->
  WorldMon.all_states (fun p => negb (WorldMon.sug_succeeded p)) (WorldC.project w) (MonSound.msteps w acts) = true.
Proof. exact MonSound.longrunning_never_succeeded_model. Qed.
Print Assumptions C16_monitor_longrunning_sound.

(* The walk clause of the C16 monitor, over runs: the Succeeded condition of the STORED suggestion is withdrawn at a step only
   if a restart was enabled in the STORED experiment at that state or at an earlier state of the history (the experiment
   controller decides on a cached experiment, and the repair branch of F18 acts for an experiment that is running again:
   invariant SwInv, Proofs/WorldSugRestart.v).  [sug_restart_walk] is evaluated on the implementation's projected states. *)
From KV Require Proofs.WorldSugRestart.
Theorem C16_monitor_sug_restart_sound : forall c acts,
  valid_cfg c -> no_teardown acts ->
  WorldMon.sug_restart_walk c false (WorldC.project (init c)) (MonSound.msteps (init c) acts) = true.
Proof. exact WorldSugRestart.sug_restart_monitor_sound. Qed.
Print Assumptions C16_monitor_sug_restart_sound.

(* The raise clause of the monitor: a raise of maxTrialCount that the update rule admits (the experiment runs, or it succeeded by
   reaching max trials under LongRunning / FromVolume -- however often it was restarted before) is honoured, at every step of
   every history of the model. *)
Theorem C16_monitor_raise_sound : forall w acts,
  WorldMon.all_steps (WorldMon.raise_step (w_cfg w)) (WorldC.project w) (MonSound.msteps w acts) = true.
Proof. exact WorldSugRestart.raise_steps_model. Qed.
Print Assumptions C16_monitor_raise_sound.

(* The progress clause of the monitor after a raise (restart_progress: at rest, a history with a raise of maxTrialCount carries a
   verdict again when its environment is done) on the model's own projections: every quiescent end of a history without teardown
   and with fresh algorithm replies passes it. *)
From KV Require Proofs.WorldRest Proofs.WorldNames.
Theorem C16_monitor_restart_progress_sound : forall c acts,
  valid_cfg c -> no_teardown acts -> WorldNames.fresh_run c acts -> quiescent (run c acts) ->
  forall k, WorldMon.last_state k = WorldC.project (run c acts) -> WorldMon.restart_progress k = true.
Proof. exact WorldRest.restart_progress_model. Qed.
Print Assumptions C16_monitor_restart_progress_sound.

(* At rest no restart is left enabled: in every quiescent state reached without teardown (raises of maxTrialCount included) the
   stored experiment does not satisfy the restart test -- a raise that enables a restart is taken by the experiment reconcile
   (which withdraws the verdict and writes the status), so a state in which the restart is still enabled is not at rest. *)
Theorem C16_no_restart_left_at_rest : forall c acts e,
  valid_cfg c -> no_teardown acts -> quiescent (run c acts) -> w_exp (run c acts) = Some e ->
  restart_enabled_e c e = false.
Proof. exact WorldRest.no_restart_left_at_rest. Qed.
Print Assumptions C16_no_restart_left_at_rest.

(* ... and the at-rest clause restart_taken of the monitor holds on the model's own projections. *)
Theorem C16_monitor_restart_taken_sound : forall c acts,
  valid_cfg c -> no_teardown acts -> quiescent (run c acts) ->
  forall k, WorldC.k_cfg k = c -> WorldMon.last_state k = WorldC.project (run c acts) -> WorldMon.restart_taken k = true.
Proof. exact WorldRest.restart_taken_model. Qed.
Print Assumptions C16_monitor_restart_taken_sound.

(* Non-vacuity: the repaired F18 history contains a raise of maxTrialCount (the one that restarts the experiment there) and ends
   quiescent with its experiment stored. *)
Theorem C16_no_restart_left_premises_satisfiable :
  valid_cfg F18.f18_cfg /\ no_teardown F18.f18_acts /\ quiescent (run F18.f18_cfg F18.f18_acts) /\
  existsb (fun a => match a with UserRaiseMax _ => true | _ => false end) F18.f18_acts = true /\
  exists e, w_exp (run F18.f18_cfg F18.f18_acts) = Some e /\ e_max e = Some 2.
Proof. exact WorldRest.restart_taken_premises_hold. Qed.
Print Assumptions C16_no_restart_left_premises_satisfiable.

(* "... while the volume claim is kept", over runs: no controller ever has a deletion of the volume claim pending, so once the
   claim exists it exists in every later state of every history without teardown -- through completion, cleanup of Deployment and
   Service, restarts and every interleaving and fault. *)
From KV Require Proofs.WorldPvc.
Theorem C16_pvc_kept_over_runs : forall c acts1 acts2,
  valid_cfg c -> no_teardown (acts1 ++ acts2) ->
  i_pvc (w_infra (run c acts1)) = true -> i_pvc (w_infra (run c (acts1 ++ acts2))) = true.
Proof. exact WorldPvc.pvc_kept_over_runs. Qed.
Print Assumptions C16_pvc_kept_over_runs.

Theorem C16_pvc_kept_premises_satisfiable :
  valid_cfg F18.f18_cfg /\ no_teardown (firstn 80 F18.f18_acts ++ skipn 80 F18.f18_acts) /\ c_resume F18.f18_cfg = FromVolume /\
  i_pvc (w_infra (run F18.f18_cfg (firstn 80 F18.f18_acts))) = true /\ length (skipn 80 F18.f18_acts) = 671%nat.
Proof. exact WorldPvc.pvc_premises_hold. Qed.
Print Assumptions C16_pvc_kept_premises_satisfiable.

(* The cleanup clause of the monitor at rest (resume_final: what the check demands of the IMPLEMENTATION's final state when the
   experiment is completed and its suggestion not Failed -- Never/FromVolume: suggestion Succeeded, no Deployment, no Service, the
   volume claim still there if it was ever seen; LongRunning: Deployment and Service present, suggestion not Succeeded) holds on
   the model's own projections, for every history without teardown that ends quiescent with the environment done. *)
From KV Require Proofs.WorldRest3.
Theorem C16_monitor_cleanup_at_rest_sound : forall c acts,
  valid_cfg c -> no_teardown acts -> quiescent (run c acts) ->
  WorldMon.env_done (WorldC.project (run c acts)) = true ->
  forall k, WorldC.k_cfg k = c -> WorldC.k_steps k = MonSound.msteps (init c) acts ->
  WorldMon.resume_final k (WorldC.project (run c acts)) = true.
Proof. exact WorldRest3.resume_final_model. Qed.
Print Assumptions C16_monitor_cleanup_at_rest_sound.

Theorem C16_monitor_cleanup_premises_satisfiable :
  valid_cfg F18.f18_cfg /\ no_teardown F18.f18_acts /\ quiescent (run F18.f18_cfg F18.f18_acts) /\
  WorldMon.env_done (WorldC.project (run F18.f18_cfg F18.f18_acts)) = true /\ c_resume F18.f18_cfg = FromVolume /\
  existsb (fun ap => i_pvc (WorldC.pj_infra (snd ap))) (MonSound.msteps (init F18.f18_cfg) F18.f18_acts) = true /\
  exists e s, WorldC.pj_exp (WorldC.project (run F18.f18_cfg F18.f18_acts)) = Some e /\ WorldMon.pe_completed e = true /\
              WorldC.pj_sug (WorldC.project (run F18.f18_cfg F18.f18_acts)) = Some s /\ WorldMon.ps_is s SFailed = false.
Proof. exact WorldRest3.resume_final_premises_hold. Qed.
Print Assumptions C16_monitor_cleanup_premises_satisfiable.
