(* C12 — Sidecar injection preserves the workload and wires the collector correctly.
   This file contains only the property theorems (closed by [exact]) and their assumption audit.
   The model (Model/Inject.v) describes the REPAIRED behaviour for the two defects of the pinned tree
   (F5 nonprimary-without-primary-container, F5b single-element-shell-command; findings.d/C12.json). *)
From KV Require Import Base.Prelude Model.Inject Model.InjectSpec Proofs.InjectP Corr.C12 Proofs.C12Monitor.
Open Scope string_scope.
Open Scope list_scope.

(* ---------------------------------------------------------------- the ownership walk *)

(* A job found by getKatibJob is an ancestor-or-self of the pod (along owner references that resolve in the pod's
   namespace) that has a non-empty kind and is owned by a Trial. *)
Theorem C12_walk_sound : forall K cl ns fuel kind name owners k n,
  get_katib_job K cl ns fuel kind name owners = Found k n -> descends K cl ns kind name owners n /\ k <> "".
Proof. exact walk_sound. Qed.
Print Assumptions C12_walk_sound.

(* Conversely, where every owner reference below the nearest Trial-owned objects resolves, the walk finds a job whenever
   there is one (and otherwise answers "does not belong", never another error or fuel exhaustion). *)
Theorem C12_walk_complete : forall K cl ns fuel kind name owners,
  regular K cl ns fuel kind owners = true ->
  (exists k n, get_katib_job K cl ns fuel kind name owners = Found k n) \/
  (get_katib_job K cl ns fuel kind name owners = WErr e_not_belong /\ jobs K cl ns fuel kind name owners = []).
Proof. exact walk_regular. Qed.
Print Assumptions C12_walk_complete.

(* Fuel: an acyclic ownership graph (a rank decreasing along resolvable owner references) bounds the fuel needed, and
   more fuel never changes an answer.  (On a cyclic graph the Go recursion does not terminate; not covered.) *)
Theorem C12_walk_fuel : forall K cl ns rank, ranked cl ns rank -> forall n kind name owners,
  (forall r o, In r owners -> resolve cl ns r = Some o -> rank o < n) ->
  get_katib_job K cl ns (S n) kind name owners <> OutOfFuel /\
  forall fuel', S n <= fuel' ->
    get_katib_job K cl ns fuel' kind name owners = get_katib_job K cl ns (S n) kind name owners.
Proof.
  intros K cl ns rank R n kind name owners B. split; [now apply (walk_terminates K cl ns rank R)|].
  intros fuel' L. apply walk_mono_le; [assumption|]. now apply (walk_terminates K cl ns rank R).
Qed.
Print Assumptions C12_walk_fuel.

(* ---------------------------------------------------------------- pods that do not descend from a Trial *)
Theorem C12_not_katib : forall W ns fuel p,
  (forall job, ~ descends (w_consts W) (w_objects W) ns (p_kind p) (p_name p) (p_owners p) job) ->
  walk_pod W ns fuel p <> OutOfFuel ->
  handle W ns fuel p = Unchanged.
Proof. exact handle_not_katib. Qed.
Print Assumptions C12_not_katib.

(* ---------------------------------------------------------------- non-primary pods and Push-collector Trials *)
(* admitted (never rejected), patched with the Trial labels only, plus KATIB_TRIAL_NAME appended to the environment of
   the first container named primaryContainerName iff there is one; nothing else changes *)
Theorem C12_labels_only : forall W ns fuel p k job t,
  walk_pod W ns fuel p = Found k job -> find_trial W ns job = Some t ->
  is_primary_pod (p_labels p) (t_primary_pod_labels t) = false \/ t_kind t = KPush ->
  exists p', handle W ns fuel p = Patched p' /\
    p_containers p' = match primary_index (p_containers p) (t_primary_container t) with
                      | Some i => update_nth i (add_env (trial_env (w_consts W))) (p_containers p)
                      | None => p_containers p
                      end /\
    p_volumes p' = p_volumes p /\ p_share p' = p_share p /\
    p_kind p' = p_kind p /\ p_name p' = p_name p /\ p_owners p' = p_owners p /\ p_rest p' = p_rest p /\
    forall key, lookup_label key (p_labels p') = expected_label (w_consts W) t (p_labels p) key.
Proof. exact labels_only_handle. Qed.
Print Assumptions C12_labels_only.

(* ---------------------------------------------------------------- the primary pod *)
(* If the primary pod of a non-Push Trial is admitted, then: the primary container exists; containers' is the original
   list, position by position as [expected_container] says, followed by exactly one collector container; the volumes
   are the original ones followed by the suggestion volume (iff suggestion_trial_dir is set) and the metrics volume
   (iff the collector reads a file or directory); shareProcessNamespace = true; labels as a map; nothing else changes. *)
Theorem C12_primary : forall W ns fuel p k job t p',
  walk_pod W ns fuel p = Found k job -> find_trial W ns job = Some t ->
  is_primary_pod (p_labels p) (t_primary_pod_labels t) = true -> t_kind t <> KPush ->
  handle W ns fuel p = Patched p' ->
  exists pidx pc col mp isf argv,
    primary_index (p_containers p) (t_primary_container t) = Some pidx /\
    nth_error (p_containers p) pidx = Some pc /\
    collector_container W t p = Ok col /\
    get_mount_path (w_consts W) t = Ok (mp, isf) /\
    (need_wrap (t_kind t) = true -> container_command W pc = Ok argv /\ argv <> []) /\
    p_containers p' = mapi (expected_container W t (c_name col) mp isf pidx argv) (p_containers p)
                      ++ [expected_collector W mp isf col] /\
    p_volumes p' = expected_volumes W t mp (p_volumes p) /\
    p_share p' = Some true /\
    p_kind p' = p_kind p /\ p_name p' = p_name p /\ p_owners p' = p_owners p /\ p_rest p' = p_rest p /\
    forall key, lookup_label key (p_labels p') = expected_label (w_consts W) t (p_labels p) key.
Proof. exact primary_handle. Qed.
Print Assumptions C12_primary.

(* [expected_container] spelled out: name, image, pull policy, resources, security context and all other fields of every
   original container are kept; the environment grows by KATIB_TRIAL_NAME in the primary container only; the mounts grow
   by the suggestion mount (primary container, iff set) and the metrics mount (containers named like the primary or the
   collector, iff a metrics path exists); command and args are untouched except in the wrapped primary container. *)
Theorem C12_primary_containers_kept : forall W t col mp isf pidx argv j c,
  let c' := expected_container W t col mp isf pidx argv j c in
  c_name c' = c_name c /\ c_image c' = c_image c /\ c_pull c' = c_pull c /\ c_resources c' = c_resources c /\
  c_secctx c' = c_secctx c /\ c_rest c' = c_rest c /\
  c_env c' = c_env c ++ (if Nat.eqb j pidx then [trial_env (w_consts W)] else []) /\
  c_mounts c' = c_mounts c ++
                (if Nat.eqb j pidx && negb (seqb (sugg_checkpoint W t) "") then [sugg_mount W t] else []) ++
                (if negb (seqb mp "") && (seqb (c_name c) col || seqb (c_name c) (t_primary_container t))
                 then [metrics_mount W mp isf] else []) /\
  (Nat.eqb j pidx && need_wrap (t_kind t) = false -> c_command c' = c_command c /\ c_args c' = c_args c).
Proof. exact expected_container_keeps. Qed.
Print Assumptions C12_primary_containers_kept.

(* The wrapped primary container (StdOut, File, TensorFlowEvent): command = sh -c, or the container's own sh|bash -c;
   exactly one argument = the remaining original words joined by single spaces, then the redirect (StdOut), the
   early-stopping clause (iff rules), "&&" and the completion marker; in particular the original command line is a
   prefix of that argument. *)
Theorem C12_primary_wrapped : forall W t mp isf argv c,
  let c' := wrapped W t mp isf argv c in
  c_command c' = fst (split_shell argv) /\
  (exists s, c_args c' = [s] /\ s = String.concat " " (snd (split_shell argv) ++ wrap_tail W t mp isf) /\
             String.prefix (String.concat " " (snd (split_shell argv))) s = true) /\
  ((fst (split_shell argv) = ["sh"; "-c"] /\ snd (split_shell argv) = argv) \/
   (exists a0 rest, argv = a0 :: "-c" :: rest /\ (a0 = "sh" \/ a0 = "bash") /\
                    fst (split_shell argv) = [a0; "-c"] /\ snd (split_shell argv) = rest)).
Proof.
  intros W t mp isf argv c. destruct (wrapped_spec W t mp isf argv c) as [H1 H2].
  split; [exact H1|]. split; [exact H2|]. exact (split_shell_spec argv).
Qed.
Print Assumptions C12_primary_wrapped.

(* The collector container before its metrics mount: the Trial's custom container, or (built-in kinds) the container
   named after the kind, with the image / pull policy / resources of the LAST katib-config entry of that kind and the
   arguments -t name -m metrics -o-type type -s-db addr [-path p] [-f filters] [-format f] [-w b] [-stop-rule r]*
   [-s-earlystop endpoint] written out in [expected_args]. *)
Theorem C12_collector : forall W t p col,
  collector_container W t p = Ok col -> expected_collector_base W t p = Some col.
Proof. exact collector_base_spec. Qed.
Print Assumptions C12_collector.

(* With distinct container names (collector included) the metrics volume is mounted in exactly two containers:
   the primary one and the collector. *)
Theorem C12_metrics_mount_exact : forall (cs : list container) col prim pidx pc,
  NoDup (map c_name cs ++ [col]) -> nth_error cs pidx = Some pc -> c_name pc = prim ->
  forall j c, nth_error cs j = Some c -> (seqb (c_name c) col || seqb (c_name c) prim = true <-> j = pidx).
Proof. exact metrics_mount_exact. Qed.
Print Assumptions C12_metrics_mount_exact.

(* The primary pod IS admitted when: the primary container exists and (for the wrapping kinds) has an explicit command,
   the collector can be built (custom container given, or katib-config has a non-blank image for the kind and File /
   TensorFlowEvent have source.fileSystemPath), and the Experiment and the Suggestion exist.  In particular a command
   consisting of the single word sh is admitted (repaired F5b). *)
Theorem C12_primary_admitted : forall W ns fuel p k job t pidx pc,
  walk_pod W ns fuel p = Found k job -> find_trial W ns job = Some t ->
  is_primary_pod (p_labels p) (t_primary_pod_labels t) = true -> t_kind t <> KPush ->
  primary_index (p_containers p) (t_primary_container t) = Some pidx ->
  nth_error (p_containers p) pidx = Some pc ->
  (need_wrap (t_kind t) = true -> c_command pc <> []) ->
  collector_ready W t = true -> experiment_exists W t = true -> suggestion_exists W t = true ->
  exists p', handle W ns fuel p = Patched p'.
Proof. exact primary_admitted_handle. Qed.
Print Assumptions C12_primary_admitted.

(* The labels of every admitted pod of a Trial, as a finite map, and without duplicate keys. *)
Theorem C12_labels : forall K pl t,
  (forall key, lookup_label key (mutate_labels K pl t) = expected_label K t pl key) /\
  (NoDup (map fst pl) -> NoDup (map fst (mutate_labels K pl t))).
Proof. intros K pl t. split; [intro key; apply mutate_labels_spec|apply nodup_mutate_labels]. Qed.
Print Assumptions C12_labels.

(* The executable monitor that runs on implementation verdicts is implied by the theorems above. *)
Theorem C12_monitor_sound : forall W ns p,
  walk_pod W ns (case_fuel W) p <> OutOfFuel -> monitor W ns p (handle W ns (case_fuel W) p) = true.
Proof. exact monitor_model. Qed.
Print Assumptions C12_monitor_sound.

(* ---------------------------------------------------------------- non-vacuity *)
Definition K0 : consts :=
  Consts "Trial" "kubeflow.org/v1beta1" "katib.kubeflow.org/trial" "katib.kubeflow.org/experiment" "KATIB_TRIAL_NAME"
         "/var/log/katib/metrics.log" "TEXT" "metrics-volume" "metrics-logger-and-collector" "metrics-collector"
         "katib-db-manager.kubeflow:6789" "completed" "early-stopped" "suggestion_trial_dir" "suggestion-volume".
Definition T0 : trial :=
  Trial "t1" "n" [("katib.kubeflow.org/experiment", "e")] "main" [("role", "master")] KStdOut "StdOut" None None
        "maximize" "acc" ["loss"] [Rule "acc" "0.8" "less" "2"] "e/t1".
Definition W0 : world :=
  World K0
    [Obj ("batch", "v1") "Job" "n" "t1" [ORef "kubeflow.org/v1beta1" (Some ("kubeflow.org", "v1beta1")) "Trial" "t1"]]
    [T0] [Sugg "e" "n" [] "e-random.n:6788" "e-random"] [("n", "e")]
    (Cfg [McCfg "StdOut" "img/collector" false "IfNotPresent" 1 (Some false)])
    [("/var/log/katib/metrics.log", ("/var/log/katib", "/var/log/katib/metrics.log/$$$$.pid", "/var/log/katib/metrics.log/$$.pid"));
     ("/var/log/katib", ("/var/log", "/var/log/katib/$$$$.pid", "/var/log/katib/$$.pid"))]
    false None.
Definition main0 (cmd : list string) : container := Ctr "main" "img" cmd [] [] [] "" 0 0 0.
Definition pod0 (role : string) (cs : list container) : pod :=
  Pod "" "t1-x" [("role", role)] [ORef "batch/v1" (Some ("batch", "v1")) "Job" "t1"] cs [] None 0.

(* a primary pod with a sidekick: admitted, wrapped, one collector, one volume *)
Example C12_primary_nonvacuous :
  exists p', handle W0 "n" 2 (pod0 "master" [Ctr "side" "i2" ["run"] [] [] [] "" 0 0 0; main0 ["python"; "train.py"]]) = Patched p' /\
    map c_name (p_containers p') = ["side"; "main"; "metrics-logger-and-collector"] /\
    map c_command (p_containers p') = [["run"]; ["sh"; "-c"]; []] /\
    nth_error (map c_args (p_containers p')) 1 =
      Some ["python train.py 1>/var/log/katib/metrics.log 2>&1 || if test -f /var/log/katib/$$$$.pid && [ $(head -n 1 /var/log/katib/$$.pid) = early-stopped ]; then echo Training Container was Early Stopped; else echo Training Container was Failed; exit 1; fi && echo completed > /var/log/katib/$$$$.pid"] /\
    map (fun c => length (c_mounts c)) (p_containers p') = [0; 1; 1] /\
    map v_name (p_volumes p') = ["metrics-volume"] /\ p_share p' = Some true.
Proof. eexists. split; [vm_compute; reflexivity|]. vm_compute. repeat split. Qed.

(* repaired F5: a worker pod without the primary container is admitted with the labels only *)
Example C12_labels_only_nonvacuous :
  handle W0 "n" 2 (pod0 "worker" [Ctr "side" "i2" ["run"] [] [] [] "" 0 0 0]) =
  Patched (Pod "" "t1-x" [("role", "worker"); ("katib.kubeflow.org/experiment", "e"); ("katib.kubeflow.org/trial", "t1")]
               [ORef "batch/v1" (Some ("batch", "v1")) "Job" "t1"] [Ctr "side" "i2" ["run"] [] [] [] "" 0 0 0] [] None 0).
Proof. vm_compute. reflexivity. Qed.

(* repaired F5b: the command "sh" alone is wrapped, not a crash *)
Example C12_single_sh_nonvacuous :
  exists p', handle W0 "n" 2 (pod0 "master" [main0 ["sh"]]) = Patched p' /\
             map c_command (p_containers p') = [["sh"; "-c"]; []].
Proof. eexists. split; vm_compute; reflexivity. Qed.

(* not a katib pod *)
Example C12_not_katib_nonvacuous :
  handle W0 "n" 2 (Pod "" "x" [] [ORef "batch/v1" (Some ("batch", "v1")) "Job" "other"] [main0 ["a"]] [] None 0) = Unchanged.
Proof. vm_compute. reflexivity. Qed.
