(* C05 — Experiment status faithfully summarises its trials, incl. the optimal trial.
   Only the property theorems (closed by [exact]) and their assumption audit.
   Model: Model/StatusUtil.v (update_experiment_status = util.UpdateExperimentStatus);
   vocabulary: Model/StatusSpec.v (in_class = the precedence formula, list_of / counter_of = the seven lists and
   counters, numeric_value = a trial's available numeric objective value per its metric strategy). *)
From KV Require Import Base.Prelude Base.Cond Base.Subseq Model.StatusUtil Model.StatusSpec Proofs.StatusUtilP
  Proofs.StatusUtilT Corr.C05 Proofs.C05Monitor.
From Coq Require Import Permutation.
Open Scope Z_scope.

(* For every trial list (any order, any condition lists, duplicate names allowed), spec and prior status (completed
   or not): the seven lists together are a permutation of the trial names; each list is exactly the names of the
   trials of its class in list order (hence a subsequence); membership <-> class; each counter is the length of its
   list; status.trials is the number of trials and the sum of the counters. *)
Theorem C05_partition : forall now spec st ts,
  let st' := update_experiment_status now spec st ts in
  Permutation (all_lists st') (map t_name ts) /\
  (forall k, list_of k st' = map t_name (filter (in_class k) ts)) /\
  (forall k, subseq (list_of k st') (map t_name ts)) /\
  (forall k n, In n (list_of k st') <-> exists t, In t ts /\ t_name t = n /\ classify t = k) /\
  (NoDup (map t_name ts) -> forall k t, In t ts -> (In (t_name t) (list_of k st') <-> classify t = k)) /\
  (forall k, counter_of k st' = zlen (list_of k st')) /\
  e_trials st' = zlen ts /\
  e_trials st' = fold_right Z.add 0 (map (fun k => counter_of k st') all_classes).
Proof. exact T_partition. Qed.
Print Assumptions C05_partition.

(* The if/else chain is the precedence killed > failed > succeeded > early-stopped > running > metrics-unavailable
   > pending over the Is… predicates (in_class spells the formula out), for arbitrary condition lists. *)
Theorem C05_classes : forall t k, classify t = k <-> in_class k t = true.
Proof. exact classify_iff. Qed.
Print Assumptions C05_classes.

Theorem C05_classes_exclusive : forall t k k', in_class k t = true -> in_class k' t = true -> k = k'.
Proof. exact in_class_exclusive. Qed.
Print Assumptions C05_classes_exclusive.

(* When every objective value is "unavailable" or numeric, some value is numeric and the type is minimize or
   maximize: currentOptimalTrial is a copy (name, assignments, observation) of a trial t of the list whose value is
   the minimum (maximum) over all numeric objective values, and t is the first such trial in list order. *)
Theorem C05_optimal : forall now spec st ts,
  obj_type spec = Minimize \/ obj_type spec = Maximize ->
  numeric_domain ts = true -> numeric_values ts <> [] ->
  let st' := update_experiment_status now spec st ts in
  exists i t v,
    nth_error ts i = Some t /\ numeric_value t = Some v /\
    best_name (e_optimal st') = t_name t /\
    best_assignments (e_optimal st') = t_assignments t /\
    Some (best_observation (e_optimal st')) = t_observation t /\
    (forall v', In v' (numeric_values ts) ->
       (obj_type spec = Minimize -> v <= v') /\ (obj_type spec = Maximize -> v' <= v)) /\
    (forall j t' v', (j < i)%nat -> nth_error ts j = Some t' -> numeric_value t' = Some v' ->
       (obj_type spec = Minimize -> v < v') /\ (obj_type spec = Maximize -> v' < v)).
Proof. exact T_optimal. Qed.
Print Assumptions C05_optimal.

(* No trial with an available objective value (no hypothesis on texts or on the objective type): the optimum is
   left as it was. *)
Theorem C05_no_value : forall now spec st ts,
  (forall t, In t ts -> available t = false) ->
  e_optimal (update_experiment_status now spec st ts) = e_optimal st.
Proof. exact T_no_value. Qed.
Print Assumptions C05_no_value.

(* The index the loop keeps is a position of the list: no out-of-range access at trials.Items[bestTrialIndex]. *)
Theorem C05_best_index_in_range : forall spec ts j,
  b_index (run_best spec best_init 0%nat ts) = Some j -> (j < length ts)%nat.
Proof. exact best_index_in_range. Qed.
Print Assumptions C05_best_index_in_range.

(* The executable monitor that runs on implementation outputs is implied by the theorems: the model's output
   passes it for every input. *)
Theorem C05_monitor_sound : forall now spec st ts, monitor spec st ts (update_experiment_status now spec st ts) = true.
Proof. exact monitor_model. Qed.
Print Assumptions C05_monitor_sound.

(* Non-vacuity: four trials in three classes (one with Killed and Succeeded both true, one with a Running condition
   that is False), strategies min / latest / absent, a tie on the best value: the first of the tied trials wins. *)
Definition ex_val (text : nat) (z : Z) : mval := {| mv_text := text; mv_num := Some z |}.
Definition ex_metric (a b c : mval) : metric := {| m_name := 0%nat; m_min := a; m_max := b; m_latest := c |}.
Definition ex_trial (n : nat) (cs : conds) (s : list (nat * strategy)) (o : option (list metric)) : trial :=
  {| t_name := n; t_conds := cs; t_objective_metric := 0%nat; t_strategies := s; t_observation := o; t_assignments := [(n, n)] |}.
Definition ex_cond (t : nat) (s : cstatus) : cond := {| ctype := t; cstat := s; creason := 0%nat |}.
Definition ex_trials : list trial :=
  [ ex_trial 10 [ex_cond TSucceeded CTrue; ex_cond TKilled CTrue] [(0%nat, SMin)]
      (Some [ex_metric (ex_val 1 24) (ex_val 2 40) (ex_val 2 40)]);
    ex_trial 11 [ex_cond TRunning CFalse; ex_cond TSucceeded CTrue] [(0%nat, SLatest)]
      (Some [ex_metric (ex_val 3 8) (ex_val 4 16) (ex_val 4 16)]);
    ex_trial 12 [ex_cond TCreated CTrue] [] (Some [ex_metric (ex_val 5 0) (ex_val 5 0) (ex_val 5 0)]);
    ex_trial 13 [ex_cond TSucceeded CTrue] [(0%nat, SMin)]
      (Some [ex_metric mval_unavailable (ex_val 4 16) (ex_val 4 16)]) ]%nat.
Definition ex_spec : espec :=
  {| obj_type := Minimize; obj_goal := Some 8; max_trials := Some 9; max_failed := Some 0; resume_policy := LongRunning |}.
Definition ex_prior : estatus :=
  {| e_conds := [ex_cond ECreated CTrue; ex_cond ERunning CTrue]; e_completion := None;
     e_optimal := {| best_name := 0; best_assignments := []; best_observation := [] |};
     e_running_list := [7%nat]; e_pending_list := []; e_failed_list := []; e_succeeded_list := []; e_killed_list := [];
     e_early_stopped_list := []; e_metrics_unavailable_list := []; e_trials := 5; e_trials_succeeded := 1;
     e_trials_failed := 0; e_trials_killed := 0; e_trials_pending := 0; e_trials_running := 0;
     e_trials_early_stopped := 0; e_trials_metrics_unavailable := 0 |}.

Example C05_nonvacuous :
  let st' := update_experiment_status 1 ex_spec ex_prior ex_trials in
  numeric_domain ex_trials = true /\ numeric_values ex_trials = [24; 16; 16] /\
  e_killed_list st' = [10%nat] /\ e_succeeded_list st' = [11; 13]%nat /\ e_pending_list st' = [12%nat] /\
  e_trials st' = 4 /\ best_name (e_optimal st') = 11%nat /\ best_assignments (e_optimal st') = [(11, 11)]%nat.
Proof. vm_compute. repeat split; reflexivity. Qed.
