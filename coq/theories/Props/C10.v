(* C10 — Experiment / Trial resources reach the algorithm services without loss.
   This file contains only the property theorems (closed by [exact]) and their assumption audit.
   The obligation over the regenerated API tables (C10_field_coverage, C10_enum_coverage) is in Proofs/C10Fields.v. *)
From KV Require Import Base.Prelude Model.Convert Model.Settings Proofs.SettingsP Proofs.SettingsClosed Proofs.ConvertP Corr.C10
  Proofs.C10Monitor Proofs.C10EnumMonitor.
Open Scope string_scope.

(* What a service can read back from the Experiment message ([unconvert_experiment], a left inverse) is the experiment as the
   property speaks of it ([view_experiment]: name; algorithm name and settings; objective type, goal (absent = 0), metric names;
   every parameter's name, type, min, max, step, list, distribution, in order; NAS graph config and operations; parallel / max
   trial counts (absent = 0); early-stopping name and settings.  An enum-typed string outside the declared constants reads as
   the type's unknown; the objective's metricStrategies are not part of the message). *)
Theorem C10_lossless_experiment : forall e pe,
  convert_experiment e = Ok pe -> unconvert_experiment pe = view_experiment e.
Proof. exact lossless_experiment. Qed.
Print Assumptions C10_lossless_experiment.

(* On experiments whose enum fields hold declared constants and whose optional scalars are set, nothing at all is lost. *)
Theorem C10_lossless_experiment_exact : forall e,
  wf_experiment e -> exists pe, convert_experiment e = Ok pe /\ unconvert_experiment pe = e.
Proof. exact lossless_experiment_exact. Qed.
Print Assumptions C10_lossless_experiment_exact.

(* ConvertExperiment never returns an error; it panics exactly when spec.algorithm or spec.objective is nil. *)
Theorem C10_convert_experiment_total : forall e,
  (forall c, convert_experiment e <> Err c) /\
  ((exists s, convert_experiment e = Crash s) <-> e_algorithm e = None \/ e_objective e = None).
Proof. exact convert_experiment_total. Qed.
Print Assumptions C10_convert_experiment_total.

(* The four enum switches are injective on the declared constants, never send a declared constant to UNKNOWN, and send
   every other string to UNKNOWN.  (That the declared lists are the constants of the current tree is C10_enum_coverage.) *)
Theorem C10_enum_injective :
  enum_faithful convert_ptype ptype_declared PT_UNKNOWN_TYPE /\
  enum_faithful convert_dist dist_declared D_DISTRIBUTION_UNSPECIFIED /\
  enum_faithful convert_otype otype_declared O_UNKNOWN /\
  enum_faithful convert_cond cond_declared C_UNKNOWN.
Proof. exact enum_injective. Qed.
Print Assumptions C10_enum_injective.

(* Settings remembered in Suggestion.status override the spec: under every name the merged list gives the value the
   suggestion gave LAST, else the spec's; the names are the spec's in order, then the new names in order of first appearance. *)
Theorem C10_settings_override : forall spec sug,
  (forall n, lookup n (merge_settings spec sug) = match lookup_last n sug with Some v => Some v | None => lookup n spec end) /\
  names (merge_settings spec sug) = (names spec ++ new_names (names spec) sug)%list /\
  NoDup (new_names (names spec) sug) /\
  (forall n, In n (new_names (names spec) sug) <-> In n (names sug) /\ ~ In n (names spec)).
Proof. exact settings_override_thm. Qed.
Print Assumptions C10_settings_override.

(* The same, position by position and without any assumption on duplicate names: every FIRST entry of a name of the spec takes
   the last value the suggestion gives under that name (if any), later duplicates and all other entries are unchanged, and the
   new names follow, each with its last value. *)
Theorem C10_settings_closed_form : forall sug spec, merge_settings spec sug = expected_settings spec sug.
Proof. exact merge_closed_form. Qed.
Print Assumptions C10_settings_closed_form.

(* The request SyncAssignments sends (GetSuggestions and GetEarlyStoppingRules alike) carries the experiment with the remembered
   settings merged over the spec's settings, everything else as in C10_lossless_experiment, and the converted trials. *)
Theorem C10_sync_request : forall e sug ts pe pts,
  sync_request e sug ts = Ok (pe, pts) ->
  exists a, e_algorithm e = Some a /\
            unconvert_experiment pe = view_experiment (with_settings e (merge_settings (a_settings a) sug)) /\
            pa_settings (pe_algorithm pe) = merge_settings (a_settings a) sug /\
            convert_trials ts = Ok pts.
Proof. exact sync_request_spec. Qed.
Print Assumptions C10_sync_request.

(* [lookup_last] is the value of the last entry of that name. *)
Theorem C10_lookup_last : forall n l v,
  lookup_last n l = Some v <-> exists l1 l2, l = (l1 ++ KV n v :: l2)%list /\ ~ In n (names l2).
Proof. exact lookup_last_spec. Qed.
Print Assumptions C10_lookup_last.

(* What the service returns is remembered by the same rule (nil entries of the reply skipped). *)
Theorem C10_settings_remembered : forall status reply,
  update_settings status reply = merge_settings status (somes reply).
Proof. exact settings_remembered. Qed.
Print Assumptions C10_settings_remembered.

(* The trials reported are exactly those not withheld (MetricsUnavailable True, or EarlyStopped True without an available
   objective observation), in order; each arrives with name, objective, assignments (order), labels, start / completion stamps
   ("" when unset), the type of its LAST condition and one (name, strategy-selected value) per metric in order. *)
Theorem C10_lossless_trials : forall ts out,
  convert_trials ts = Ok out ->
  Forall2 (fun t p => exists o, t_objective t = Some o /\ unconvert_trial p = view_trial o t) (sent ts) out.
Proof. exact lossless_trials. Qed.
Print Assumptions C10_lossless_trials.

(* ConvertTrials never returns an error; it panics exactly when a trial that is not withheld has a nil objective. *)
Theorem C10_convert_trials_total : forall ts,
  (forall c, convert_trials ts <> Err c) /\
  ((exists s, convert_trials ts = Crash s) <-> exists t, In t (sent ts) /\ t_objective t = None).
Proof. exact convert_trials_total. Qed.
Print Assumptions C10_convert_trials_total.

(* Each metric is reported, in order and under its name, with min / max / latest as its strategy says, falling back to
   latest when the extreme is "unavailable"; with no (known) strategy the value is empty. *)
Theorem C10_metric_strategy : forall strategies ms,
  Forall2 (fun m r => k_name r = m_name m /\ selected_ok (strategy_of strategies (m_name m)) m (k_value r))
          ms (convert_observation strategies (Some ms)).
Proof. exact metric_strategy. Qed.
Print Assumptions C10_metric_strategy.

(* The strategy of a metric is the value of the last strategy entry of that name, "" if there is none. *)
Theorem C10_strategy_of : forall strategies n,
  ((forall s, In s strategies -> k_name s <> n) /\ strategy_of strategies n = "") \/
  (exists l1 s l2, strategies = (l1 ++ s :: l2)%list /\ k_name s = n /\ (forall x, In x l2 -> k_name x <> n) /\
                   strategy_of strategies n = k_value s).
Proof. exact strategy_of_spec. Qed.
Print Assumptions C10_strategy_of.

(* convertTrialConditionType has no case for MetricsUnavailable; with condition types unique (as setCondition keeps them) a
   trial that is sent never has (MetricsUnavailable, True) as its last condition. *)
Theorem C10_metrics_unavailable_not_sent : forall t,
  NoDup (map c_type (t_conditions t)) -> skipped t = false ->
  forall c r, t_conditions t = c :: r -> ~ (c_type (last r c) = "MetricsUnavailable" /\ c_status (last r c) = cond_true).
Proof. exact metrics_unavailable_not_sent. Qed.
Print Assumptions C10_metrics_unavailable_not_sent.

(* The executable monitor that runs on implementation outputs is implied by the theorems above. *)
Theorem C10_monitor_sound : forall c,
  match c with
  | CExp e impl => impl = convert_experiment e
  | CTrials ts impl => impl = convert_trials ts
  | CSync e sug reply ts impl => impl = model_sync e sug reply ts
  | _ => False
  end -> holds c = true.
Proof. exact monitor_sound. Qed.
Print Assumptions C10_monitor_sound.

(* ... and so is its enum part: the rows the model's switches produce for ANY list of values pass it. *)
Theorem C10_monitor_enum_sound : forall ty vs, In ty mapped_types -> holds (CEnum ty (model_rows ty vs)) = true.
Proof. exact monitor_enum. Qed.
Print Assumptions C10_monitor_enum_sound.

(* ------------------------------------------------------------------ non-vacuity *)

Definition ex_param := Param "lr" "double" (Feasible "0.9" "0.1" ["a"; "b"] "0.2" "logUniform").
Definition ex_objective := Objective "maximize" (Some 4604930618986332160%Z) "accuracy" ["loss"] [].
Definition ex_experiment :=
  Experiment "e" [ex_param; Param "opt" "categorical" (Feasible "" "" ["sgd"; "adam"] "" "unknown")]
             (Some ex_objective) (Some (Algorithm "tpe" [KV "seed" "1"])) (Some (Algorithm "medianstop" [KV "min_trials" "3"]))
             (Some 3%Z) (Some 12%Z)
             (Some (Nas (Graph (Some 8%Z) [32%Z] [10%Z]) [Operation "convolution" [ex_param]])).

Example C10_nonvacuous_experiment :
  wf_experiment ex_experiment /\
  exists pe, convert_experiment ex_experiment = Ok pe /\ pp_type (hd (convert_param ex_param) (pe_params pe)) = PT_DOUBLE /\
             unconvert_experiment pe = ex_experiment.
Proof.
  split.
  - assert (P1 : wf_param ex_param) by (unfold wf_param; cbn; split; left; auto 10).
    unfold wf_experiment. cbn. split; [|split; [|split; [|split; [|split]]]].
    + intros q [<-|[<-|[]]]; [exact P1|]. unfold wf_param. cbn. split; [left; auto 10|right; reflexivity].
    + eexists. split; [reflexivity|]. unfold wf_objective. cbn. split; [left; auto|split; eauto].
    + eauto.
    + eauto.
    + eauto.
    + intros n [= <-]. unfold wf_nas. cbn. split; [eauto|]. intros o [<-|[]] q [<-|[]]. exact P1.
  - eexists. split; [reflexivity|]. split; reflexivity.
Qed.

(* a trial list with a withheld trial, a fall-back to latest, a duplicate strategy and an overriding setting *)
Example C10_nonvacuous_trials :
  let o := Objective "minimize" None "loss" ["acc"] [KV "loss" "max"; KV "acc" "max"; KV "loss" "min"] in
  let t1 := Trial "t1" (Some o) [KV "lr" "0.1"] [("k", "v")] (Some "2024-01-01T00:00:00Z") None
                  [Cond "Created" "True"; Cond "Running" "False"; Cond "Succeeded" "True"]
                  (Some [Metric "loss" "unavailable" "0.9" "0.5"; Metric "acc" "0.1" "0.7" "0.6"]) in
  let t2 := Trial "t2" (Some o) [] [] None None [Cond "Created" "True"; Cond "MetricsUnavailable" "True"] None in
  exists p, convert_trials [t1; t2] = Ok [p] /\ pt_observation p = [KV "loss" "0.5"; KV "acc" "0.7"] /\ pt_condition p = C_SUCCEEDED
            /\ merge_settings [KV "a" "1"; KV "b" "2"; KV "a" "7"] [KV "c" "3"; KV "a" "4"; KV "a" "5"]
               = [KV "a" "5"; KV "b" "2"; KV "a" "7"; KV "c" "3"]
            /\ expected_settings [KV "a" "1"; KV "b" "2"; KV "a" "7"] [KV "c" "3"; KV "a" "4"; KV "a" "5"]
               = [KV "a" "5"; KV "b" "2"; KV "a" "7"; KV "c" "3"].
Proof. eexists. repeat split; vm_compute; reflexivity. Qed.
