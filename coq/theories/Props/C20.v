(* C20 — UI backend: every data endpoint is authorised per user and namespace.
   Only the property theorems (closed by [exact]) and their assumption audit. *)
From KV Require Import Base.Prelude Model.UiAuth Proofs.UiAuthP Gen.Routes Gen.RoutesDyn Proofs.C20Routes.
Open Scope string_scope.

(* Once and for all: a skeleton accepted by the static checker only has safe traces — for every request (header,
   user, parameters, body), every RBAC oracle, all answers of the API server / DB manager and all data-dependent
   branch and loop decisions.  [safe]: accesses to namespace n and objects of n in a 2xx body are preceded by an
   allowing review covering n for the user of the header; a denying review ends the request with 401/403. *)
Theorem C20_checker_sound : forall h, check h = true ->
  forall rq rb apis ch, safe rq (run h rq rb apis ch).
Proof. exact check_sound. Qed.
Print Assumptions C20_checker_sound.

(* Every route of main.go served by a KatibUIHandler method and not listed as an open known finding passes the
   checker (table regenerated from the working tree by xlate-ui on every run). *)
Theorem C20_routes : forallb (fun r => check (snd r)) checked_routes = true.
Proof. exact routes_checked. Qed.
Print Assumptions C20_routes.

(* ... hence all their traces are safe. *)
Theorem C20_routes_safe : forall p h, In (p, h) checked_routes ->
  forall rq rb apis ch, safe rq (run h rq rb apis ch).
Proof. exact routes_safe. Qed.
Print Assumptions C20_routes_safe.

(* The statically extracted route list equals the list the dynamic side enumerated and exercised. *)
Theorem C20_route_complete :
  list_eqb pair_eqb (map (fun r => (route_path r, route_name r)) routes) exercised = true.
Proof. exact route_complete. Qed.
Print Assumptions C20_route_complete.

(* Every registration is a checked handler, the static file server, or an open known finding. *)
Theorem C20_routes_classified :
  forallb (fun r => match r with
                    | RHandler p _ h => check h || smem p open_findings
                    | RStatic _ w => String.eqb w "http.FileServer"
                    end) routes = true.
Proof. exact routes_classified. Qed.
Print Assumptions C20_routes_classified.

(* Missing user header: no review, no access to namespaced data, no object in the answer. *)
Theorem C20_missing_user : forall rq t, safe rq t -> r_header rq = "" ->
  (forall u v r n b, ~ In (EAuth u v r n b) (t_evs t)) /\
  (forall o k n, In (EAcc o k n) (t_evs t) -> namespaced k = false) /\
  (is2xx (t_status t) = true -> t_body t = []).
Proof. exact safe_no_header. Qed.
Print Assumptions C20_missing_user.

(* No allowing review in the request (e.g. the oracle denies everything): no access, nothing in the answer. *)
Theorem C20_nothing_without_allow : forall rq t, safe rq t ->
  (forall u v r a, ~ In (EAuth u v r a true) (t_evs t)) ->
  (forall o k n, In (EAcc o k n) (t_evs t) -> namespaced k = false) /\
  (is2xx (t_status t) = true -> t_body t = []).
Proof. exact safe_without_allow. Qed.
Print Assumptions C20_nothing_without_allow.

(* Deny-all oracle: a checked handler performs no access to namespaced data and returns no object, whatever the
   request, the API answers and the data-dependent choices. *)
Theorem C20_deny_all : forall h rq rb apis ch, check h = true -> (forall u v r n, rb u v r n = false) ->
  let t := run h rq rb apis ch in
  (forall o k n, In (EAcc o k n) (t_evs t) -> namespaced k = false) /\
  (is2xx (t_status t) = true -> t_body t = []).
Proof. exact deny_all. Qed.
Print Assumptions C20_deny_all.

(* The reviews of a model trace carry the oracle's answer (the allowed bit is not invented by the model). *)
Theorem C20_oracle_faithful : forall rq rb h apis ch u v r n b,
  In (EAuth u v r n b) (t_evs (run h rq rb apis ch)) -> b = rb u v r n.
Proof. exact run_oracle. Qed.
Print Assumptions C20_oracle_faithful.

(* The write clause, explicitly: on a safe trace every create / update / delete of namespaced data of kind k in
   namespace n is preceded by an allowing review, issued for the user of the header, whose verb and resource are
   exactly those of the write and whose namespace covers n.  (A review with another verb — e.g. "get" before a
   delete — does not satisfy it.) *)
Theorem C20_write_needs_matching_review : forall rq t, safe rq t ->
  forall pre o k n post, t_evs t = (pre ++ EAcc o k n :: post)%list -> namespaced k = true -> is_read o = false ->
  exists a, In (EAuth (eff_user rq) (verb_of o) (plural_of k) a true) pre /\ covers a n = true.
Proof. exact safe_write. Qed.
Print Assumptions C20_write_needs_matching_review.

(* A read-only user (the oracle never allows create / update / delete): a checked handler performs no write at all. *)
Theorem C20_read_only_no_write : forall h rq rb apis ch, check h = true ->
  (forall u v r n, v = "create" \/ v = "update" \/ v = "delete" -> rb u v r n = false) ->
  forall o k n, In (EAcc o k n) (t_evs (run h rq rb apis ch)) -> namespaced k = true -> is_read o = true.
Proof. exact read_only_no_write. Qed.
Print Assumptions C20_read_only_no_write.

(* The executable monitor evaluated on implementation traces: implied for model traces, and it implies [safe]. *)
Theorem C20_monitor_sound : forall h rq rb apis ch, check h = true -> safeb rq (run h rq rb apis ch) = true.
Proof. exact check_safeb. Qed.
Print Assumptions C20_monitor_sound.

Theorem C20_monitor_implies_safe : forall rq t, safeb rq t = true -> safe rq t.
Proof. exact safeb_safe. Qed.
Print Assumptions C20_monitor_implies_safe.

(* ---- F13 (known finding, by design upstream): the trial-template view of the pinned tree, transcribed by hand
   (getTrialTemplatesViewList: list the namespaces, list the ConfigMaps of each BEFORE any review, skip the review
   for the katib namespace, answer 500 when a review denies).  It is rejected by the checker and has an unsafe trace. *)
Definition F13_skeleton : handler :=
  [ Access OList KNamespace (NsConst "") 1; DefaultNames 1 ["kubeflow"]; Guard 500;
    ForEachName 1 1
      [ Access OList KConfigMap (NsVar 1) 2; Guard 500;
        ForEachObj 2 2 [ IfNsEq (NsVar 1) "kubeflow" [] [ Auth "get" "configmaps" (NsVar 1) (GCode 500) ] ] ];
    Guard 500; LibGuard "json.Marshal" 500; Respond [2]; LibGuard "w.Write" 500 ].

Theorem C20_trial_templates_refuted :
  check F13_skeleton = false /\
  exists rq rb apis ch, ~ safe rq (run F13_skeleton rq rb apis ch).
Proof.
  split; [reflexivity|].
  exists (Req "alice" "alice" [] [] [] []), (fun _ _ _ _ => false),
         [AOk ["kubeflow"; "victim"]; AOk ["kubeflow"]; AOk ["victim"]], [].
  intros (S1 & _).
  specialize (S1 [EAcc OList KNamespace ""] OList KConfigMap "kubeflow"
                 [EAcc OList KConfigMap "victim"; EAuth "alice" "get" "configmaps" "victim" false] eq_refl eq_refl).
  destruct S1 as (u & v & r & a & [I|[]] & _). discriminate I.
Qed.
Print Assumptions C20_trial_templates_refuted.

(* ---- the checker distinguishes verbs: DeleteExperiment's skeleton with a "get" review instead of "delete" is rejected,
   and with a read-only oracle its trace deletes after an allowed "get" review: unsafe *)
Example C20_wrong_verb_rejected :
  let h v := [ RequireParam "namespace" 400; Auth v "experiments" (NsParam "namespace") GStd;
               Access OGet KExperiment (NsParam "namespace") 1; Guard 500;
               Access ODelete KExperiment (NsParam "namespace") 2; Guard 500 ] in
  check (h "delete") = true /\ check (h "get") = false /\
  safeb (Req "bob" "bob" [("namespace", "mine")] [] [] [])
        (run (h "get") (Req "bob" "bob" [("namespace", "mine")] [] [] [])
             (fun _ v _ _ => String.eqb v "get" || String.eqb v "list") [AOk ["mine"]; AOk []] []) = false.
Proof. vm_compute. auto. Qed.

(* ---- non-vacuity: a checked skeleton (shape of FetchHPJobInfo) and a request that is allowed: the trace has two
   reviews, three accesses and a 200 answer carrying objects of the authorised namespace *)
Example C20_nonvacuous :
  let h := [ RequireParam "namespace" 400; Auth "get" "experiments" (NsParam "namespace") GStd;
             Access OGet KExperiment (NsParam "namespace") 1; Guard 500;
             Auth "list" "trials" (NsParam "namespace") GStd;
             Access OList KTrial (NsParam "namespace") 2; Guard 500;
             ForEachObj 1 2 [ Alt [ Access OGet KObsLog (NsVar 1) 3; Guard 500 ] [] ];
             Respond [1; 2; 3] ] in
  check h = true /\
  run h (Req "alice" "alice" [("namespace", "mine")] [] [] []) (fun _ _ _ n => String.eqb n "mine")
        [AOk ["mine"]; AOk ["mine"; "mine"]; AOk ["mine"]] [0; 1]
  = Trace [EAuth "alice" "get" "experiments" "mine" true; EAcc OGet KExperiment "mine";
           EAuth "alice" "list" "trials" "mine" true; EAcc OList KTrial "mine"; EAcc OGet KObsLog "mine"]
          200 ["mine"; "mine"; "mine"; "mine"] /\
  run h (Req "" "" [("namespace", "mine")] [] [] []) (fun _ _ _ _ => true) [] [] = Trace [] 401 [].
Proof. vm_compute. auto. Qed.
