(* C18 — the Go suggestion service proposes only feasible points and survives its own history.
   This file contains only the property theorems (closed by [exact]) and their assumption audit.
   The samplers are not modelled: the raw internal draw [d] (exact rational d_num d / 2^(d_k d)) is universally quantified. *)
From KV Require Import Base.Prelude Model.Goptuna Proofs.GoptunaP Proofs.GoptunaHistory Proofs.C18Monitor.
From KV Require Corr.C18.
From Coq Require PrimFloat.     (* not imported: Print Assumptions then lists the binary64 primitives with their module prefix *)
Open Scope Z_scope.

(* A reply has exactly current_request_number assignment lists, each naming every parameter of the search space exactly once
   (in the order of the parameter list; the search space has one entry per parameter). *)
Theorem C18_shape : forall sp obj s kts n draws s' rep,
  get_suggestions sp obj s kts n draws = Ok (s', rep) ->
  length rep = n /\ Forall (fun a => map fst a = map fst sp) rep.
Proof. exact shape. Qed.
Print Assumptions C18_shape.

(* int without step: any draw in [min,max] (integer or real) gives min <= v <= max *)
Theorem C18_int : forall lo hi d,
  0 <= d_k d -> lo * 2 ^ d_k d <= d_num d <= hi * 2 ^ d_k d -> lo <= ext_int d <= hi.
Proof. exact int_feasible. Qed.
Print Assumptions C18_int.

(* int with step, draw between min and the top grid point min + step*floor((max-min)/step) (the range of the random and
   Sobol samplers, and of every sampler once High is aligned): min <= v <= max and v is on the grid *)
Theorem C18_int_step : forall lo hi step d,
  0 <= d_k d -> 0 < step -> lo <= hi ->
  lo * 2 ^ d_k d <= d_num d <= top_grid lo hi step * 2 ^ d_k d ->
  lo <= ext_stepint lo step d <= hi /\ (ext_stepint lo step d - lo) mod step = 0.
Proof. exact stepint_feasible_top. Qed.
Print Assumptions C18_int_step.

(* int with step, draw anywhere in [min,max] (TPE, CMA-ES): feasible when the remainder of the range rounds down *)
Theorem C18_int_step_rounddown : forall lo hi step d,
  0 <= d_k d -> 0 < step -> lo <= hi -> 2 * ((hi - lo) mod step) < step ->
  lo * 2 ^ d_k d <= d_num d <= hi * 2 ^ d_k d ->
  lo <= ext_stepint lo step d <= hi /\ (ext_stepint lo step d - lo) mod step = 0.
Proof. exact stepint_feasible_rounddown. Qed.
Print Assumptions C18_int_step_rounddown.

(* full statement "forall draws in [min,max]: v <= max" is FALSE for the faithful model (findings int-step and int-step-single):
   min 0, max 5, step 3, draw 5 -> 6.  What holds for every draw >= min: on the grid and not below min. *)
Theorem C18_int_step_refuted :
  exists lo hi step d, 0 < step /\ lo <= hi /\ 0 <= d_k d /\
    lo * 2 ^ d_k d <= d_num d <= hi * 2 ^ d_k d /\ hi < ext_stepint lo step d.
Proof. exact stepint_refuted. Qed.
Print Assumptions C18_int_step_refuted.

Theorem C18_int_step_partial : forall lo step d,
  0 <= d_k d -> 0 < step -> lo * 2 ^ d_k d <= d_num d ->
  lo <= ext_stepint lo step d /\ (ext_stepint lo step d - lo) mod step = 0.
Proof. exact stepint_grid. Qed.
Print Assumptions C18_int_step_partial.

(* categorical: an index draw in [0, len) gives a member of the list (no panic) *)
Theorem C18_categorical : forall choices d,
  0 <= d_k d -> 0 <= d_num d < Z.of_nat (length choices) * 2 ^ d_k d ->
  exists c, ext_cat choices d = Ok c /\ In c choices.
Proof. exact cat_feasible. Qed.
Print Assumptions C18_categorical.

(* discrete parameters are sampled as categorical over their own list, hence C18_categorical applies to them *)
Theorem C18_discrete : forall p,
  p_type p = PDiscrete \/ p_type p = PCategorical -> to_dist p = Ok (DCat (p_list p)).
Proof. exact discrete_is_categorical. Qed.
Print Assumptions C18_discrete.

(* For every injective naming [origin] of trials by the suggestion they were created from and every history (any length)
   in which each request feeds back well-formed trials — condition CREATED/RUNNING/SUCCEEDED/FAILED/EARLYSTOPPED, parsable
   timestamps, an objective metric on SUCCEEDED trials, assignment texts that convert, and the ROUND-TRIP assumption that
   the parameters re-derived from the texts are DeepEqual to those stored for the suggestion (see trial_wf) — and in which
   sampleNextParam does not fail on the sampler's draws, every request succeeds: no conversion error, and syncTrials never
   returns "Same parameter is not found".  Requests may list the trials in any order, omit trials, repeat them. *)
Theorem C18_history : forall (origin : nat -> nat), (forall a b, origin a = origin b -> a = b) ->
  forall sp obj h, hist_wf origin sp obj [] h -> exists s, run sp obj init h = Ok s.
Proof. exact history. Qed.
Print Assumptions C18_history.

(* the mapping step by itself, from any state satisfying the counting invariant, with no assumption on the sampler *)
Theorem C18_history_sync : forall (origin : nat -> nat), (forall a b, origin a = origin b -> a = b) ->
  forall sp obj sugg s kts, Inv origin sugg s -> Forall (trial_wf origin sp obj sugg) kts ->
  exists fs s', conv_trials sp obj kts = Ok fs /\ sync s fs = Ok s' /\ Inv origin sugg s'.
Proof. exact sync_never_fails. Qed.
Print Assumptions C18_history_sync.

(* "in any state" is FALSE for the faithful model (finding state-rejected): KILLED, METRICSUNAVAILABLE, UNKNOWN fail the request *)
Theorem C18_history_state_refuted : forall c, c = 3%nat \/ c = 5%nat \/ c = 7%nat ->
  let sp := [(0%nat, DInt 0 5)] in
  let d := [[(0%nat, Draw 3 0 0)]] in
  exists s1, get_suggestions sp 0%nat init [] 1 d = Ok (s1, [[(0%nat, RInt 3)]]) /\
    get_suggestions sp 0%nat s1 [KT 0 c true [] [KA 0 "3" (Some 3) None]] 1 d = Err 2.
Proof. exact killed_refuted. Qed.
Print Assumptions C18_history_state_refuted.

(* double with step: REFUTED in binary64 (finding double-step, F9): min 0.1, max 0.9, step 0.3, draw 0.9 -> 0.99999999999999989 *)
Theorem C18_double_step_refuted :
  exists lo hi q x : PrimFloat.float,
    PrimFloat.leb lo hi = true /\ PrimFloat.leb lo x = true /\ PrimFloat.leb x hi = true /\
    PrimFloat.ltb hi (dstep lo q x) = true.
Proof. exact dstep_refuted. Qed.
Print Assumptions C18_double_step_refuted.

(* ... also when the step divides the range: min 0, max 0.3, step 0.1 -> 0.30000000000000004 (why no katib-side alignment is proposed) *)
Theorem C18_double_step_aligned_refuted :
  exists lo hi q x : PrimFloat.float,
    PrimFloat.leb lo x = true /\ PrimFloat.leb x hi = true /\ PrimFloat.ltb hi (dstep lo q x) = true.
Proof. exact dstep_refuted_aligned. Qed.
Print Assumptions C18_double_step_aligned_refuted.

(* double without step: the value is the draw itself, so min <= v <= max is exactly the sampler's range assumption
   (full statement needs the samplers' binary64 arithmetic, which is not modelled) *)
Theorem C18_double_partial : forall lo hi d v, sample_one (DUniform lo hi) d = Ok v -> v = RFlt (d_bits d).
Proof. exact uniform_is_draw. Qed.
Print Assumptions C18_double_partial.

(* The executable monitor that runs on implementation replies is implied by the theorems: an assignment list computed by the
   model from draws inside the samplers' ranges names every parameter exactly once, feasibly. *)
Theorem C18_monitor_sound : forall ps sp dr a, to_search_space ps = Ok sp -> NoDup (map p_name ps) ->
  (forall p d, In p ps -> lookup_draw (p_name p) dr = Some d -> draw_in_range p d) ->
  sample_params sp dr = Ok a -> C18.assign_ok ps (map ra_of a) = true.
Proof. exact monitor_sound. Qed.
Print Assumptions C18_monitor_sound.

(* Non-vacuity of C18_history: a three-request history over a mixed space in which two suggestions have EQUAL parameters
   (the case re-identification by parameters must survive), fed back out of order in different conditions. *)
Example C18_history_nonvacuous :
  let sp := [(0%nat, DStepInt 0 9 3); (1%nat, DCat ["a"%string; "b"%string])] in
  let dr := [(0%nat, Draw 6 0 0); (1%nat, Draw 1 0 0)] in
  let ka := [KA 0 "6" (Some 6) None; KA 1 "b" None None] in
  let h := [ ([], 2%nat, [dr; dr]);
             ([KT 1 2 true [(0%nat, Some 0)] ka; KT 0 1 true [] ka], 1%nat, [dr]);
             ([KT 0 4 true [] ka; KT 2 6 true [] ka; KT 1 2 true [(0%nat, Some 0)] ka], 0%nat, []) ] in
  hist_wf (fun n => n) sp 0%nat [] h /\
  exists s, run sp 0%nat init h = Ok s /\ map g_state (gts s) = [GFail; GComplete; GPruned].
Proof.
  cbn zeta. split.
  - cbn [hist_wf]. split; [constructor|]. eexists. split; [vm_compute; reflexivity|].
    split.
    { repeat constructor; unfold trial_wf, good_cond; cbn; repeat split; auto; try discriminate; try (intros _; eexists; reflexivity);
        eexists; eexists; repeat split; reflexivity. }
    eexists. split; [vm_compute; reflexivity|].
    split; [|exists []; split; [reflexivity|exact I]].
    repeat constructor; unfold trial_wf, good_cond; cbn; repeat split; auto; try discriminate; try (intros _; eexists; reflexivity);
      eexists; eexists; repeat split; reflexivity.
  - eexists. split; vm_compute; reflexivity.
Qed.
