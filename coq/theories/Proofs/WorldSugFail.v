(* A failed suggestion stays failed (no teardown): in the store, hence in every later cache. *)
From KV Require Import Base.Prelude Base.Cond Model.World Proofs.WorldPlan Proofs.WorldInv Proofs.WorldInv2 Proofs.WorldInv4
  Proofs.WorldInv5 Proofs.WorldSucc.
Open Scope Z_scope.

Definition sfailed (st : sstatus) : bool := s_is st SFailed.

Lemma failed_smark_succeeded cs : has_cond (smark_succeeded cs) SFailed = has_cond cs SFailed.
Proof.
  unfold smark_succeeded. rewrite has_set. cbn [Nat.eqb SSucceeded SFailed].
  set (cs1 := match get_cond cs SRunning with Some _ => set_cond cs SRunning CFalse RSugSucceeded | None => cs end).
  assert (E1 : has_cond cs1 SFailed = has_cond cs SFailed) by (unfold cs1; destruct (get_cond cs SRunning); [now rewrite has_set|reflexivity]).
  destruct (get_cond cs1 SDeploymentReady); [rewrite has_set; cbn [Nat.eqb SDeploymentReady SFailed]|]; exact E1.
Qed.

Lemma failed_smark_running cs st r : has_cond (smark_running cs st r) SFailed = has_cond cs SFailed.
Proof.
  unfold smark_running. rewrite has_set. cbn [Nat.eqb SRunning SFailed]. unfold has_cond. now rewrite get_remove_other by discriminate.
Qed.

(* the two suggestion-status writes of the experiment controller *)
Lemma plan_exp_sug_forms w st rv onf :
  InvS w -> In (WSugStatus st rv, onf) (plan_exp w) ->
  exists s, c_sug w = Some s /\ rv = s_rv s /\
    (st = s_with_conds (s_st s) (smark_succeeded (ss_conds (s_st s))) \/
     st = s_with_conds (s_st s) (smark_running (ss_conds (s_st s)) CFalse RSugRestart)).
Proof.
  intros I H. unfold plan_exp in H. destruct (c_exp w) as [e|] eqn:Hce; [|destruct H].
  destruct (i_exp _ I) as (e0&ce&He0&Hce'&_&_&_&_&Nce). rewrite Hce in Hce'. inversion Hce'; subst ce.
  pose proof (status_ok_nonneg _ _ Nce) as NN.
  destruct (negb (e_deleting e) && negb (e_fin e)); [destruct H as [H|[]]; discriminate|].
  destruct (e_deleting e && e_fin e); [destruct H as [H|[]]; discriminate|].
  destruct (plan_exp_completed (w_cfg w) e (c_sug w)) as [[ws1 st1] stop] eqn:PC.
  assert (C1 : In (WSugStatus st rv, onf) ws1 -> exists s, c_sug w = Some s /\ rv = s_rv s /\
    (st = s_with_conds (s_st s) (smark_succeeded (ss_conds (s_st s))) \/
     st = s_with_conds (s_st s) (smark_running (ss_conds (s_st s)) CFalse RSugRestart))).
  { revert PC. unfold plan_exp_completed. destruct (e_completed (e_st e)); [|intros [= <- _ _] []].
    assert (K : In (WSugStatus st rv, onf)
                (match c_resume (w_cfg w), c_sug w with
                 | LongRunning, _ | _, None => []
                 | _, Some s => if s_completed (s_st s) || s_restarting (s_st s) then []
                                else [(WSugStatus (s_with_conds (s_st s) (smark_succeeded (ss_conds (s_st s)))) (s_rv s), Stop)]
                 end) -> exists s, c_sug w = Some s /\ rv = s_rv s /\
    (st = s_with_conds (s_st s) (smark_succeeded (ss_conds (s_st s))) \/
     st = s_with_conds (s_st s) (smark_running (ss_conds (s_st s)) CFalse RSugRestart))).
    { destruct (c_resume (w_cfg w)), (c_sug w) as [s|]; try (intros []; fail);
        (destruct (s_completed (s_st s) || s_restarting (s_st s)); [intros []|intros [X|[]]; inversion X; subst; eauto]). }
    destruct (restartable _ _ && _); intros [= <- _ _] I1; [|auto].
    apply in_app_or in I1 as [I1|I1]; [auto|].
    destruct (c_resume (w_cfg w)), (c_sug w) as [s|]; try (destruct I1; fail).
    destruct (s_restarting (s_st s)); [destruct I1|]. destruct I1 as [X|[]]. inversion X; subst. eauto. }
  assert (NN1 : counts_nonneg (es_counts st1)) by (rewrite (plan_exp_completed_counts _ _ _ _ _ _ PC); exact NN).
  destruct stop; [auto|].
  destruct (negb (e_is st1 ECreated)).
  - apply in_app_or in H as [H|H]; [auto|]. apply in_status_write in H. discriminate.
  - apply in_app_or in H as [H|H]; [auto|].
    apply plan_exp_reconcile_shape in H; [|exact NN1].
    destruct H as [(x&H&_)|[H|[(r&_&[(_&H)|(s&_&[H|(n&H&_)])])|(s&Hs&H&_)]]]; try discriminate.
    unfold restart_write in H. inversion H; subst. eauto.
Qed.

Lemma plan_exp_failed_kept w st rv onf s :
  InvS w -> In (WSugStatus st rv, onf) (plan_exp w) -> c_sug w = Some s -> rv = s_rv s /\ (sfailed (s_st s) = true -> sfailed st = true).
Proof.
  intros I H Hs. destruct (plan_exp_sug_forms _ _ _ _ I H) as (s'&Hs'&->&[-> | ->]); rewrite Hs in Hs'; inversion Hs'; subst s';
    (split; [reflexivity|]); unfold sfailed, s_is, s_with_conds; cbn [ss_conds]; [now rewrite failed_smark_succeeded|now rewrite failed_smark_running].
Qed.

Lemma plan_sug_failed_kept w resp st rv onf s :
  In (WSugStatus st rv, onf) (fst (plan_sug w resp)) -> c_sug w = Some s -> rv = s_rv s /\ (sfailed (s_st s) = true -> sfailed st = true).
Proof.
  unfold plan_sug. intros H Hs. rewrite Hs in H. intros. 
  assert (Rv : rv = s_rv s).
  { assert (H' : In (WSugStatus st rv, onf) (fst (plan_sug w resp))) by (unfold plan_sug; rewrite Hs; exact H).
    destruct (plan_sug_shape _ _ _ H') as (s'&Hs'&[(k&[X|X])|(st'&X&_)]); try discriminate. rewrite Hs in Hs'. inversion Hs'; subst. now inversion X. }
  split; [exact Rv|]. intro F. unfold sfailed in *. change (has_cond (ss_conds (s_st s)) SFailed = true) in F. change (has_cond (ss_conds st) SFailed = true).
  destruct (s_is (s_st s) SSucceeded).
  { cbn [fst] in H. apply in_app_or in H as [H|H].
    - destruct (i_dep (w_infra w)); [destruct H as [H|[]]; discriminate|destruct H].
    - destruct (i_svc (w_infra w)); [destruct H as [H|[]]; discriminate|destruct H]. }
  assert (W : forall cs, has_cond cs SFailed = true ->
              In (WSugStatus st rv, onf) (sstatus_write s (s_with_conds (s_st s) cs)) -> has_cond (ss_conds st) SFailed = true).
  { intros cs Hc I. apply in_sstatus_write in I. inversion I; subst. exact Hc. }
  assert (WC : forall cs, has_cond cs SFailed = true ->
              In (WSugStatus st rv, onf) (sstatus_write_conds s cs) -> has_cond (ss_conds st) SFailed = true).
  { intros cs Hc I. apply in_sstatus_write_conds in I. inversion I; subst. exact Hc. }
  assert (IC : ~ In (WSugStatus st rv, onf) (infra_creates (w_cfg w) (w_infra w))).
  { intro I. apply in_infra_creates in I as (k&I). discriminate. }
  assert (S1 : forall k st0 r, k <> SFailed -> has_cond (set_cond (ss_conds (s_st s)) k st0 r) SFailed = true).
  { intros k st0 r Hk. rewrite has_set. destruct (Nat.eqb k SFailed) eqn:E; [apply Nat.eqb_eq in E; contradiction|exact F]. }
  destruct (negb (s_is (s_st s) SCreated)).
  { cbn [fst] in H. eapply W; [|exact H]. unfold mark. apply S1. discriminate. }
  destruct (i_dep (w_infra w)) as [[|]|].
  2,3: cbn [fst] in H; apply in_app_or in H as [H|H]; [contradiction|]; (eapply W; [|exact H]); apply S1; discriminate.
  set (cs1 := set_cond (ss_conds (s_st s)) SDeploymentReady CTrue RDeploymentReady) in *.
  assert (N1 : has_cond cs1 SFailed = true) by (apply S1; discriminate).
  destruct (c_exp w); [|cbn [fst] in H; apply in_app_or in H as [H|H]; [contradiction|]; eapply WC; eauto].
  assert (NF : has_cond (smark_failed cs1) SFailed = true).
  { unfold smark_failed, mark. rewrite has_set. reflexivity. }
  assert (NR : has_cond (smark_running cs1 CTrue RRunning) SFailed = true) by (now rewrite failed_smark_running).
  destruct (if has_cond cs1 SRunning then (cs1, [], false)
            else if negb (r_valid resp) then (smark_failed cs1, [RpcValidate], true)
            else if c_es (w_cfg w) && negb (r_esvalid resp) then (smark_failed cs1, [RpcValidate; RpcValidateES], true)
            else (smark_running cs1 CTrue RRunning, if c_es (w_cfg w) then [RpcValidate; RpcValidateES] else [RpcValidate], false))
    as [[cs2 rpcs1] failed] eqn:V.
  assert (N2 : has_cond cs2 SFailed = true).
  { destruct (has_cond cs1 SRunning); [inversion V; subst; exact N1|].
    destruct (negb (r_valid resp)); [inversion V; subst; exact NF|].
    destruct (c_es (w_cfg w) && negb (r_esvalid resp)); inversion V; subst; assumption. }
  destruct failed; [cbn [fst] in H; apply in_app_or in H as [H|H]; [contradiction|]; eapply W; eauto|].
  destruct (s_requests s - ss_count (s_st s) <=? 0); [cbn [fst] in H; apply in_app_or in H as [H|H]; [contradiction|]; eapply W; eauto|].
  destruct (r_reply resp) as [|names settings]; [cbn [fst] in H; apply in_app_or in H as [H|H]; [contradiction|]; eapply WC; eauto|].
  destruct (negb (Z.of_nat (length names) =? s_requests s - ss_count (s_st s)));
    [cbn [fst] in H; apply in_app_or in H as [H|H]; [contradiction|]; eapply WC; eauto|].
  destruct (c_es (w_cfg w) && negb (r_esrules resp));
    [cbn [fst] in H; apply in_app_or in H as [H|H]; [contradiction|]; eapply WC; eauto|].
  cbn [fst] in H. apply in_app_or in H as [H|H]; [contradiction|]. apply in_sstatus_write in H. inversion H; subst. exact N2.
Qed.

(* ------------------------------------------------------------------ the invariant *)

Definition sfw_ok (w : world) (x : write * onfail) : Prop :=
  match fst x with
  | WSugStatus st rv => forall s, w_sug w = Some s -> s_rv s = rv -> sfailed (s_st s) = true -> sfailed st = true
  | _ => True
  end.

Record SFInv (w : world) : Prop := {
  sf_cache : forall cs, c_sug w = Some cs -> sfailed (s_st cs) = true -> exists s, w_sug w = Some s /\ sfailed (s_st s) = true;
  sf_pend : forall c, Forall (sfw_ok w) (pending_of w c) }.

Lemma apply_write_sug2 w wr w1 s :
  apply_write w wr = Some w1 -> w_sug w = Some s ->
  exists s1, w_sug w1 = Some s1 /\ (s_st s1 = s_st s \/ exists rv, wr = WSugStatus (s_st s1) rv /\ rv = s_rv s).
Proof.
  intros A Hs. destruct wr; cbn [apply_write] in A; rewrite ?Hs in A;
    try solve [repeat aw_cases A w; inversion A; subst; cbn; exists s; (split; [exact Hs|left; reflexivity])].
  - destruct (Nat.eqb (s_rv s) rv); [|discriminate]. inversion A; subst. cbn. eexists. split; [reflexivity|]. now left.
  - destruct (Nat.eqb (s_rv s) rv) eqn:E; [|discriminate]. apply Nat.eqb_eq in E. inversion A; subst. cbn. eexists. split; [reflexivity|]. right. eauto.
Qed.

(* a failed stored suggestion stays failed *)
Lemma step_sug_failed w a s :
  SFInv w -> w_sug w = Some s -> sfailed (s_st s) = true -> exists s', w_sug (step w a) = Some s' /\ sfailed (s_st s') = true.
Proof.
  intros SF Hs F.
  assert (Same : forall w', w_sug w' = w_sug w -> exists s', w_sug w' = Some s' /\ sfailed (s_st s') = true) by (intros w' ->; eauto).
  destruct a; cbn [step].
  - destruct (pending_of w c); [|eauto]. destruct c; [|destruct (plan_sug w resp)|]; apply Same; reflexivity.
  - destruct (pending_of w c) as [|[wr onf] rest] eqn:Ep; [eauto|].
    destruct (if inject_failure then None else apply_write (count_write w) wr) as [w1|] eqn:A; [|apply Same; destruct c; reflexivity].
    destruct inject_failure; [discriminate|].
    destruct (apply_write_sug2 _ _ _ s A Hs) as (s1&Hs1&[E|(rv&Ew&Rv)]).
    + exists s1. split; [destruct c; exact Hs1|now rewrite E].
    + exists s1. split; [destruct c; exact Hs1|].
      pose proof (sf_pend _ SF c) as Fp. rewrite Ep in Fp. inversion Fp as [|? ? OK _]. unfold sfw_ok in OK. cbn [fst] in OK. rewrite Ew in OK.
      exact (OK s Hs (eq_sym Rv) F).
  - apply Same. destruct c; reflexivity.
  - apply Same. reflexivity.
  - apply Same. reflexivity.
  - destruct (find_trial t (w_trials w)), (db_get t (w_db w)); apply Same; reflexivity.
  - destruct (find_trial t (w_trials w)) as [tr|]; [|eauto]. destruct (_ && _); [|eauto]. apply Same. cbn. destruct v, (db_get t (w_db w)); reflexivity.
  - destruct (i_dep (w_infra w)); apply Same; reflexivity.
  - apply Same. reflexivity.
  - apply Same. reflexivity.
  - apply Same. reflexivity.
  - destruct (w_exp w) as [e|]; [|eauto]. destruct (e_max e); [|eauto]. destruct (_ && _ && _); apply Same; reflexivity.
  - destruct (w_exp w) as [e|]; [|eauto]. destruct (e_fin e); apply Same; reflexivity.
  - destruct (w_exp w), (find_trial t (w_trials w)) as [tr|]; eauto. destruct (t_fin tr); apply Same; reflexivity.
Qed.

Lemma step_sf w a : Inv w -> SFInv w -> is_teardown a = false -> SFInv (step w a).
Proof.
  intros Iv SF NT. pose proof Iv as [I P]. destruct (step_inv2 w a NT Iv) as [_ Ev].
  constructor.
  - intros cs Hc F. destruct (step_csug w a) as [E|E]; rewrite E in Hc.
    + destruct (sf_cache _ SF _ Hc F) as (s&Hs&Fs). eapply step_sug_failed; eauto.
    + eauto.
  - intro c. apply Forall_forall. intros x Hx.
    destruct (step_pending _ _ _ _ Hx) as [H|[H|[(resp&H)|(key&dberr&H)]]].
    + pose proof (sf_pend _ SF c) as F. rewrite Forall_forall in F. specialize (F _ H).
      pose proof (pending_of_ok w c P) as WO. rewrite Forall_forall in WO. specialize (WO _ H).
      destruct x as [wr onf]. unfold sfw_ok in *. cbn [fst] in *. destruct wr; auto.
      intros s' Hs' Rv Fs'. unfold write_ok in WO. cbn [fst] in WO. destruct WO as (_&_&s&Hs&Rle&_).
      destruct (ev_sug _ _ Ev _ Hs) as (s2&Hs2&(R2&E2&_)). rewrite Hs' in Hs2. inversion Hs2; subst s2.
      assert (Q : s_rv s = s_rv s') by lia. rewrite <- (E2 Q) in *. apply (F s Hs); [lia|exact Fs'].
    + destruct x as [wr onf]. unfold sfw_ok. cbn [fst]. destruct wr; auto.
      intros s' Hs' Rv Fs'.
      (* Begin of the experiment reconcile: store unchanged; the cached suggestion it planned from has this resourceVersion *)
      destruct (plan_exp_sug_forms _ _ _ _ I H) as (cs&Hcs&Rc&_).
      destruct (inv_csug _ _ I Hcs) as (s&Hs&(R1&E1&_)&_).
      destruct (ev_sug _ _ Ev _ Hs) as (s2&Hs2&(R2&E2&_)). rewrite Hs' in Hs2. inversion Hs2; subst s2.
      assert (Q1 : s_rv cs = s_rv s) by lia. assert (Q2 : s_rv s = s_rv s') by lia.
      rewrite <- (E2 Q2), <- (E1 Q1) in Fs'. exact (proj2 (plan_exp_failed_kept _ _ _ _ cs I H Hcs) Fs').
    + destruct x as [wr onf]. unfold sfw_ok. cbn [fst]. destruct wr; auto.
      intros s' Hs' Rv Fs'.
      destruct (plan_sug_shape _ _ _ H) as (cs&Hcs&_).
      destruct (plan_sug_failed_kept _ _ _ _ _ cs H Hcs) as [Rc K].
      destruct (inv_csug _ _ I Hcs) as (s&Hs&(R1&E1&_)&_).
      destruct (ev_sug _ _ Ev _ Hs) as (s2&Hs2&(R2&E2&_)). rewrite Hs' in Hs2. inversion Hs2; subst s2.
      assert (Q1 : s_rv cs = s_rv s) by lia. assert (Q2 : s_rv s = s_rv s') by lia.
      rewrite <- (E2 Q2), <- (E1 Q1) in Fs'. auto.
    + destruct x as [wr onf]. unfold sfw_ok. cbn [fst]. destruct wr; auto. exfalso. eapply plan_trial_no_sug; eauto.
Qed.

Lemma SFInv_init c : SFInv (init c).
Proof. constructor; [discriminate|intros []; constructor]. Qed.
