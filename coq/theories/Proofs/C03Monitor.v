(* The boolean monitor of C03 (decision part) is implied by the theorems about the model. *)
From KV Require Import Base.Prelude Base.Cond Model.StatusUtil Model.StatusSpec Proofs.StatusUtilP Proofs.C05Monitor Corr.C03.
Open Scope Z_scope.

Lemma cond_eqb_refl c : cond_eqb c c = true.
Proof. now apply cond_eqb_spec. Qed.

Lemma conds_eqb_refl cs : conds_eqb cs cs = true.
Proof. apply list_eqb_refl. exact cond_eqb_refl. Qed.

Lemma option_nat_eqb_refl (o : option nat) : option_eqb Nat.eqb o o = true.
Proof. destruct o; simpl; [apply Nat.eqb_refl|reflexivity]. Qed.

Lemma decided_verdict_ok spec st st' now g fr mr nf nn :
  fr = fail_rule spec nf -> mr = max_rule spec nn -> decided st st' now g fr mr -> verdict_ok spec g nf nn st' = true.
Proof.
  intros -> -> [S F Rg Rf Rm _ _]. unfold verdict_ok. rewrite S, F, !Bool.eqb_reflx. cbn [andb].
  destruct g; [rewrite Rg by reflexivity; reflexivity|].
  destruct (fail_rule spec nf); [rewrite Rf by reflexivity; reflexivity|].
  destruct (max_rule spec nn); [rewrite Rm by reflexivity; reflexivity|reflexivity].
Qed.

Lemma exclusive_intro st' :
  exp_is_succeeded st' && exp_is_failed st' = false -> (exp_is_completed st' = true -> exp_is_running st' = false) ->
  exclusive st' = true.
Proof.
  intros A B. unfold exclusive. rewrite A. cbn [negb andb].
  destruct (exp_is_completed st'); [rewrite B by reflexivity|]; reflexivity.
Qed.

Lemma monitor_status_model now spec st ts : monitor_status spec st ts (update_experiment_status now spec st ts) = true.
Proof.
  unfold monitor_status. destruct (exp_is_completed st) eqn:C.
  - destruct (completed_untouched now spec st ts C) as (_&E1&E2). now rewrite E1, E2, conds_eqb_refl, option_nat_eqb_refl.
  - destruct (status_exclusive now spec st ts C) as [A B]. rewrite (exclusive_intro _ A B). cbn [andb].
    destruct (numeric_domain ts) eqn:D; [|reflexivity]. cbn [andb].
    destruct (negb _); [|reflexivity].
    apply (decided_verdict_ok spec st _ now _ _ _ _ _ eq_refl eq_refl).
    rewrite <- (goal_flag spec ts D). now apply status_decided.
Qed.

Lemma monitor_condition_model now spec st g d : 0 <= failed_trials_count st ->
  monitor_condition spec st g d (update_experiment_status_condition now spec st g d) = true.
Proof.
  intro P. unfold monitor_condition. destruct (exp_is_completed st) eqn:C; [reflexivity|].
  destruct (condition_exclusive now spec st g d C) as [A B]. rewrite (exclusive_intro _ A B). cbn [andb].
  destruct d; [reflexivity|].
  apply (decided_verdict_ok spec st _ now _ _ _ _ _ eq_refl eq_refl). now apply condition_decided.
Qed.
