(* C13 — the executable monitor of Corr/C13.v accepts the model's own output on D_ok
   (TEXT: the regexp engine returns pieces of the line; JSON: no tracked name listed twice and every numeric
   timestamp is an integral numeral).  Also: the facts about decimal numerals used by the epoch theorems. *)
From KV Require Import Base.Prelude Base.Bytes Model.LogParse Proofs.LogParseP Corr.C13.
Open Scope Z_scope.

Lemma forall2b_map_in {A C} (p : A -> C -> bool) (f : A -> C) l :
  (forall e, In e l -> p e (f e) = true) -> forall2b p l (map f l) = true.
Proof.
  induction l as [|a r IH]; intro H; [reflexivity|]. cbn [map forall2b].
  rewrite (H a (or_introl eq_refl)), IH; [reflexivity|]. intros e I. apply H. now right.
Qed.

Lemma flat_map_map_comm {A C D} (f : A -> list D) (g : C -> D) (h : A -> list C) l :
  (forall x, In x l -> f x = map g (h x)) -> flat_map f l = map g (flat_map h l).
Proof.
  induction l as [|a r IH]; intro H; [reflexivity|]. cbn [flat_map]. rewrite map_app, (H a (or_introl eq_refl)), IH; [reflexivity|].
  intros x I. apply H. now right.
Qed.

(* ------------------------------------------------------------------ numerals *)

Lemma split_dot_none s a : split_dot s = (a, None) -> a = s /\ ~ In dot s.
Proof.
  revert a. induction s as [|c r IH]; intros a H; cbn [split_dot] in H.
  - injection H as <-. split; [reflexivity|intros []].
  - destruct (Ascii.eqb c dot) eqn:E; [discriminate|]. destruct (split_dot r) as [a' b'] eqn:S.
    injection H as <- ->. destruct (IH a' eq_refl) as [-> N]. split; [reflexivity|].
    intros [->|I]; [now rewrite Ascii.eqb_refl in E|auto].
Qed.

Lemma split_dot_some s a f : split_dot s = (a, Some f) -> s = a ++ dot :: f /\ ~ In dot a.
Proof.
  revert a. induction s as [|c r IH]; intros a H; cbn [split_dot] in H; [discriminate|].
  destruct (Ascii.eqb c dot) eqn:E.
  - apply Ascii.eqb_eq in E. subst c. injection H as <- <-. split; [reflexivity|intros []].
  - destruct (split_dot r) as [a' b'] eqn:S. injection H as <- ->. destruct (IH a' eq_refl) as [-> N].
    split; [reflexivity|]. intros [->|I]; [now rewrite Ascii.eqb_refl in E|auto].
Qed.

Lemma digit_val_byte c d : digit_val c = Some d -> byte_is 43 c = false /\ byte_is 45 c = false /\ c <> dot /\ 0 <= d <= 9.
Proof.
  unfold digit_val, nat_in, byte_is. intro H.
  destruct ((48 <=? nat_of_ascii c)%nat && (nat_of_ascii c <=? 57)%nat) eqn:E; [|discriminate].
  apply andb_true_iff in E. destruct E as [E1 E2]. apply Nat.leb_le in E1. apply Nat.leb_le in E2.
  injection H as <-. repeat split.
  - apply Nat.eqb_neq. lia.
  - apply Nat.eqb_neq. lia.
  - intros ->. cbn in E1. lia.
  - lia.
  - lia.
Qed.

Lemma parse_digits_no_dot s : forall acc v, parse_digits acc s = Some v -> ~ In dot s.
Proof.
  induction s as [|c r IH]; intros acc v H; [intros []|]. cbn [parse_digits] in H.
  destruct (digit_val c) as [d|] eqn:D; [|discriminate]. apply digit_val_byte in D. destruct D as [_ [_ [N _]]].
  intros [E|I]; [exact (N E)|]. exact (IH _ _ H I).
Qed.

Lemma parse_digits_head c r acc v : parse_digits acc (c :: r) = Some v -> byte_is 43 c = false /\ byte_is 45 c = false.
Proof.
  cbn [parse_digits]. destruct (digit_val c) as [d|] eqn:D; [|discriminate]. intros _.
  apply digit_val_byte in D. tauto.
Qed.

Lemma byte_is_45_facts c : byte_is 45 c = true -> byte_is 43 c = false /\ c <> dot.
Proof.
  unfold byte_is. intro H. apply Nat.eqb_eq in H. split.
  - apply Nat.eqb_neq. lia.
  - intros ->. cbn in H. lia.
Qed.

(* an integral numeral: no '.', and strconv.ParseInt reads its value *)
Lemma numeral_integral repr n :
  read_numeral repr = Some n -> scale n = 0%nat ->
  ~ In dot repr /\ parse_signed repr = Some (num n) /\ ipart n = num n.
Proof.
  unfold read_numeral. intros H Hs.
  destruct repr as [|c r].
  - cbn in H. discriminate.
  - destruct (byte_is 45 c) eqn:Neg.
    + destruct (split_dot r) as [ip fp] eqn:S. destruct ip as [|i0 ip']; [discriminate|].
      destruct (parse_digits 0 (i0 :: ip')) as [i|] eqn:P; [|discriminate].
      destruct fp as [f|].
      * destruct f as [|f0 f']; [discriminate|]. destruct (parse_digits 0 (f0 :: f')); [|discriminate].
        injection H as <-. cbn [scale length] in Hs. discriminate.
      * injection H as <-. cbn [num ipart]. apply split_dot_none in S. destruct S as [<- N].
        destruct (byte_is_45_facts c Neg) as [N43 Nd]. repeat split.
        -- intros [E|I]; [exact (Nd E)|auto].
        -- unfold parse_signed. rewrite N43, Neg. now rewrite P.
    + destruct (split_dot (c :: r)) as [ip fp] eqn:S. destruct ip as [|i0 ip']; [discriminate|].
      destruct (parse_digits 0 (i0 :: ip')) as [i|] eqn:P; [|discriminate].
      destruct fp as [f|].
      * destruct f as [|f0 f']; [discriminate|]. destruct (parse_digits 0 (f0 :: f')); [|discriminate].
        injection H as <-. cbn [scale length] in Hs. discriminate.
      * injection H as <-. cbn [num ipart]. apply split_dot_none in S. destruct S as [E N]. rewrite E in P.
        destruct (parse_digits_head _ _ _ _ P) as [N43 _]. repeat split.
        -- exact N.
        -- unfold parse_signed. rewrite N43, Neg. now rewrite P.
Qed.

Section MonitorSound.
  Variable filt : Type.
  Variable default_filter : filt.
  Variable compiles : filt -> bool.
  Variable matches : filt -> str -> list (list str).
  Variable rfc3339 : str -> bool.
  Variable decode : str -> jline.

  Notation collect := (collect filt default_filter compiles matches rfc3339 decode).
  Notation monitor := (monitor filt default_filter compiles matches rfc3339 decode).
  Notation exp_ts := (exp_ts rfc3339).
  Notation exp_line := (exp_line rfc3339 decode).

  (* ---------------------------------------------------------------- TEXT *)
  Lemma text_rec_ok_attach e : text_rec_ok e (attach e) = true.
  Proof. unfold text_rec_ok, attach. cbn [i_text i_name i_value]. now rewrite !str_eqb_refl. Qed.

  Lemma monitor_text_model ms fs content :
    groups_substr filt matches ->
    monitor_text filt default_filter compiles matches rfc3339 ms fs content (attach_result (collect TEXT ms fs content)) = true.
  Proof.
    intro Hsub. unfold monitor_text. destruct ms as [|obj rest]; [reflexivity|].
    destruct (forallb compiles (effective filt default_filter fs)) eqn:Hc; [|reflexivity].
    rewrite (collect_text_ok filt default_filter compiles matches rfc3339 decode (obj :: rest) fs content Hsub); [|discriminate|exact Hc].
    cbn [attach_result]. apply forall2b_map_in. intros e _. apply text_rec_ok_attach.
  Qed.

  (* ---------------------------------------------------------------- JSON *)
  Definition realise_ts (e : ets) : tstamp :=
    match e with
    | EText s => TsText s
    | ENum repr => match epoch_instant repr with Some z => TsUnix z | None => TsText zero_time end
    end.
  Definition realise (e : erec) : mlog := MLog (realise_ts (e_ts e)) (e_name e) (e_value e).

  Lemma json_timestamp_realise kvs : json_timestamp rfc3339 kvs = realise_ts (exp_ts kvs).
  Proof.
    unfold json_timestamp, C13.exp_ts. destruct (jlookup timestamp_key kvs) as [[s|repr|]|]; try reflexivity.
    - cbn [parse_timestamp]. destruct s as [|c s']; [reflexivity|].
      change (str_eqb (c :: s') []) with false. cbn [nonempty andb]. now destruct (rfc3339 (c :: s')).
    - cbn [parse_timestamp realise_ts]. now destruct (epoch_instant repr).
  Qed.

  Definition exp_records (kvs : list (str * jval)) (ms : list str) : list erec :=
    flat_map (fun m => match jlookup m kvs with Some (JString v) => [ERec (exp_ts kvs) m v] | _ => [] end) ms.

  Lemma json_records_realise ms kvs : json_records rfc3339 ms kvs = map realise (exp_records kvs (dedup [] ms)).
  Proof.
    unfold json_records, exp_records. apply flat_map_map_comm. intros m _.
    destruct (jlookup m kvs) as [[v|repr|]|]; try reflexivity.
    cbn [map]. unfold realise. cbn [e_ts e_name e_value]. now rewrite json_timestamp_realise.
  Qed.

  Lemma spec_json_line_realise ms l :
    spec_json_line rfc3339 decode ms l = map realise (exp_line ms l).
  Proof.
    unfold spec_json_line, C13.exp_line. destruct (decode l) as [|kvs]; [reflexivity|]. apply json_records_realise.
  Qed.

  Lemma reports_realise obj es : reports obj (map realise es) = existsb (fun e => str_eqb (e_name e) obj) es.
  Proof. unfold reports. induction es as [|e r IH]; [reflexivity|]. cbn [map existsb]. now rewrite IH. Qed.

  Lemma fallback_realise ms es : fallback ms (map realise es) = map realise (exp_fallback ms es).
  Proof.
    destruct ms as [|obj rest]; [reflexivity|]. cbn [fallback exp_fallback]. rewrite reports_realise.
    now destruct (existsb (fun e => str_eqb (e_name e) obj) es).
  Qed.

  (* D_ok for one expected record: its numeric timestamp, if any, is an integral numeral *)
  Definition good (e : erec) : Prop :=
    match e_ts e with
    | ENum repr => exists n, read_numeral repr = Some n /\ scale n = 0%nat
    | EText _ => True
    end.

  Lemma realise_integral repr n :
    read_numeral repr = Some n -> scale n = 0%nat ->
    (in_int64 (ipart n) = true /\ realise_ts (ENum repr) = TsUnix (num n * 10 ^ 9)) \/
    (in_int64 (ipart n) = false /\ realise_ts (ENum repr) = TsText zero_time).
  Proof.
    intros H Hs. destruct (numeral_integral repr n H Hs) as [N [P E]]. rewrite E. cbn [realise_ts].
    destruct (in_int64 (num n)) eqn:R.
    - left. split; [reflexivity|]. now rewrite (epoch_integral repr (num n) N P R).
    - right. split; [reflexivity|]. now rewrite (epoch_out_of_range repr (num n) N P R).
  Qed.

  Lemma json_rec_ok_realise e : good e -> json_rec_ok e (attach (realise e)) = true.
  Proof.
    intro G. unfold json_rec_ok, attach, realise. cbn [ts mname mvalue i_name i_value]. rewrite !str_eqb_refl, !andb_true_r.
    unfold good in G. destruct (e_ts e) as [s|repr].
    - cbn. apply str_eqb_refl.
    - destruct G as [n [Hn Hs]]. unfold ts_ok. rewrite Hn.
      destruct (realise_integral repr n Hn Hs) as [[R ->]|[R ->]]; rewrite R; cbn [i_inst i_text render].
      + unfold same_instant. rewrite Hs. cbn [Z.of_nat]. apply Z.ltb_lt. change (10 ^ 0) with 1. rewrite Z.mul_1_r, Z.sub_diag. cbn. lia.
      + apply str_eqb_refl.
  Qed.

  Lemma numeric_pairs_realise es :
    (forall e, In e es -> good e) ->
    forall p, In p (numeric_pairs es (map (fun e => attach (realise e)) es)) ->
              scale (fst p) = 0%nat /\ snd p = num (fst p) * 10 ^ 9.
  Proof.
    induction es as [|e r IH]; intros G p I; [destruct I|]. cbn [map numeric_pairs] in I.
    assert (Gr : forall x, In x r -> good x) by (intros x Ix; apply G; now right).
    pose proof (G e (or_introl eq_refl)) as Ge. unfold good in Ge.
    destruct (e_ts e) as [s|repr] eqn:Ets; [exact (IH Gr p I)|].
    destruct Ge as [n [Hn Hs]].
    unfold attach at 1 in I. cbn [i_inst] in I. change (ts (realise e)) with (realise_ts (e_ts e)) in I. rewrite Ets in I.
    destruct (realise_integral repr n Hn Hs) as [[R E]|[R E]]; rewrite E in I.
    - rewrite Hn, R in I. destruct I as [<-|I]; [now split|exact (IH Gr p I)].
    - exact (IH Gr p I).
  Qed.

  Lemma order_ok_integral l :
    (forall p, In p l -> scale (fst p) = 0%nat /\ snd p = num (fst p) * 10 ^ 9) -> order_ok l = true.
  Proof.
    intro H. unfold order_ok. apply forallb_forall. intros p Ip. apply forallb_forall. intros q Iq.
    destruct (H p Ip) as [Sp Ep]. destruct (H q Iq) as [Sq Eq]. unfold order_pair. rewrite Sp, Sq, Ep, Eq.
    cbn [Z.of_nat]. change (10 ^ 0) with 1. rewrite !Z.mul_1_r.
    destruct (num (fst p) <=? num (fst q)) eqn:L; [|reflexivity]. apply Z.leb_le in L. apply Z.leb_le. lia.
  Qed.

  (* D_ok of a JSON log: every numeric timestamp is an integral numeral *)
  Definition integral_timestamps (lines : list str) : Prop :=
    forall l kvs repr, In l lines -> decode l = JObj kvs -> jlookup timestamp_key kvs = Some (JNumber repr) ->
                       exists n, read_numeral repr = Some n /\ scale n = 0%nat.

  Lemma exp_line_good ms l e : integral_timestamps [l] -> In e (exp_line ms l) -> good e.
  Proof.
    intros H I. unfold C13.exp_line in I. destruct (decode l) as [|kvs] eqn:D; [destruct I|].
    apply in_flat_map in I. destruct I as [m [_ I]].
    destruct (jlookup m kvs) as [[v|r|]|]; [|destruct I|destruct I|destruct I]. destruct I as [<-|[]].
    unfold good. cbn [e_ts]. unfold C13.exp_ts.
    destruct (jlookup timestamp_key kvs) as [[s|repr|]|] eqn:T; try exact I.
    - now destruct (nonempty s && rfc3339 s).
    - exact (H l kvs repr (or_introl eq_refl) D T).
  Qed.

  Lemma monitor_json_model ms content :
    integral_timestamps (split_lines content) ->
    monitor_json rfc3339 decode ms content (attach_result (collect JSON ms [] content)) = true.
  Proof.
    intros Hint. unfold monitor_json. destruct ms as [|obj rest] eqn:Ems; [reflexivity|]. rewrite <- Ems in *.
    assert (Hms : ms <> []) by (rewrite Ems; discriminate).
    destruct (collect_json_total filt default_filter compiles matches rfc3339 decode ms [] content Hms) as [[Hb Hc]|[Hb Hc]];
      rewrite Hb, Hc; [|reflexivity].
    cbn [attach_result]. unfold spec_json.
    set (lines := filter nonempty (split_lines content)).
    assert (Hl : forall l, In l lines -> In l (split_lines content)) by (intros l I; apply filter_In in I; tauto).
    rewrite (flat_map_map_comm (spec_json_line rfc3339 decode ms) realise (exp_line ms) lines)
      by (intros; now apply spec_json_line_realise).
    rewrite fallback_realise, map_map.
    set (es := exp_fallback ms (flat_map (exp_line ms) lines)).
    assert (G : forall e, In e es -> good e).
    { intros e I. unfold es in I. rewrite Ems in I. cbn [exp_fallback] in I. rewrite <- Ems in I.
      destruct (existsb (fun e0 => str_eqb (e_name e0) obj) (flat_map (exp_line ms) lines)).
      - apply in_flat_map in I. destruct I as [l [Il Ie]]. apply (exp_line_good ms l e); [|exact Ie].
        intros l' kvs repr [<-|[]] D T. exact (Hint l kvs repr (Hl l Il) D T).
      - destruct I as [<-|[]]. exact I. }
    apply andb_true_iff. split.
    - apply forall2b_map_in. intros e I. apply json_rec_ok_realise. now apply G.
    - apply order_ok_integral. now apply numeric_pairs_realise.
  Qed.

  (* ---------------------------------------------------------------- all formats *)
  Lemma monitor_model fmt ms fs content :
    groups_substr filt matches ->
    (fmt = JSON -> integral_timestamps (split_lines content)) ->
    monitor fmt ms fs content (attach_result (collect fmt ms fs content)) = true.
  Proof.
    intros Hsub Hj. destruct fmt; cbn [C13.monitor].
    - now apply monitor_text_model.
    - exact (monitor_json_model ms content (Hj eq_refl)).
    - reflexivity.
  Qed.
End MonitorSound.

(* ------------------------------------------------------------------ epoch timestamps, in terms of numerals *)

(* value of the numeral [a] is below the value of [b] *)
Definition value_lt (a b : numeral) : Prop := num a * 10 ^ Z.of_nat (scale b) < num b * 10 ^ Z.of_nat (scale a).

Lemma epoch_integral_numeral rfc3339 repr n :
  read_numeral repr = Some n -> scale n = 0%nat -> in_int64 (num n) = true ->
  epoch_instant repr = Some (num n * 10 ^ 9) /\
  parse_timestamp rfc3339 (JNumber repr) = Some (TsUnix (num n * 10 ^ 9)) /\
  same_instant n (num n * 10 ^ 9) = true.
Proof.
  intros H Hs R. destruct (numeral_integral repr n H Hs) as [N [P _]].
  pose proof (epoch_integral repr (num n) N P R) as E. split; [exact E|]. split.
  - cbn [parse_timestamp]. now rewrite E.
  - unfold same_instant. rewrite Hs. cbn [Z.of_nat]. change (10 ^ 0) with 1. rewrite Z.mul_1_r, Z.sub_diag. reflexivity.
Qed.

Lemma epoch_integral_order r1 r2 n1 n2 z1 z2 :
  read_numeral r1 = Some n1 -> read_numeral r2 = Some n2 -> scale n1 = 0%nat -> scale n2 = 0%nat ->
  epoch_instant r1 = Some z1 -> epoch_instant r2 = Some z2 -> value_lt n1 n2 -> z1 < z2.
Proof.
  intros H1 H2 S1 S2 E1 E2 L. unfold value_lt in L. rewrite S1, S2 in L. cbn [Z.of_nat] in L. change (10 ^ 0) with 1 in L.
  destruct (numeral_integral r1 n1 H1 S1) as [N1 [P1 _]]. destruct (numeral_integral r2 n2 H2 S2) as [N2 [P2 _]].
  unfold epoch_instant in E1, E2. rewrite (split_on_no_occurrence dot r1 N1) in E1. rewrite (split_on_no_occurrence dot r2 N2) in E2.
  cbn [hd length Nat.eqb] in E1, E2. unfold parse_int64 in E1, E2. rewrite P1 in E1. rewrite P2 in E2.
  destruct (in_int64 (num n1)); [|discriminate]. destruct (in_int64 (num n2)); [|discriminate].
  injection E1 as <-. injection E2 as <-. lia.
Qed.

Lemma epoch_refuted :
  exists r1 r2 n1 n2 z1 z2,
    read_numeral r1 = Some n1 /\ read_numeral r2 = Some n2 /\ value_lt n1 n2 /\
    epoch_instant r1 = Some z1 /\ epoch_instant r2 = Some z2 /\ z2 < z1 /\
    same_instant n1 z1 = false /\ same_instant n2 z2 = false.
Proof.
  exists (B "1638422847.25"), (B "1638422847.5"),
         (Numeral 163842284725 2 1638422847), (Numeral 16384228475 1 1638422847),
         1638422847000000025, 1638422847000000005.
  repeat split; vm_compute; reflexivity.
Qed.

(* ------------------------------------------------------------------ F6, universally: every non-negative numeral with
   1..8 fractional digits and a non-zero fraction is converted to a wrong instant *)

Lemma split_dot_app a f : ~ In dot a -> split_dot (a ++ dot :: f) = (a, Some f).
Proof.
  induction a as [|c a IH]; intro N; cbn [app split_dot].
  - now rewrite Ascii.eqb_refl.
  - destruct (Ascii.eqb c dot) eqn:E.
    + apply Ascii.eqb_eq in E. subst. exfalso. apply N. now left.
    + rewrite IH; [reflexivity|]. intro I. apply N. now right.
Qed.

Lemma parse_digits_nonneg s : forall acc v, 0 <= acc -> parse_digits acc s = Some v -> 0 <= v.
Proof.
  induction s as [|c r IH]; intros acc v A H; cbn [parse_digits] in H.
  - now injection H as <-.
  - destruct (digit_val c) as [d|] eqn:D; [|discriminate]. apply digit_val_byte in D. destruct D as [_ [_ [_ D]]].
    assert (A' : 0 <= acc * 10 + d) by lia. exact (IH _ _ A' H).
Qed.

Lemma parse_signed_digits s v : s <> [] -> parse_digits 0 s = Some v -> parse_signed s = Some v.
Proof.
  intros NE P. destruct s as [|c r]; [contradiction|]. destruct (parse_digits_head _ _ _ _ P) as [N43 N45].
  unfold parse_signed. rewrite N43, N45. now rewrite P.
Qed.

Lemma epoch_fraction_wrong ip fp i f :
  ip <> [] -> fp <> [] -> parse_digits 0 ip = Some i -> parse_digits 0 fp = Some f ->
  in_int64 i = true -> in_int64 f = true ->
  let k := length fp in
  let n := Numeral (i * 10 ^ Z.of_nat k + f) k i in
  read_numeral (ip ++ dot :: fp) = Some n /\
  epoch_instant (ip ++ dot :: fp) = Some (i * 10 ^ 9 + f) /\
  (0 < f -> (k < 9)%nat -> same_instant n (i * 10 ^ 9 + f) = false).
Proof.
  intros NEi NEf Pi Pf Ri Rf k n.
  pose proof (parse_digits_no_dot ip 0 i Pi) as Ni. pose proof (parse_digits_no_dot fp 0 f Pf) as Nf.
  split; [|split].
  - unfold read_numeral. destruct ip as [|c r]; [contradiction|].
    destruct (parse_digits_head _ _ _ _ Pi) as [_ N45]. cbn [app]. rewrite N45.
    change (c :: r ++ dot :: fp) with ((c :: r) ++ dot :: fp). rewrite (split_dot_app _ _ Ni), Pi.
    destruct fp as [|f0 f']; [contradiction|]. now rewrite Pf.
  - apply epoch_fraction; try assumption.
    + unfold parse_int64. now rewrite (parse_signed_digits ip i NEi Pi), Ri.
    + unfold parse_int64. now rewrite (parse_signed_digits fp f NEf Pf), Rf.
  - intros Fpos K. unfold same_instant, n. cbn [scale num]. apply Z.ltb_ge.
    assert (P : 10 ^ Z.of_nat k * 10 <= 10 ^ 9).
    { replace (10 ^ Z.of_nat k * 10) with (10 ^ (Z.of_nat k + 1)) by (rewrite Z.pow_add_r; lia).
      apply Z.pow_le_mono_r; lia. }
    assert (Q : 0 < 10 ^ Z.of_nat k) by (apply Z.pow_pos_nonneg; lia).
    replace ((i * 10 ^ 9 + f) * 10 ^ Z.of_nat k - (i * 10 ^ Z.of_nat k + f) * 10 ^ 9)
      with (- (f * (10 ^ 9 - 10 ^ Z.of_nat k))) by ring.
    rewrite Z.abs_opp, Z.abs_eq by nia. nia.
Qed.
