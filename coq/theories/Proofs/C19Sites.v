(* C19: obligations over the regenerated call-site table Gen/SqlSites.v (re-checked whenever pkg/db/v1beta1 changes).
   Not imported by Corr/C19.v: the case files keep evaluating even if this file stops compiling. *)
From KV Require Import Base.Prelude Model.Sql Model.SqlExpr Proofs.SqlP Proofs.SqlExprP Gen.SqlSites.
Local Open Scope string_scope.

(* every database call site of pkg/db/v1beta1 assembles its SQL text without string data *)
Theorem sites_data_free : forallb site_ok sites = true.
Proof. vm_compute. reflexivity. Qed.

Theorem sites_text_independent_of_data :
  forall s, In s sites -> forall r d1 d2 self, eval d1 self r (s_expr s) = eval d2 self r (s_expr s).
Proof.
  intros s I. apply data_free_text_independent_of_data.
  exact (proj1 (forallb_forall site_ok sites) sites_data_free s I).
Qed.

(* the table is not empty and covers the three storage operations of both dialects *)
Definition has_site (pkg fn meth : string) : bool :=
  existsb (fun s => String.eqb (s_pkg s) pkg && String.eqb (s_func s) fn && String.eqb (s_method s) meth) sites.

Theorem sites_cover_operations :
  forallb (fun pkg => has_site pkg "RegisterObservationLog" "Prepare" && has_site pkg "GetObservationLog" "Query" &&
                      has_site pkg "DeleteObservationLog" "Exec") ["mysql"; "postgres"] = true.
Proof. vm_compute. reflexivity. Qed.

(* ------------------------------------------------------------------ cross-check of the translator against the model:
   the tree of each statement-building site, evaluated along the run that a request of a given shape takes through
   the Go function, yields exactly the text of the model (hence, by the correspondence, of the implementation). *)

Definition pkg_of (d : dialect) : string := match d with Mysql => "mysql" | Postgres => "postgres" end.

Definition site_text (d : dialect) (fn meth : string) (r : run) : option string :=
  match find (fun s => String.eqb (s_pkg s) (pkg_of d) && String.eqb (s_func s) fn && String.eqb (s_method s) meth) sites with
  | Some s => Some (eval (fun _ => "<data>") "" r (s_expr s))
  | None => None
  end.

(* RegisterObservationLog with k timestamped entries: assignment 0 (the head), k times assignment 1 (+= one group, with
   the four placeholder numbers), then assignment 2 (strip the last byte) *)
Fixpoint reg_steps (i k : nat) (before : run) : run :=
  match k with
  | 0 => before
  | S k' => reg_steps (i + 4) k'
              (RStep 1 (RCat RUnit (RInts [Z.of_nat i; Z.of_nat (i + 1); Z.of_nat (i + 2); Z.of_nat (i + 3)])) before)
  end.

Definition reg_run (d : dialect) (k : nat) : run :=
  RStep 2 (RSlice 0 (String.length (insert_head ++ groups d 1 k) - 1) RUnit) (reg_steps 1 k (RStep 0 RUnit RNil)).

(* GetObservationLog: base statement, then qstr := "" and one += per present filter with the running index *)
Definition get_run (d : dialect) (m s e : bool) : run :=
  let step (present : bool) (j : nat) (st : run * nat) :=
    if present then (RStep j (RCat RUnit (RInts [Z.of_nat (snd st)])) (fst st), snd st + 1) else st in
  let q := step e 3 (step s 2 (step m 1 (RStep 0 RUnit RNil, 2))) in
  RCat (RCat (match d with Mysql => RUnit | Postgres => RStep 0 (RInts [1%Z]) RNil end) (fst q)) RUnit.

Definition opt_str_eqb (a b : option string) : bool :=
  match a, b with Some x, Some y => String.eqb x y | _, _ => false end.

Definition bools := [true; false].

Theorem sites_match_model :
  forallb (fun d =>
    forallb (fun k => opt_str_eqb (site_text d "RegisterObservationLog" "Prepare" (reg_run d k)) (Some (insert_text d k)))
            [0; 1; 2; 3; 5; 12] &&
    forallb (fun m => forallb (fun s => forallb (fun e =>
               opt_str_eqb (site_text d "GetObservationLog" "Query" (get_run d m s e)) (Some (select_text d m s e)))
            bools) bools) bools &&
    opt_str_eqb (site_text d "DeleteObservationLog" "Exec" RUnit) (Some (delete_text d)))
  [Mysql; Postgres] = true.
Proof. vm_compute. reflexivity. Qed.
